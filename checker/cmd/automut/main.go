// automut generates first-order source mutants of the files the properties
// anchor (development aid: finds test-surviving edits the checker does not
// notice).  It only produces text; `sweep.py` compiles/tests/analyses them.
//
//	automut -repo /repo -props /verif/properties.jsonl > mutants.jsonl
package main

import (
	"bufio"
	"encoding/json"
	"flag"
	"fmt"
	"go/ast"
	"go/parser"
	"go/token"
	"os"
	"path/filepath"
	"sort"
	"strings"
)

type mutant struct {
	ID    string   `json:"id"`
	File  string   `json:"file"`
	Func  string   `json:"func"`
	Op    string   `json:"op"`
	Line  int      `json:"line"`
	Start int      `json:"start"`
	End   int      `json:"end"`
	Old   string   `json:"old"`
	New   string   `json:"new"`
	Props []string `json:"props"`
}

func main() {
	repo := flag.String("repo", "/repo", "")
	props := flag.String("props", "/verif/properties.jsonl", "")
	flag.Parse()
	fileProps := map[string][]string{}
	f, err := os.Open(*props)
	if err != nil {
		panic(err)
	}
	sc := bufio.NewScanner(f)
	sc.Buffer(make([]byte, 1<<20), 1<<24)
	for sc.Scan() {
		var p struct {
			ID      string `json:"id"`
			Anchors struct {
				Files []string `json:"files"`
			} `json:"anchors"`
		}
		if json.Unmarshal(sc.Bytes(), &p) != nil {
			continue
		}
		for _, fn := range p.Anchors.Files {
			if strings.HasSuffix(fn, ".go") {
				fileProps[fn] = append(fileProps[fn], p.ID)
			}
		}
	}
	var files []string
	for fn := range fileProps {
		files = append(files, fn)
	}
	sort.Strings(files)
	enc := json.NewEncoder(os.Stdout)
	for _, fn := range files {
		src, err := os.ReadFile(filepath.Join(*repo, fn))
		if err != nil {
			fmt.Fprintln(os.Stderr, "skip", fn, err)
			continue
		}
		for _, m := range mutate(fn, src) {
			m.Props = fileProps[fn]
			enc.Encode(m)
		}
	}
}

func mutate(fn string, src []byte) []mutant {
	fset := token.NewFileSet()
	file, err := parser.ParseFile(fset, fn, src, parser.ParseComments)
	if err != nil {
		fmt.Fprintln(os.Stderr, "parse", fn, err)
		return nil
	}
	off := func(p token.Pos) int { return fset.Position(p).Offset }
	var out []mutant
	n := 0
	add := func(fun, op string, s, e token.Pos, repl string) {
		a, b := off(s), off(e)
		if a < 0 || b > len(src) || a > b {
			return
		}
		n++
		out = append(out, mutant{
			ID:   fmt.Sprintf("%s:%d:%s:%d", filepath.Base(fn), fset.Position(s).Line, op, n),
			File: fn, Func: fun, Op: op, Line: fset.Position(s).Line, Start: a, End: b,
			Old: string(src[a:b]), New: repl,
		})
	}
	text := func(n ast.Node) string { return string(src[off(n.Pos()):off(n.End())]) }
	for _, d := range file.Decls {
		fd, ok := d.(*ast.FuncDecl)
		if !ok || fd.Body == nil {
			continue
		}
		name := fd.Name.Name
		if fd.Recv != nil && len(fd.Recv.List) > 0 {
			t := fd.Recv.List[0].Type
			if s, ok := t.(*ast.StarExpr); ok {
				t = s.X
			}
			if ix, ok := t.(*ast.IndexExpr); ok {
				t = ix.X
			}
			if id, ok := t.(*ast.Ident); ok {
				name = id.Name + "." + name
			}
		}
		if strings.HasPrefix(fd.Name.Name, "DeepCopy") {
			continue
		}
		// does the innermost function return an error last?
		var errLast func(ft *ast.FuncType) bool = func(ft *ast.FuncType) bool {
			if ft.Results == nil || len(ft.Results.List) == 0 {
				return false
			}
			l := ft.Results.List[len(ft.Results.List)-1]
			id, ok := l.Type.(*ast.Ident)
			return ok && id.Name == "error"
		}
		var walk func(n ast.Node, ft *ast.FuncType)
		walk = func(root ast.Node, ft *ast.FuncType) {
			ast.Inspect(root, func(nd ast.Node) bool {
				switch x := nd.(type) {
				case *ast.FuncLit:
					walk(x.Body, x.Type)
					return false
				case *ast.IfStmt:
					c := text(x.Cond)
					add(name, "cond-neg", x.Cond.Pos(), x.Cond.End(), "!("+c+")")
					add(name, "cond-false", x.Cond.Pos(), x.Cond.End(), "false && ("+c+")")
					add(name, "cond-true", x.Cond.Pos(), x.Cond.End(), "true || ("+c+")")
				case *ast.BinaryExpr:
					var r string
					switch x.Op {
					case token.LAND:
						r = "||"
					case token.LOR:
						r = "&&"
					case token.EQL:
						r = "!="
					case token.NEQ:
						r = "=="
					case token.LSS:
						r = "<="
					case token.LEQ:
						r = "<"
					case token.GTR:
						r = ">="
					case token.GEQ:
						r = ">"
					case token.ADD:
						if _, isStr := x.X.(*ast.BasicLit); !isStr {
							if _, isStr2 := x.Y.(*ast.BasicLit); !isStr2 {
								r = "-"
							}
						}
					case token.SUB:
						r = "+"
					}
					if r != "" {
						add(name, "binop", x.OpPos, x.OpPos+token.Pos(len(x.Op.String())), r)
					}
					if x.Op == token.LAND || x.Op == token.LOR {
						// drop one conjunct/disjunct
						add(name, "drop-left", x.Pos(), x.End(), text(x.Y))
						add(name, "drop-right", x.Pos(), x.End(), text(x.X))
					}
				case *ast.BranchStmt:
					if x.Label == nil {
						switch x.Tok {
						case token.CONTINUE:
							add(name, "continue-break", x.Pos(), x.End(), "break")
						case token.BREAK:
							add(name, "break-continue", x.Pos(), x.End(), "continue")
						}
					}
				case *ast.ExprStmt:
					if _, ok := x.X.(*ast.CallExpr); ok {
						t := text(x)
						if !strings.HasPrefix(t, "log.") && !strings.Contains(t, ".Debug(") && !strings.Contains(t, ".Info(") {
							add(name, "del-call", x.Pos(), x.End(), "")
						}
					}
				case *ast.AssignStmt:
					if x.Tok == token.ASSIGN {
						allBlank := true
						for _, l := range x.Lhs {
							if id, ok := l.(*ast.Ident); !ok || id.Name != "_" {
								allBlank = false
							}
						}
						if !allBlank {
							add(name, "del-assign", x.Pos(), x.End(), "")
						}
					}
				case *ast.DeferStmt:
					add(name, "del-defer", x.Pos(), x.End(), "")
				case *ast.ReturnStmt:
					if ft != nil && errLast(ft) && len(x.Results) > 0 {
						last := x.Results[len(x.Results)-1]
						if id, ok := last.(*ast.Ident); !ok || id.Name != "nil" {
							if len(x.Results) == len(ft.Results.List) || len(x.Results) > 1 || countResults(ft) == 1 {
								add(name, "err-nil", last.Pos(), last.End(), "nil")
							}
						}
					}
				case *ast.CaseClause:
					if len(x.Body) > 0 && len(x.List) > 0 {
						add(name, "del-case-body", x.Body[0].Pos(), x.Body[len(x.Body)-1].End(), "")
					}
				}
				return true
			})
		}
		walk(fd.Body, fd.Type)
	}
	return out
}

func countResults(ft *ast.FuncType) int {
	n := 0
	for _, f := range ft.Results.List {
		if len(f.Names) == 0 {
			n++
		} else {
			n += len(f.Names)
		}
	}
	return n
}
