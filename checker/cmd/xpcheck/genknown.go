package main

import (
	"fmt"
	"go/ast"
	"go/parser"
	"go/token"
	"os"
	"path/filepath"
	"sort"
	"strings"

	"xpcheck/internal/norm"
)

// runGenKnown prints "<module-relative package dir> <func key>" for every
// function declared in the non-test sources under apis/, internal/ and cmd/.
func runGenKnown(repo string) int {
	var out []string
	for _, root := range []string{"apis", "internal", "cmd"} {
		filepath.Walk(filepath.Join(repo, root), func(path string, fi os.FileInfo, err error) error {
			if err != nil || fi.IsDir() || !strings.HasSuffix(path, ".go") || strings.HasSuffix(path, "_test.go") {
				return nil
			}
			f, err := parser.ParseFile(token.NewFileSet(), path, nil, parser.SkipObjectResolution)
			if err != nil {
				return nil
			}
			rel, _ := filepath.Rel(repo, filepath.Dir(path))
			for _, d := range f.Decls {
				if fd, ok := d.(*ast.FuncDecl); ok {
					out = append(out, rel+" "+norm.FuncKey(fd)+"\t"+norm.ASTHash(fd))
				}
			}
			return nil
		})
	}
	sort.Strings(out)
	// one line per key, with every hash seen (build-tagged twins, several init functions)
	var keys []string
	hs := map[string][]string{}
	for _, l := range out {
		i := strings.Index(l, "\t")
		k, h := l[:i], l[i+1:]
		if _, ok := hs[k]; !ok {
			keys = append(keys, k)
		}
		dup := false
		for _, x := range hs[k] {
			if x == h {
				dup = true
			}
		}
		if !dup {
			hs[k] = append(hs[k], h)
		}
	}
	for _, k := range keys {
		fmt.Println(k + "\t" + strings.Join(hs[k], ","))
	}
	return 0
}
