package main

import (
	"fmt"
	"go/ast"
	"go/parser"
	"go/token"
	"os"
	"path/filepath"
	"sort"
	"strings"

	"xpcheck/internal/norm"
)

// runGenKnown prints "<module-relative package dir> <func key>" for every
// function declared in the non-test sources under apis/, internal/ and cmd/.
func runGenKnown(repo string) int {
	var out []string
	for _, root := range []string{"apis", "internal", "cmd"} {
		filepath.Walk(filepath.Join(repo, root), func(path string, fi os.FileInfo, err error) error {
			if err != nil || fi.IsDir() || !strings.HasSuffix(path, ".go") || strings.HasSuffix(path, "_test.go") {
				return nil
			}
			f, err := parser.ParseFile(token.NewFileSet(), path, nil, parser.SkipObjectResolution)
			if err != nil {
				return nil
			}
			rel, _ := filepath.Rel(repo, filepath.Dir(path))
			for _, d := range f.Decls {
				if fd, ok := d.(*ast.FuncDecl); ok {
					out = append(out, rel+" "+norm.FuncKey(fd)+"\t"+norm.ASTHash(fd)+"\t"+strings.Join(norm.LibCalls(f, fd), ","))
				}
			}
			return nil
		})
	}
	sort.Strings(out)
	// one line per key, with every hash seen (build-tagged twins, several init functions)
	var keys []string
	hs := map[string][]string{}
	libs := map[string]map[string]bool{}
	for _, l := range out {
		parts := strings.Split(l, "\t")
		k, h := parts[0], parts[1]
		if _, ok := hs[k]; !ok {
			keys = append(keys, k)
			libs[k] = map[string]bool{}
		}
		if len(parts) > 2 && parts[2] != "" {
			for _, x := range strings.Split(parts[2], ",") {
				libs[k][x] = true
			}
		}
		dup := false
		for _, x := range hs[k] {
			if x == h {
				dup = true
			}
		}
		if !dup {
			hs[k] = append(hs[k], h)
		}
	}
	for _, k := range keys {
		var ls []string
		for x := range libs[k] {
			ls = append(ls, x)
		}
		sort.Strings(ls)
		fmt.Println(k + "\t" + strings.Join(hs[k], ",") + "\t" + strings.Join(ls, ","))
	}
	return 0
}
