package main

import (
	"encoding/json"
	"fmt"
	"os"
	"sort"
	"strings"

	"golang.org/x/tools/go/ssa"

	"xpcheck/internal/cfgx"
	"xpcheck/internal/load"
)

// runSurvey lists, for the anchored files of all properties, the places where an
// error that was tested non-nil is followed by a nil error return (development
// aid for the error-discipline tables; not part of any verdict).
func runSurvey(repo, props string) int {
	files := map[string][]string{}
	b, err := os.ReadFile(props)
	if err != nil {
		fmt.Println(err)
		return 2
	}
	for _, l := range strings.Split(string(b), "\n") {
		if strings.TrimSpace(l) == "" {
			continue
		}
		var p struct {
			ID      string `json:"id"`
			Anchors struct {
				Files []string `json:"files"`
			} `json:"anchors"`
		}
		if json.Unmarshal([]byte(l), &p) == nil {
			for _, f := range p.Anchors.Files {
				files[f] = append(files[f], p.ID)
			}
		}
	}
	p, err := load.Load(load.Config{Dir: repo, Patterns: load.DefaultPatterns})
	if err != nil {
		fmt.Println(err)
		return 2
	}
	var out []string
	for _, fn := range p.RepoFunctions() {
		pos := p.Fset.Position(fn.Pos())
		rel := strings.TrimPrefix(pos.Filename, repo+"/")
		ids := files[rel]
		if ids == nil {
			continue
		}
		for _, c := range cfgx.Calls(fn, nil) {
			ev := cfgx.ErrEvents(c)
			if ev == nil || len(ev.Fail) == 0 {
				continue
			}
			for _, r := range cfgx.ErrorReturnsFrom(ev.Fail, nil) {
				if !r.Nil {
					continue
				}
				if okc, _ := cfgx.MustCross(r.At, ev.Fail, nil); !okc {
					continue
				}
				rp := p.Fset.Position(r.At.Pos())
				out = append(out, fmt.Sprintf("%s\t%s\t%s:%d\tcall %s\tfilters=%v preds=%v", strings.Join(ids, ","), load.FuncName(fn), rel, rp.Line, cfgx.ShortCallee(cfgx.CalleeName(c)), ev.Filtered, ev.Preds))
			}
		}
	}
	sort.Strings(out)
	for _, l := range out {
		fmt.Println(l)
	}
	fmt.Println(len(out), "sites")
	_ = ssa.Value(nil)
	return 0
}
