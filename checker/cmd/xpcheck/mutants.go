package main

import (
	"encoding/json"
	"fmt"
	"os"
	"os/exec"
	"path/filepath"
	"sort"
	"strings"
	"sync"
)

// mutant is one entry of /verif/selftest/mutants.json.
type mutant struct {
	ID       string `json:"id"`
	Property string `json:"property"`
	File     string `json:"file"`
	Old      string `json:"old"`
	New      string `json:"new"`
	Expect   string `json:"expect_rule"`
	Neutral  bool   `json:"neutral"`
	Count    int    `json:"count"`
	GitRef   string `json:"git_ref"`
	Patch    string `json:"patch"` // unified diff (path relative to /verif) applied to copies of the files it names
	Note     string `json:"note"`
}

type mutantResult struct {
	ID     string `json:"id"`
	Kind   string `json:"kind"` // breaking | neutral
	Expect string `json:"expect_rule,omitempty"`
	Status string `json:"status"` // killed | killed-other | survived | silent | false-alarm | skipped | nocompile
	Detail string `json:"detail,omitempty"`
}

// runMutants analyses every source variant registered for the property through
// a go/packages overlay (the tree is never touched) and reports whether the
// property's rules notice it. Pure static analysis of variant sources: it shows
// that today's discharged obligations are non-vacuous and that the rules stay
// silent on behaviour-preserving edits.
func runMutants(property, repo, mutFile, known string, par int) ([]mutantResult, map[string]int) {
	b, err := os.ReadFile(mutFile)
	if err != nil {
		return nil, map[string]int{"unavailable": 1}
	}
	var all []mutant
	if json.Unmarshal(b, &all) != nil {
		return nil, map[string]int{"unavailable": 1}
	}
	var ms []mutant
	for _, m := range all {
		if m.Property == property {
			ms = append(ms, m)
		}
	}
	self, _ := os.Executable()
	res := make([]mutantResult, len(ms))
	sem := make(chan struct{}, par)
	var wg sync.WaitGroup
	for i, m := range ms {
		wg.Add(1)
		go func(i int, m mutant) {
			defer wg.Done()
			sem <- struct{}{}
			defer func() { <-sem }()
			res[i] = runMutant(self, m, repo, known)
		}(i, m)
	}
	wg.Wait()
	sum := map[string]int{}
	for _, r := range res {
		sum[r.Status]++
	}
	sort.Slice(res, func(i, j int) bool { return res[i].ID < res[j].ID })
	return res, sum
}

func runMutant(self string, m mutant, repo, known string) mutantResult {
	r := mutantResult{ID: m.ID, Kind: "breaking", Expect: m.Expect}
	if m.Neutral {
		r.Kind = "neutral"
	}
	if m.Patch != "" {
		return runPatchMutant(self, m, r, repo, known)
	}
	src, err := os.ReadFile(filepath.Join(repo, m.File))
	if err != nil {
		r.Status, r.Detail = "skipped", "file missing"
		return r
	}
	var variant string
	if m.GitRef != "" {
		out, err := exec.Command("git", "-C", repo, "show", m.GitRef+":"+m.File).Output()
		if err != nil || string(out) == string(src) {
			r.Status, r.Detail = "skipped", "git_ref content unavailable or identical"
			return r
		}
		variant = string(out)
	} else {
		want := m.Count
		if want == 0 {
			want = 1
		}
		if n := strings.Count(string(src), m.Old); n != want {
			r.Status, r.Detail = "skipped", fmt.Sprintf("pattern matches %dx (want %d): the tree changed at this site", n, want)
			return r
		}
		variant = strings.ReplaceAll(string(src), m.Old, m.New)
	}
	td, err := os.MkdirTemp("", "xpmut")
	if err != nil {
		r.Status = "skipped"
		return r
	}
	defer os.RemoveAll(td)
	vf := filepath.Join(td, filepath.Base(m.File))
	_ = os.WriteFile(vf, []byte(variant), 0o644)
	return verdictOf(self, m, r, repo, known, td, m.File+"="+vf)
}

// verdictOf runs the property's quick check on the variant given as an overlay list.
func verdictOf(self string, m mutant, r mutantResult, repo, known, td, overlay string) mutantResult {
	cmd := exec.Command(self, "-property", m.Property, "-tier", "quick", "-repo", repo, "-evidence-dir", filepath.Join(td, "ev"), "-known", known, "-overlay", overlay)
	cmd.Env = append(os.Environ(), "GOFLAGS=-mod=mod", "GOPROXY=off", "GOSUMDB=off", "GOTOOLCHAIN=local", "GOWORK=off", "GOMAXPROCS=4")
	out, _ := cmd.CombinedOutput()
	var viol []string
	for _, l := range strings.Split(string(out), "\n") {
		if strings.HasPrefix(l, "VIOLATION") {
			viol = append(viol, l)
		}
	}
	for _, l := range viol {
		if strings.Contains(l, "cannot be loaded") {
			r.Status, r.Detail = "nocompile", "variant does not type-check"
			return r
		}
	}
	if m.Neutral {
		if len(viol) == 0 {
			r.Status = "silent"
		} else {
			r.Status, r.Detail = "false-alarm", cut(viol[0], 200)
		}
		return r
	}
	for _, l := range viol {
		if strings.Contains(l, "rule="+m.Expect+" ") {
			r.Status, r.Detail = "killed", cut(l[strings.Index(l, "rule="):], 200)
			return r
		}
	}
	if len(viol) > 0 {
		r.Status, r.Detail = "killed-other", cut(viol[0], 200)
		return r
	}
	r.Status = "survived"
	return r
}

// runPatchMutant builds the variant by applying a recorded unified diff (a seeded
// breaking change kept under /verif/seeded) to copies of the files it touches,
// outside /repo, and analyses it through the overlay.
func runPatchMutant(self string, m mutant, r mutantResult, repo, known string) mutantResult {
	verif := filepath.Dir(checkerDirFlag) // /verif: patches are recorded relative to it
	if verif == "" || verif == "." {
		verif = filepath.Dir(filepath.Dir(self))
	}
	pf := m.Patch
	if !filepath.IsAbs(pf) {
		pf = filepath.Join(verif, pf)
	}
	diff, err := os.ReadFile(pf)
	if err != nil {
		r.Status, r.Detail = "skipped", "patch file missing"
		return r
	}
	var files []string
	for _, l := range strings.Split(string(diff), "\n") {
		if strings.HasPrefix(l, "+++ b/") {
			files = append(files, strings.TrimSpace(strings.TrimPrefix(l, "+++ b/")))
		}
	}
	td, err := os.MkdirTemp("", "xpmut")
	if err != nil || len(files) == 0 {
		r.Status = "skipped"
		return r
	}
	defer os.RemoveAll(td)
	var ov []string
	for _, f := range files {
		dst := filepath.Join(td, "src", f)
		_ = os.MkdirAll(filepath.Dir(dst), 0o755)
		// a file the patch creates does not exist yet: patch(1) writes it
		if src, err := os.ReadFile(filepath.Join(repo, f)); err == nil {
			_ = os.WriteFile(dst, src, 0o644)
		}
		ov = append(ov, f+"="+dst)
	}
	ap := exec.Command("patch", "-p1", "-s", "--no-backup-if-mismatch", "-d", filepath.Join(td, "src"), "-i", pf)
	if out, err := ap.CombinedOutput(); err != nil {
		r.Status, r.Detail = "skipped", "patch does not apply on this tree: "+cut(string(out), 120)
		return r
	}
	return verdictOf(self, m, r, repo, known, td, strings.Join(ov, ","))
}

func cut(s string, n int) string {
	if len(s) > n {
		return s[:n]
	}
	return s
}
