// xpcheck decides structural clauses of the crossplane properties by static
// analysis of /repo's current working tree.
package main

import (
	"flag"
	"fmt"
	"os"
	"path/filepath"
	"runtime/debug"
	"strconv"
	"strings"
	"time"

	"xpcheck/internal/load"
	"xpcheck/internal/report"
	"xpcheck/internal/selfcheck"
	"xpcheck/rules"
)

func main() {
	prop := flag.String("property", "", "property id (C01..C20), comma list, or 'all'")
	tier := flag.String("tier", "quick", "quick|thorough")
	repo := flag.String("repo", "/repo", "repository working tree")
	evdir := flag.String("evidence-dir", "/verif/evidence", "evidence directory")
	known := flag.String("known", "/verif/known_findings.json", "known findings file")
	overlay := flag.String("overlay", "", "comma list of <repo-relative file>=<replacement file> (analysis of a variant without touching the tree)")
	self := flag.Bool("selfcheck", false, "run the positive controls of the engine and exit")
	checkerDir := flag.String("checker-dir", "/verif/checker", "checker module directory (positive controls, mutants)")
	genKnown := flag.Bool("gen-known", false, "print the function keys of the tree (reference list for the normaliser) and exit")
	dumpNorm := flag.String("dump-norm", "", "write the normalised sources to this directory and exit")
	survey := flag.Bool("survey-errors", false, "development aid: list nil returns under a failed error test in the anchored files and exit")
	flag.Parse()
	start := time.Now()
	if *survey {
		os.Exit(runSurvey(*repo, "/verif/properties.jsonl"))
	}
	if *genKnown {
		os.Exit(runGenKnown(*repo))
	}
	if *self {
		os.Exit(runSelfcheck(*checkerDir))
	}
	checkerDirFlag, knownFlag = *checkerDir, *known
	mutantsFileFlag = filepath.Join(filepath.Dir(*checkerDir), "selftest", "mutants.json")
	if t := os.Getenv("VERIF_TIER"); t != "" && *tier == "" {
		*tier = t
	}
	seed := int64(0)
	if s := os.Getenv("VERIF_SEED"); s != "" {
		if n, err := strconv.ParseInt(s, 10, 64); err == nil {
			seed = n
		}
	}
	var ids []string
	if *prop == "all" {
		ids = rules.IDs()
	} else {
		ids = strings.Split(*prop, ",")
	}
	for _, id := range ids {
		if rules.Registry[id] == nil {
			fmt.Printf("VIOLATION property=%s replay=none reason=undecided: no such property registered\n", id)
			os.Exit(1)
		}
	}
	kf, err := report.LoadKnown(*known)
	if err != nil {
		fmt.Printf("VIOLATION property=%s replay=%s reason=undecided: cannot read known findings: %v\n", ids[0], *known, err)
		os.Exit(1)
	}
	pats := load.DefaultPatterns
	if *tier == "thorough" {
		pats = load.ThoroughPatterns
	}
	ov := map[string][]byte{}
	if *overlay != "" {
		for _, kv := range strings.Split(*overlay, ",") {
			i := strings.Index(kv, "=")
			if i < 0 {
				fmt.Println("bad -overlay")
				os.Exit(2)
			}
			b, err := os.ReadFile(kv[i+1:])
			if err != nil {
				fmt.Println("bad -overlay:", err)
				os.Exit(2)
			}
			ov[filepath.Join(*repo, kv[:i])] = b
		}
	}
	p, err := load.Load(load.Config{Dir: *repo, Patterns: pats, Overlay: ov})
	if err != nil {
		for _, id := range ids {
			fmt.Printf("VIOLATION property=%s replay=%s reason=undecided: the tree cannot be loaded/type-checked: %v\n", id, filepath.Join(*evdir, id+".json"), err)
		}
		os.Exit(1)
	}
	for _, n := range p.NormNotes {
		fmt.Println("NORMALISE:", n)
	}
	if *dumpNorm != "" {
		for f, b := range p.NormOverlay {
			dst := filepath.Join(*dumpNorm, strings.TrimPrefix(f, *repo))
			os.MkdirAll(filepath.Dir(dst), 0o755)
			os.WriteFile(dst, b, 0o644)
		}
		os.Exit(0)
	}
	exit := 0
	for _, id := range ids {
		exit |= runOne(p, id, *tier, seed, *evdir, kf, start)
	}
	os.Exit(exit)
}

func runOne(p *load.Program, id, tier string, seed int64, evdir string, kf []report.KnownFinding, start time.Time) (code int) {
	pr := rules.Registry[id]
	r := report.New(id, tier, seed)
	r.Start = start
	r.Explanation = pr.Explanation
	r.NotDecided = pr.NotDecided
	r.Assumptions = pr.Assumptions
	r.Packages = p.RootCount()
	r.SSAFuncs = len(p.AllFunctions())
	ev := filepath.Join(evdir, id+".json")
	defer func() {
		if e := recover(); e != nil {
			fmt.Printf("VIOLATION property=%s replay=%s reason=undecided: checker panic: %v\n%s\n", id, ev, e, debug.Stack())
			code = 1
		}
	}()
	ctx := &rules.Ctx{P: p, R: r, Tier: tier}
	pr.Run(ctx)
	rules.ErrorDiscipline(ctx, "R"+strings.TrimLeft(id[1:], "0")+".0", rules.ErrFloor(id))
	if tier == "thorough" && len(p.Overlay) == 0 {
		thorough(p, r, id)
	}
	return r.Finish(ev, kf)
}

// thorough adds the engine's positive controls and the variant (mutation)
// matrix of the property to the report.
func thorough(p *load.Program, r *report.Report, id string) {
	r.Rule("T.controls", "positive controls: every rule family fires on its tiny violating program and stays silent on the conforming one", 10, "a control that does not fire means the checker itself is broken")
	rs, err := selfcheck.Run(checkerDirFlag)
	if err != nil {
		r.Unknown("positive controls", "", "cannot run: "+err.Error())
	}
	for _, c := range rs {
		r.Check(c.OK, "control: "+c.Name, "checker/testdata/positive/controls.go", c.Detail, "the engine no longer behaves as the control expects: "+c.Detail)
	}
	res, sum := runMutants(id, p.Dir, mutantsFileFlag, knownFlag, 6)
	r.Extra["variant_matrix"] = map[string]any{
		"what":    "source variants of /repo analysed through a go/packages overlay (the tree is not modified): breaking variants must be reported by the named rule, behaviour-preserving (neutral) variants must stay silent; skipped = the site changed on this tree",
		"summary": sum,
		"results": res,
	}
	fmt.Printf("%s thorough: variants %v\n", id, sum)
	for _, m := range res {
		if m.Status == "survived" || m.Status == "false-alarm" {
			fmt.Printf("SELFTEST-NOTE property=%s variant=%s status=%s (recorded in evidence; not a verdict about the tree)\n", id, m.ID, m.Status)
		}
	}
}

var checkerDirFlag, mutantsFileFlag, knownFlag string
