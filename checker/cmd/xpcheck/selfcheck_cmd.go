package main

import (
	"fmt"

	"xpcheck/internal/selfcheck"
)

// runSelfcheck prints the positive controls (used by `xpcheck -selfcheck`).
func runSelfcheck(dir string) int {
	rs, err := selfcheck.Run(dir)
	if err != nil {
		fmt.Println("selfcheck cannot run:", err)
		return 1
	}
	bad := 0
	for _, r := range rs {
		st := "ok  "
		if !r.OK {
			st = "FAIL"
			bad++
		}
		fmt.Printf("%s %-40s %s\n", st, r.Name, r.Detail)
	}
	if bad > 0 {
		return 1
	}
	return 0
}
