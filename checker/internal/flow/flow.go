// Package flow answers "where can this SSA value come from?" by walking
// operands backwards. It never evaluates values.
package flow

import (
	"go/token"
	"go/types"
	"strings"

	"golang.org/x/tools/go/ssa"

	"xpcheck/internal/cfgx"
)

// Opts tunes the backward walk.
type Opts struct {
	// ThroughCall decides whether the result of a call may derive from its
	// arguments/receiver. nil = never (the call is a leaf).
	ThroughCall func(c ssa.CallInstruction) bool
	// IntoCallee: for static in-repo callees, also walk from the callee's
	// returned values, mapping parameters back to arguments (depth-limited).
	IntoCallee func(f *ssa.Function) bool
	MaxDepth   int
	// NoLoads: do not resolve loads to stores (treat load as deriving from its address only).
	NoLoads bool
}

// AllCalls lets every call pass provenance from its operands.
func AllCalls(ssa.CallInstruction) bool { return true }

// Walker performs backward slices.
type Walker struct {
	Opts Opts
}

type frame struct {
	call  ssa.CallInstruction // call site we descended through (for param mapping)
	up    *frame
	depth int
}

// Back returns the set of values v may derive from (including v).
func (w *Walker) Back(v ssa.Value) map[ssa.Value]bool {
	seen := map[ssa.Value]bool{}
	w.back(v, seen, nil)
	return seen
}

// Any reports whether some value in v's backward slice satisfies pred.
func (w *Walker) Any(v ssa.Value, pred func(ssa.Value) bool) bool {
	for x := range w.Back(v) {
		if pred(x) {
			return true
		}
	}
	return false
}

// AnyCall reports whether v may derive from a call whose callee name is in names.
func (w *Walker) AnyCall(v ssa.Value, names ...string) bool {
	set := map[string]bool{}
	for _, n := range names {
		set[n] = true
	}
	return w.Any(v, func(x ssa.Value) bool {
		c, ok := x.(ssa.CallInstruction)
		return ok && set[cfgx.CalleeName(c)]
	})
}

// CallsIn returns the calls in v's backward slice.
func (w *Walker) CallsIn(v ssa.Value) []ssa.CallInstruction {
	var out []ssa.CallInstruction
	for x := range w.Back(v) {
		if c, ok := x.(ssa.CallInstruction); ok {
			out = append(out, c)
		}
	}
	return out
}

func (w *Walker) back(v ssa.Value, seen map[ssa.Value]bool, fr *frame) {
	if v == nil || seen[v] {
		return
	}
	seen[v] = true
	switch v := v.(type) {
	case *ssa.Phi:
		for _, e := range v.Edges {
			w.back(e, seen, fr)
		}
	case *ssa.Extract:
		w.back(v.Tuple, seen, fr)
	case *ssa.Field:
		w.back(v.X, seen, fr)
	case *ssa.FieldAddr:
		w.back(v.X, seen, fr)
	case *ssa.Index:
		w.back(v.X, seen, fr)
	case *ssa.IndexAddr:
		w.back(v.X, seen, fr)
	case *ssa.Lookup:
		w.back(v.X, seen, fr)
		w.mapStores(v.X, seen, fr)
	case *ssa.Slice:
		w.back(v.X, seen, fr)
	case *ssa.ChangeType:
		w.back(v.X, seen, fr)
	case *ssa.Convert:
		w.back(v.X, seen, fr)
	case *ssa.ChangeInterface:
		w.back(v.X, seen, fr)
	case *ssa.MakeInterface:
		w.back(v.X, seen, fr)
	case *ssa.SliceToArrayPointer:
		w.back(v.X, seen, fr)
	case *ssa.TypeAssert:
		w.back(v.X, seen, fr)
	case *ssa.BinOp:
		w.back(v.X, seen, fr)
		w.back(v.Y, seen, fr)
	case *ssa.Next:
		w.back(v.Iter, seen, fr)
	case *ssa.Range:
		w.back(v.X, seen, fr)
		w.mapStores(v.X, seen, fr)
	case *ssa.UnOp:
		if v.Op == token.MUL && !w.Opts.NoLoads {
			w.load(v.X, seen, fr)
		}
		w.back(v.X, seen, fr)
	case *ssa.MakeClosure:
		for _, b := range v.Bindings {
			w.back(b, seen, fr)
		}
	case *ssa.FreeVar:
		// map to the binding at the MakeClosure site(s) in the parent
		fn := v.Parent()
		idx := -1
		for i, fv := range fn.FreeVars {
			if fv == v {
				idx = i
			}
		}
		if p := fn.Parent(); p != nil && idx >= 0 {
			for _, b := range p.Blocks {
				for _, in := range b.Instrs {
					if mc, ok := in.(*ssa.MakeClosure); ok && mc.Fn == fn && idx < len(mc.Bindings) {
						w.back(mc.Bindings[idx], seen, fr)
					}
				}
			}
		}
	case *ssa.Parameter:
		// map back to the argument when we descended through a call
		if fr != nil && fr.call != nil {
			callee := fr.call.Common().StaticCallee()
			if callee == v.Parent() {
				for i, p := range callee.Params {
					if p == v && i < len(fr.call.Common().Args) {
						w.back(fr.call.Common().Args[i], seen, fr.up)
					}
				}
			}
		}
	case *ssa.Call:
		w.call(v, seen, fr)
	case *ssa.Alloc:
		// value of the address itself: the stores made to it
		if !w.Opts.NoLoads {
			w.load(v, seen, fr)
		}
	case *ssa.MakeMap, *ssa.MakeSlice, *ssa.MakeChan:
		w.mapStores(v, seen, fr)
	}
}

// IsCopy reports whether the call returns a copy of its single operand
// (bytes.Clone(b), slices.Clone(s), maps.Clone(m), strings.Clone(s),
// x.DeepCopy(), x.DeepCopyObject()): the result's content is the operand's.
func IsCopy(c ssa.CallInstruction) bool {
	cc := c.Common()
	name := cfgx.CalleeName(c)
	if i := strings.Index(name, "["); i > 0 {
		name = name[:i] // generic instantiation
	}
	switch name {
	case "bytes.Clone", "slices.Clone", "maps.Clone", "strings.Clone":
		return len(cc.Args) == 1
	}
	// append([]T(nil), xs...): the copy idiom
	if b, ok := cc.Value.(*ssa.Builtin); ok && b.Name() == "append" && len(cc.Args) == 2 {
		if k, isC := cc.Args[0].(*ssa.Const); isC && k.Value == nil {
			return true
		}
	}
	if strings.HasSuffix(name, ").DeepCopy") || strings.HasSuffix(name, ").DeepCopyObject") {
		return (cc.IsInvoke() && len(cc.Args) == 0) || (!cc.IsInvoke() && len(cc.Args) == 1)
	}
	return false
}

func (w *Walker) call(c *ssa.Call, seen map[ssa.Value]bool, fr *frame) {
	if IsCopy(c) && !(w.Opts.ThroughCall != nil && w.Opts.ThroughCall(c)) {
		for _, a := range c.Call.Args {
			w.back(a, seen, fr)
		}
		if c.Call.IsInvoke() {
			w.back(c.Call.Value, seen, fr)
		}
	}
	if w.Opts.ThroughCall != nil && w.Opts.ThroughCall(c) {
		for _, a := range c.Call.Args {
			w.back(a, seen, fr)
		}
		if c.Call.IsInvoke() {
			w.back(c.Call.Value, seen, fr)
		} else if _, ok := c.Call.Value.(*ssa.Function); !ok {
			w.back(c.Call.Value, seen, fr)
		}
	}
	if w.Opts.IntoCallee != nil {
		if f := c.Call.StaticCallee(); f != nil && f.Blocks != nil && w.Opts.IntoCallee(f) {
			d := 0
			if fr != nil {
				d = fr.depth
			}
			max := w.Opts.MaxDepth
			if max == 0 {
				max = 3
			}
			if d < max {
				nf := &frame{call: c, up: fr, depth: d + 1}
				for _, b := range f.Blocks {
					for _, in := range b.Instrs {
						if r, ok := in.(*ssa.Return); ok {
							for _, res := range r.Results {
								w.back(res, seen, nf)
							}
						}
					}
				}
			}
		}
	}
}

// root follows an address/aggregate to its base object (alloc, param, call...).
func root(v ssa.Value) ssa.Value {
	for i := 0; i < 50; i++ {
		switch x := v.(type) {
		case *ssa.FieldAddr:
			v = x.X
		case *ssa.IndexAddr:
			v = x.X
		case *ssa.Field:
			v = x.X
		case *ssa.Index:
			v = x.X
		case *ssa.Slice:
			v = x.X
		case *ssa.ChangeType:
			v = x.X
		case *ssa.UnOp:
			if x.Op == token.MUL {
				if a, ok := x.X.(*ssa.Alloc); ok {
					if p := paramSpill(a); p != nil {
						return p // a parameter kept in memory because a closure (a deferred log line, …) captures it
					}
				}
				v = x.X
			} else {
				return v
			}
		case *ssa.Phi:
			// a result temporary of an inlined helper: the value, or nil on the
			// error paths
			var only ssa.Value
			n := 0
			for _, e := range x.Edges {
				if c, isC := e.(*ssa.Const); isC && c.Value == nil {
					continue
				}
				if e != only {
					only = e
					n++
				}
			}
			if n != 1 || only == v {
				return v
			}
			v = only
		default:
			return v
		}
	}
	return v
}

// paramSpill: a is the cell of a parameter that is never assigned again —
// its one store is the parameter itself, in the function or in any closure
// that captures the cell.
func paramSpill(a *ssa.Alloc) *ssa.Parameter {
	if a.Referrers() == nil {
		return nil
	}
	var param *ssa.Parameter
	var written func(refs []ssa.Instruction, cell ssa.Value, depth int) bool
	written = func(refs []ssa.Instruction, cell ssa.Value, depth int) bool {
		for _, r := range refs {
			switch x := r.(type) {
			case *ssa.Store:
				if x.Addr != cell {
					return true // the cell's address is stored somewhere
				}
				if p, ok := x.Val.(*ssa.Parameter); ok && cell == ssa.Value(a) && param == nil {
					param = p
					continue
				}
				return true
			case *ssa.UnOp:
				if x.Op != token.MUL {
					return true
				}
			case *ssa.MakeClosure:
				if depth > 3 {
					return true
				}
				fn, _ := x.Fn.(*ssa.Function)
				if fn == nil {
					return true
				}
				for i, b := range x.Bindings {
					if b == cell && i < len(fn.FreeVars) {
						fv := fn.FreeVars[i]
						if fv.Referrers() != nil && written(*fv.Referrers(), fv, depth+1) {
							return true
						}
					}
				}
			case *ssa.DebugRef:
			default:
				return true // address passed on
			}
		}
		return false
	}
	if written(*a.Referrers(), a, 0) {
		return nil
	}
	return param
}

// Root is exported for rules.
func Root(v ssa.Value) ssa.Value { return root(v) }

// load resolves a load through addr to the stores that may have written it
// (flow-insensitively, within the function of addr).
func (w *Walker) load(addr ssa.Value, seen map[ssa.Value]bool, fr *frame) {
	switch a := addr.(type) {
	case *ssa.Alloc:
		if a.Referrers() == nil {
			return
		}
		for _, r := range *a.Referrers() {
			if st, ok := r.(*ssa.Store); ok && st.Addr == a {
				w.back(st.Val, seen, fr)
			}
		}
		// stores through field/index addresses of this alloc also define (part of) it
		w.partStores(a, seen, fr)
	case *ssa.FieldAddr:
		fn := a.Parent()
		rt := root(a)
		for _, b := range fn.Blocks {
			for _, in := range b.Instrs {
				st, ok := in.(*ssa.Store)
				if !ok {
					continue
				}
				if fa, ok := st.Addr.(*ssa.FieldAddr); ok && fa.Field == a.Field && sameRoot(root(fa), rt) && types.Identical(fa.X.Type(), a.X.Type()) {
					w.back(st.Val, seen, fr)
				}
			}
		}
	case *ssa.IndexAddr:
		fn := a.Parent()
		rt := root(a)
		for _, b := range fn.Blocks {
			for _, in := range b.Instrs {
				st, ok := in.(*ssa.Store)
				if !ok {
					continue
				}
				if ia, ok := st.Addr.(*ssa.IndexAddr); ok && sameRoot(root(ia), rt) {
					w.back(st.Val, seen, fr)
				}
			}
		}
	case *ssa.FreeVar:
		// captured variable: stores in the closure and in the parent
		w.back(a, seen, fr)
		fn := a.Parent()
		for _, b := range fn.Blocks {
			for _, in := range b.Instrs {
				if st, ok := in.(*ssa.Store); ok && st.Addr == a {
					w.back(st.Val, seen, fr)
				}
			}
		}
	}
}

func sameRoot(a, b ssa.Value) bool {
	if a == b {
		return true
	}
	// two loads of the same alloc
	la, ok1 := a.(*ssa.UnOp)
	lb, ok2 := b.(*ssa.UnOp)
	if ok1 && ok2 && la.Op == token.MUL && lb.Op == token.MUL {
		return sameRoot(root(la.X), root(lb.X)) && types.Identical(la.Type(), lb.Type())
	}
	return false
}

func (w *Walker) partStores(a *ssa.Alloc, seen map[ssa.Value]bool, fr *frame) {
	fn := a.Parent()
	for _, b := range fn.Blocks {
		for _, in := range b.Instrs {
			st, ok := in.(*ssa.Store)
			if !ok || st.Addr == a {
				continue
			}
			switch st.Addr.(type) {
			case *ssa.FieldAddr, *ssa.IndexAddr:
				if root(st.Addr) == a {
					w.back(st.Val, seen, fr)
				}
			}
		}
	}
}

// mapStores: values put into a map/slice value m by MapUpdate / append / element stores.
func (w *Walker) mapStores(m ssa.Value, seen map[ssa.Value]bool, fr *frame) {
	fn := parentOf(m)
	if fn == nil {
		return
	}
	rm := root(m)
	for _, b := range fn.Blocks {
		for _, in := range b.Instrs {
			if mu, ok := in.(*ssa.MapUpdate); ok {
				if mu.Map == m || sameRoot(root(mu.Map), rm) {
					w.back(mu.Value, seen, fr)
					w.back(mu.Key, seen, fr)
				}
			}
		}
	}
}

func parentOf(v ssa.Value) *ssa.Function {
	if in, ok := v.(ssa.Instruction); ok {
		return in.Parent()
	}
	switch x := v.(type) {
	case *ssa.Parameter:
		return x.Parent()
	case *ssa.FreeVar:
		return x.Parent()
	}
	return nil
}

// IsCallTo reports whether v is a call to one of names.
func IsCallTo(v ssa.Value, names ...string) bool {
	c, ok := v.(ssa.CallInstruction)
	if !ok {
		return false
	}
	n := cfgx.CalleeName(c)
	for _, x := range names {
		if n == x {
			return true
		}
	}
	return false
}

// Default is a walker that lets provenance flow through every call's operands.
var Default = &Walker{Opts: Opts{ThroughCall: AllCalls}}

// Strict is a walker that treats calls as leaves.
var Strict = &Walker{}

// AccessPath renders the field access path a value is loaded from, e.g. the
// load `d.Spec.ClaimNames.Plural` gives (d, "Spec.ClaimNames.Plural"). Index
// steps are rendered as "[]". ok is false when v is not a pure path.
func AccessPath(v ssa.Value) (rootv ssa.Value, path string, ok bool) {
	var parts []string
	for i := 0; i < 64; i++ {
		switch x := v.(type) {
		case *ssa.UnOp:
			if x.Op != token.MUL {
				return v, join(parts), len(parts) > 0
			}
			v = x.X
		case *ssa.FieldAddr:
			st := x.X.Type().Underlying().(*types.Pointer).Elem().Underlying().(*types.Struct)
			parts = append(parts, st.Field(x.Field).Name())
			v = x.X
		case *ssa.Field:
			st := x.X.Type().Underlying().(*types.Struct)
			parts = append(parts, st.Field(x.Field).Name())
			v = x.X
		case *ssa.IndexAddr:
			parts = append(parts, "[]")
			v = x.X
		case *ssa.Index:
			parts = append(parts, "[]")
			v = x.X
		default:
			return v, join(parts), len(parts) > 0
		}
	}
	return v, join(parts), false
}

// AccessPathC is AccessPath that looks through copies (x.DeepCopy().F is x.F,
// bytes.Clone(x.F) is x.F) and interface conversions.
func AccessPathC(v ssa.Value) (rootv ssa.Value, path string, ok bool) {
	var acc []string
	for i := 0; i < 16; i++ {
		r, p, _ := AccessPath(v)
		if p != "" {
			acc = append([]string{p}, acc...)
		}
		switch x := r.(type) {
		case *ssa.Alloc:
			// a local that only ever holds a copy of another variable
			// (`step := fn`, a by-value parameter of an inlined helper)
			if src := soleStore(x); src != nil {
				v = src
				continue
			}
		case *ssa.Call:
			if IsCopy(x) {
				if x.Call.IsInvoke() {
					v = x.Call.Value
				} else {
					v = x.Call.Args[0]
				}
				continue
			}
		case *ssa.MakeInterface:
			v = x.X
			continue
		case *ssa.ChangeInterface:
			v = x.X
			continue
		}
		return r, strings.Join(acc, "."), len(acc) > 0
	}
	return v, strings.Join(acc, "."), false
}

// soleStore: the value stored by the only whole-variable store to a, if any.
func soleStore(a *ssa.Alloc) ssa.Value {
	if a.Referrers() == nil {
		return nil
	}
	var val ssa.Value
	n := 0
	for _, r := range *a.Referrers() {
		if st, ok := r.(*ssa.Store); ok && st.Addr == a {
			n++
			val = st.Val
		}
	}
	if n != 1 {
		return nil
	}
	if _, isConst := val.(*ssa.Const); isConst {
		return nil
	}
	return val
}

func join(rev []string) string {
	s := ""
	for i := len(rev) - 1; i >= 0; i-- {
		if s != "" && rev[i] != "[]" {
			s += "."
		}
		s += rev[i]
	}
	return s
}
