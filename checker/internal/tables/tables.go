// Package tables extracts constant tables from the type-checked syntax:
// string elements of composite literals, keys of map literals, the constants
// of a named type, struct tags.
package tables

import (
	"go/ast"
	"go/constant"
	"go/token"
	"go/types"
	"sort"

	"golang.org/x/tools/go/packages"
)

// FindVarInit returns the initializer expression of package-level var name.
func FindVarInit(p *packages.Package, name string) ast.Expr {
	for _, f := range p.Syntax {
		for _, d := range f.Decls {
			gd, ok := d.(*ast.GenDecl)
			if !ok || gd.Tok != token.VAR {
				continue
			}
			for _, s := range gd.Specs {
				vs := s.(*ast.ValueSpec)
				for i, n := range vs.Names {
					if n.Name == name && i < len(vs.Values) {
						return vs.Values[i]
					}
				}
			}
		}
	}
	return nil
}

// FindFunc returns the declaration of function or method (recv may be "").
func FindFunc(p *packages.Package, recv, name string) *ast.FuncDecl {
	for _, f := range p.Syntax {
		for _, d := range f.Decls {
			fd, ok := d.(*ast.FuncDecl)
			if !ok || fd.Name.Name != name {
				continue
			}
			if recv == "" && fd.Recv == nil {
				return fd
			}
			if recv != "" && fd.Recv != nil && len(fd.Recv.List) == 1 {
				t := fd.Recv.List[0].Type
				if st, ok := t.(*ast.StarExpr); ok {
					t = st.X
				}
				if id, ok := t.(*ast.Ident); ok && id.Name == recv {
					return fd
				}
			}
		}
	}
	return nil
}

// StringOf evaluates a constant string expression.
func StringOf(p *packages.Package, e ast.Expr) (string, bool) {
	tv, ok := p.TypesInfo.Types[e]
	if !ok || tv.Value == nil || tv.Value.Kind() != constant.String {
		return "", false
	}
	return constant.StringVal(tv.Value), true
}

// Resolver finds the package that declares an object (for following
// identifiers to package-level var initializers across packages).
type Resolver func(pkgPath string) *packages.Package

// Strings flattens an expression into the constant strings it contains:
// constants, []string / [...]string composite literals, identifiers of
// package-level vars with such initializers, append(a, b...) of those.
// complete is false if some element could not be resolved.
func Strings(p *packages.Package, e ast.Expr, res Resolver) (out []string, complete bool) {
	complete = true
	var walk func(p *packages.Package, e ast.Expr)
	walk = func(p *packages.Package, e ast.Expr) {
		e = ast.Unparen(e)
		if s, ok := StringOf(p, e); ok {
			out = append(out, s)
			return
		}
		switch x := e.(type) {
		case *ast.CompositeLit:
			for _, el := range x.Elts {
				if kv, ok := el.(*ast.KeyValueExpr); ok {
					el = kv.Value
				}
				walk(p, el)
			}
		case *ast.Ident, *ast.SelectorExpr:
			var id *ast.Ident
			if s, ok := x.(*ast.SelectorExpr); ok {
				id = s.Sel
			} else {
				id = x.(*ast.Ident)
			}
			obj := p.TypesInfo.Uses[id]
			v, ok := obj.(*types.Var)
			if !ok || v.Pkg() == nil || v.Parent() != v.Pkg().Scope() {
				complete = false
				return
			}
			dp := p
			if v.Pkg().Path() != p.PkgPath {
				if res == nil {
					complete = false
					return
				}
				dp = res(v.Pkg().Path())
			}
			if dp == nil {
				complete = false
				return
			}
			init := FindVarInit(dp, v.Name())
			if init == nil {
				complete = false
				return
			}
			walk(dp, init)
		case *ast.CallExpr:
			if id, ok := x.Fun.(*ast.Ident); ok && id.Name == "append" {
				for _, a := range x.Args {
					walk(p, a)
				}
				return
			}
			complete = false
		default:
			complete = false
		}
	}
	walk(p, e)
	return out, complete
}

// MapKeys returns the constant string keys of the map composite literals
// returned by function fd (every `return map[...]...{...}` statement).
func MapKeys(p *packages.Package, fd *ast.FuncDecl) (keys []string, ok bool) {
	if fd == nil || fd.Body == nil {
		return nil, false
	}
	found := false
	ast.Inspect(fd.Body, func(n ast.Node) bool {
		if _, isLit := n.(*ast.FuncLit); isLit {
			return false
		}
		r, isRet := n.(*ast.ReturnStmt)
		if !isRet || len(r.Results) == 0 {
			return true
		}
		cl, isCL := ast.Unparen(r.Results[0]).(*ast.CompositeLit)
		if !isCL {
			return true
		}
		if _, isMap := p.TypesInfo.TypeOf(cl).Underlying().(*types.Map); !isMap {
			return true
		}
		found = true
		for _, el := range cl.Elts {
			kv, isKV := el.(*ast.KeyValueExpr)
			if !isKV {
				continue
			}
			if s, isStr := StringOf(p, kv.Key); isStr {
				keys = append(keys, s)
			}
		}
		return true
	})
	sort.Strings(keys)
	return keys, found
}

// ConstsOfType lists the package-level constants whose type is the named type.
func ConstsOfType(pkg *types.Package, named *types.Named) []*types.Const {
	var out []*types.Const
	sc := pkg.Scope()
	for _, n := range sc.Names() {
		if c, ok := sc.Lookup(n).(*types.Const); ok && types.Identical(c.Type(), named) {
			out = append(out, c)
		}
	}
	return out
}

// Set builds a set.
func Set(xs []string) map[string]bool {
	m := map[string]bool{}
	for _, x := range xs {
		m[x] = true
	}
	return m
}

// Minus returns a \ b sorted.
func Minus(a []string, b map[string]bool) []string {
	var out []string
	for _, x := range a {
		if !b[x] {
			out = append(out, x)
		}
	}
	sort.Strings(out)
	return out
}
