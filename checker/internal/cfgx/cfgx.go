// Package cfgx offers CFG-level queries over go/ssa functions: call discovery
// by type-resolved callee, success/failure edges of error-returning calls,
// branch edges of boolean conditions, and gate-crossing reachability
// ("every path from entry to T crosses one of these edges").
package cfgx

import (
	"fmt"
	"go/constant"
	"go/token"
	"go/types"
	"sort"
	"strings"

	"golang.org/x/tools/go/ssa"
)

// Edge is the out-edge Idx of block From.
type Edge struct {
	From *ssa.BasicBlock
	Idx  int
	// Via restricts the edge to the paths that entered the named join blocks
	// through the named predecessors ("b12#1;b15#0"); empty = every path. The
	// success edge of a call whose error reaches its nil test through a phi
	// (result temporaries of an inlined helper, an error variable assigned on
	// several branches) is such a contextual edge.
	Via string
}

// To is the edge's target block.
func (e Edge) To() *ssa.BasicBlock { return e.From.Succs[e.Idx] }

func (e Edge) String() string {
	if e.Via != "" {
		return fmt.Sprintf("b%d->b%d[%s]", e.From.Index, e.To().Index, e.Via)
	}
	return fmt.Sprintf("b%d->b%d", e.From.Index, e.To().Index)
}

// Plain is the edge without its path context.
func (e Edge) Plain() Edge { return Edge{From: e.From, Idx: e.Idx} }

// CalleeName is the type-resolved name of what a call instruction invokes:
// "(pkg.Iface).Method" for interface invokes, the SSA function's full name for
// static calls (methods "(*pkg.T).M", functions "pkg.F"), "" for dynamic calls
// of function values.
func CalleeName(c ssa.CallInstruction) string {
	cc := c.Common()
	if cc.IsInvoke() {
		return cc.Method.FullName()
	}
	if f := cc.StaticCallee(); f != nil {
		if o := f.Origin(); o != nil {
			f = o
		}
		if f.Object() != nil {
			if fo, ok := f.Object().(*types.Func); ok {
				return fo.FullName()
			}
		}
		return f.String()
	}
	if b, ok := cc.Value.(*ssa.Builtin); ok {
		return "builtin." + b.Name()
	}
	return ""
}

// ShortCallee strips package paths down to their last element.
func ShortCallee(name string) string {
	// (a/b/c.T).M -> (c.T).M ; a/b/c.F -> c.F
	out := name
	for {
		i := strings.LastIndex(out, "/")
		if i < 0 {
			break
		}
		j := i
		for j > 0 && !strings.ContainsRune("(*[ ,", rune(out[j-1])) {
			j--
		}
		out = out[:j] + out[i+1:]
	}
	return out
}

// CallArgs returns the call's arguments without the receiver.
func CallArgs(c ssa.CallInstruction) []ssa.Value {
	cc := c.Common()
	if cc.IsInvoke() {
		return cc.Args
	}
	if f := cc.StaticCallee(); f != nil && f.Signature.Recv() != nil && len(cc.Args) > 0 {
		return cc.Args[1:]
	}
	return cc.Args
}

// Receiver returns the receiver value of a method call (invoke or static), or nil.
func Receiver(c ssa.CallInstruction) ssa.Value {
	cc := c.Common()
	if cc.IsInvoke() {
		return cc.Value
	}
	if f := cc.StaticCallee(); f != nil && f.Signature.Recv() != nil && len(cc.Args) > 0 {
		return cc.Args[0]
	}
	return nil
}

// Calls lists the call instructions (call, go, defer) of fn in block/instruction
// order that satisfy pred.
func Calls(fn *ssa.Function, pred func(ssa.CallInstruction) bool) []ssa.CallInstruction {
	var out []ssa.CallInstruction
	if fn == nil {
		return nil
	}
	for _, b := range fn.Blocks {
		for _, in := range b.Instrs {
			if c, ok := in.(ssa.CallInstruction); ok && (pred == nil || pred(c)) {
				out = append(out, c)
			}
		}
	}
	sort.SliceStable(out, func(i, j int) bool {
		pi, pj := out[i].Pos(), out[j].Pos()
		if pi.IsValid() && pj.IsValid() && pi != pj {
			return pi < pj
		}
		return false
	})
	return out
}

// CallsNamed lists calls whose CalleeName is one of names.
func CallsNamed(fn *ssa.Function, names ...string) []ssa.CallInstruction {
	set := map[string]bool{}
	for _, n := range names {
		set[n] = true
	}
	return Calls(fn, func(c ssa.CallInstruction) bool { return set[CalleeName(c)] })
}

// zeroRead: v reads a field of a local that nothing ever writes — `(T{}).f`,
// the way the normal form spells "the zero value of f's type". It is the zero
// constant of its type.
func zeroRead(v ssa.Value) bool {
	if f, isField := v.(*ssa.Field); isField {
		if k, isConst := f.X.(*ssa.Const); isConst && k.Value == nil {
			return true // field of the zero constant of a struct type
		}
		// (T{}).f as a value: field of the load of a never-written local
		if ld, ok := f.X.(*ssa.UnOp); ok && ld.Op == token.MUL {
			if a, ok := ld.X.(*ssa.Alloc); ok && a.Referrers() != nil {
				for _, r := range *a.Referrers() {
					if u, isLoad := r.(*ssa.UnOp); isLoad && u.Op == token.MUL {
						continue
					}
					if _, isDbg := r.(*ssa.DebugRef); isDbg {
						continue
					}
					return false
				}
				return true
			}
		}
		return false
	}
	ld, ok := v.(*ssa.UnOp)
	if !ok || ld.Op != token.MUL {
		return false
	}
	fa, ok := ld.X.(*ssa.FieldAddr)
	if !ok {
		return false
	}
	a, ok := fa.X.(*ssa.Alloc)
	if !ok || a.Referrers() == nil {
		return false
	}
	for _, r := range *a.Referrers() {
		f2, isFA := r.(*ssa.FieldAddr)
		if !isFA {
			if _, isDbg := r.(*ssa.DebugRef); isDbg {
				continue
			}
			return false
		}
		if f2.Referrers() == nil {
			continue
		}
		for _, r2 := range *f2.Referrers() {
			if u, isLoad := r2.(*ssa.UnOp); !isLoad || u.Op != token.MUL {
				return false
			}
		}
	}
	return true
}

// ZeroRead is exported for rules: v is the zero value written as a read of a never-written local.
func ZeroRead(v ssa.Value) bool { return zeroRead(v) }

// IsNilConst reports whether v is the nil constant.
func IsNilConst(v ssa.Value) bool {
	c, ok := v.(*ssa.Const)
	if !ok && zeroRead(v) {
		switch v.Type().Underlying().(type) {
		case *types.Pointer, *types.Interface, *types.Slice, *types.Map, *types.Chan, *types.Signature:
			return true
		}
	}
	return ok && c.Value == nil
}

// ConstInt returns the integer value of a constant.
func ConstInt(v ssa.Value) (int64, bool) {
	if zeroRead(v) {
		if b, isB := v.Type().Underlying().(*types.Basic); isB && b.Info()&types.IsInteger != 0 {
			return 0, true
		}
	}
	c, ok := v.(*ssa.Const)
	if !ok || c.Value == nil || c.Value.Kind() != constant.Int {
		return 0, false
	}
	return c.Int64(), true
}

// ConstString returns the string value of a constant.
func ConstString(v ssa.Value) (string, bool) {
	if zeroRead(v) {
		if b, isB := v.Type().Underlying().(*types.Basic); isB && b.Info()&types.IsString != 0 {
			return "", true
		}
	}
	c, ok := v.(*ssa.Const)
	if !ok || c.Value == nil || c.Value.Kind() != constant.String {
		return "", false
	}
	return constant.StringVal(c.Value), true
}

// ConstBool returns the bool value of a constant.
func ConstBool(v ssa.Value) (bool, bool) {
	if zeroRead(v) {
		if b, isB := v.Type().Underlying().(*types.Basic); isB && b.Info()&types.IsBoolean != 0 {
			return false, true
		}
	}
	c, ok := v.(*ssa.Const)
	if !ok || c.Value == nil || c.Value.Kind() != constant.Bool {
		return false, false
	}
	return constant.BoolVal(c.Value), true
}

// CondEdges returns the CFG edges on which boolean value v is known true and
// known false. It follows `!v`, comparisons of v with boolean constants, and
// the If instructions that test it. go/ssa lowers !, && and || in conditions to
// branch structure, so each If tests an atomic condition.
func CondEdges(v ssa.Value) (tr, fa []Edge) {
	return condEdges(v, map[ssa.Value]bool{v: true})
}

// condEdges: stack holds the phis being resolved (a loop-carried flag and the
// and/or-shaped phi that updates it refer to each other).
func condEdges(v ssa.Value, stack map[ssa.Value]bool) (tr, fa []Edge) {
	seen := map[ssa.Value]bool{}
	var walk func(v ssa.Value, neg bool)
	walk = func(v ssa.Value, neg bool) {
		if seen[v] {
			return
		}
		seen[v] = true
		refs := v.Referrers()
		if refs == nil {
			return
		}
		for _, r := range *refs {
			switch r := r.(type) {
			case *ssa.If:
				t, f := Edge{From: r.Block(), Idx: 0}, Edge{From: r.Block(), Idx: 1}
				if neg {
					t, f = f, t
				}
				tr = append(tr, t)
				fa = append(fa, f)
			case *ssa.UnOp:
				if r.Op == token.NOT {
					walk(r, !neg)
				}
			case *ssa.Phi:
				// b := a && v  is  phi(false, v): b true implies v true;
				// b := a || v  is  phi(true, v): b false implies v false.
				// Only that direction is added.
				allFalse, allTrue := true, true
				for _, e := range r.Edges {
					if e == v {
						continue
					}
					if k, ok := ConstBool(e); ok {
						if k {
							allFalse = false
						} else {
							allTrue = false
						}
					} else {
						allFalse, allTrue = false, false
					}
				}
				if allFalse == allTrue {
					continue // no constants at all, or mixed
				}
				if stack[r] {
					continue
				}
				stack[r] = true
				pt, pf := condEdges(r, stack)
				delete(stack, r)
				// r true => v (possibly negated) ... with neg: v is !orig
				if allFalse { // and-shape: r true => v true
					if neg {
						fa = append(fa, pt...)
					} else {
						tr = append(tr, pt...)
					}
				} else { // or-shape: r false => v false
					if neg {
						tr = append(tr, pf...)
					} else {
						fa = append(fa, pf...)
					}
				}
			case *ssa.BinOp:
				if r.Op == token.EQL || r.Op == token.NEQ {
					other := r.Y
					if other == v {
						other = r.X
					}
					if b, ok := ConstBool(other); ok {
						n := neg
						if (r.Op == token.EQL) != b {
							n = !n
						}
						walk(r, n)
					}
				}
			}
		}
	}
	walk(v, false)
	return tr, fa
}

// DirectCondEdges is CondEdges restricted to the If instructions that test v
// itself (possibly negated): no inference through and/or-combined booleans.
func DirectCondEdges(v ssa.Value) (tr, fa []Edge) {
	seen := map[ssa.Value]bool{}
	var walk func(v ssa.Value, neg bool)
	walk = func(v ssa.Value, neg bool) {
		if seen[v] || v.Referrers() == nil {
			return
		}
		seen[v] = true
		for _, r := range *v.Referrers() {
			switch r := r.(type) {
			case *ssa.If:
				t, f := Edge{From: r.Block(), Idx: 0}, Edge{From: r.Block(), Idx: 1}
				if neg {
					t, f = f, t
				}
				tr = append(tr, t)
				fa = append(fa, f)
			case *ssa.UnOp:
				if r.Op == token.NOT {
					walk(r, !neg)
				}
			}
		}
	}
	walk(v, false)
	return tr, fa
}

// ErrEv describes how the error result of one call is consumed.
type ErrEv struct {
	Call     ssa.CallInstruction
	Err      ssa.Value // the error value (call itself or the Extract), nil if none
	OK       []Edge    // edges on which the (possibly filtered) error is nil
	Fail     []Edge    // edges on which it is non-nil
	RawOK    []Edge    // edges on which the unfiltered error is nil
	RawFail  []Edge    // edges on which the unfiltered error is non-nil
	Returned bool      // flows into a Return (directly, wrapped or via a result slot)
	Dropped  bool      // no referrer at all / assigned to blank
	Filtered []string  // benign filters applied before the nil test (IgnoreNotFound, ...)
	Preds    []string  // error predicates consulted (IsNotFound, IsConflict, ...)
	// PredTrue: the edges on which a predicate of the unfiltered error holds
	// ("errors.IsNotFound" -> edges); the explicit form of a filter:
	// `err != nil && !kerrors.IsNotFound(err)` is resource.IgnoreNotFound(err) != nil
	PredTrue map[string][]Edge
	Other    []string // other uses (passed to event/condition constructors, ...)
}

// Tested reports whether a nil test of the error was found.
func (e *ErrEv) Tested() bool { return len(e.OK) > 0 }

// errPassThrough: single-error-argument wrappers that return nil iff (filtered) err is nil.
var errPassThrough = map[string]string{
	"github.com/crossplane/crossplane-runtime/pkg/errors.Wrap":             "",
	"github.com/crossplane/crossplane-runtime/pkg/errors.Wrapf":            "",
	"github.com/crossplane/crossplane-runtime/pkg/errors.WithMessage":      "",
	"github.com/crossplane/crossplane-runtime/pkg/errors.WithMessagef":     "",
	"github.com/crossplane/crossplane-runtime/pkg/resource.IgnoreNotFound": "IgnoreNotFound",
	"github.com/crossplane/crossplane-runtime/pkg/resource.Ignore":         "Ignore",
	"github.com/crossplane/crossplane-runtime/pkg/resource.IgnoreAny":      "IgnoreAny",
	"sigs.k8s.io/controller-runtime/pkg/client.IgnoreNotFound":             "IgnoreNotFound",
	"sigs.k8s.io/controller-runtime/pkg/client.IgnoreAlreadyExists":        "IgnoreAlreadyExists",
}

func isErrorType(t types.Type) bool {
	n, ok := t.(*types.Named)
	return ok && n.Obj().Pkg() == nil && n.Obj().Name() == "error"
}

// ErrorResult returns the SSA value carrying the error result of call c
// (the call itself for a single error result, else the Extract of the last
// error-typed tuple element), or nil.
func ErrorResult(c ssa.CallInstruction) ssa.Value {
	v := c.Value()
	if v == nil {
		return nil
	}
	res := c.Common().Signature().Results()
	if res.Len() == 0 {
		return nil
	}
	if res.Len() == 1 {
		if isErrorType(res.At(0).Type()) {
			return v
		}
		return nil
	}
	idx := -1
	for i := 0; i < res.Len(); i++ {
		if isErrorType(res.At(i).Type()) {
			idx = i
		}
	}
	if idx < 0 || v.Referrers() == nil {
		return nil
	}
	for _, r := range *v.Referrers() {
		if ex, ok := r.(*ssa.Extract); ok && ex.Index == idx {
			return ex
		}
	}
	return nil
}

// TupleResult returns the Extract of tuple element idx of call c (or the call
// itself when it has a single result and idx==0).
func TupleResult(c ssa.CallInstruction, idx int) ssa.Value {
	v := c.Value()
	if v == nil {
		return nil
	}
	if c.Common().Signature().Results().Len() == 1 {
		if idx == 0 {
			return v
		}
		return nil
	}
	if v.Referrers() == nil {
		return nil
	}
	for _, r := range *v.Referrers() {
		if ex, ok := r.(*ssa.Extract); ok && ex.Index == idx {
			return ex
		}
	}
	return nil
}

// ErrEvents classifies the uses of c's error result.
func ErrEvents(c ssa.CallInstruction) *ErrEv {
	ev := &ErrEv{Call: c}
	e := ErrorResult(c)
	ev.Err = e
	if e == nil {
		ev.Dropped = true
		return ev
	}
	type fkey struct {
		v   ssa.Value
		via string
	}
	seen := map[fkey]bool{}
	withVia := func(es []Edge, via string) []Edge {
		if via == "" {
			return es
		}
		out := make([]Edge, len(es))
		for i, x := range es {
			x.Via = via
			out[i] = x
		}
		return out
	}
	var followVia func(v ssa.Value, filtered bool, via string)
	var follow func(v ssa.Value, filtered bool)
	via := ""
	follow = func(v ssa.Value, filtered bool) { followVia(v, filtered, via) }
	followVia = func(v ssa.Value, filtered bool, curVia string) {
		if seen[fkey{v, curVia}] {
			return
		}
		seen[fkey{v, curVia}] = true
		saved := via
		via = curVia
		defer func() { via = saved }()
		refs := v.Referrers()
		if refs == nil || len(*refs) == 0 {
			return
		}
		for _, r := range *refs {
			switch r := r.(type) {
			case *ssa.BinOp:
				if (r.Op == token.NEQ || r.Op == token.EQL) && (IsNilConst(r.X) || IsNilConst(r.Y)) {
					t, f := CondEdges(r)
					if r.Op == token.EQL {
						t, f = f, t
					}
					t, f = withVia(t, via), withVia(f, via)
					ev.Fail = append(ev.Fail, t...)
					ev.OK = append(ev.OK, f...)
					if !filtered {
						ev.RawFail = append(ev.RawFail, t...)
						ev.RawOK = append(ev.RawOK, f...)
					}
					// comparison result merged into a phi by && / || used as a value
					if len(t) == 0 {
						ev.Other = append(ev.Other, "nil-compare used as value")
					}
				}
			case *ssa.Phi:
				// the nil test downstream speaks about this call only on the paths
				// that enter the phi's block through the edge carrying v
				fi := infoOf(r.Parent())
				any := false
				for i, e := range r.Edges {
					if e == v && fi.ctxJoin[r.Block()] {
						any = true
						nv := ViaOf(r.Block(), i)
						if via != "" {
							nv = via + ";" + nv
						}
						followVia(r, filtered, nv)
					}
				}
				if !any {
					follow(r, filtered)
				}
			case *ssa.Return:
				ev.Returned = true
			case *ssa.Store:
				if r.Val == v {
					// spilled into a result slot / local variable: follow loads of that address
					if a, ok := r.Addr.(*ssa.Alloc); ok && a.Referrers() != nil {
						for _, ar := range *a.Referrers() {
							if ld, ok := ar.(*ssa.UnOp); ok && ld.Op == token.MUL {
								follow(ld, filtered)
							}
						}
					} else {
						ev.Other = append(ev.Other, "stored to "+r.Addr.String())
					}
				}
			case *ssa.MakeInterface, *ssa.ChangeInterface, *ssa.ChangeType:
				follow(r.(ssa.Value), filtered)
			case ssa.CallInstruction:
				name := CalleeName(r)
				if tag, ok := errPassThrough[name]; ok {
					if tag != "" {
						ev.Filtered = append(ev.Filtered, filterTag(tag, r))
					}
					if val := r.Value(); val != nil {
						follow(val, filtered || tag != "")
					}
					continue
				}
				short := ShortCallee(name)
				if strings.HasPrefix(short, "errors.Is") || strings.HasPrefix(short, "meta.IsNoMatch") || strings.Contains(short, ".Is") {
					ev.Preds = append(ev.Preds, short)
					if !filtered {
						if ev.PredTrue == nil {
							ev.PredTrue = map[string][]Edge{}
						}
						pt, _ := CallCondEdges(r)
						ev.PredTrue[short] = append(ev.PredTrue[short], withVia(pt, via)...)
					}
					continue
				}
				ev.Other = append(ev.Other, "arg of "+short)
			case *ssa.DebugRef:
			default:
				ev.Other = append(ev.Other, fmt.Sprintf("%T", r))
			}
		}
	}
	follow(e, false)
	if !ev.Tested() && !ev.Returned && len(ev.Other) == 0 && len(ev.Preds) == 0 {
		ev.Dropped = true
	}
	return ev
}

// filterTag names an error filter precisely: resource.Ignore(kerrors.IsConflict, err)
// becomes "Ignore(IsConflict)", IgnoreAny(err, a, b) "IgnoreAny(a,b)"; a predicate
// that is not a plain function value is rendered "?" (never matches an allow-list).
func filterTag(tag string, call ssa.CallInstruction) string {
	if tag != "Ignore" && tag != "IgnoreAny" {
		return tag
	}
	predName := func(v ssa.Value) string {
		for {
			switch x := v.(type) {
			case *ssa.ChangeType:
				v = x.X
				continue
			case *ssa.MakeInterface:
				v = x.X
				continue
			case *ssa.Function:
				return x.Name()
			}
			return "?"
		}
	}
	args := call.Common().Args
	if tag == "Ignore" {
		if len(args) == 2 {
			return "Ignore(" + predName(args[0]) + ")"
		}
		return "Ignore(?)"
	}
	return "IgnoreAny(?)"
}

// StrictOK returns the edges on which the call is known to have succeeded:
// the nil edges of its error when no filter other than the named ones was
// applied before the test, otherwise only the nil edges of the unfiltered error.
func (e *ErrEv) StrictOK(allow ...string) []Edge {
	// an allowed filter may also be spelled out as a predicate test
	var extra []Edge
	for _, a := range allow {
		switch a {
		case "IgnoreNotFound", "Ignore(IsNotFound)":
			extra = append(extra, e.PredTrue["errors.IsNotFound"]...)
		case "IgnoreAlreadyExists", "Ignore(IsAlreadyExists)":
			extra = append(extra, e.PredTrue["errors.IsAlreadyExists"]...)
		case "Ignore(IsNoMatchError)":
			extra = append(extra, e.PredTrue["meta.IsNoMatchError"]...)
		case "Ignore(IsNotAllowed)":
			extra = append(extra, e.PredTrue["resource.IsNotAllowed"]...)
		}
	}
	if len(extra) > 0 {
		base := e.strictOK(allow...)
		return append(append([]Edge{}, base...), extra...)
	}
	return e.strictOK(allow...)
}

func (e *ErrEv) strictOK(allow ...string) []Edge {
	for _, f := range e.Filtered {
		ok := false
		for _, a := range allow {
			if a == f {
				ok = true
			}
		}
		if !ok {
			return e.RawOK
		}
	}
	return e.OK
}

// blockPos finds a printable position for a block.
func blockPos(b *ssa.BasicBlock) token.Pos {
	for _, in := range b.Instrs {
		if in.Pos().IsValid() {
			return in.Pos()
		}
	}
	return token.NoPos
}

// Index of instr within its block.
func instrIndex(in ssa.Instruction) int {
	for i, x := range in.Block().Instrs {
		if x == in {
			return i
		}
	}
	return -1
}

// Before reports whether a precedes b inside the same block.
func Before(a, b ssa.Instruction) bool {
	return a.Block() == b.Block() && instrIndex(a) < instrIndex(b)
}

// ReachBlocks returns the blocks reachable from the given start edges/blocks
// without crossing an edge in avoid. parent records a BFS tree for witnesses.
func ReachBlocks(starts []*ssa.BasicBlock, avoid map[Edge]bool) (map[*ssa.BasicBlock]bool, map[*ssa.BasicBlock]*ssa.BasicBlock) {
	return reachSens(starts, nil, avoid)
}

// ReachFromEdges is ReachBlocks started on edges (the path context of a start
// edge, and what taking it implies, is known to the search).
func ReachFromEdges(starts []Edge, avoid map[Edge]bool) (map[*ssa.BasicBlock]bool, map[*ssa.BasicBlock]*ssa.BasicBlock) {
	return reachSens(nil, starts, avoid)
}

// ReachFromEntry returns the blocks reachable from fn's entry without crossing
// an avoid edge; blocks of through are reached but not left.
func ReachFromEntry(fn *ssa.Function, through map[*ssa.BasicBlock]bool, avoid []Edge) map[*ssa.BasicBlock]bool {
	av := map[Edge]bool{}
	for _, e := range avoid {
		av[e] = true
	}
	seen, _ := reachOpts([]*ssa.BasicBlock{fn.Blocks[0]}, nil, av, nil, through)
	return seen
}

// ReachFromEdgesThrough: blocks reachable from the start edges without crossing
// avoid; blocks of through are reached but not left.
func ReachFromEdgesThrough(starts, avoid []Edge, through map[*ssa.BasicBlock]bool) (map[*ssa.BasicBlock]bool, map[*ssa.BasicBlock]*ssa.BasicBlock) {
	av := map[Edge]bool{}
	for _, e := range avoid {
		av[e] = true
	}
	return reachOpts(nil, starts, av, nil, through)
}

// MustPass is dominance over feasible paths: every path from the function's
// entry to block b that the path-sensitive search can take passes block a.
// (If a dominates b it holds; it also holds when the only paths around a are
// infeasible, e.g. the error returns of an inlined helper that the caller's
// `if err != nil` sends elsewhere.)
func MustPass(a, b *ssa.BasicBlock) bool {
	if a == b {
		return true
	}
	if a.Dominates(b) {
		return true
	}
	seen := ReachFromEntry(a.Parent(), map[*ssa.BasicBlock]bool{a: true}, nil)
	return !seen[b]
}

// Posf renders positions; set by the loader's user.
type Posf func(token.Pos) string

func witness(parent map[*ssa.BasicBlock]*ssa.BasicBlock, to *ssa.BasicBlock, posf Posf) []string {
	var rev []*ssa.BasicBlock
	onPath := map[*ssa.BasicBlock]bool{}
	for b := to; b != nil; b = parent[b] {
		if onPath[b] && len(rev) > 1 {
			rev = append(rev, b)
			break
		}
		onPath[b] = true
		rev = append(rev, b)
		if len(rev) > 200 {
			break
		}
	}
	var out []string
	for i := len(rev) - 1; i >= 0; i-- {
		b := rev[i]
		c := b.Comment
		p := "?"
		if posf != nil {
			p = posf(blockPos(b))
		}
		out = append(out, fmt.Sprintf("b%d %s (%s)", b.Index, p, c))
	}
	return out
}

// MustCross decides whether every path from the function's entry to target
// crosses at least one edge of gates. When it does not, a witness path that
// avoids all gates is returned.
func MustCross(target ssa.Instruction, gates []Edge, posf Posf) (bool, []string) {
	fn := target.Parent()
	avoid := map[Edge]bool{}
	for _, g := range gates {
		avoid[g] = true
	}
	seen, parent := ReachBlocks([]*ssa.BasicBlock{fn.Blocks[0]}, avoid)
	if !seen[target.Block()] {
		return true, nil
	}
	return false, witness(parent, target.Block(), posf)
}

// ReachableFromEdges decides whether target can be reached from any of the
// start edges (without crossing avoid).
func ReachableFromEdges(starts []Edge, target ssa.Instruction, avoid []Edge, posf Posf) (bool, []string) {
	av := map[Edge]bool{}
	for _, g := range avoid {
		av[g] = true
	}
	seen, parent := ReachFromEdges(starts, av)
	if seen[target.Block()] {
		return true, witness(parent, target.Block(), posf)
	}
	return false, nil
}

// InstrReaches decides whether control can flow from just after instruction a
// to instruction b (same function), optionally avoiding edges.
func InstrReaches(a, b ssa.Instruction, avoid []Edge) bool {
	if a.Block() == b.Block() && instrIndex(a) < instrIndex(b) {
		return true
	}
	av := map[Edge]bool{}
	for _, g := range avoid {
		av[g] = true
	}
	var se []Edge
	for i := range a.Block().Succs {
		se = append(se, Edge{From: a.Block(), Idx: i})
	}
	seen, _ := ReachFromEdges(se, av)
	return seen[b.Block()]
}

// CrossesAfter decides whether every path from instruction a to instruction b
// crosses one of gates (used for "after A, B needs ok(C)").
func CrossesAfter(a, b ssa.Instruction, gates []Edge) bool {
	return !InstrReaches(a, b, gates)
}

// ReturnsReachable lists the Return instructions reachable from the start
// edges without crossing avoid.
func ReturnsReachable(starts []Edge, avoid []Edge) []*ssa.Return {
	av := map[Edge]bool{}
	for _, g := range avoid {
		av[g] = true
	}
	seen, _ := ReachFromEdges(starts, av)
	var out []*ssa.Return
	for b := range seen {
		if len(b.Instrs) > 0 {
			if r, ok := b.Instrs[len(b.Instrs)-1].(*ssa.Return); ok {
				out = append(out, r)
			}
		}
	}
	sort.Slice(out, func(i, j int) bool { return out[i].Block().Index < out[j].Block().Index })
	return out
}

// Loop information -------------------------------------------------------

// LoopOf returns the set of blocks of the innermost natural loop containing b
// (nil if b is in no loop). A natural loop is identified by a back edge t->h
// where h dominates t.
func LoopOf(b *ssa.BasicBlock) map[*ssa.BasicBlock]bool {
	var best map[*ssa.BasicBlock]bool
	for _, body := range Loops(b.Parent()) {
		if body[b] && (best == nil || len(body) < len(best)) {
			best = body
		}
	}
	return best
}

// Loops returns all natural loops of fn keyed by header (merged per header).
func Loops(fn *ssa.Function) map[*ssa.BasicBlock]map[*ssa.BasicBlock]bool {
	out := map[*ssa.BasicBlock]map[*ssa.BasicBlock]bool{}
	for _, t := range fn.Blocks {
		for _, h := range t.Succs {
			if h.Dominates(t) {
				body := naturalLoop(h, t)
				if out[h] == nil {
					out[h] = body
				} else {
					for k := range body {
						out[h][k] = true
					}
				}
			}
		}
	}
	return out
}

func naturalLoop(h, t *ssa.BasicBlock) map[*ssa.BasicBlock]bool {
	body := map[*ssa.BasicBlock]bool{h: true}
	stack := []*ssa.BasicBlock{t}
	for len(stack) > 0 {
		x := stack[len(stack)-1]
		stack = stack[:len(stack)-1]
		if body[x] {
			continue
		}
		body[x] = true
		stack = append(stack, x.Preds...)
	}
	return body
}

// ExitEdgesOf returns the edges leaving the loop body.
func ExitEdgesOf(body map[*ssa.BasicBlock]bool) []Edge {
	var out []Edge
	for b := range body {
		for i, s := range b.Succs {
			if !body[s] {
				out = append(out, Edge{From: b, Idx: i})
			}
		}
	}
	sort.Slice(out, func(i, j int) bool {
		if out[i].From.Index != out[j].From.Index {
			return out[i].From.Index < out[j].From.Index
		}
		return out[i].Idx < out[j].Idx
	})
	return out
}

// LenCmp describes a comparison of len(x) with an integer constant.
type LenCmp struct {
	Bin   *ssa.BinOp
	Of    ssa.Value // the value whose length is taken
	Op    token.Token
	Const int64
	Swap  bool // constant on the left
	// Via: the length reaches the comparison through a phi (result temporary of
	// an inlined helper whose error paths put a constant there); the comparison
	// speaks about len(Of) only on the paths entering through this context.
	Via string
}

// Eval evaluates the comparison for a given length.
func (l LenCmp) Eval(n int64) bool {
	a, b := n, l.Const
	if l.Swap {
		a, b = b, a
	}
	switch l.Op {
	case token.EQL:
		return a == b
	case token.NEQ:
		return a != b
	case token.LSS:
		return a < b
	case token.LEQ:
		return a <= b
	case token.GTR:
		return a > b
	case token.GEQ:
		return a >= b
	}
	return false
}

// Edges returns the CFG edges on which the comparison is true / false.
func (l LenCmp) Edges() (tr, fa []Edge) {
	tr, fa = CondEdges(l.Bin)
	if l.Via != "" {
		for i := range tr {
			tr[i].Via = l.Via
		}
		for i := range fa {
			fa[i].Via = l.Via
		}
	}
	return tr, fa
}

// LenCmps finds all comparisons of builtin len(x) with integer constants in fn.
func LenCmps(fn *ssa.Function) []LenCmp {
	var out []LenCmp
	for _, b := range fn.Blocks {
		for _, in := range b.Instrs {
			bo, ok := in.(*ssa.BinOp)
			if !ok {
				continue
			}
			switch bo.Op {
			case token.EQL, token.NEQ, token.LSS, token.LEQ, token.GTR, token.GEQ:
			default:
				continue
			}
			if of, ok := lenOf(bo.X); ok {
				if c, ok := ConstInt(bo.Y); ok {
					out = append(out, LenCmp{Bin: bo, Of: of, Op: bo.Op, Const: c})
				}
			} else if phi, isPhi := bo.X.(*ssa.Phi); isPhi {
				if c, ok := ConstInt(bo.Y); ok {
					for i, e := range phi.Edges {
						if of, ok := lenOf(e); ok {
							out = append(out, LenCmp{Bin: bo, Of: of, Op: bo.Op, Const: c, Via: ViaOf(phi.Block(), i)})
						}
					}
				}
			} else if of, ok := lenOf(bo.Y); ok {
				if c, ok := ConstInt(bo.X); ok {
					out = append(out, LenCmp{Bin: bo, Of: of, Op: bo.Op, Const: c, Swap: true})
				}
			}
		}
	}
	return out
}

func lenOf(v ssa.Value) (ssa.Value, bool) {
	c, ok := v.(*ssa.Call)
	if !ok {
		return nil, false
	}
	if b, ok := c.Call.Value.(*ssa.Builtin); ok && b.Name() == "len" && len(c.Call.Args) == 1 {
		return c.Call.Args[0], true
	}
	return nil, false
}

// CallCondEdges returns the true/false edges of a bool-returning call.
func CallCondEdges(c ssa.CallInstruction) (tr, fa []Edge) {
	if v := c.Value(); v != nil {
		return CondEdges(v)
	}
	return nil, nil
}

// FlagPhis finds boolean phi nodes ("flags") that are true whenever control
// arrived over one of the edges in onTrue: every predecessor of the phi's block
// that is reachable from an onTrue edge (without passing through the phi's
// block) carries the constant true.
func FlagPhis(fn *ssa.Function, onTrue []Edge) []*ssa.Phi {
	var out []*ssa.Phi
	for _, b := range fn.Blocks {
		for _, in := range b.Instrs {
			phi, ok := in.(*ssa.Phi)
			if !ok {
				break
			}
			if bt, ok := phi.Type().Underlying().(*types.Basic); !ok || bt.Kind() != types.Bool {
				continue
			}
			// blocks reachable from onTrue without entering b
			avoid := map[Edge]bool{}
			for _, p := range b.Preds {
				for i, s := range p.Succs {
					if s == b {
						avoid[Edge{From: p, Idx: i}] = true
					}
				}
			}
			var starts []*ssa.BasicBlock
			direct := map[*ssa.BasicBlock]bool{}
			for _, e := range onTrue {
				if e.To() == b {
					direct[e.From] = true
				} else {
					starts = append(starts, e.To())
				}
			}
			reach, _ := ReachBlocks(starts, avoid)
			n, good := 0, true
			for i, p := range b.Preds {
				if reach[p] || direct[p] {
					n++
					if v, ok := ConstBool(phi.Edges[i]); !ok || !v {
						good = false
					}
				}
			}
			if n > 0 && good {
				out = append(out, phi)
			}
		}
	}
	return out
}

// LoopHeader returns the block of a natural loop body that dominates all others.
func LoopHeader(body map[*ssa.BasicBlock]bool) *ssa.BasicBlock {
	for h := range body {
		all := true
		for b := range body {
			if !h.Dominates(b) {
				all = false
				break
			}
		}
		if all {
			return h
		}
	}
	return nil
}

// OnlyHeaderExits reports whether every edge leaving the loop starts at its
// header (the range/for condition): no break, return or goto inside the body.
// The offending edges are returned otherwise.
func OnlyHeaderExits(body map[*ssa.BasicBlock]bool) (bool, []Edge) {
	h := LoopHeader(body)
	var bad []Edge
	for _, e := range ExitEdgesOf(body) {
		if e.From != h {
			bad = append(bad, e)
		}
	}
	return len(bad) == 0 && h != nil, bad
}

// LoopBypass decides whether, inside the natural loop body, control can get
// from the start of an iteration back to the loop header without passing
// through a block of `through` and without crossing an `allowed` edge.
// Paths that leave the loop are not bypasses.
func LoopBypass(body map[*ssa.BasicBlock]bool, through map[*ssa.BasicBlock]bool, allowed []Edge, posf Posf) (bool, []string) {
	h := LoopHeader(body)
	if h == nil {
		return true, []string{"no loop header"}
	}
	av := map[Edge]bool{}
	for _, e := range allowed {
		av[e] = true
	}
	var starts []Edge
	for i, s := range h.Succs {
		if body[s] && s != h {
			starts = append(starts, Edge{From: h, Idx: i})
		}
	}
	stop := map[*ssa.BasicBlock]bool{h: true}
	for b := range through {
		stop[b] = true
	}
	seen, parent := reachOpts(nil, starts, av, body, stop)
	if seen[h] {
		w := witness(parent, h, posf)
		return true, append(w, "-> back to loop header b"+fmt.Sprint(h.Index))
	}
	return false, nil
}

// BackEdges lists the loop back edges of fn (t->h with h dominating t).
func BackEdges(fn *ssa.Function) []Edge {
	var out []Edge
	for _, t := range fn.Blocks {
		for i, h := range t.Succs {
			if h.Dominates(t) {
				out = append(out, Edge{From: t, Idx: i})
			}
		}
	}
	return out
}

// ReachesInIteration: a reaches b without taking a loop back edge.
func ReachesInIteration(a, b ssa.Instruction) bool {
	return InstrReaches(a, b, BackEdges(a.Parent()))
}

// ReturnsFromLoop lists the Return instructions control can reach by leaving
// the loop body from somewhere other than its header (break/return/goto out of
// the body), i.e. the early exits of the loop.
func ReturnsFromLoop(body map[*ssa.BasicBlock]bool) []*ssa.Return {
	_, early := OnlyHeaderExits(body)
	return ReturnsReachable(early, nil)
}

// ReachesAvoidingBlocks decides whether target block can be reached from the
// start edges without passing through a block of `through` (and without
// crossing avoid edges). The start edge targets themselves count as passed.
func ReachesAvoidingBlocks(starts []Edge, target *ssa.BasicBlock, through map[*ssa.BasicBlock]bool, avoid []Edge, posf Posf) (bool, []string) {
	av := map[Edge]bool{}
	for _, e := range avoid {
		av[e] = true
	}
	seen, parent := reachOpts(nil, starts, av, nil, through)
	if seen[target] {
		return true, witness(parent, target, posf)
	}
	return false, nil
}

// Path is one acyclic CFG path given as its sequence of blocks.
type Path []*ssa.BasicBlock

// Crosses reports whether the path takes edge e.
func (p Path) Crosses(e Edge) bool {
	for i := 0; i+1 < len(p); i++ {
		if p[i] == e.From && p[i+1] == e.To() {
			// make sure it is this successor index (two edges to the same block are equivalent here)
			return true
		}
	}
	return false
}

// CrossesAny reports whether the path takes any of es.
func (p Path) CrossesAny(es []Edge) bool {
	for _, e := range es {
		if p.Crosses(e) {
			return true
		}
	}
	return false
}

// Resolve follows phi nodes along the path: the value v has when control
// arrives at the end of the path. Non-phi values are returned unchanged.
func (p Path) Resolve(v ssa.Value) ssa.Value {
	for depth := 0; depth < 32; depth++ {
		phi, ok := v.(*ssa.Phi)
		if !ok {
			return v
		}
		// find the last occurrence of phi's block in the path and its predecessor
		idx := -1
		for i := len(p) - 1; i >= 1; i-- {
			if p[i] == phi.Block() {
				idx = i
				break
			}
		}
		if idx < 1 {
			return v
		}
		pred := p[idx-1]
		found := false
		for i, pb := range phi.Block().Preds {
			if pb == pred {
				v = phi.Edges[i]
				found = true
				break
			}
		}
		if !found {
			return v
		}
		// the resolved value is defined before idx: continue resolving on the prefix
		p = p[:idx]
	}
	return v
}

// AcyclicPaths enumerates the loop-free paths from the entry block to the
// block of target (at most max; ok=false if more exist or a loop is involved).
func AcyclicPaths(target ssa.Instruction, max int) (paths []Path, ok bool) {
	fn := target.Parent()
	tb := target.Block()
	ok = true
	onPath := map[*ssa.BasicBlock]bool{}
	var cur Path
	var dfs func(b *ssa.BasicBlock)
	dfs = func(b *ssa.BasicBlock) {
		if !ok {
			return
		}
		cur = append(cur, b)
		onPath[b] = true
		if b == tb {
			cp := make(Path, len(cur))
			copy(cp, cur)
			paths = append(paths, cp)
			if len(paths) > max {
				ok = false
			}
		} else {
			for _, s := range b.Succs {
				if onPath[s] {
					continue // skip back edges: loop-free paths only
				}
				dfs(s)
			}
		}
		onPath[b] = false
		cur = cur[:len(cur)-1]
	}
	dfs(fn.Blocks[0])
	return paths, ok
}

// ReturnValue resolves result i of a return. Functions with a defer spill their
// results into slots that are reloaded after RunDefers; the value stored to the
// slot on this path is returned in that case.
func ReturnValue(r *ssa.Return, i int) ssa.Value {
	if i >= len(r.Results) {
		return nil
	}
	v := r.Results[i]
	ld, ok := v.(*ssa.UnOp)
	if !ok || ld.Op != token.MUL {
		return v
	}
	a, ok := ld.X.(*ssa.Alloc)
	if !ok {
		return v
	}
	b := r.Block()
	for depth := 0; depth < 16 && b != nil; depth++ {
		for j := len(b.Instrs) - 1; j >= 0; j-- {
			if st, ok := b.Instrs[j].(*ssa.Store); ok && st.Addr == a {
				return st.Val
			}
		}
		if len(b.Preds) == 1 {
			b = b.Preds[0]
		} else {
			b = nil
		}
	}
	return v
}

// ReturnedValues lists every value fn can return as its i-th result: the
// operands of its Return instructions, and — when a defer made the builder
// spill the results — the values stored into the result slot.
func ReturnedValues(fn *ssa.Function, i int) []ssa.Value {
	var out []ssa.Value
	seen := map[ssa.Value]bool{}
	add := func(v ssa.Value) {
		if !seen[v] {
			seen[v] = true
			out = append(out, v)
		}
	}
	for _, b := range fn.Blocks {
		r, ok := b.Instrs[len(b.Instrs)-1].(*ssa.Return)
		if !ok || i >= len(r.Results) {
			continue
		}
		v := r.Results[i]
		if ld, ok := v.(*ssa.UnOp); ok && ld.Op == token.MUL {
			if a, ok := ld.X.(*ssa.Alloc); ok && a.Referrers() != nil {
				n := 0
				for _, ref := range *a.Referrers() {
					if st, ok := ref.(*ssa.Store); ok && st.Addr == a {
						add(st.Val)
						n++
					}
				}
				if n > 0 {
					continue
				}
			}
		}
		add(v)
	}
	return out
}

// FeasiblePaths enumerates loop-free paths from entry to target's block like
// AcyclicPaths, but prunes at every If whose condition resolves, along the
// path so far, to a boolean constant (flag variables assigned constants on
// earlier branches). This is constant propagation along paths; values computed
// from calls stay unknown and both edges are followed.
func FeasiblePaths(target ssa.Instruction, max int) (paths []Path, pruned int, ok bool) {
	fn := target.Parent()
	tb := target.Block()
	ok = true
	onPath := map[*ssa.BasicBlock]bool{}
	// decisions taken earlier on this path for syntactically identical
	// comparisons (same operator, same SSA operands): go/ssa does no CSE, so
	// `rc == nil` written twice yields two BinOps over the same value.
	type cmpKey struct {
		op   token.Token
		x, y string
	}
	vkey := func(v ssa.Value) string {
		if c, ok := v.(*ssa.Const); ok {
			return "const:" + c.String() // constants are not interned in go/ssa
		}
		return fmt.Sprintf("%p", v)
	}
	decided := map[cmpKey][]bool{}
	var cur Path
	var dfs func(b *ssa.BasicBlock)
	dfs = func(b *ssa.BasicBlock) {
		if !ok {
			return
		}
		cur = append(cur, b)
		onPath[b] = true
		var pushed *cmpKey
		if b == tb {
			cp := make(Path, len(cur))
			copy(cp, cur)
			paths = append(paths, cp)
			if len(paths) > max {
				ok = false
			}
		} else {
			only := -1
			var thisKey *cmpKey
			if iff, isIf := b.Instrs[len(b.Instrs)-1].(*ssa.If); isIf {
				if bo, isB := iff.Cond.(*ssa.BinOp); isB {
					k := cmpKey{bo.Op, vkey(cur.Resolve(bo.X)), vkey(cur.Resolve(bo.Y))}
					thisKey = &k
					if d := decided[k]; len(d) > 0 {
						if d[len(d)-1] {
							only = 0
						} else {
							only = 1
						}
					}
				}
				v := cur.Resolve(iff.Cond)
				neg := false
				for {
					if u, isU := v.(*ssa.UnOp); isU && u.Op == token.NOT {
						neg = !neg
						v = cur.Resolve(u.X)
						continue
					}
					break
				}
				if cb, isC := ConstBool(v); isC {
					if cb != neg {
						only = 0
					} else {
						only = 1
					}
				}
			}
			for i, s := range b.Succs {
				if only >= 0 && i != only {
					pruned++
					continue
				}
				if onPath[s] {
					continue
				}
				if thisKey != nil && len(b.Succs) == 2 {
					decided[*thisKey] = append(decided[*thisKey], i == 0)
					pushed = thisKey
				}
				dfs(s)
				if pushed != nil {
					decided[*pushed] = decided[*pushed][:len(decided[*pushed])-1]
					pushed = nil
				}
			}
		}
		onPath[b] = false
		cur = cur[:len(cur)-1]
	}
	dfs(fn.Blocks[0])
	return paths, pruned, ok
}

// FlagPhisConst generalises FlagPhis: boolean phis that carry the constant
// `val` on every predecessor reachable from one of the edges in `on`.
func FlagPhisConst(fn *ssa.Function, on []Edge, val bool) []*ssa.Phi {
	var out []*ssa.Phi
	for _, b := range fn.Blocks {
		for _, in := range b.Instrs {
			phi, ok := in.(*ssa.Phi)
			if !ok {
				break
			}
			if bt, ok := phi.Type().Underlying().(*types.Basic); !ok || bt.Kind() != types.Bool {
				continue
			}
			avoid := map[Edge]bool{}
			for _, p := range b.Preds {
				for i, s := range p.Succs {
					if s == b {
						avoid[Edge{From: p, Idx: i}] = true
					}
				}
			}
			var starts []*ssa.BasicBlock
			direct := map[*ssa.BasicBlock]bool{}
			for _, e := range on {
				if e.To() == b {
					direct[e.From] = true
				} else {
					starts = append(starts, e.To())
				}
			}
			reach, _ := ReachBlocks(starts, avoid)
			n, good := 0, true
			for i, p := range b.Preds {
				if reach[p] || direct[p] {
					n++
					if v, ok := ConstBool(phi.Edges[i]); !ok || v != val {
						good = false
					}
				}
			}
			if n > 0 && good {
				out = append(out, phi)
			}
		}
	}
	return out
}
