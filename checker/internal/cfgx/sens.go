package cfgx

// Path-sensitive reachability.  The CFG searches of this package do not follow
// an If edge that the path taken so far rules out.  What a path "knows" is only:
// (1) for a phi, the abstract value (zero / non-zero: nil, false, 0, "" versus
// anything else) of the operand selected by the edge through which its block
// was entered, when that operand is a constant, a value that cannot be nil
// (MakeInterface, Alloc, errors.New, ...), a nil-preserving wrapper
// (errors.Wrap(x)) of such a value, another phi the path already fixed, or a
// value whose test dominates the entering block; (2) the facts established by
// dominating tests.  This is constant propagation along paths (no program value
// is computed) and it only ever removes infeasible paths: boolean flags
// (`rendered`, `found`, `fatal`), and the `if err != nil` a caller applies to
// the result of an inlined helper, no longer produce spurious paths.

import (
	"go/constant"
	"go/token"
	"go/types"
	"sort"
	"strconv"
	"strings"
	"sync"

	"golang.org/x/tools/go/ssa"
)

type absval int8

const (
	unk absval = iota
	zero
	nonzero
)

func (a absval) flip() absval {
	switch a {
	case zero:
		return nonzero
	case nonzero:
		return zero
	}
	return unk
}

// nil-preserving single-argument wrappers and always-non-nil constructors.
var nilPreserving = map[string]bool{
	"github.com/crossplane/crossplane-runtime/pkg/errors.Wrap":         true,
	"github.com/crossplane/crossplane-runtime/pkg/errors.Wrapf":        true,
	"github.com/crossplane/crossplane-runtime/pkg/errors.WithMessage":  true,
	"github.com/crossplane/crossplane-runtime/pkg/errors.WithMessagef": true,
	"github.com/pkg/errors.Wrap":                                       true,
	"github.com/pkg/errors.Wrapf":                                      true,
	"github.com/pkg/errors.WithMessage":                                true,
	"github.com/pkg/errors.WithStack":                                  true,
}

var neverNil = map[string]bool{
	"github.com/crossplane/crossplane-runtime/pkg/errors.New":    true,
	"github.com/crossplane/crossplane-runtime/pkg/errors.Errorf": true,
	"github.com/pkg/errors.New":                                  true,
	"github.com/pkg/errors.Errorf":                               true,
	"errors.New":                                                 true,
	"fmt.Errorf":                                                 true,
}

// errFilterArg: functions that return nil or the error passed at this index.
var errFilterArg = map[string]int{
	"github.com/crossplane/crossplane-runtime/pkg/resource.IgnoreNotFound": 0,
	"github.com/crossplane/crossplane-runtime/pkg/resource.Ignore":         1,
	"github.com/crossplane/crossplane-runtime/pkg/resource.IgnoreAny":      0,
	"sigs.k8s.io/controller-runtime/pkg/client.IgnoreNotFound":             0,
	"sigs.k8s.io/controller-runtime/pkg/client.IgnoreAlreadyExists":        0,
}

type fact struct {
	v   ssa.Value
	val absval
	at  *ssa.BasicBlock // holds in every block this one dominates
}

// predKey names the result of a pure error predicate on one value:
// kerrors.IsNotFound(err), resource.IsNotAllowed(err), ... A predicate of an
// (immutable) error value gives the same answer every time it is asked.
type predKey struct {
	name string
	arg  ssa.Value
}

type fnInfo struct {
	fn      *ssa.Function
	pfacts  map[predKey][]fact
	facts   map[ssa.Value][]fact
	tracked map[*ssa.Phi]bool
	joins   map[*ssa.BasicBlock][]*ssa.Phi // tracked phis per block
	live    map[*ssa.Phi]map[*ssa.BasicBlock]bool
	ctxJoin map[*ssa.BasicBlock]bool // blocks whose entering edge is recorded (tracked joins)
	// retested: values that decide more than one branch (`if rc == nil && never`
	// ... `if rc == nil`): the outcome of one test is remembered along the path
	// while another test of the same value is still reachable.
	retested map[ssa.Value]map[*ssa.BasicBlock]bool
	sticky   map[ssa.Value]bool // parameters the search learnt something about
}

var (
	infoMu    sync.Mutex
	infoCache = map[*ssa.Function]*fnInfo{}
)

func infoOf(fn *ssa.Function) *fnInfo {
	infoMu.Lock()
	defer infoMu.Unlock()
	if fi, ok := infoCache[fn]; ok {
		return fi
	}
	fi := buildInfo(fn)
	infoCache[fn] = fi
	return fi
}

// condAtoms decomposes a branch condition into (value, abstract value on the
// true edge) pairs: `v != nil` gives (v, nonzero); `!b` gives (b, zero); a
// boolean value b gives (b, nonzero).
func condAtoms(c ssa.Value) (ssa.Value, absval) {
	switch x := c.(type) {
	case *ssa.UnOp:
		if x.Op == token.NOT {
			v, a := condAtoms(x.X)
			return v, a.flip()
		}
	case *ssa.BinOp:
		// len(x) > 0  /  0 < len(x)
		if x.Op == token.GTR || x.Op == token.LSS {
			l, k := x.X, x.Y
			if x.Op == token.LSS {
				l, k = x.Y, x.X
			}
			if kc, ok := k.(*ssa.Const); ok && constAbs(kc) == zero && isLenCall(l) {
				return l, nonzero
			}
		}
		if x.Op == token.EQL || x.Op == token.NEQ {
			var other ssa.Value
			var k *ssa.Const
			if kc, ok := x.Y.(*ssa.Const); ok {
				other, k = x.X, kc
			} else if kc, ok := x.X.(*ssa.Const); ok {
				other, k = x.Y, kc
			}
			if k != nil {
				kv := constAbs(k)
				isBool := false
				if bt, ok := k.Type().Underlying().(*types.Basic); ok && bt.Info()&types.IsBoolean != 0 {
					isBool = true
				}
				switch {
				case isBool && kv != unk:
					// other == true / other != false: other holds; the two remaining forms: it does not
					v, a := condAtoms(other)
					if (x.Op == token.EQL) != (kv == nonzero) {
						a = a.flip()
					}
					return v, a
				case kv == zero:
					if x.Op == token.EQL {
						return unwrap(other), zero
					}
					return unwrap(other), nonzero
				}
			}
		}
	}
	return unwrap(c), nonzero
}

func constAbs(k *ssa.Const) absval {
	if k.Value == nil {
		// nil, or the zero value of an aggregate
		switch k.Type().Underlying().(type) {
		case *types.Pointer, *types.Interface, *types.Slice, *types.Map, *types.Chan, *types.Signature:
			return zero
		}
		if b, ok := k.Type().Underlying().(*types.Basic); ok && b.Kind() == types.UntypedNil {
			return zero
		}
		return unk
	}
	switch k.Value.Kind() {
	case constant.Bool:
		if constant.BoolVal(k.Value) {
			return nonzero
		}
		return zero
	case constant.Int:
		if constant.Sign(k.Value) == 0 {
			return zero
		}
		return nonzero
	case constant.String:
		if constant.StringVal(k.Value) == "" {
			return zero
		}
		return nonzero
	}
	return unk
}

func buildInfo(fn *ssa.Function) *fnInfo {
	fi := &fnInfo{fn: fn, pfacts: map[predKey][]fact{}, facts: map[ssa.Value][]fact{}, tracked: map[*ssa.Phi]bool{}, joins: map[*ssa.BasicBlock][]*ssa.Phi{},
		live: map[*ssa.Phi]map[*ssa.BasicBlock]bool{}, ctxJoin: map[*ssa.BasicBlock]bool{}}
	// dominating facts
	for _, b := range fn.Blocks {
		if len(b.Instrs) == 0 {
			continue
		}
		ifi, ok := b.Instrs[len(b.Instrs)-1].(*ssa.If)
		if !ok || len(b.Succs) != 2 || b.Succs[0] == b.Succs[1] {
			continue
		}
		v, tv := condAtoms(ifi.Cond)
		for i, s := range b.Succs {
			if len(s.Preds) != 1 {
				continue
			}
			val := tv
			if i == 1 {
				val = tv.flip()
			}
			fi.facts[v] = append(fi.facts[v], fact{v, val, s})
			// a filter returns nil or its error argument: non-nil result => non-nil argument
			if val == nonzero {
				if fc, ok := v.(*ssa.Call); ok {
					if ai, isFilter := errFilterArg[CalleeName(fc)]; isFilter && ai < len(fc.Call.Args) {
						a := unwrap(fc.Call.Args[ai])
						fi.facts[a] = append(fi.facts[a], fact{a, nonzero, s})
					}
				}
			}
			if k, ok := purePred(v); ok {
				fi.pfacts[k] = append(fi.pfacts[k], fact{v, val, s})
			}
		}
	}
	// consumers: which phis decide a branch (directly, through wrappers, or by
	// feeding another phi)
	users := map[*ssa.Phi][]*ssa.BasicBlock{}
	var phis []*ssa.Phi
	for _, b := range fn.Blocks {
		for _, in := range b.Instrs {
			p, ok := in.(*ssa.Phi)
			if !ok {
				break
			}
			phis = append(phis, p)
		}
	}
	phiOf := func(v ssa.Value) *ssa.Phi {
		v = unwrap(v)
		p, _ := v.(*ssa.Phi)
		return p
	}
	for _, b := range fn.Blocks {
		if len(b.Instrs) == 0 {
			continue
		}
		if ifi, ok := b.Instrs[len(b.Instrs)-1].(*ssa.If); ok {
			v, _ := condAtoms(ifi.Cond)
			if p := phiOf(v); p != nil {
				users[p] = append(users[p], b)
			}
			// phis further back in the condition's slice (IgnoreNotFound(err) != nil,
			// kerrors.IsNotFound(err), len(x) ...): their entering edge is recorded so
			// that contextual edges can be matched, even though their value stays unknown
			for _, p := range condPhis(ifi.Cond) {
				dup := false
				for _, ub := range users[p] {
					if ub == b {
						dup = true
					}
				}
				if !dup {
					users[p] = append(users[p], b)
				}
			}
		}
	}
	// propagate through phi operands to a fixed point
	for changed := true; changed; {
		changed = false
		for _, p := range phis {
			if len(users[p]) == 0 {
				continue
			}
			for _, e := range p.Edges {
				if q := phiOf(e); q != nil && q != p {
					have := false
					for _, ub := range users[q] {
						if ub == p.Block() {
							have = true
						}
					}
					if !have {
						users[q] = append(users[q], p.Block())
						changed = true
					}
				}
			}
		}
	}
	for p, ubs := range users {
		if len(ubs) == 0 {
			continue
		}
		fi.tracked[p] = true
		fi.joins[p.Block()] = append(fi.joins[p.Block()], p)
		fi.ctxJoin[p.Block()] = true
		// live = blocks from which a consumer is reachable
		lv := map[*ssa.BasicBlock]bool{}
		var q []*ssa.BasicBlock
		for _, ub := range ubs {
			if !lv[ub] {
				lv[ub] = true
				q = append(q, ub)
			}
		}
		for len(q) > 0 {
			x := q[0]
			q = q[1:]
			for _, pr := range x.Preds {
				if !lv[pr] && pr != p.Block() {
					lv[pr] = true
					q = append(q, pr)
				}
			}
		}
		lv[p.Block()] = true
		fi.live[p] = lv
	}
	for b := range fi.joins {
		sort.Slice(fi.joins[b], func(i, j int) bool { return fi.joins[b][i].Pos() < fi.joins[b][j].Pos() })
	}
	// values tested by two or more branches
	tests := map[ssa.Value][]*ssa.BasicBlock{}
	for _, b := range fn.Blocks {
		if len(b.Instrs) == 0 {
			continue
		}
		if ifi, ok := b.Instrs[len(b.Instrs)-1].(*ssa.If); ok {
			v, _ := condAtoms(ifi.Cond)
			if _, isConst := v.(*ssa.Const); !isConst {
				tests[v] = append(tests[v], b)
			}
		}
	}
	fi.retested = map[ssa.Value]map[*ssa.BasicBlock]bool{}
	fi.sticky = map[ssa.Value]bool{}
	for v, bs := range tests {
		if len(bs) < 2 {
			continue
		}
		lv := map[*ssa.BasicBlock]bool{}
		var q []*ssa.BasicBlock
		for _, ub := range bs {
			if !lv[ub] {
				lv[ub] = true
				q = append(q, ub)
			}
		}
		var def *ssa.BasicBlock
		if in, ok := v.(ssa.Instruction); ok {
			def = in.Block()
		}
		for len(q) > 0 {
			x := q[0]
			q = q[1:]
			if x == def {
				continue
			}
			for _, pr := range x.Preds {
				if !lv[pr] {
					lv[pr] = true
					q = append(q, pr)
				}
			}
		}
		fi.retested[v] = lv
	}
	return fi
}

// condPhis lists the phis within four operand steps of a condition.
func condPhis(c ssa.Value) []*ssa.Phi {
	var out []*ssa.Phi
	seen := map[ssa.Value]bool{}
	var walk func(v ssa.Value, d int)
	walk = func(v ssa.Value, d int) {
		if v == nil || seen[v] || d > 4 {
			return
		}
		seen[v] = true
		switch x := v.(type) {
		case *ssa.Phi:
			out = append(out, x)
		case *ssa.BinOp:
			walk(x.X, d+1)
			walk(x.Y, d+1)
		case *ssa.UnOp:
			walk(x.X, d+1)
		case *ssa.Extract:
			walk(x.Tuple, d+1)
		case *ssa.Call:
			for _, a := range x.Call.Args {
				walk(a, d+1)
			}
			if x.Call.IsInvoke() {
				walk(x.Call.Value, d+1)
			}
		case *ssa.ChangeInterface:
			walk(x.X, d+1)
		case *ssa.ChangeType:
			walk(x.X, d+1)
		case *ssa.Convert:
			walk(x.X, d+1)
		case *ssa.MakeInterface:
			walk(x.X, d+1)
		case *ssa.TypeAssert:
			walk(x.X, d+1)
		case *ssa.Field:
			walk(x.X, d+1)
		case *ssa.FieldAddr:
			walk(x.X, d+1)
		}
	}
	walk(c, 0)
	return out
}

// purePred recognises a static call of a func(error) bool.
func purePred(v ssa.Value) (predKey, bool) {
	c, ok := v.(*ssa.Call)
	if !ok || c.Call.IsInvoke() || len(c.Call.Args) != 1 {
		return predKey{}, false
	}
	f := c.Call.StaticCallee()
	if f == nil || f.Signature.Recv() != nil || f.Signature.Results().Len() != 1 || f.Signature.Params().Len() != 1 {
		return predKey{}, false
	}
	if !isErrorType(f.Signature.Params().At(0).Type()) {
		return predKey{}, false
	}
	if b, ok := f.Signature.Results().At(0).Type().Underlying().(*types.Basic); !ok || b.Info()&types.IsBoolean == 0 {
		return predKey{}, false
	}
	a := c.Call.Args[0]
	for {
		if ci, ok := a.(*ssa.ChangeInterface); ok {
			a = ci.X
			continue
		}
		break
	}
	return predKey{CalleeName(c), a}, true
}

// unwrap strips conversions and nil-preserving wrappers.
// capturedParam: v loads a variable a closure captured, the variable is the cell
// of a parameter of the enclosing function, and nothing stores to the cell
// but the spill of the parameter: every such load is the parameter.
func capturedParam(v ssa.Value) *ssa.Parameter {
	ld, ok := v.(*ssa.UnOp)
	if !ok || ld.Op != token.MUL {
		return nil
	}
	var cell ssa.Value
	switch x := ld.X.(type) {
	case *ssa.FreeVar:
		fn := x.Parent()
		par := fn.Parent()
		if par == nil {
			return nil
		}
		idx := -1
		for i, fv := range fn.FreeVars {
			if fv == x {
				idx = i
			}
		}
		for _, b := range par.Blocks {
			for _, in := range b.Instrs {
				if mc, ok := in.(*ssa.MakeClosure); ok && mc.Fn == ssa.Value(fn) && idx >= 0 && idx < len(mc.Bindings) {
					cell = mc.Bindings[idx]
				}
			}
		}
		// no store through the captured variable inside the closure
		if x.Referrers() != nil {
			for _, r := range *x.Referrers() {
				if _, isStore := r.(*ssa.Store); isStore {
					return nil
				}
			}
		}
	case *ssa.Alloc:
		cell = x
	}
	a, ok := cell.(*ssa.Alloc)
	if !ok || a.Referrers() == nil {
		return nil
	}
	var param *ssa.Parameter
	for _, r := range *a.Referrers() {
		switch y := r.(type) {
		case *ssa.Store:
			p, isParam := y.Val.(*ssa.Parameter)
			if y.Addr != ssa.Value(a) || !isParam || param != nil {
				return nil
			}
			param = p
		case *ssa.UnOp, *ssa.MakeClosure, *ssa.DebugRef:
		default:
			return nil
		}
	}
	return param
}

func unwrap(v ssa.Value) ssa.Value {
	for {
		switch x := v.(type) {
		case *ssa.UnOp:
			if p := capturedParam(x); p != nil {
				return p
			}
			return v
		case *ssa.ChangeInterface:
			v = x.X
		case *ssa.ChangeType:
			v = x.X
		case *ssa.Call:
			if nilPreserving[CalleeName(x)] && len(x.Call.Args) > 0 {
				v = x.Call.Args[0]
				continue
			}
			return v
		default:
			return v
		}
	}
}

// penv is what a path knows.
type penv struct {
	phi  map[*ssa.Phi]absval
	pred map[*ssa.BasicBlock]int
	// leaf / at: the non-phi value a phi stands for on this path and the block
	// at whose end it was bound (facts dominating that block hold on the path)
	leaf   map[*ssa.Phi]ssa.Value
	at     map[*ssa.Phi]*ssa.BasicBlock
	atEdge map[*ssa.Phi]int
	val    map[ssa.Value]absval // outcomes of earlier tests of re-tested values
}

func newEnv() *penv {
	return &penv{phi: map[*ssa.Phi]absval{}, pred: map[*ssa.BasicBlock]int{}, leaf: map[*ssa.Phi]ssa.Value{}, at: map[*ssa.Phi]*ssa.BasicBlock{}, atEdge: map[*ssa.Phi]int{}, val: map[ssa.Value]absval{}}
}

func (e *penv) key() string {
	if e == nil || (len(e.phi) == 0 && len(e.pred) == 0 && len(e.leaf) == 0 && len(e.val) == 0) {
		return ""
	}
	var parts []string
	for v, a := range e.val {
		bi := -1
		if in, ok := v.(ssa.Instruction); ok && in.Block() != nil {
			bi = in.Block().Index
		}
		parts = append(parts, "v"+strconv.Itoa(bi)+"."+v.Name()+"="+strconv.Itoa(int(a)))
	}
	for p, l := range e.leaf {
		parts = append(parts, "l"+strconv.Itoa(p.Block().Index)+"."+p.Name()+"="+l.Name()+"@"+strconv.Itoa(e.at[p].Index)+"."+strconv.Itoa(e.atEdge[p]))
	}
	for p, a := range e.phi {
		parts = append(parts, "p"+strconv.Itoa(p.Block().Index)+"."+p.Name()+"="+strconv.Itoa(int(a)))
	}
	for b, i := range e.pred {
		parts = append(parts, "b"+strconv.Itoa(b.Index)+"#"+strconv.Itoa(i))
	}
	sort.Strings(parts)
	return strings.Join(parts, ";")
}

// abs evaluates v as seen at the end of block at under env.
func (fi *fnInfo) abs(v ssa.Value, env *penv, at *ssa.BasicBlock, edge int, depth int) absval {
	if depth > 8 {
		return unk
	}
	v = unwrap(v)
	if env != nil {
		if a, ok := env.val[v]; ok {
			return a
		}
	}
	switch x := v.(type) {
	case *ssa.Const:
		return constAbs(x)
	case *ssa.Phi:
		if env != nil {
			if a, ok := env.phi[x]; ok {
				return a
			}
		}
	case *ssa.MakeInterface, *ssa.Alloc, *ssa.MakeClosure, *ssa.Function, *ssa.Global, *ssa.MakeMap, *ssa.MakeSlice, *ssa.MakeChan, *ssa.FieldAddr, *ssa.IndexAddr:
		return nonzero
	case *ssa.Call:
		if neverNil[CalleeName(x)] {
			return nonzero
		}
		if b, ok := x.Call.Value.(*ssa.Builtin); ok {
			switch b.Name() {
			case "len":
				// emptiness of a slice that is only ever nil or grown by append
				return fi.lenAbs(x.Call.Args[0], env, at, edge, depth+1)
			case "append":
				if appendsElements(x) {
					return nonzero // neither nil nor empty
				}
			}
		}
		// fmt.Sprintf with literal text in its format never yields ""
		if CalleeName(x) == "fmt.Sprintf" && len(x.Call.Args) > 0 {
			if f, ok := ConstString(x.Call.Args[0]); ok && hasLiteralText(f) {
				return nonzero
			}
		}
		if k, ok := purePred(x); ok {
			for _, f := range fi.pfacts[k] {
				if f.v != v && (f.at == at || f.at.Dominates(at)) {
					return f.val
				}
			}
			if ev, val := fi.edgeFact(at, edge); ev != nil && ev != v {
				if k2, ok := purePred(ev); ok && k2 == k {
					return val
				}
			}
			// the argument is a phi the path has bound to a value: ask about that value
			if p, isPhi := k.arg.(*ssa.Phi); isPhi && env != nil {
				if l, ok := env.leaf[p]; ok {
					bat := env.at[p]
					for _, f := range fi.pfacts[predKey{k.name, l}] {
						if f.at == bat || f.at.Dominates(bat) {
							return f.val
						}
					}
					if ev, val := fi.edgeFact(bat, env.atEdge[p]); ev != nil {
						if k2, ok := purePred(ev); ok && k2 == (predKey{k.name, l}) {
							return val
						}
					}
				}
			}
		}
	case *ssa.UnOp:
		if x.Op == token.NOT {
			return fi.abs(x.X, env, at, edge, depth+1).flip()
		}
	case *ssa.BinOp:
		// `i >= 0`, `i != -1`, … on the result of an index search: -1 or a slice index
		if r := fi.signTest(x, env, depth); r != unk {
			return r
		}
		if x.Op == token.EQL || x.Op == token.NEQ {
			in, tv := condAtoms(x)
			if in != ssa.Value(x) {
				a := fi.abs(in, env, at, edge, depth+1)
				if a == unk {
					return unk
				}
				if a == tv {
					return nonzero
				}
				return zero
			}
		}
	}
	for _, f := range fi.facts[v] {
		if f.at == at || f.at.Dominates(at) {
			return f.val
		}
	}
	if ev, val := fi.edgeFact(at, edge); ev != nil && ev == v {
		return val
	}
	return unk
}

// sign: -1 when v is the constant -1, +1 when it is a slice index or a length
// (never negative), 0 when unknown — under what the path has bound.
func (fi *fnInfo) sign(v ssa.Value, env *penv, depth int) int {
	if depth > 6 {
		return 0
	}
	v = unwrap(v)
	switch x := v.(type) {
	case *ssa.Const:
		if x.Value != nil && x.Value.Kind() == constant.Int {
			if n, ok := constant.Int64Val(x.Value); ok {
				if n == -1 {
					return -1
				}
				if n >= 0 {
					return 1
				}
			}
		}
	case *ssa.Phi:
		if env != nil {
			if l, ok := env.leaf[x]; ok {
				return fi.sign(l, env, depth+1)
			}
			if a, ok := env.phi[x]; ok {
				// bound to a constant operand: which ones are there?
				m1, other := false, false
				for _, e := range x.Edges {
					if k, isC := e.(*ssa.Const); isC && constAbs(k) == a {
						if fi.sign(k, nil, depth+1) == -1 {
							m1 = true
						} else {
							other = true
						}
					}
				}
				switch {
				case a == zero:
					return 1
				case m1 && !other:
					return -1
				}
				return 0
			}
		}
		first := 0
		for i, e := range x.Edges {
			if e == ssa.Value(x) {
				continue
			}
			sg := fi.sign(e, env, depth+1)
			if i == 0 || first == 0 {
				first = sg
			}
			if sg == 0 || sg != first {
				return 0
			}
		}
		return first
	case *ssa.BinOp:
		// the index of `for i := range s`: i = φ(-1, i) + 1
		if x.Op == token.ADD {
			for _, pr := range [][2]ssa.Value{{x.X, x.Y}, {x.Y, x.X}} {
				k, isC := pr[1].(*ssa.Const)
				p, isPhi := pr[0].(*ssa.Phi)
				if !isC || !isPhi || k.Value == nil || k.Value.Kind() != constant.Int {
					continue
				}
				if n, ok := constant.Int64Val(k.Value); !ok || n != 1 {
					continue
				}
				okShape := len(p.Edges) > 0
				for _, e := range p.Edges {
					if e == ssa.Value(x) {
						continue
					}
					if kc, isK := e.(*ssa.Const); !isK || fi.sign(kc, nil, depth+1) == 0 {
						okShape = false
					}
				}
				if okShape {
					return 1
				}
			}
		}
	case *ssa.Call:
		if b, ok := x.Call.Value.(*ssa.Builtin); ok && (b.Name() == "len" || b.Name() == "cap") {
			return 1
		}
	}
	return 0
}

// signTest decides comparisons with 0 / -1 of a value whose sign is known.
func (fi *fnInfo) signTest(x *ssa.BinOp, env *penv, depth int) absval {
	var other ssa.Value
	var k *ssa.Const
	op := x.Op
	if kc, ok := x.Y.(*ssa.Const); ok {
		other, k = x.X, kc
	} else if kc, ok := x.X.(*ssa.Const); ok {
		other, k = x.Y, kc
		switch op { // mirror
		case token.LSS:
			op = token.GTR
		case token.GTR:
			op = token.LSS
		case token.LEQ:
			op = token.GEQ
		case token.GEQ:
			op = token.LEQ
		}
	}
	if k == nil || k.Value == nil || k.Value.Kind() != constant.Int {
		return unk
	}
	n, ok := constant.Int64Val(k.Value)
	if !ok || (n != 0 && n != -1) {
		return unk
	}
	sg := fi.sign(other, env, depth+1)
	if sg == 0 {
		return unk
	}
	nonneg := sg == 1
	b := func(t bool) absval {
		if t {
			return nonzero
		}
		return zero
	}
	switch {
	case op == token.GEQ && n == 0, op == token.GTR && n == -1, op == token.NEQ && n == -1:
		return b(nonneg)
	case op == token.LSS && n == 0, op == token.LEQ && n == -1, op == token.EQL && n == -1:
		return b(!nonneg)
	}
	return unk
}

func isLenCall(v ssa.Value) bool {
	c, ok := v.(*ssa.Call)
	if !ok {
		return false
	}
	b, ok := c.Call.Value.(*ssa.Builtin)
	return ok && b.Name() == "len"
}

// appendsElements: append(s, e1, …) with at least one element (not a spread).
func appendsElements(c *ssa.Call) bool {
	if len(c.Call.Args) != 2 {
		return false
	}
	sl, ok := c.Call.Args[1].(*ssa.Slice)
	if !ok {
		return false
	}
	al, ok := sl.X.(*ssa.Alloc)
	if !ok {
		return false
	}
	arr, ok := al.Type().Underlying().(*types.Pointer).Elem().Underlying().(*types.Array)
	return ok && arr.Len() >= 1
}

// lenAbs: is the slice empty (zero) or not (nonzero)? Only answered for slices
// for which nil-ness and emptiness coincide: the nil constant, an append of
// elements, and phis of such values.
func (fi *fnInfo) lenAbs(v ssa.Value, env *penv, at *ssa.BasicBlock, edge, depth int) absval {
	if depth > 8 {
		return unk
	}
	switch x := v.(type) {
	case *ssa.Const:
		if x.Value == nil {
			return zero
		}
	case *ssa.Call:
		if b, ok := x.Call.Value.(*ssa.Builtin); ok && b.Name() == "append" && appendsElements(x) {
			return nonzero
		}
	case *ssa.Phi:
		if fi.purelyGrown(x, map[*ssa.Phi]bool{}) && env != nil {
			if a, ok := env.phi[x]; ok {
				return a
			}
		}
	}
	return unk
}

// purelyGrown: every leaf of the phi is the nil constant or an append of elements.
func (fi *fnInfo) purelyGrown(p *ssa.Phi, seen map[*ssa.Phi]bool) bool {
	if seen[p] {
		return true
	}
	seen[p] = true
	for _, e := range p.Edges {
		switch x := e.(type) {
		case *ssa.Const:
			if x.Value != nil {
				return false
			}
		case *ssa.Call:
			b, ok := x.Call.Value.(*ssa.Builtin)
			if !ok || b.Name() != "append" || !appendsElements(x) {
				return false
			}
		case *ssa.Phi:
			if !fi.purelyGrown(x, seen) {
				return false
			}
		default:
			return false
		}
	}
	return true
}

// hasLiteralText: the format contains a character outside of %-verbs.
func hasLiteralText(f string) bool {
	for i := 0; i < len(f); i++ {
		if f[i] != '%' {
			return true
		}
		// skip the verb (flags, width, precision, verb letter); "%%" is literal text
		i++
		if i < len(f) && f[i] == '%' {
			return true
		}
		for i < len(f) && strings.ContainsRune("+-# 0123456789.[]*", rune(f[i])) {
			i++
		}
	}
	return false
}

// edgeFact is what taking out-edge idx of b establishes: (value, abstract value).
func (fi *fnInfo) edgeFact(b *ssa.BasicBlock, idx int) (ssa.Value, absval) {
	if idx < 0 || len(b.Instrs) == 0 || len(b.Succs) != 2 || b.Succs[0] == b.Succs[1] {
		return nil, unk
	}
	ifi, ok := b.Instrs[len(b.Instrs)-1].(*ssa.If)
	if !ok {
		return nil, unk
	}
	v, tv := condAtoms(ifi.Cond)
	if idx == 1 {
		tv = tv.flip()
	}
	return v, tv
}

// decide returns which successor index of b is the only feasible one under
// env, or -1.
func (fi *fnInfo) decide(b *ssa.BasicBlock, env *penv) int {
	if len(b.Instrs) == 0 {
		return -1
	}
	ifi, ok := b.Instrs[len(b.Instrs)-1].(*ssa.If)
	if !ok {
		return -1
	}
	a := fi.abs(ifi.Cond, env, b, -1, 0)
	switch a {
	case nonzero:
		return 0
	case zero:
		return 1
	}
	return -1
}

// enter computes the environment after taking edge (b -> b.Succs[i]).
func (fi *fnInfo) enter(b *ssa.BasicBlock, i int, env *penv) *penv {
	s := b.Succs[i]
	ne := newEnv()
	// predecessor index of this edge in s (ambiguous when b reaches s twice)
	pi, cnt := -1, 0
	for j, p := range s.Preds {
		if p == b {
			if pi < 0 {
				pi = j
			}
			cnt++
		}
	}
	if env != nil {
		for p, a := range env.phi {
			if p.Block() != s && fi.live[p][s] {
				ne.phi[p] = a
			}
		}
		for p, l := range env.leaf {
			if p.Block() != s && fi.live[p][s] {
				ne.leaf[p] = l
				ne.at[p] = env.at[p]
				ne.atEdge[p] = env.atEdge[p]
			}
		}
		for jb, j := range env.pred {
			if jb != s && fi.joinLive(jb, s) {
				ne.pred[jb] = j
			}
		}
		for v, a := range env.val {
			if in, ok := v.(ssa.Instruction); ok && in.Block() == s {
				continue // redefined
			}
			if fi.retested[v][s] || fi.sticky[v] {
				ne.val[v] = a
			}
		}
	}
	if ev, val := fi.edgeFact(b, i); ev != nil && val != unk && fi.retested[ev][s] {
		if in, ok := ev.(ssa.Instruction); !ok || in.Block() != s {
			ne.val[ev] = val
		}
	}
	// a tested phi that this path bound to one operand: the test is a test of that
	// operand (`c := a && ctl` entered over the ctl edge, then `if c`: ctl is what was
	// tested). Kept for parameters, which nothing redefines.
	if ev, val := fi.edgeFact(b, i); ev != nil && val != unk && env != nil {
		if p, isPhi := ev.(*ssa.Phi); isPhi {
			if l, ok := env.leaf[p]; ok {
				if lp := unwrap(l); lp != nil {
					if _, isParam := lp.(*ssa.Parameter); isParam {
						ne.val[lp] = val
						fi.sticky[lp] = true
					}
				}
			}
		}
	}
	if ps := fi.joins[s]; len(ps) > 0 && cnt == 1 {
		for _, p := range ps {
			if a := fi.abs(p.Edges[pi], env, b, i, 0); a != unk {
				ne.phi[p] = a
			}
			in := p.Edges[pi]
			for {
				if ci, ok := in.(*ssa.ChangeInterface); ok {
					in = ci.X
					continue
				}
				break
			}
			if q, isPhi := in.(*ssa.Phi); isPhi {
				if env != nil {
					if l, ok := env.leaf[q]; ok {
						ne.leaf[p], ne.at[p], ne.atEdge[p] = l, env.at[q], env.atEdge[q]
					}
				}
			} else if _, isConst := in.(*ssa.Const); !isConst {
				ne.leaf[p], ne.at[p], ne.atEdge[p] = in, b, i
			}
		}
		ne.pred[s] = pi
	}
	return ne
}

func (fi *fnInfo) joinLive(j, at *ssa.BasicBlock) bool {
	for _, p := range fi.joins[j] {
		if fi.live[p][at] {
			return true
		}
	}
	return false
}

// viaMatches: does env satisfy the context "b12#1;b15#0"?
func viaMatches(via string, env *penv, fn *ssa.Function) bool {
	if via == "" {
		return true
	}
	for _, part := range strings.Split(via, ";") {
		k := strings.Index(part, "#")
		if k < 0 {
			return false
		}
		bi, err1 := strconv.Atoi(part[1:k])
		pi, err2 := strconv.Atoi(part[k+1:])
		if err1 != nil || err2 != nil || bi >= len(fn.Blocks) {
			return false
		}
		if env == nil {
			return false
		}
		got, ok := env.pred[fn.Blocks[bi]]
		if !ok || got != pi {
			return false
		}
	}
	return true
}

// ViaOf renders the context "block entered through predecessor index".
func ViaOf(b *ssa.BasicBlock, pred int) string {
	return "b" + strconv.Itoa(b.Index) + "#" + strconv.Itoa(pred)
}

type sstate struct {
	b   *ssa.BasicBlock
	env *penv
}

// reachSens is the path-sensitive search: start edges / blocks, edges to avoid.
// It returns the blocks reached and a block-level BFS tree for witnesses.
func reachSens(startBlocks []*ssa.BasicBlock, startEdges []Edge, avoid map[Edge]bool) (map[*ssa.BasicBlock]bool, map[*ssa.BasicBlock]*ssa.BasicBlock) {
	return reachOpts(startBlocks, startEdges, avoid, nil, nil)
}

// reachOpts: within (when non-nil) confines the search to those blocks;
// blocks of noExpand are reached but their successors are not followed.
func reachOpts(startBlocks []*ssa.BasicBlock, startEdges []Edge, avoid map[Edge]bool, within, noExpand map[*ssa.BasicBlock]bool) (map[*ssa.BasicBlock]bool, map[*ssa.BasicBlock]*ssa.BasicBlock) {
	return reachVisit(startBlocks, startEdges, avoid, within, noExpand, nil)
}

// reachVisit additionally calls visit for every (block, path knowledge) state.
func reachVisit(startBlocks []*ssa.BasicBlock, startEdges []Edge, avoid map[Edge]bool, within, noExpand map[*ssa.BasicBlock]bool, visit func(*ssa.BasicBlock, *fnInfo, *penv)) (map[*ssa.BasicBlock]bool, map[*ssa.BasicBlock]*ssa.BasicBlock) {
	seen := map[*ssa.BasicBlock]bool{}
	parent := map[*ssa.BasicBlock]*ssa.BasicBlock{}
	var fn *ssa.Function
	if len(startBlocks) > 0 {
		fn = startBlocks[0].Parent()
	} else if len(startEdges) > 0 {
		fn = startEdges[0].From.Parent()
	}
	if fn == nil {
		return seen, parent
	}
	fi := infoOf(fn)
	// contextual avoid edges, indexed by plain edge
	var ctxAvoid map[Edge][]string
	for e := range avoid {
		if e.Via != "" {
			if ctxAvoid == nil {
				ctxAvoid = map[Edge][]string{}
			}
			pe := Edge{From: e.From, Idx: e.Idx}
			ctxAvoid[pe] = append(ctxAvoid[pe], e.Via)
		}
	}
	visited := map[*ssa.BasicBlock]map[string]bool{}
	var q []sstate
	push := func(b *ssa.BasicBlock, env *penv, from *ssa.BasicBlock) {
		k := env.key()
		if visited[b] == nil {
			visited[b] = map[string]bool{}
		}
		if visited[b][k] {
			return
		}
		// bound the state space: beyond 64 environments per block, continue insensitively
		if len(visited[b]) > 256 {
			if visited[b][""] {
				return
			}
			env, k = newEnv(), ""
		}
		visited[b][k] = true
		if !seen[b] {
			seen[b] = true
			if from != nil {
				parent[b] = from
			}
		}
		q = append(q, sstate{b, env})
	}
	for _, b := range startBlocks {
		push(b, newEnv(), nil)
	}
	for _, e := range startEdges {
		if avoid[Edge{From: e.From, Idx: e.Idx}] || avoid[e] {
			continue
		}
		env := newEnv()
		seedVia(fi, e.Via, env)
		// the branch taken is itself a fact (dominating facts cover the single-pred case)
		if within != nil && !within[e.To()] {
			continue
		}
		ne := fi.enter(e.From, e.Idx, env)
		push(e.To(), ne, e.From)
	}
	for len(q) > 0 {
		st := q[0]
		q = q[1:]
		if visit != nil {
			visit(st.b, fi, st.env)
		}
		if noExpand[st.b] {
			continue
		}
		only := fi.decide(st.b, st.env)
		for i, s := range st.b.Succs {
			if only >= 0 && i != only {
				continue
			}
			pe := Edge{From: st.b, Idx: i}
			if avoid[pe] {
				continue
			}
			skip := false
			for _, via := range ctxAvoid[pe] {
				if viaMatches(via, st.env, fn) {
					skip = true
				}
			}
			if skip || (within != nil && !within[s]) {
				continue
			}
			push(s, fi.enter(st.b, i, st.env), st.b)
		}
	}
	return seen, parent
}

// seedVia initialises env from a context string (used for start edges).
func seedVia(fi *fnInfo, via string, env *penv) {
	if via == "" {
		return
	}
	for _, part := range strings.Split(via, ";") {
		k := strings.Index(part, "#")
		if k < 0 {
			continue
		}
		bi, err1 := strconv.Atoi(part[1:k])
		pi, err2 := strconv.Atoi(part[k+1:])
		if err1 != nil || err2 != nil || bi >= len(fi.fn.Blocks) {
			continue
		}
		jb := fi.fn.Blocks[bi]
		env.pred[jb] = pi
		if pi < len(jb.Preds) {
			for _, p := range fi.joins[jb] {
				if a := fi.abs(p.Edges[pi], nil, jb.Preds[pi], -1, 0); a != unk {
					env.phi[p] = a
				}
			}
		}
	}
}

// ErrReturn is one way control leaves the function: the error value returned
// (or stored into the spilled error result) and what the path knows about it.
type ErrReturn struct {
	At     ssa.Instruction
	Val    ssa.Value
	NonNil bool
	Nil    bool
}

// ErrorReturnsFrom explores, path-sensitively, everything reachable from the
// start edges and reports each return of the function's last (error) result
// together with its nil-ness on that path. Functions with a defer spill their
// results: there the store into the error slot is the return event.
func ErrorReturnsFrom(starts []Edge, avoid []Edge) []ErrReturn {
	if len(starts) == 0 {
		return nil
	}
	fn := starts[0].From.Parent()
	nres := fn.Signature.Results().Len()
	if nres == 0 || !isErrorType(fn.Signature.Results().At(nres-1).Type()) {
		return nil
	}
	slots := map[*ssa.Alloc]bool{}
	for _, b := range fn.Blocks {
		if r, ok := b.Instrs[len(b.Instrs)-1].(*ssa.Return); ok && len(r.Results) == nres {
			if ld, ok := r.Results[nres-1].(*ssa.UnOp); ok && ld.Op == token.MUL {
				if a, ok := ld.X.(*ssa.Alloc); ok {
					slots[a] = true
				}
			}
		}
	}
	av := map[Edge]bool{}
	for _, e := range avoid {
		av[e] = true
	}
	type key struct {
		in  ssa.Instruction
		val absval
	}
	dedup := map[key]bool{}
	var out []ErrReturn
	add := func(in ssa.Instruction, v ssa.Value, a absval) {
		if dedup[key{in, a}] {
			return
		}
		dedup[key{in, a}] = true
		out = append(out, ErrReturn{At: in, Val: v, NonNil: a == nonzero, Nil: a == zero})
	}
	reachVisit(nil, starts, av, nil, nil, func(b *ssa.BasicBlock, fi *fnInfo, env *penv) {
		for _, in := range b.Instrs {
			switch x := in.(type) {
			case *ssa.Store:
				if a, ok := x.Addr.(*ssa.Alloc); ok && slots[a] {
					add(x, x.Val, fi.abs(x.Val, env, b, -1, 0))
				}
			case *ssa.Return:
				if len(x.Results) != nres {
					continue
				}
				v := x.Results[nres-1]
				if ld, ok := v.(*ssa.UnOp); ok && ld.Op == token.MUL {
					if a, ok := ld.X.(*ssa.Alloc); ok && slots[a] {
						continue // reported at the store
					}
				}
				add(x, v, fi.abs(v, env, b, -1, 0))
			}
		}
	})
	sort.Slice(out, func(i, j int) bool { return out[i].At.Pos() < out[j].At.Pos() })
	return out
}

// BoolReturnsFrom explores, path-sensitively, everything reachable from the
// start edges and reports for every return of result idx what the path knows
// about it (NonNil = true / non-zero, Nil = false / zero).
func BoolReturnsFrom(starts []Edge, idx int) []ErrReturn {
	if len(starts) == 0 {
		return nil
	}
	type key struct {
		in  ssa.Instruction
		val absval
	}
	dedup := map[key]bool{}
	var out []ErrReturn
	reachVisit(nil, starts, map[Edge]bool{}, nil, nil, func(b *ssa.BasicBlock, fi *fnInfo, env *penv) {
		r, ok := b.Instrs[len(b.Instrs)-1].(*ssa.Return)
		if !ok || idx >= len(r.Results) {
			return
		}
		v := ReturnValue(r, idx)
		a := fi.abs(v, env, b, -1, 0)
		if dedup[key{r, a}] {
			return
		}
		dedup[key{r, a}] = true
		out = append(out, ErrReturn{At: r, Val: v, NonNil: a == nonzero, Nil: a == zero})
	})
	return out
}

// ResolveAt refines a phi by the paths on which control can be in block at:
// when only one operand's entering edge can feasibly lead there (the others
// are cut off by a flag tested in between), the phi is that operand there.
func ResolveAt(v ssa.Value, at *ssa.BasicBlock) ssa.Value {
	for depth := 0; depth < 4; depth++ {
		p, ok := v.(*ssa.Phi)
		if !ok || at == nil {
			return v
		}
		j := p.Block()
		if j == at || j.Parent() != at.Parent() || !j.Dominates(at) || LoopOf(j) != nil {
			return v
		}
		var got ssa.Value
		for i, pred := range j.Preds {
			idx, cnt := -1, 0
			for k, s := range pred.Succs {
				if s == j {
					idx = k
					cnt++
				}
			}
			if cnt != 1 {
				return v
			}
			reach, _ := ReachFromEdges([]Edge{{From: pred, Idx: idx}}, nil)
			if !reach[at] {
				continue
			}
			if got != nil && got != p.Edges[i] {
				return v
			}
			got = p.Edges[i]
		}
		if got == nil {
			return v
		}
		v = got
	}
	return v
}

// MustCrossOrKnow is MustCross with one more way to be satisfied: a path that
// reaches target without crossing a gate is fine if it has learnt that v is
// zero (want == false) / non-zero (want == true) on the way — `case nf && ctl:`
// followed by `case nf:` reaches the second arm only with ctl false although
// no edge tests ctl alone.
func MustCrossOrKnow(target ssa.Instruction, gates []Edge, v ssa.Value, want bool, posf Posf) (bool, []string) {
	fn := target.Parent()
	avoid := map[Edge]bool{}
	for _, g := range gates {
		avoid[g] = true
	}
	w := zero
	if want {
		w = nonzero
	}
	bad := false
	_, parent := reachVisit([]*ssa.BasicBlock{fn.Blocks[0]}, nil, avoid, nil, nil, func(b *ssa.BasicBlock, fi *fnInfo, env *penv) {
		if b == target.Block() && fi.abs(v, env, b, -1, 0) != w {
			bad = true
		}
	})
	if !bad {
		return true, nil
	}
	return false, witness(parent, target.Block(), posf)
}
