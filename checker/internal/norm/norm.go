// Package norm puts the analysed tree into a normal form before the rules look
// at it: calls to helper functions the rules do not know (functions that are
// not in the reference list known_funcs.txt, i.e. helpers a later refactoring
// extracted) are inlined, source to source, into their same-package callers.
// The transformation is semantics-preserving by construction (arguments are
// evaluated once, in order, into temporaries; the callee body runs in its own
// block; `return` becomes an assignment to result temporaries plus a labeled
// break), so a verdict about the normal form is a verdict about the tree.
// Whatever cannot be inlined safely (defer/recover, recursion, generics,
// goto, shadowed identifiers, promoted methods, call positions whose hoisting
// would change evaluation order) is left as it is.
package norm

import (
	"bytes"
	"crypto/sha1"
	_ "embed"
	"fmt"
	"go/ast"
	"go/format"
	"go/parser"
	"go/token"
	"go/types"
	"golang.org/x/tools/go/ast/astutil"
	"reflect"
	"sort"
	"strings"

	"golang.org/x/tools/go/packages"
)

//go:embed known_funcs.txt
var knownText string

// Known returns the reference set of function keys ("<pkgpath> <func>").
func Known() map[string]bool {
	m := map[string]bool{}
	for _, l := range strings.Split(knownText, "\n") {
		l = strings.TrimSpace(l)
		if l != "" && !strings.HasPrefix(l, "#") {
			if i := strings.Index(l, "\t"); i >= 0 {
				l = l[:i]
			}
			m[l] = true
		}
	}
	return m
}

var refHashes map[string]map[string]bool
var refLibs map[string]map[string]bool

// LibCalls lists, syntactically, the library helpers (libAllow) a declaration calls: "path.Name".
func LibCalls(f *ast.File, fd *ast.FuncDecl) []string {
	local := map[string]string{}
	for _, is := range f.Imports {
		path := strings.Trim(is.Path.Value, `"`)
		if libAllow[path] == nil {
			continue
		}
		n := path[strings.LastIndex(path, "/")+1:]
		if is.Name != nil {
			n = is.Name.Name
		}
		local[n] = path
	}
	seen := map[string]bool{}
	var out []string
	if len(local) == 0 {
		return nil
	}
	ast.Inspect(fd, func(n ast.Node) bool {
		se, ok := n.(*ast.SelectorExpr)
		if !ok {
			return true
		}
		id, ok := se.X.(*ast.Ident)
		if !ok || local[id.Name] == "" {
			return true
		}
		for _, nm := range libAllow[local[id.Name]] {
			if nm == se.Sel.Name && !seen[local[id.Name]+"."+nm] {
				seen[local[id.Name]+"."+nm] = true
				out = append(out, local[id.Name]+"."+nm)
			}
		}
		return true
	})
	sort.Strings(out)
	return out
}

// RefCallsLib: on the reference tree the function of that key already called the library helper.
func RefCallsLib(key, lib string) bool {
	loadRef()
	return refLibs[key][lib]
}

// Unchanged reports whether the declaration is, token for token, the function
// of that name on the reference tree. The later stages of the normal form
// leave such functions alone: the rules were confirmed against them as
// written, and today's tree is its own normal form.
func Unchanged(rel string, fd *ast.FuncDecl) bool {
	loadRef()
	return refHashes[rel+" "+FuncKey(fd)][ASTHash(fd)]
}

func loadRef() {
	if refHashes == nil {
		refHashes = map[string]map[string]bool{}
		for _, l := range strings.Split(knownText, "\n") {
			l = strings.TrimSpace(l)
			i := strings.Index(l, "\t")
			if l == "" || strings.HasPrefix(l, "#") || i < 0 {
				continue
			}
			set := map[string]bool{}
			fields := strings.Split(l[i+1:], "\t")
			for _, h := range strings.Split(fields[0], ",") {
				set[h] = true
			}
			refHashes[l[:i]] = set
			if len(fields) > 1 && fields[1] != "" {
				if refLibs == nil {
					refLibs = map[string]map[string]bool{}
				}
				refLibs[l[:i]] = map[string]bool{}
				for _, x := range strings.Split(fields[1], ",") {
					refLibs[l[:i]][x] = true
				}
			}
		}
	}
}

// ASTHash is a hash of the declaration's syntax tree: node kinds, identifiers,
// literals and operators — no positions, no comments.
func ASTHash(fd *ast.FuncDecl) string {
	h := sha1.New()
	w := func(s string) { h.Write([]byte(s)); h.Write([]byte{0}) }
	ast.Inspect(fd, func(n ast.Node) bool {
		if n == nil {
			w(")")
			return true
		}
		switch x := n.(type) {
		case *ast.CommentGroup, *ast.Comment:
			return false
		case *ast.Ident:
			w("I" + x.Name)
		case *ast.BasicLit:
			w("L" + x.Value)
		case *ast.BinaryExpr:
			w("B" + x.Op.String())
		case *ast.UnaryExpr:
			w("U" + x.Op.String())
		case *ast.AssignStmt:
			w("A" + x.Tok.String())
		case *ast.IncDecStmt:
			w("D" + x.Tok.String())
		case *ast.BranchStmt:
			w("J" + x.Tok.String())
		case *ast.RangeStmt:
			w("R" + x.Tok.String())
		case *ast.GenDecl:
			w("G" + x.Tok.String())
		case *ast.ChanType:
			w(fmt.Sprintf("C%d", x.Dir))
		case *ast.CallExpr:
			if x.Ellipsis.IsValid() {
				w("call...")
			} else {
				w("call")
			}
		case *ast.Ellipsis:
			w("...")
		default:
			w(fmt.Sprintf("%T", n))
		}
		return true
	})
	return fmt.Sprintf("%x", h.Sum(nil))[:16]
}

// FuncKey names a declaration: "F", "(T).M" or "(*T).M".
func FuncKey(fd *ast.FuncDecl) string {
	if fd.Recv == nil || len(fd.Recv.List) == 0 {
		return fd.Name.Name
	}
	t := fd.Recv.List[0].Type
	star := ""
	if s, ok := t.(*ast.StarExpr); ok {
		star = "*"
		t = s.X
	}
	switch x := t.(type) {
	case *ast.IndexExpr:
		t = x.X
	case *ast.IndexListExpr:
		t = x.X
	}
	name := "?"
	if id, ok := t.(*ast.Ident); ok {
		name = id.Name
	}
	return "(" + star + name + ")." + fd.Name.Name
}

// Result of planning.
type Result struct {
	Overlay map[string][]byte // absolute file name -> normalised content
	Inlined []string          // "<pkg>: <helper> into <caller>" (one per call site)
	Skipped []string          // helpers / call sites left alone, with the reason
}

type helper struct {
	lib    bool // a library helper: identifiers of its own package are qualified at the call
	key    string
	decl   *ast.FuncDecl
	lit    *ast.FuncLit     // a local closure (`warn := func(…){…}`) instead of a declared helper
	uses   int              // closure: number of call sites
	inl    int              // closure: call sites inlined
	sig    *types.Signature // signature (of obj or of the literal)
	obj    *types.Func
	file   *ast.File
	pkg    *packages.Package
	body   *ast.BlockStmt // processed body (calls to other new helpers already inlined)
	calls  map[*types.Func]bool
	nested map[*types.Func]int // helper call sites expanded inside the processed body
}

type planner struct {
	lib       map[*types.Func]*helper // library helpers (libAllow)
	libInfo   []*types.Info
	rel       string              // module-relative package path
	rewrote   map[*types.Var]bool // lookup tables some read of which was rewritten
	keepAlive map[*ast.File]string
	res       *Result
	pkg       *packages.Package
	helpers   map[*types.Func]*helper
	// side tables for cloned nodes
	uses   map[*ast.Ident]types.Object
	origin map[ast.Node]ast.Node
	n      int
	// per-file bookkeeping
	changed    map[*ast.File]bool
	addImports map[*ast.File]map[string]string // name -> path
	curFile    *ast.File
	curFunc    string
	closures   map[*types.Var]*helper
	deferred   []ast.Stmt // deferred calls of the body being expanded (run before each break)
	pkgByName  map[string]*types.Package
	inlined    map[*types.Func]int // call sites inlined per helper (all)
	topInlined map[*types.Func]int // call sites inlined into functions that stay
	top        bool
}

// Plan computes the normalised sources of every root package that declares
// helpers absent from known. inRepo restricts the work to the analysed module.
// libAllow: small generic helpers of the standard library (and k8s.io/utils/ptr)
// whose source is a plain loop or test. A refactoring that replaces a
// hand-written loop by one of them is undone by inlining their source like any
// other helper; identifiers of their own package are qualified.
var libAllow = map[string][]string{
	"slices":           {"Contains", "ContainsFunc", "Index", "IndexFunc", "MaxFunc", "MinFunc"},
	"maps":             {"Copy", "DeleteFunc"},
	"k8s.io/utils/ptr": {"Deref"},
}

func libHelpers(pkgs []*packages.Package) (map[*types.Func]*helper, []*types.Info) {
	out := map[*types.Func]*helper{}
	var infos []*types.Info
	packages.Visit(pkgs, nil, func(pp *packages.Package) {
		names := libAllow[pp.PkgPath]
		if names == nil || pp.TypesInfo == nil {
			return
		}
		infos = append(infos, pp.TypesInfo)
		for _, f := range pp.Syntax {
			for _, d := range f.Decls {
				fd, ok := d.(*ast.FuncDecl)
				if !ok || fd.Body == nil || fd.Recv != nil {
					continue
				}
				want := false
				for _, n := range names {
					if n == fd.Name.Name {
						want = true
					}
				}
				obj, _ := pp.TypesInfo.Defs[fd.Name].(*types.Func)
				if !want || obj == nil || bodyNotInlinable(fd.Body) != "" {
					continue
				}
				out[obj] = &helper{key: "library " + pp.PkgPath + "." + fd.Name.Name, decl: fd, obj: obj, sig: obj.Type().(*types.Signature), file: f, pkg: pp, lib: true, body: fd.Body}
			}
		}
	})
	return out, infos
}

func Plan(pkgs []*packages.Package, known map[string]bool, module string) *Result {
	res := &Result{Overlay: map[string][]byte{}}
	lib, libInfo := libHelpers(pkgs)
	for _, p := range pkgs {
		if !strings.HasPrefix(p.PkgPath, module) || len(p.Syntax) == 0 || p.TypesInfo == nil {
			continue
		}
		rel := strings.TrimPrefix(strings.TrimPrefix(p.PkgPath, module), "/")
		pl := &planner{res: res, pkg: p, rel: rel, helpers: map[*types.Func]*helper{}, uses: map[*ast.Ident]types.Object{}, origin: map[ast.Node]ast.Node{},
			changed: map[*ast.File]bool{}, addImports: map[*ast.File]map[string]string{}, lib: lib, libInfo: libInfo}
		for _, f := range p.Syntax {
			for _, d := range f.Decls {
				fd, ok := d.(*ast.FuncDecl)
				if !ok || fd.Body == nil {
					continue
				}
				key := rel + " " + FuncKey(fd)
				if known[key] {
					continue
				}
				// a reference function that became a method (or changed receiver) is still that function
				if recvChanged(known, rel, fd) {
					continue
				}
				obj, _ := p.TypesInfo.Defs[fd.Name].(*types.Func)
				if obj == nil {
					continue
				}
				if why := pl.notInlinable(fd, obj); why != "" {
					res.Skipped = append(res.Skipped, key+": "+why)
					continue
				}
				pl.helpers[obj] = &helper{key: key, decl: fd, obj: obj, sig: obj.Type().(*types.Signature), file: f, pkg: p}
			}
		}
		pl.findClosures()
		pl.run()
	}
	return res
}

var knownBare map[string]map[string]int

// recvChanged: the reference list has exactly one function of that name in the
// package, under another receiver (or none), and the tree no longer has that one.
func recvChanged(known map[string]bool, rel string, fd *ast.FuncDecl) bool {
	if knownBare == nil {
		knownBare = map[string]map[string]int{}
		for k := range known {
			i := strings.Index(k, " ")
			if i < 0 {
				continue
			}
			pkg, fk := k[:i], k[i+1:]
			if j := strings.LastIndex(fk, "."); j >= 0 {
				fk = fk[j+1:]
			}
			if knownBare[pkg] == nil {
				knownBare[pkg] = map[string]int{}
			}
			knownBare[pkg][fk]++
		}
	}
	return knownBare[rel][fd.Name.Name] == 1
}

// notInlinable screens out callees whose body cannot be moved into a caller.
func (pl *planner) notInlinable(fd *ast.FuncDecl, obj *types.Func) string {
	sig := obj.Type().(*types.Signature)
	if sig.RecvTypeParams() != nil {
		return "method of a generic type"
	}
	if fd.Name.Name == "init" || fd.Name.Name == "main" {
		return "init/main"
	}
	return bodyNotInlinable(fd.Body)
}

func bodyNotInlinable(body *ast.BlockStmt) string {
	why := ""
	ast.Inspect(body, func(n ast.Node) bool {
		switch x := n.(type) {
		case *ast.FuncLit:
			return false
		case *ast.DeferStmt:
			if !simpleTopDefer(body, x) {
				why = "defer"
			}
		case *ast.BranchStmt:
			if x.Tok == token.GOTO {
				why = "goto"
			}
		case *ast.LabeledStmt:
			why = "label"
		case *ast.CallExpr:
			if id, ok := x.Fun.(*ast.Ident); ok && id.Name == "recover" {
				why = "recover"
			}
		}
		return why == ""
	})
	return why
}

// simpleTopDefer: `defer x.m(simple args)` as a statement of the function's own
// block, before any statement that can return. Such a defer is run explicitly
// at every return of the inlined body (panics aside, that is what it does).
func simpleTopDefer(body *ast.BlockStmt, d *ast.DeferStmt) bool {
	idx := -1
	for i, s := range body.List {
		if s == ast.Stmt(d) {
			idx = i
		}
	}
	if idx < 0 {
		return false
	}
	// no return before (or in the same position as) the defer
	for _, s := range body.List[:idx] {
		has := false
		ast.Inspect(s, func(n ast.Node) bool {
			switch n.(type) {
			case *ast.FuncLit:
				return false
			case *ast.ReturnStmt:
				has = true
			}
			return !has
		})
		if has {
			return false
		}
	}
	simple := func(e ast.Expr) bool {
		ok := true
		ast.Inspect(e, func(n ast.Node) bool {
			switch n.(type) {
			case *ast.CallExpr, *ast.FuncLit, *ast.UnaryExpr, *ast.BinaryExpr, *ast.IndexExpr, *ast.TypeAssertExpr:
				ok = false
			}
			return ok
		})
		return ok
	}
	if !simple(d.Call.Fun) {
		return false
	}
	for _, a := range d.Call.Args {
		if !simple(a) {
			return false
		}
	}
	return true
}

func (pl *planner) run() {
	info := pl.pkg.TypesInfo
	// dependencies among helpers
	for _, h := range pl.helpers {
		h.calls = map[*types.Func]bool{}
		ast.Inspect(h.decl.Body, func(n ast.Node) bool {
			if id, ok := n.(*ast.Ident); ok {
				if f, ok := info.Uses[id].(*types.Func); ok && pl.helpers[f] != nil {
					h.calls[f] = true
				}
			}
			return true
		})
	}
	// drop helpers on cycles (recursion)
	for changed := true; changed; {
		changed = false
		for f, h := range pl.helpers {
			if pl.reaches(f, f, map[*types.Func]bool{}) {
				pl.res.Skipped = append(pl.res.Skipped, h.key+": recursive")
				delete(pl.helpers, f)
				changed = true
			}
		}
	}
	// process helper bodies bottom-up
	done := map[*types.Func]bool{}
	var order []*helper
	var visit func(f *types.Func)
	visit = func(f *types.Func) {
		h := pl.helpers[f]
		if h == nil || done[f] {
			return
		}
		done[f] = true
		var deps []*types.Func
		for d := range h.calls {
			deps = append(deps, d)
		}
		sort.Slice(deps, func(i, j int) bool { return deps[i].Name() < deps[j].Name() })
		for _, d := range deps {
			visit(d)
		}
		order = append(order, h)
	}
	var keys []*types.Func
	for f := range pl.helpers {
		keys = append(keys, f)
	}
	sort.Slice(keys, func(i, j int) bool { return pl.helpers[keys[i]].key < pl.helpers[keys[j]].key })
	for _, f := range keys {
		visit(f)
	}
	for _, h := range order {
		pl.curFile, pl.curFunc = h.file, h.key
		body := pl.clone(h.decl.Body).(*ast.BlockStmt)
		snap := map[*types.Func]int{}
		for k, v := range pl.inlined {
			snap[k] = v
		}
		pl.rewriteBlockList(&body.List, 0)
		pl.rewriteNested(body, 0)
		h.body = body
		h.nested = map[*types.Func]int{}
		for k, v := range pl.inlined {
			if d := v - snap[k]; d > 0 {
				h.nested[k] += d
				if hk := pl.helpers[k]; hk != nil { // (library helpers are not in the table)
					for kk, vv := range hk.nested {
						h.nested[kk] += vv * d
					}
				}
			}
		}
	}
	// now every function of the package (helpers keep their declarations; their
	// own bodies are left untouched in the output)
	for _, f := range pl.pkg.Syntax {
		for _, d := range f.Decls {
			fd, ok := d.(*ast.FuncDecl)
			if !ok || fd.Body == nil {
				continue
			}
			if obj, _ := info.Defs[fd.Name].(*types.Func); obj != nil && pl.helpers[obj] != nil {
				continue
			}
			if Unchanged(pl.rel, fd) {
				continue // as on the reference tree: it calls no new helper, and its closures stay as written
			}
			pl.curFile, pl.curFunc = f, FuncKey(fd)
			pl.top = true
			before := len(pl.res.Inlined)
			pl.rewriteBlockList(&fd.Body.List, 0)
			pl.rewriteNested(fd.Body, 0)
			pl.dropDeadClosures(fd.Body)
			if len(pl.res.Inlined) > before {
				pl.changed[f] = true
			}
		}
	}
	for f := range pl.changed {
		pl.emit(f)
	}
}

func (pl *planner) inHelperDecl(p token.Pos) bool {
	for _, h := range pl.helpers {
		if p >= h.decl.Pos() && p <= h.decl.End() {
			return true
		}
	}
	return false
}

func (pl *planner) reaches(from, to *types.Func, seen map[*types.Func]bool) bool {
	h := pl.helpers[from]
	if h == nil {
		return false
	}
	for c := range h.calls {
		if c == to {
			return true
		}
		if !seen[c] {
			seen[c] = true
			if pl.reaches(c, to, seen) {
				return true
			}
		}
	}
	return false
}

// ---------------------------------------------------------------------------
// cloning with side tables

var posType = reflect.TypeOf(token.NoPos)

func (pl *planner) clone(n ast.Node) ast.Node {
	v := pl.cloneValue(reflect.ValueOf(n))
	return v.Interface().(ast.Node)
}

func (pl *planner) cloneValue(v reflect.Value) reflect.Value {
	switch v.Kind() {
	case reflect.Interface:
		if v.IsNil() {
			return v
		}
		c := pl.cloneValue(v.Elem())
		out := reflect.New(v.Type()).Elem()
		out.Set(c)
		return out
	case reflect.Ptr:
		if v.IsNil() {
			return v
		}
		switch v.Interface().(type) {
		case *ast.Object, *ast.Scope:
			return reflect.Zero(v.Type())
		}
		out := reflect.New(v.Type().Elem())
		el := v.Elem()
		for i := 0; i < el.NumField(); i++ {
			f := el.Field(i)
			if !out.Elem().Field(i).CanSet() {
				continue
			}
			if f.Type() == posType {
				// positions are dropped, except where validity carries meaning
				// (f(xs...), type A = B)
				name := el.Type().Field(i).Name
				if (name == "Ellipsis" || name == "Assign") && f.Interface().(token.Pos).IsValid() {
					out.Elem().Field(i).Set(reflect.ValueOf(token.Pos(1)))
				} else {
					out.Elem().Field(i).Set(reflect.ValueOf(token.NoPos))
				}
				continue
			}
			out.Elem().Field(i).Set(pl.cloneValue(f))
		}
		if on, ok := v.Interface().(ast.Node); ok {
			nn := out.Interface().(ast.Node)
			pl.origin[nn] = pl.root(on)
			if id, ok := on.(*ast.Ident); ok {
				if o := pl.useOf(id); o != nil {
					pl.uses[nn.(*ast.Ident)] = o
				}
			}
		}
		return out
	case reflect.Slice:
		if v.IsNil() {
			return v
		}
		out := reflect.MakeSlice(v.Type(), v.Len(), v.Len())
		for i := 0; i < v.Len(); i++ {
			out.Index(i).Set(pl.cloneValue(v.Index(i)))
		}
		return out
	case reflect.Struct:
		out := reflect.New(v.Type()).Elem()
		for i := 0; i < v.NumField(); i++ {
			if out.Field(i).CanSet() {
				out.Field(i).Set(pl.cloneValue(v.Field(i)))
			}
		}
		return out
	default:
		return v
	}
}

// root follows the origin chain to the node the type checker saw.
func (pl *planner) root(n ast.Node) ast.Node {
	for {
		o, ok := pl.origin[n]
		if !ok {
			return n
		}
		n = o
	}
}

func (pl *planner) useOf(id *ast.Ident) types.Object {
	if o, ok := pl.uses[id]; ok {
		return o
	}
	if o := pl.pkg.TypesInfo.Uses[id]; o != nil {
		return o
	}
	for _, in := range pl.libInfo {
		if o := in.Uses[id]; o != nil {
			return o
		}
	}
	return nil
}

func (pl *planner) typeOf(e ast.Expr) (types.TypeAndValue, bool) {
	r, _ := pl.root(e).(ast.Expr)
	if r == nil {
		return types.TypeAndValue{}, false
	}
	tv, ok := pl.pkg.TypesInfo.Types[r]
	if !ok {
		for _, in := range pl.libInfo {
			if tv, ok = in.Types[r]; ok {
				break
			}
		}
	}
	return tv, ok
}

// ---------------------------------------------------------------------------
// finding the hoistable helper call of a statement

// target returns the helper a call expression statically calls, or nil.
func (pl *planner) target(c *ast.CallExpr) *helper {
	var id *ast.Ident
	switch f := c.Fun.(type) {
	case *ast.Ident:
		id = f
	case *ast.SelectorExpr:
		id = f.Sel
	case *ast.ParenExpr:
		return nil
	}
	if id == nil {
		return nil
	}
	if v, isVar := pl.useOf(id).(*types.Var); isVar {
		if h := pl.closures[v]; h != nil {
			if h.body == nil {
				// process lazily (a closure may call helpers or other closures)
				h.body = &ast.BlockStmt{} // recursion guard: a closure calling itself is not expanded
				save, saveFn := pl.curFile, pl.curFunc
				body := pl.clone(h.lit.Body).(*ast.BlockStmt)
				pl.rewriteBlockList(&body.List, 1)
				pl.rewriteNested(body, 1)
				h.body = body
				pl.curFile, pl.curFunc = save, saveFn
			}
			return h
		}
		return nil
	}
	fn, _ := pl.useOf(id).(*types.Func)
	if fn == nil {
		return nil
	}
	if h := pl.helpers[fn]; h != nil {
		return h
	}
	if h := pl.lib[fn]; h != nil {
		// a library call the function already made on the reference tree stays a call: the rules know it as one
		if RefCallsLib(pl.rel+" "+pl.curFunc, h.pkg.PkgPath+"."+h.obj.Name()) {
			return nil
		}
		return h
	}
	return nil
}

// dropDeadClosures removes the definition of a closure all of whose calls were
// inlined (it would otherwise keep the variables it captures on the heap).
func (pl *planner) dropDeadClosures(body *ast.BlockStmt) {
	dead := func(s ast.Stmt) bool {
		if ds, isDecl := s.(*ast.DeclStmt); isDecl {
			// var f T = func…
			gd, _ := ds.Decl.(*ast.GenDecl)
			if gd == nil || gd.Tok != token.VAR || len(gd.Specs) != 1 {
				return false
			}
			vs := gd.Specs[0].(*ast.ValueSpec)
			if len(vs.Names) != 1 || len(vs.Values) != 1 {
				return false
			}
			if _, isLit := vs.Values[0].(*ast.FuncLit); !isLit {
				return false
			}
			oid, _ := pl.root(vs.Names[0]).(*ast.Ident)
			if oid == nil {
				return false
			}
			v, _ := pl.pkg.TypesInfo.Defs[oid].(*types.Var)
			h := pl.closures[v]
			return v != nil && h != nil && h.inl == h.uses && h.inl > 0
		}
		as, ok := s.(*ast.AssignStmt)
		if !ok || len(as.Lhs) != 1 || len(as.Rhs) != 1 {
			return false
		}
		id, ok := as.Lhs[0].(*ast.Ident)
		if !ok {
			return false
		}
		var v *types.Var
		if as.Tok == token.DEFINE {
			if _, isLit := as.Rhs[0].(*ast.FuncLit); !isLit {
				return false
			}
			oid, _ := pl.root(id).(*ast.Ident)
			if oid == nil {
				return false
			}
			v, _ = pl.pkg.TypesInfo.Defs[oid].(*types.Var)
		} else if as.Tok == token.ASSIGN && id.Name == "_" {
			// the `_ = name` we added
			rid, ok := as.Rhs[0].(*ast.Ident)
			if !ok {
				return false
			}
			if o, _ := pl.useOf(rid).(*types.Var); o != nil {
				// a blank use in the source (or left by an earlier round)
				if h := pl.closures[o]; h != nil && h.inl == h.uses && h.inl > 0 {
					v = o
				}
			} else if !rid.Pos().IsValid() {
				// the `_ = name` added in this round has no position and no type information
				for cv := range pl.closures {
					if cv.Name() == rid.Name && pl.closures[cv].inl == pl.closures[cv].uses && pl.closures[cv].inl > 0 {
						v = cv
					}
				}
			}
			if v == nil {
				return false
			}
		}
		h := pl.closures[v]
		return v != nil && h != nil && h.inl == h.uses && h.inl > 0
	}
	// parallel forms (`f, g := func…, func…`, `_, _ = f, g`): drop pair by pair
	thin := func(s ast.Stmt) bool {
		as, ok := s.(*ast.AssignStmt)
		if !ok || len(as.Lhs) != len(as.Rhs) || len(as.Lhs) < 2 {
			return false
		}
		var lhs, rhs []ast.Expr
		for i := range as.Lhs {
			one := &ast.AssignStmt{Lhs: []ast.Expr{as.Lhs[i]}, Tok: as.Tok, Rhs: []ast.Expr{as.Rhs[i]}}
			if !dead(one) {
				lhs, rhs = append(lhs, as.Lhs[i]), append(rhs, as.Rhs[i])
			}
		}
		if len(lhs) == 0 {
			return true
		}
		as.Lhs, as.Rhs = lhs, rhs
		return false
	}
	filter := func(list *[]ast.Stmt) {
		var out []ast.Stmt
		for _, s := range *list {
			if !dead(s) && !thin(s) {
				out = append(out, s)
			}
		}
		*list = out
	}
	ast.Inspect(body, func(n ast.Node) bool {
		switch x := n.(type) {
		case *ast.BlockStmt:
			filter(&x.List)
		case *ast.CaseClause:
			filter(&x.Body)
		case *ast.CommClause:
			filter(&x.Body)
		}
		return true
	})
}

// findClosures registers local function literals that are bound once to a
// variable which is only ever called: `warn := func(err error) {…}` … `warn(err)`.
func (pl *planner) findClosures() {
	pl.closures = map[*types.Var]*helper{}
	info := pl.pkg.TypesInfo
	for _, f := range pl.pkg.Syntax {
		called := map[*ast.Ident]bool{}
		blank := map[*ast.Ident]bool{} // `_ = f`: neither a call nor a reason to keep f a value
		cand := map[*types.Var]*ast.FuncLit{}
		ast.Inspect(f, func(n ast.Node) bool {
			switch x := n.(type) {
			case *ast.CallExpr:
				if id, ok := x.Fun.(*ast.Ident); ok {
					called[id] = true
				}
			case *ast.ValueSpec:
				if len(x.Names) == len(x.Values) {
					for i := range x.Names {
						if lit, ok := x.Values[i].(*ast.FuncLit); ok {
							if v, ok := info.Defs[x.Names[i]].(*types.Var); ok && v.Parent() != pl.pkg.Types.Scope() {
								cand[v] = lit
							}
						}
					}
				}
			case *ast.AssignStmt:
				if x.Tok == token.ASSIGN && len(x.Lhs) == len(x.Rhs) {
					for i := range x.Lhs {
						if l, ok := x.Lhs[i].(*ast.Ident); ok && l.Name == "_" {
							if r, ok := x.Rhs[i].(*ast.Ident); ok {
								blank[r] = true
							}
						}
					}
				}
				if x.Tok == token.DEFINE && len(x.Lhs) == len(x.Rhs) {
					for i := range x.Lhs {
						if id, ok := x.Lhs[i].(*ast.Ident); ok {
							if lit, ok := x.Rhs[i].(*ast.FuncLit); ok {
								if v, ok := info.Defs[id].(*types.Var); ok {
									cand[v] = lit
								}
							}
						}
					}
				}
			}
			return true
		})
		if len(cand) == 0 {
			continue
		}
		bad := map[*types.Var]bool{}
		nUse := map[*types.Var]int{}
		for id, o := range info.Uses {
			v, ok := o.(*types.Var)
			if !ok || cand[v] == nil {
				continue
			}
			if blank[id] {
				continue
			}
			nUse[v]++
			if !called[id] {
				bad[v] = true // passed around, reassigned, compared: keep it a value
			}
		}
		for v, lit := range cand {
			if bad[v] || nUse[v] == 0 {
				continue
			}
			sig, ok := info.TypeOf(lit).(*types.Signature)
			if !ok || bodyNotInlinable(lit.Body) != "" {
				continue
			}
			pl.closures[v] = &helper{key: "closure " + v.Name(), lit: lit, sig: sig, file: f, pkg: pl.pkg, uses: nUse[v]}
		}
	}
}

// isPureCall: conversions and a few builtins evaluate nothing observable.
func (pl *planner) isPureCall(c *ast.CallExpr) bool {
	if tv, ok := pl.typeOf(c.Fun); ok && tv.IsType() {
		return true
	}
	if id, ok := c.Fun.(*ast.Ident); ok {
		if _, isB := pl.useOf(id).(*types.Builtin); isB {
			switch id.Name {
			case "len", "cap", "new", "make", "min", "max":
				return true
			}
		}
	}
	return false
}

type finder struct {
	pl      *planner
	found   *ast.CallExpr
	blocked bool
}

// scan walks e in evaluation order; it stops at the first helper call that is
// evaluated unconditionally with no other call / receive before it.
func (f *finder) scan(e ast.Expr) {
	if e == nil || f.found != nil || f.blocked {
		return
	}
	switch x := e.(type) {
	case *ast.CallExpr:
		if h := f.pl.target(x); h != nil {
			// the helper's own operands are evaluated first; calls among them
			// are hoisted together with the helper's argument temporaries.
			f.found = x
			return
		}
		f.scan(x.Fun)
		for _, a := range x.Args {
			f.scan(a)
		}
		if f.found == nil && !f.pl.isPureCall(x) {
			f.blocked = true
		}
	case *ast.BinaryExpr:
		f.scan(x.X)
		if x.Op == token.LAND || x.Op == token.LOR {
			if f.found == nil {
				// the right operand is evaluated conditionally
				if containsCall(x.Y) {
					f.blocked = true
				}
			}
			return
		}
		f.scan(x.Y)
	case *ast.UnaryExpr:
		f.scan(x.X)
		if x.Op == token.ARROW && f.found == nil {
			f.blocked = true
		}
	case *ast.ParenExpr:
		f.scan(x.X)
	case *ast.SelectorExpr:
		f.scan(x.X)
	case *ast.StarExpr:
		f.scan(x.X)
	case *ast.IndexExpr:
		f.scan(x.X)
		f.scan(x.Index)
	case *ast.SliceExpr:
		f.scan(x.X)
		f.scan(x.Low)
		f.scan(x.High)
		f.scan(x.Max)
	case *ast.TypeAssertExpr:
		f.scan(x.X)
	case *ast.KeyValueExpr:
		f.scan(x.Key)
		f.scan(x.Value)
	case *ast.CompositeLit:
		for _, el := range x.Elts {
			f.scan(el)
		}
	case *ast.FuncLit, *ast.Ident, *ast.BasicLit:
	default:
	}
}

func containsCall(e ast.Expr) bool {
	has := false
	ast.Inspect(e, func(n ast.Node) bool {
		switch n.(type) {
		case *ast.FuncLit:
			return false
		case *ast.CallExpr:
			has = true
		}
		return !has
	})
	return has
}

// ---------------------------------------------------------------------------
// statement rewriting

const maxDepth = 8

// rewriteBlockList inlines hoistable helper calls of the statements in *list.
func (pl *planner) rewriteBlockList(list *[]ast.Stmt, depth int) {
	if depth > maxDepth {
		return
	}
	var out []ast.Stmt
	for si, s := range *list {
		out = append(out, pl.rewriteStmt(s, depth)...)
		// a closure whose calls were inlined must still count as used
		if as, ok := s.(*ast.AssignStmt); ok && as.Tok == token.DEFINE && len(as.Lhs) == 1 && len(as.Rhs) == 1 {
			if id, ok := as.Lhs[0].(*ast.Ident); ok {
				if _, isLit := as.Rhs[0].(*ast.FuncLit); isLit {
					oid, _ := pl.root(id).(*ast.Ident)
					// (an earlier round may have left the blank use already: the tree must not change unless something is inlined)
					if si+1 < len(*list) {
						if nx, isAs := (*list)[si+1].(*ast.AssignStmt); isAs && nx.Tok == token.ASSIGN && len(nx.Lhs) == 1 && len(nx.Rhs) == 1 {
							if l, isID := nx.Lhs[0].(*ast.Ident); isID && l.Name == "_" {
								if r, isID := nx.Rhs[0].(*ast.Ident); isID && r.Name == id.Name {
									oid = nil
								}
							}
						}
					}
					if oid != nil {
						if v, ok := pl.pkg.TypesInfo.Defs[oid].(*types.Var); ok && pl.closures[v] != nil {
							out = append(out, &ast.AssignStmt{Lhs: []ast.Expr{ast.NewIdent("_")}, Tok: token.ASSIGN, Rhs: []ast.Expr{ast.NewIdent(id.Name)}})
						}
					}
				}
			}
		}
	}
	*list = out
}

// rewriteStmt returns the statements replacing s.
func (pl *planner) rewriteStmt(s ast.Stmt, depth int) []ast.Stmt {
	if depth > maxDepth {
		return []ast.Stmt{s}
	}
	for iter := 0; iter < 16; iter++ {
		pre, ns, ok := pl.inlineOnce(s)
		if !ok {
			break
		}
		// the hoisted statements may themselves contain helper calls (argument temporaries)
		var all []ast.Stmt
		for _, p := range pre {
			all = append(all, pl.rewriteStmt(p, depth+1)...)
		}
		if ns == nil {
			return all
		}
		rest := pl.rewriteStmt(ns, depth+1)
		return append(all, rest...)
	}
	return []ast.Stmt{s}
}

// exprSlots lists the expressions of s that are evaluated first, once and
// unconditionally, in order, as pointers so that they can be replaced.
func exprSlots(s ast.Stmt) (slots []*ast.Expr, wrap bool) {
	switch x := s.(type) {
	case *ast.ExprStmt:
		return []*ast.Expr{&x.X}, false
	case *ast.AssignStmt:
		var out []*ast.Expr
		// index / selector operands on the left are evaluated before the right side
		for i := range x.Lhs {
			if _, isId := x.Lhs[i].(*ast.Ident); !isId {
				if containsCall(x.Lhs[i]) {
					return nil, false
				}
			}
		}
		for i := range x.Rhs {
			out = append(out, &x.Rhs[i])
		}
		return out, false
	case *ast.ReturnStmt:
		var out []*ast.Expr
		for i := range x.Results {
			out = append(out, &x.Results[i])
		}
		return out, false
	case *ast.DeclStmt:
		gd, ok := x.Decl.(*ast.GenDecl)
		if !ok || gd.Tok != token.VAR || len(gd.Specs) != 1 {
			return nil, false
		}
		vs := gd.Specs[0].(*ast.ValueSpec)
		var out []*ast.Expr
		for i := range vs.Values {
			out = append(out, &vs.Values[i])
		}
		return out, false
	case *ast.IncDecStmt, *ast.SendStmt:
		return nil, false
	case *ast.GoStmt:
		var out []*ast.Expr
		for i := range x.Call.Args {
			out = append(out, &x.Call.Args[i])
		}
		return out, false
	case *ast.DeferStmt:
		var out []*ast.Expr
		for i := range x.Call.Args {
			out = append(out, &x.Call.Args[i])
		}
		return out, false
	case *ast.RangeStmt:
		return []*ast.Expr{&x.X}, true
	}
	return nil, false
}

// inlineOnce finds one hoistable helper call in s and returns the statements to
// put before s and the rewritten s (nil when s is consumed).
func (pl *planner) inlineOnce(s ast.Stmt) (pre []ast.Stmt, ns ast.Stmt, ok bool) {
	switch x := s.(type) {
	case *ast.IfStmt:
		// if init; cond {..} else ..  ->  { pre; init'; if cond {..} else .. }
		if x.Init != nil {
			p, ni, did := pl.inlineOnce(x.Init)
			if did {
				blk := &ast.BlockStmt{}
				blk.List = append(blk.List, p...)
				if ni != nil {
					blk.List = append(blk.List, ni)
				}
				x.Init = nil
				blk.List = append(blk.List, x)
				return nil, blk, true
			}
			if stmtHasCall(x.Init) {
				return nil, nil, false
			}
		}
		f := &finder{pl: pl}
		f.scan(x.Cond)
		if f.found != nil && !f.blocked {
			p, repl, did := pl.expand(f.found)
			if !did {
				return nil, nil, false
			}
			replaceExpr(&x.Cond, f.found, repl)
			blk := &ast.BlockStmt{}
			if x.Init != nil {
				blk.List = append(blk.List, x.Init)
				x.Init = nil
			}
			blk.List = append(blk.List, p...)
			blk.List = append(blk.List, x)
			return nil, blk, true
		}
		// else-if chains: the else branch is a statement of its own
		if ei, isIf := x.Else.(*ast.IfStmt); isIf {
			p, ne, did := pl.inlineOnce(ei)
			if did {
				blk := &ast.BlockStmt{}
				blk.List = append(blk.List, p...)
				if ne != nil {
					blk.List = append(blk.List, ne)
				}
				x.Else = blk
				return nil, x, true
			}
		}
		return nil, nil, false
	case *ast.SwitchStmt:
		if x.Init != nil {
			p, ni, did := pl.inlineOnce(x.Init)
			if did {
				blk := &ast.BlockStmt{}
				blk.List = append(blk.List, p...)
				if ni != nil {
					blk.List = append(blk.List, ni)
				}
				x.Init = nil
				blk.List = append(blk.List, x)
				return nil, blk, true
			}
			if stmtHasCall(x.Init) {
				return nil, nil, false
			}
		}
		if x.Tag != nil {
			f := &finder{pl: pl}
			f.scan(x.Tag)
			if f.found != nil && !f.blocked {
				p, repl, did := pl.expand(f.found)
				if !did {
					return nil, nil, false
				}
				replaceExpr(&x.Tag, f.found, repl)
				blk := &ast.BlockStmt{}
				if x.Init != nil {
					blk.List = append(blk.List, x.Init)
					x.Init = nil
				}
				blk.List = append(blk.List, p...)
				blk.List = append(blk.List, x)
				return nil, blk, true
			}
		}
		return nil, nil, false
	case *ast.LabeledStmt:
		return nil, nil, false
	case *ast.ExprStmt:
		// maps.Copy(dst, src) is, by definition, for k, v := range src { dst[k] = v }
		if c, isCall := x.X.(*ast.CallExpr); isCall && len(c.Args) == 2 && !c.Ellipsis.IsValid() {
			if sel, isSel := c.Fun.(*ast.SelectorExpr); isSel {
				if fn, _ := pl.useOf(sel.Sel).(*types.Func); fn != nil && fn.Pkg() != nil && fn.Pkg().Path() == "maps" && fn.Name() == "Copy" {
					d, src, k, v := pl.fresh("d"), pl.fresh("s"), pl.fresh("k"), pl.fresh("v")
					blk := &ast.BlockStmt{List: []ast.Stmt{
						&ast.AssignStmt{Lhs: []ast.Expr{ast.NewIdent(d), ast.NewIdent(src)}, Tok: token.DEFINE, Rhs: []ast.Expr{c.Args[0], c.Args[1]}},
						&ast.RangeStmt{Key: ast.NewIdent(k), Value: ast.NewIdent(v), Tok: token.DEFINE, X: ast.NewIdent(src), Body: &ast.BlockStmt{List: []ast.Stmt{
							&ast.AssignStmt{Lhs: []ast.Expr{&ast.IndexExpr{X: ast.NewIdent(d), Index: ast.NewIdent(k)}}, Tok: token.ASSIGN, Rhs: []ast.Expr{ast.NewIdent(v)}},
						}}},
					}}
					pl.res.Inlined = append(pl.res.Inlined, fmt.Sprintf("maps.Copy into %s", pl.curFunc))
					if id, isID := sel.X.(*ast.Ident); isID && pl.curFile != nil {
						if pl.keepAlive == nil {
							pl.keepAlive = map[*ast.File]string{}
						}
						pl.keepAlive[pl.curFile] = id.Name
					}
					return nil, blk, true
				}
			}
		}
	}
	slots, _ := exprSlots(s)
	if len(slots) == 0 {
		return nil, nil, false
	}
	f := &finder{pl: pl}
	var slot *ast.Expr
	for _, sl := range slots {
		f.scan(*sl)
		if f.found != nil || f.blocked {
			slot = sl
			break
		}
	}
	if f.found == nil || f.blocked {
		return nil, nil, false
	}
	// multi-value call on the right of an assignment / return / var
	h := pl.target(f.found)
	nres := h.sig.Results().Len()
	if nres != 1 {
		if *slot != ast.Expr(f.found) {
			return nil, nil, false // tuple cannot be nested in an expression
		}
		p, rs, did := pl.expandMulti(f.found)
		if !did {
			return nil, nil, false
		}
		switch x := s.(type) {
		case *ast.ExprStmt:
			return p, nil, true
		case *ast.AssignStmt:
			if len(x.Rhs) != 1 {
				return nil, nil, false
			}
			x.Rhs = rs
			return p, x, true
		case *ast.ReturnStmt:
			if len(x.Results) != 1 {
				return nil, nil, false
			}
			x.Results = rs
			return p, x, true
		case *ast.DeclStmt:
			vs := x.Decl.(*ast.GenDecl).Specs[0].(*ast.ValueSpec)
			if len(vs.Values) != 1 {
				return nil, nil, false
			}
			vs.Values = rs
			return p, x, true
		}
		return nil, nil, false
	}
	p, repl, did := pl.expand(f.found)
	if !did {
		return nil, nil, false
	}
	if es, isES := s.(*ast.ExprStmt); isES && es.X == ast.Expr(f.found) {
		// result unused
		p = append(p, &ast.AssignStmt{Lhs: []ast.Expr{ast.NewIdent("_")}, Tok: token.ASSIGN, Rhs: []ast.Expr{repl}})
		return p, nil, true
	}
	replaceExpr(slot, f.found, repl)
	return p, s, true
}

func stmtHasCall(s ast.Stmt) bool {
	has := false
	ast.Inspect(s, func(n ast.Node) bool {
		switch n.(type) {
		case *ast.FuncLit:
			return false
		case *ast.CallExpr:
			has = true
		}
		return !has
	})
	return has
}

// replaceExpr substitutes old by repl inside *root.
func replaceExpr(root *ast.Expr, old ast.Expr, repl ast.Expr) {
	if *root == old {
		*root = repl
		return
	}
	var rv func(v reflect.Value) bool
	rv = func(v reflect.Value) bool {
		switch v.Kind() {
		case reflect.Interface:
			if v.IsNil() {
				return false
			}
			if e, ok := v.Interface().(ast.Expr); ok && e == old && v.CanSet() {
				v.Set(reflect.ValueOf(repl))
				return true
			}
			return rv(v.Elem())
		case reflect.Ptr:
			if v.IsNil() {
				return false
			}
			switch v.Interface().(type) {
			case *ast.Object, *ast.Scope, *ast.FuncLit:
				return false
			}
			return rv(v.Elem())
		case reflect.Struct:
			for i := 0; i < v.NumField(); i++ {
				if rv(v.Field(i)) {
					return true
				}
			}
		case reflect.Slice:
			for i := 0; i < v.Len(); i++ {
				if rv(v.Index(i)) {
					return true
				}
			}
		}
		return false
	}
	rv(reflect.ValueOf(root).Elem())
}

// rewriteNested descends into the nested statement lists of n (blocks, case
// clauses, function literals).
func (pl *planner) rewriteNested(n ast.Node, depth int) {
	ast.Inspect(n, func(m ast.Node) bool {
		switch x := m.(type) {
		case *ast.BlockStmt:
			if x != n {
				pl.rewriteBlockList(&x.List, depth)
			}
		case *ast.CaseClause:
			pl.rewriteBlockList(&x.Body, depth)
		case *ast.CommClause:
			pl.rewriteBlockList(&x.Body, depth)
		}
		return true
	})
}

// ---------------------------------------------------------------------------
// expansion of one call

// freshN numbers generated names across packages, stages and rounds: labels are
// function-wide, and a later round works on the output of an earlier one.
var freshN int

func (pl *planner) fresh(kind string) string {
	freshN++
	return fmt.Sprintf("xpn%s%d", kind, freshN)
}

// expand inlines a single-result helper call; repl is the expression that
// replaces the call.
func (pl *planner) expand(c *ast.CallExpr) (pre []ast.Stmt, repl ast.Expr, ok bool) {
	pre, rs, ok := pl.expandMulti(c)
	if !ok || len(rs) != 1 {
		return nil, nil, false
	}
	return pre, rs[0], true
}

// expandMulti inlines a helper call; rs are the identifiers holding its results.
func (pl *planner) expandMulti(c *ast.CallExpr) (pre []ast.Stmt, rs []ast.Expr, ok bool) {
	h := pl.target(c)
	if h == nil || h.body == nil {
		return nil, nil, false
	}
	sig := h.sig
	skip := func(why string) ([]ast.Stmt, []ast.Expr, bool) {
		pl.res.Skipped = append(pl.res.Skipped, fmt.Sprintf("%s: call in %s not inlined: %s", h.key, pl.curFunc, why))
		return nil, nil, false
	}
	// a generic helper: the signature and the type arguments of this call
	var tparams *types.TypeParamList
	var targs *types.TypeList
	if sig.TypeParams() != nil {
		var fid *ast.Ident
		switch f := c.Fun.(type) {
		case *ast.Ident:
			fid = f
		case *ast.SelectorExpr:
			fid = f.Sel
		}
		oid, _ := pl.root(fid).(*ast.Ident)
		if fid == nil || oid == nil {
			return skip("generic call that is not a plain call")
		}
		inst, ok := pl.pkg.TypesInfo.Instances[oid]
		for _, in := range pl.libInfo {
			if !ok {
				inst, ok = in.Instances[oid]
			}
		}
		isig, _ := inst.Type.(*types.Signature)
		if !ok || isig == nil || inst.TypeArgs.Len() != sig.TypeParams().Len() {
			return skip("generic call without a recorded instance")
		}
		for i := 0; i < inst.TypeArgs.Len(); i++ {
			hasParam := false
			var walk func(t types.Type, depth int)
			walk = func(t types.Type, depth int) {
				if depth > 6 || t == nil {
					return
				}
				switch x := t.(type) {
				case *types.TypeParam:
					hasParam = true
				case *types.Pointer:
					walk(x.Elem(), depth+1)
				case *types.Slice:
					walk(x.Elem(), depth+1)
				case *types.Array:
					walk(x.Elem(), depth+1)
				case *types.Map:
					walk(x.Key(), depth+1)
					walk(x.Elem(), depth+1)
				case *types.Chan:
					walk(x.Elem(), depth+1)
				case *types.Named:
					for k := 0; k < x.TypeArgs().Len(); k++ {
						walk(x.TypeArgs().At(k), depth+1)
					}
				case *types.Signature:
					for k := 0; k < x.Params().Len(); k++ {
						walk(x.Params().At(k).Type(), depth+1)
					}
					for k := 0; k < x.Results().Len(); k++ {
						walk(x.Results().At(k).Type(), depth+1)
					}
				}
			}
			walk(inst.TypeArgs.At(i), 0)
			if hasParam {
				return skip("generic call instantiated with the caller's own type parameters")
			}
		}
		tparams, targs, sig = sig.TypeParams(), inst.TypeArgs, isig
	}
	callPos := pl.root(c).Pos()
	scope := pl.pkg.Types.Scope().Innermost(callPos)
	if scope == nil {
		return skip("no scope at call position")
	}
	q, qerr := pl.qualifier(scope, callPos)
	// receiver
	type bind struct {
		name string
		typ  types.Type
		arg  ast.Expr
	}
	var binds []bind
	if sig.Recv() != nil {
		sel, isSel := c.Fun.(*ast.SelectorExpr)
		if !isSel {
			return skip("method value call")
		}
		osel, _ := pl.root(sel).(*ast.SelectorExpr)
		selinfo := pl.pkg.TypesInfo.Selections[osel]
		if selinfo == nil || len(selinfo.Index()) != 1 {
			return skip("promoted or unresolved method")
		}
		rt := sig.Recv().Type()
		xt, okT := pl.typeOf(sel.X)
		if !okT {
			return skip("receiver type unknown")
		}
		var arg ast.Expr = sel.X
		_, wantPtr := rt.(*types.Pointer)
		_, havePtr := xt.Type.Underlying().(*types.Pointer)
		if wantPtr && !havePtr {
			arg = &ast.UnaryExpr{Op: token.AND, X: &ast.ParenExpr{X: sel.X}}
		} else if !wantPtr && havePtr {
			arg = &ast.StarExpr{X: &ast.ParenExpr{X: sel.X}}
		}
		binds = append(binds, bind{sig.Recv().Name(), rt, arg})
	}
	// parameters
	np := sig.Params().Len()
	for i := 0; i < np; i++ {
		p := sig.Params().At(i)
		if sig.Variadic() && i == np-1 {
			st := p.Type().(*types.Slice)
			var arg ast.Expr
			switch {
			case c.Ellipsis.IsValid() || hasEllipsis(pl.root(c).(*ast.CallExpr)):
				if len(c.Args) != np {
					return skip("variadic spread with unexpected arity")
				}
				arg = c.Args[np-1]
			case len(c.Args) < np:
				arg = ast.NewIdent("nil")
			default:
				ts, err := parser.ParseExpr(types.TypeString(st, q))
				if err != nil {
					return skip("unprintable type " + st.String())
				}
				pl.markPkgNames(ts)
				arg = &ast.CompositeLit{Type: ts, Elts: append([]ast.Expr{}, c.Args[np-1:]...)}
			}
			binds = append(binds, bind{p.Name(), p.Type(), arg})
			continue
		}
		if i >= len(c.Args) {
			return skip("call with a tuple argument")
		}
		binds = append(binds, bind{p.Name(), p.Type(), c.Args[i]})
	}
	if !sig.Variadic() && len(c.Args) != np {
		return skip("call with a tuple argument")
	}
	// shadowing: every package-level / imported name the body or the types
	// mention must mean the same thing at the call site
	if why := pl.shadowed(h, scope, callPos); why != "" {
		return skip(why)
	}
	typeExpr := func(t types.Type) (ast.Expr, bool) {
		e, err := parser.ParseExpr(types.TypeString(t, q))
		if err != nil {
			return nil, false
		}
		pl.markPkgNames(e)
		return e, true
	}
	outer := &ast.BlockStmt{}
	inner := &ast.BlockStmt{}
	// results
	nr := sig.Results().Len()
	var resNames []string
	for i := 0; i < nr; i++ {
		te, okT := typeExpr(sig.Results().At(i).Type())
		if !okT {
			return skip("unprintable result type")
		}
		n := pl.fresh("r")
		resNames = append(resNames, n)
		pre = append(pre, varDecl(n, te, nil))
		rs = append(rs, ast.NewIdent(n))
	}
	// argument temporaries (typed, caller scope), then all parameters at once
	// (callee scope; types are inferred from the temporaries so that a parameter
	// named like a package cannot capture a later parameter's type)
	var pnames, ptmps []ast.Expr
	for _, b := range binds {
		te, okT := typeExpr(b.typ)
		if !okT {
			return skip("unprintable parameter type")
		}
		tmp := pl.fresh("a")
		outer.List = append(outer.List, varDecl(tmp, te, b.arg))
		if b.name == "" || b.name == "_" {
			outer.List = append(outer.List, &ast.AssignStmt{Lhs: []ast.Expr{ast.NewIdent("_")}, Tok: token.ASSIGN, Rhs: []ast.Expr{ast.NewIdent(tmp)}})
			continue
		}
		pnames = append(pnames, ast.NewIdent(b.name))
		ptmps = append(ptmps, ast.NewIdent(tmp))
	}
	if len(pnames) > 0 {
		inner.List = append(inner.List, &ast.AssignStmt{Lhs: pnames, Tok: token.DEFINE, Rhs: ptmps})
		var blanks, uses []ast.Expr
		for _, n := range pnames {
			blanks = append(blanks, ast.NewIdent("_"))
			uses = append(uses, ast.NewIdent(n.(*ast.Ident).Name))
		}
		inner.List = append(inner.List, &ast.AssignStmt{Lhs: blanks, Tok: token.ASSIGN, Rhs: uses})
	}
	// named results live in the callee scope
	named := nr > 0 && sig.Results().At(0).Name() != ""
	if named {
		for i := 0; i < nr; i++ {
			rn := sig.Results().At(i).Name()
			if rn == "_" {
				rn = pl.fresh("n")
			}
			te, _ := typeExpr(sig.Results().At(i).Type())
			inner.List = append(inner.List, varDecl(rn, te, nil))
			inner.List = append(inner.List, &ast.AssignStmt{Lhs: []ast.Expr{ast.NewIdent("_")}, Tok: token.ASSIGN, Rhs: []ast.Expr{ast.NewIdent(rn)}})
		}
	}
	if qerr() != "" {
		return skip(qerr())
	}
	label := pl.fresh("L")
	body := pl.clone(h.body).(*ast.BlockStmt)
	if tparams != nil {
		bad := ""
		astutil.Apply(body, func(cur *astutil.Cursor) bool {
			id, ok := cur.Node().(*ast.Ident)
			if !ok {
				return true
			}
			tn, _ := pl.useOf(id).(*types.TypeName)
			if tn == nil {
				return true
			}
			tp, _ := tn.Type().(*types.TypeParam)
			if tp == nil {
				return true
			}
			for i := 0; i < tparams.Len(); i++ {
				if tparams.At(i) == tp {
					te, okT := typeExpr(targs.At(i))
					if !okT {
						bad = "unprintable type argument"
						return false
					}
					cur.Replace(te)
					return false
				}
			}
			bad = "type parameter of another function in the body"
			return false
		}, nil)
		if bad != "" || qerr() != "" {
			return skip("generic body: " + bad + qerr())
		}
	}
	if h.lib {
		bad := ""
		own := h.pkg.Types.Scope()
		astutil.Apply(body, func(cur *astutil.Cursor) bool {
			id, ok := cur.Node().(*ast.Ident)
			if !ok {
				return true
			}
			if par, isSel := cur.Parent().(*ast.SelectorExpr); isSel && par.Sel == id {
				return true
			}
			if kv, isKV := cur.Parent().(*ast.KeyValueExpr); isKV && kv.Key == ast.Expr(id) {
				if v, isVar := pl.useOf(id).(*types.Var); isVar && v.IsField() {
					return true
				}
			}
			o := pl.useOf(id)
			if o == nil || o.Parent() != own {
				return true
			}
			if !o.Exported() {
				bad = "uses the unexported " + o.Name() + " of its package"
				return false
			}
			cur.Replace(&ast.SelectorExpr{X: ast.NewIdent(q(h.pkg.Types)), Sel: ast.NewIdent(o.Name())})
			return false
		}, nil)
		if bad != "" || qerr() != "" {
			return skip("library body: " + bad + qerr())
		}
	}
	// labels are function-wide: every copy of the body gets its own
	{
		ren := map[string]string{}
		ast.Inspect(body, func(n ast.Node) bool {
			if ls, ok := n.(*ast.LabeledStmt); ok {
				nn := pl.fresh("L")
				ren[ls.Label.Name] = nn
				ls.Label = ast.NewIdent(nn)
			}
			return true
		})
		if len(ren) > 0 {
			ast.Inspect(body, func(n ast.Node) bool {
				if bs, ok := n.(*ast.BranchStmt); ok && bs.Label != nil {
					if nn, ok := ren[bs.Label.Name]; ok {
						bs.Label = ast.NewIdent(nn)
					}
				}
				return true
			})
		}
	}
	// simple top-level defers run, last first, wherever the body returns
	var deferred []ast.Stmt
	{
		var rest []ast.Stmt
		for _, st := range body.List {
			if d, ok := st.(*ast.DeferStmt); ok {
				deferred = append([]ast.Stmt{&ast.ExprStmt{X: d.Call}}, deferred...)
				continue
			}
			rest = append(rest, st)
		}
		body.List = rest
	}
	if len(deferred) > 0 && named {
		return skip("defer with named results")
	}
	pl.deferred = deferred
	pl.rewriteReturns(body, label, resNames, sig, named)
	pl.deferred = nil
	for _, d := range deferred {
		body.List = append(body.List, pl.clone(d).(ast.Stmt))
	}
	body.List = append(body.List, &ast.BranchStmt{Tok: token.BREAK, Label: ast.NewIdent(label)})
	loop := &ast.LabeledStmt{Label: ast.NewIdent(label), Stmt: &ast.ForStmt{Body: body}}
	inner.List = append(inner.List, loop)
	outer.List = append(outer.List, inner)
	pre = append(pre, outer)
	pl.res.Inlined = append(pl.res.Inlined, fmt.Sprintf("%s into %s", h.key, pl.curFunc))
	if pl.inlined == nil {
		pl.inlined = map[*types.Func]int{}
	}
	if h.lit != nil {
		h.inl++
	}
	if h.obj != nil {
		pl.inlined[h.obj]++
		if pl.top {
			if pl.topInlined == nil {
				pl.topInlined = map[*types.Func]int{}
			}
			pl.topInlined[h.obj]++
		}
	}
	return pre, rs, true
}

func hasEllipsis(c *ast.CallExpr) bool { return c != nil && c.Ellipsis.IsValid() }

func varDecl(name string, typ ast.Expr, val ast.Expr) ast.Stmt {
	vs := &ast.ValueSpec{Names: []*ast.Ident{ast.NewIdent(name)}, Type: typ}
	if val != nil {
		vs.Values = []ast.Expr{val}
	}
	return &ast.DeclStmt{Decl: &ast.GenDecl{Tok: token.VAR, Specs: []ast.Spec{vs}}}
}

// rewriteReturns turns the returns of the callee body (not those of nested
// function literals) into assignments to the result temporaries + break.
func (pl *planner) rewriteReturns(body *ast.BlockStmt, label string, res []string, sig *types.Signature, named bool) {
	mk := func(r *ast.ReturnStmt) ast.Stmt {
		blk := &ast.BlockStmt{}
		if len(res) > 0 {
			var lhs []ast.Expr
			for _, n := range res {
				lhs = append(lhs, ast.NewIdent(n))
			}
			var rhs []ast.Expr
			if len(r.Results) == 0 && named {
				for i := 0; i < sig.Results().Len(); i++ {
					rhs = append(rhs, ast.NewIdent(sig.Results().At(i).Name()))
				}
			} else {
				rhs = r.Results
			}
			blk.List = append(blk.List, &ast.AssignStmt{Lhs: lhs, Tok: token.ASSIGN, Rhs: rhs})
		}
		for _, d := range pl.deferred {
			blk.List = append(blk.List, pl.clone(d).(ast.Stmt))
		}
		blk.List = append(blk.List, &ast.BranchStmt{Tok: token.BREAK, Label: ast.NewIdent(label)})
		return blk
	}
	var fix func(list []ast.Stmt)
	var visit func(n ast.Node)
	fix = func(list []ast.Stmt) {
		for i, s := range list {
			if r, ok := s.(*ast.ReturnStmt); ok {
				list[i] = mk(r)
				continue
			}
			visit(s)
		}
	}
	visit = func(n ast.Node) {
		switch x := n.(type) {
		case *ast.BlockStmt:
			fix(x.List)
		case *ast.IfStmt:
			visit(x.Body)
			if x.Else != nil {
				if r, ok := x.Else.(*ast.ReturnStmt); ok {
					x.Else = mk(r).(*ast.BlockStmt)
				} else {
					visit(x.Else)
				}
			}
		case *ast.ForStmt:
			visit(x.Body)
		case *ast.RangeStmt:
			visit(x.Body)
		case *ast.SwitchStmt:
			visit(x.Body)
		case *ast.TypeSwitchStmt:
			visit(x.Body)
		case *ast.SelectStmt:
			visit(x.Body)
		case *ast.CaseClause:
			fix(x.Body)
		case *ast.CommClause:
			fix(x.Body)
		case *ast.LabeledStmt:
			if r, ok := x.Stmt.(*ast.ReturnStmt); ok {
				x.Stmt = mk(r)
			} else {
				visit(x.Stmt)
			}
		}
	}
	visit(body)
}

// qualifier renders package names as the caller's file imports them; missing
// imports are added to the file. The returned func reports a conflict.
func (pl *planner) qualifier(scope *types.Scope, pos token.Pos) (types.Qualifier, func() string) {
	conflict := ""
	file := pl.curFile
	names := map[string]string{} // path -> name
	used := map[string]bool{}
	for _, is := range file.Imports {
		path := strings.Trim(is.Path.Value, `"`)
		name := ""
		if is.Name != nil {
			name = is.Name.Name
		} else if ip := pl.pkg.Imports[path]; ip != nil {
			name = ip.Name
		}
		if name == "_" || name == "." || name == "" {
			continue
		}
		names[path] = name
		used[name] = true
	}
	return func(p *types.Package) string {
		if p == pl.pkg.Types {
			return ""
		}
		for an, ap := range pl.addImports[file] {
			used[an] = true
			if _, have := names[ap]; !have {
				names[ap] = an
			}
		}
		n, ok := names[p.Path()]
		if !ok {
			n = p.Name()
			for used[n] || pl.pkg.Types.Scope().Lookup(n) != nil {
				n = n + "x"
			}
			if pl.addImports[file] == nil {
				pl.addImports[file] = map[string]string{}
			}
			pl.addImports[file][n] = p.Path()
			names[p.Path()] = n
			used[n] = true
		}
		if pl.pkgByName == nil {
			pl.pkgByName = map[string]*types.Package{}
		}
		pl.pkgByName[n] = p
		// the name must not be shadowed by a local at the call site
		if _, o := scope.LookupParent(n, pos); o != nil {
			if _, isPkg := o.(*types.PkgName); !isPkg {
				conflict = "package name " + n + " is shadowed at the call site"
			}
		}
		return n
	}, func() string { return conflict }
}

// markPkgNames records, for a type expression generated from a type string,
// which package each qualifier stands for, so that a later inlining of the
// enclosing helper into another file can add or check the import.
func (pl *planner) markPkgNames(e ast.Expr) {
	ast.Inspect(e, func(n ast.Node) bool {
		if se, ok := n.(*ast.SelectorExpr); ok {
			if id, ok := se.X.(*ast.Ident); ok {
				if p := pl.pkgByName[id.Name]; p != nil {
					pl.uses[id] = types.NewPkgName(token.NoPos, pl.pkg.Types, id.Name, p)
				}
			}
		}
		return true
	})
}

// shadowed checks the free identifiers of the helper body.
func (pl *planner) shadowed(h *helper, scope *types.Scope, pos token.Pos) string {
	why := ""
	file := pl.curFile
	sel := map[*ast.Ident]bool{}
	ast.Inspect(h.body, func(n ast.Node) bool {
		if se, ok := n.(*ast.SelectorExpr); ok {
			sel[se.Sel] = true
		}
		if kv, ok := n.(*ast.KeyValueExpr); ok {
			if k, ok := kv.Key.(*ast.Ident); ok {
				if _, isField := pl.useOf(k).(*types.Var); isField && pl.useOf(k).(*types.Var).IsField() {
					sel[k] = true
				}
			}
		}
		id, ok := n.(*ast.Ident)
		if ok && sel[id] {
			return true
		}
		if !ok || why != "" {
			return why == ""
		}
		o := pl.useOf(id)
		if o == nil {
			return true
		}
		switch x := o.(type) {
		case *types.PkgName:
			// the caller's file must import the same path under the same name
			_, co := scope.LookupParent(id.Name, pos)
			if cp, isPkg := co.(*types.PkgName); isPkg && cp.Imported().Path() == x.Imported().Path() {
				return true
			}
			if co == nil {
				// add the import under the callee's name
				if pl.pkg.Types.Scope().Lookup(id.Name) != nil {
					why = "import name " + id.Name + " collides with a package-level object"
					return false
				}
				for _, is := range file.Imports {
					if is.Name != nil && is.Name.Name == id.Name {
						why = "import name " + id.Name + " is taken in the caller's file"
						return false
					}
				}
				if pl.addImports[file] == nil {
					pl.addImports[file] = map[string]string{}
				}
				if p0, ok := pl.addImports[file][id.Name]; ok && p0 != x.Imported().Path() {
					why = "import name " + id.Name + " needed for two packages"
					return false
				}
				pl.addImports[file][id.Name] = x.Imported().Path()
				return true
			}
			why = "import name " + id.Name + " means something else at the call site"
			return false
		default:
			par := o.Parent()
			if h.lib && o.Pkg() != nil && o.Pkg() == h.pkg.Types && par == o.Pkg().Scope() {
				return true // qualified with its package at the call (exported ones; the others make the body unusable there)
			}
			if par == types.Universe || (o.Pkg() != nil && par == o.Pkg().Scope()) {
				_, co := scope.LookupParent(id.Name, pos)
				if co != o {
					why = "identifier " + id.Name + " is shadowed at the call site"
					return false
				}
			} else if h.lit != nil && par != nil && (o.Pos() < h.lit.Pos() || o.Pos() > h.lit.End()) {
				// a variable the closure captures must be the same variable at the call site
				_, co := scope.LookupParent(id.Name, pos)
				if co != o {
					why = "captured variable " + id.Name + " is not visible (or shadowed) at the call site"
					return false
				}
			}
		}
		return true
	})
	return why
}

// ---------------------------------------------------------------------------
// output

func (pl *planner) emit(f *ast.File) {
	fset := pl.pkg.Fset
	name := fset.Position(f.Pos()).Filename
	// drop comments inside function bodies (their positions no longer mean anything)
	var keep []*ast.CommentGroup
	inBody := func(p token.Pos) bool {
		for _, d := range f.Decls {
			if fd, ok := d.(*ast.FuncDecl); ok && fd.Body != nil && p > fd.Body.Lbrace && p < fd.Body.Rbrace {
				return true
			}
		}
		return false
	}
	for _, cg := range f.Comments {
		if !inBody(cg.Pos()) {
			keep = append(keep, cg)
		}
	}
	f.Comments = keep
	for n, path := range pl.addImports[f] {
		addImport(f, path, n, pl.pkg)
	}
	// an import whose last use was inlined away would not compile
	{
		used := map[string]bool{}
		ast.Inspect(f, func(n ast.Node) bool {
			if se, ok := n.(*ast.SelectorExpr); ok {
				if id, ok := se.X.(*ast.Ident); ok {
					used[id.Name] = true
				}
			}
			return true
		})
		nameOf := func(is *ast.ImportSpec) string {
			if is.Name != nil {
				return is.Name.Name
			}
			path := strings.Trim(is.Path.Value, `"`)
			if ip := pl.pkg.Imports[path]; ip != nil && ip.Name != "" {
				return ip.Name
			}
			return path[strings.LastIndex(path, "/")+1:]
		}
		dropped := map[*ast.ImportSpec]bool{}
		for _, is := range f.Imports {
			if n := nameOf(is); n != "_" && n != "." && !used[n] {
				dropped[is] = true
			}
		}
		if len(dropped) > 0 {
			var imps []*ast.ImportSpec
			for _, is := range f.Imports {
				if !dropped[is] {
					imps = append(imps, is)
				}
			}
			f.Imports = imps
			var decls []ast.Decl
			for _, d := range f.Decls {
				gd, ok := d.(*ast.GenDecl)
				if !ok || gd.Tok != token.IMPORT {
					decls = append(decls, d)
					continue
				}
				var specs []ast.Spec
				for _, sp := range gd.Specs {
					if is, ok := sp.(*ast.ImportSpec); !ok || !dropped[is] {
						specs = append(specs, sp)
					}
				}
				if len(specs) > 0 {
					gd.Specs = specs
					decls = append(decls, gd)
				}
			}
			f.Decls = decls
		}
	}
	var buf bytes.Buffer
	if err := format.Node(&buf, fset, f); err != nil {
		pl.res.Skipped = append(pl.res.Skipped, name+": cannot print normalised file: "+err.Error())
		return
	}
	if _, err := parser.ParseFile(token.NewFileSet(), name, buf.Bytes(), 0); err != nil {
		pl.res.Skipped = append(pl.res.Skipped, name+": normalised file does not parse: "+err.Error())
		return
	}
	pl.res.Overlay[name] = buf.Bytes()
}

func addImport(f *ast.File, path, name string, pkg *packages.Package) {
	for _, is := range f.Imports {
		if strings.Trim(is.Path.Value, `"`) == path {
			if (is.Name == nil && pkg.Imports[path] != nil && pkg.Imports[path].Name == name) || (is.Name != nil && is.Name.Name == name) {
				return
			}
		}
	}
	spec := &ast.ImportSpec{Path: &ast.BasicLit{Kind: token.STRING, Value: `"` + path + `"`}}
	if ip := pkg.Imports[path]; ip == nil || ip.Name != name {
		spec.Name = ast.NewIdent(name)
	}
	for _, d := range f.Decls {
		if gd, ok := d.(*ast.GenDecl); ok && gd.Tok == token.IMPORT {
			gd.Specs = append(gd.Specs, spec)
			if !gd.Lparen.IsValid() {
				gd.Lparen = gd.Pos()
				gd.Rparen = gd.End()
			}
			f.Imports = append(f.Imports, spec)
			return
		}
	}
	gd := &ast.GenDecl{Tok: token.IMPORT, Specs: []ast.Spec{spec}}
	f.Decls = append([]ast.Decl{gd}, f.Decls...)
	f.Imports = append(f.Imports, spec)
}

// DeadHelpers lists the functions (types.Func full names) that are not in the
// reference list, are unexported and are referenced by nothing but themselves
// or other such functions: after inlining they no longer take part in the
// program, the rules see their bodies inside their callers only.
func DeadHelpers(pkgs []*packages.Package, known map[string]bool, module string) []string {
	var out []string
	for _, p := range pkgs {
		if !strings.HasPrefix(p.PkgPath, module) || len(p.Syntax) == 0 || p.TypesInfo == nil {
			continue
		}
		rel := strings.TrimPrefix(strings.TrimPrefix(p.PkgPath, module), "/")
		cand := map[*types.Func]*ast.FuncDecl{}
		var decls []*ast.FuncDecl
		owner := map[*ast.FuncDecl]*types.Func{}
		for _, f := range p.Syntax {
			for _, d := range f.Decls {
				fd, ok := d.(*ast.FuncDecl)
				if !ok || fd.Body == nil {
					continue
				}
				decls = append(decls, fd)
				obj, _ := p.TypesInfo.Defs[fd.Name].(*types.Func)
				owner[fd] = obj
				if obj != nil && !known[rel+" "+FuncKey(fd)] && !recvChanged(known, rel, fd) && !obj.Exported() {
					cand[obj] = fd
				}
			}
		}
		if len(cand) == 0 {
			continue
		}
		users := map[*types.Func]map[*types.Func]bool{} // helper -> enclosing functions that mention it (nil key = package level)
		for id, o := range p.TypesInfo.Uses {
			f, ok := o.(*types.Func)
			if !ok || cand[f] == nil {
				continue
			}
			var encl *types.Func
			for _, fd := range decls {
				if id.Pos() >= fd.Pos() && id.Pos() <= fd.End() {
					encl = owner[fd]
				}
			}
			if users[f] == nil {
				users[f] = map[*types.Func]bool{}
			}
			users[f][encl] = true
		}
		dead := map[*types.Func]bool{}
		for f := range cand {
			dead[f] = true
		}
		for changed := true; changed; {
			changed = false
			for f := range cand {
				if !dead[f] {
					continue
				}
				for u := range users[f] {
					if u != f && !(u != nil && dead[u]) {
						dead[f] = false
						changed = true
					}
				}
			}
		}
		for f, d := range dead {
			if d {
				out = append(out, f.FullName())
			}
		}
	}
	sort.Strings(out)
	return out
}
