package norm

// Lookup tables: a package-level map literal with constant keys that nothing
// ever writes to
//
//	var describers = map[Severity]func(*Event){ SeverityWarning: func(e *Event){…}, … }
//	…
//	if describe, ok := describers[sev]; ok { describe(e) }
//
// says the same as the switch it replaced: for each key, what the table holds
// under it. A lookup of such a table is written back as the chain of key
// comparisons — `if k == SeverityWarning { describe := func(e *Event){…}; … }
// else if …` — so that the rules see which key leads to which code. For a
// table of functions the statements that use the looked-up function are
// repeated per key (each copy then binds one function literal, which the next
// round inlines); for a table of plain values the variable is assigned per
// key. The table itself must be immutable: every use in the package is a read
// by index (or len), its values are function literals, constants or
// package-level functions.

import (
	"fmt"
	"go/ast"
	"go/parser"
	"go/token"
	"go/types"
	"strings"

	"golang.org/x/tools/go/packages"
)

const maxArms = 16

type table struct {
	v    *types.Var
	keys []ast.Expr
	vals []ast.Expr
	fn   bool // values are functions
}

// Lookup plans the replacement of reads of immutable package-level tables.
func Lookup(pkgs []*packages.Package, module string) *Result {
	res := &Result{Overlay: map[string][]byte{}}
	for _, p := range pkgs {
		if !strings.HasPrefix(p.PkgPath, module) || len(p.Syntax) == 0 || p.TypesInfo == nil {
			continue
		}
		tabs, rowVars := findTables(p)
		if len(tabs) == 0 {
			continue
		}
		pl := &planner{res: res, pkg: p, helpers: map[*types.Func]*helper{}, uses: map[*ast.Ident]types.Object{}, origin: map[ast.Node]ast.Node{},
			changed: map[*ast.File]bool{}, addImports: map[*ast.File]map[string]string{}}
		for _, f := range p.Syntax {
			for _, d := range f.Decls {
				fd, ok := d.(*ast.FuncDecl)
				if !ok || fd.Body == nil {
					continue
				}
				if Unchanged(strings.TrimPrefix(strings.TrimPrefix(p.PkgPath, module), "/"), fd) {
					continue // as on the reference tree: left as written
				}
				pl.curFile, pl.curFunc = f, FuncKey(fd)
				lk := &lookup{pl: pl, fn: fd, tabs: tabs}
				if n := lk.run(); n > 0 {
					pl.changed[f] = true
					res.Inlined = append(res.Inlined, fmt.Sprintf("%d lookup(s) of an immutable table written as key comparisons in %s", n, pl.curFunc))
				}
			}
		}
		// a table nothing reads any more is dropped with the function literals it
		// held; so is a shared row value only such tables named
		dropUnused := func(cands func(v *types.Var) bool) {
			left := map[*types.Var]bool{}
			for _, f := range p.Syntax {
				ast.Inspect(f, func(n ast.Node) bool {
					if id, ok := n.(*ast.Ident); ok {
						if v, _ := p.TypesInfo.Uses[id].(*types.Var); v != nil {
							left[v] = true
						}
					}
					return true
				})
			}
			for _, f := range p.Syntax {
				var decls []ast.Decl
				for _, d := range f.Decls {
					gd, isGen := d.(*ast.GenDecl)
					if !isGen || gd.Tok != token.VAR {
						decls = append(decls, d)
						continue
					}
					var specs []ast.Spec
					for _, sp := range gd.Specs {
						vs := sp.(*ast.ValueSpec)
						drop := false
						if len(vs.Names) == 1 {
							if v, _ := p.TypesInfo.Defs[vs.Names[0]].(*types.Var); v != nil && !left[v] && cands(v) {
								drop = true
							}
						}
						if !drop {
							specs = append(specs, sp)
						} else {
							pl.changed[f] = true
						}
					}
					if len(specs) > 0 {
						gd.Specs = specs
						decls = append(decls, gd)
					}
				}
				f.Decls = decls
			}
		}
		if len(pl.rewrote) > 0 {
			dropUnused(func(v *types.Var) bool { return tabs[v] != nil && pl.rewrote[v] })
			dropUnused(func(v *types.Var) bool { return rowVars[v] != nil && !v.Exported() })
		}
		for f := range pl.changed {
			pl.emit(f)
		}
	}
	return res
}

func identOf(e ast.Expr) *ast.Ident {
	id, _ := e.(*ast.Ident)
	return id
}

func findTables(p *packages.Package) (map[*types.Var]*table, map[*types.Var]ast.Expr) {
	info := p.TypesInfo
	pkgScope := p.Types.Scope()
	tabs := map[*types.Var]*table{}
	// package-level variables that are only ever read, with their initialiser:
	// a row may name one instead of spelling the value out
	consts := map[*types.Var]ast.Expr{}
	{
		written := map[*types.Var]bool{}
		for _, f := range p.Syntax {
			ast.Inspect(f, func(n ast.Node) bool {
				base := func(e ast.Expr) *types.Var {
					for {
						switch x := e.(type) {
						case *ast.ParenExpr:
							e = x.X
						case *ast.SelectorExpr:
							if _, isPkg := info.Uses[identOf(x.X)].(*types.PkgName); isPkg {
								return nil
							}
							e = x.X
						case *ast.IndexExpr:
							e = x.X
						case *ast.StarExpr:
							e = x.X
						case *ast.Ident:
							v, _ := info.Uses[x].(*types.Var)
							return v
						default:
							return nil
						}
					}
				}
				switch x := n.(type) {
				case *ast.AssignStmt:
					for _, l := range x.Lhs {
						if v := base(l); v != nil {
							written[v] = true
						}
					}
				case *ast.IncDecStmt:
					if v := base(x.X); v != nil {
						written[v] = true
					}
				case *ast.UnaryExpr:
					if x.Op == token.AND {
						if v := base(x.X); v != nil {
							written[v] = true
						}
					}
				case *ast.RangeStmt:
					for _, e := range []ast.Expr{x.Key, x.Value} {
						if e != nil && x.Tok == token.ASSIGN {
							if v := base(e); v != nil {
								written[v] = true
							}
						}
					}
				case *ast.CallExpr:
					// a method with a pointer receiver may write through it
					if sel, ok := x.Fun.(*ast.SelectorExpr); ok {
						if si := info.Selections[sel]; si != nil && si.Kind() == types.MethodVal {
							if v := base(sel.X); v != nil && v.Parent() == pkgScope {
								if _, isPtr := si.Obj().(*types.Func).Type().(*types.Signature).Recv().Type().(*types.Pointer); isPtr {
									written[v] = true
								}
							}
						}
					}
				}
				return true
			})
		}
		for _, f := range p.Syntax {
			for _, d := range f.Decls {
				gd, isGen := d.(*ast.GenDecl)
				if !isGen || gd.Tok != token.VAR {
					continue
				}
				for _, sp := range gd.Specs {
					vs := sp.(*ast.ValueSpec)
					if len(vs.Names) != 1 || len(vs.Values) != 1 {
						continue
					}
					v, _ := info.Defs[vs.Names[0]].(*types.Var)
					if v == nil || written[v] {
						continue
					}
					if cl, isCL := vs.Values[0].(*ast.CompositeLit); isCL && cl.Type != nil {
						if _, isStruct := v.Type().Underlying().(*types.Struct); isStruct {
							consts[v] = cl
						}
					}
				}
			}
		}
	}
	// a value that means the same wherever it is written: outside function
	// literals only constants, types, functions and literals; inside them also
	// package-level variables (read when the function runs) and their own locals
	contextFree := func(e ast.Expr) bool {
		ok := true
		depth := 0
		var walk func(n ast.Node, inLit bool)
		walk = func(root ast.Node, inLit bool) {
			ast.Inspect(root, func(n ast.Node) bool {
				switch x := n.(type) {
				case *ast.FuncLit:
					if n != root {
						walk(x, true)
						return false
					}
				case *ast.CallExpr:
					if !inLit {
						if tv, has := info.Types[x.Fun]; !has || !tv.IsType() {
							ok = false
						}
					}
				case *ast.Ident:
					v, isVar := info.Uses[x].(*types.Var)
					if !isVar || v.IsField() {
						return true
					}
					if v.Parent() != pkgScope && v.Parent() != nil && inLit {
						return true // a parameter or local of a literal inside the value
					}
					if inLit && v.Parent() == pkgScope {
						return true
					}
					if init := consts[v]; init != nil && !inLit && depth < 3 {
						depth++
						walk(init, false)
						depth--
						return true
					}
					ok = false
				}
				return true
			})
		}
		_, isLit := e.(*ast.FuncLit)
		walk(e, isLit)
		return ok
	}
	for _, f := range p.Syntax {
		for _, d := range f.Decls {
			gd, isGen := d.(*ast.GenDecl)
			if !isGen || gd.Tok != token.VAR {
				continue
			}
			for _, sp := range gd.Specs {
				vs := sp.(*ast.ValueSpec)
				if len(vs.Names) != 1 || len(vs.Values) != 1 {
					continue
				}
				cl, isCL := vs.Values[0].(*ast.CompositeLit)
				v, _ := info.Defs[vs.Names[0]].(*types.Var)
				if !isCL || v == nil {
					continue
				}
				mt, isMap := v.Type().Underlying().(*types.Map)
				if !isMap || len(cl.Elts) == 0 || len(cl.Elts) > maxArms {
					continue
				}
				t := &table{v: v}
				switch et := mt.Elem().Underlying().(type) {
				case *types.Signature:
					t.fn = true
				case *types.Struct:
					// a row of functions (and flags): used like a function
					for i := 0; i < et.NumFields(); i++ {
						if _, isSig := et.Field(i).Type().Underlying().(*types.Signature); isSig {
							t.fn = true
						}
					}
				}
				good := true
				for _, e := range cl.Elts {
					kv, isKV := e.(*ast.KeyValueExpr)
					if !isKV {
						good = false
						break
					}
					if tv, has := info.Types[kv.Key]; !has || tv.Value == nil {
						good = false
						break
					}
					val := kv.Value
					if !contextFree(val) {
						good = false
						break
					}
					if id, isID := val.(*ast.Ident); isID {
						if cv, _ := info.Uses[id].(*types.Var); cv != nil && consts[cv] != nil {
							val = consts[cv]
						}
					}
					t.keys, t.vals = append(t.keys, kv.Key), append(t.vals, val)
				}
				if good {
					tabs[v] = t
				}
			}
		}
	}
	if len(tabs) == 0 {
		return tabs, consts
	}
	// every use is a read by index, or len
	for _, f := range p.Syntax {
		var stack []ast.Node
		ast.Inspect(f, func(n ast.Node) bool {
			if n == nil {
				stack = stack[:len(stack)-1]
				return true
			}
			stack = append(stack, n)
			id, isID := n.(*ast.Ident)
			if !isID {
				return true
			}
			v, _ := info.Uses[id].(*types.Var)
			if v == nil || tabs[v] == nil {
				return true
			}
			okUse := false
			if len(stack) >= 2 {
				switch par := stack[len(stack)-2].(type) {
				case *ast.IndexExpr:
					if par.X == ast.Expr(id) {
						okUse = true
						if len(stack) >= 3 {
							switch gp := stack[len(stack)-3].(type) {
							case *ast.AssignStmt:
								for _, l := range gp.Lhs {
									if l == ast.Expr(par) {
										okUse = false
									}
								}
							case *ast.IncDecStmt:
								okUse = false
							case *ast.UnaryExpr:
								if gp.Op == token.AND {
									okUse = false
								}
							}
						}
					}
				case *ast.CallExpr:
					if fid, isF := par.Fun.(*ast.Ident); isF && fid.Name == "len" {
						if _, isB := info.Uses[fid].(*types.Builtin); isB {
							okUse = true
						}
					}
				}
			}
			if !okUse {
				delete(tabs, v)
			}
			return true
		})
	}
	return tabs, consts
}

type lookup struct {
	pl   *planner
	fn   *ast.FuncDecl
	tabs map[*types.Var]*table
}

func (lk *lookup) mark(t *table) {
	if lk.pl.rewrote == nil {
		lk.pl.rewrote = map[*types.Var]bool{}
	}
	lk.pl.rewrote[t.v] = true
}

func (lk *lookup) tableOf(e ast.Expr) (*table, *ast.IndexExpr) {
	ix, ok := e.(*ast.IndexExpr)
	if !ok {
		return nil, nil
	}
	id, ok := ix.X.(*ast.Ident)
	if !ok {
		return nil, nil
	}
	v, _ := lk.pl.pkg.TypesInfo.Uses[id].(*types.Var)
	if t := lk.tabs[v]; t != nil {
		return t, ix
	}
	return nil, nil
}

func (lk *lookup) run() int {
	n := 0
	for iter := 0; iter < 12; iter++ {
		var lists []*[]ast.Stmt
		ast.Inspect(lk.fn.Body, func(m ast.Node) bool {
			switch x := m.(type) {
			case *ast.BlockStmt:
				lists = append(lists, &x.List)
			case *ast.CaseClause:
				lists = append(lists, &x.Body)
			case *ast.CommClause:
				lists = append(lists, &x.Body)
			}
			return true
		})
		did := false
		for _, l := range lists {
			if lk.list(l) {
				did = true
				break
			}
		}
		if !did {
			break
		}
		n++
	}
	return n
}

// values of a table at a use site: cloned, with the check that every name
// they mention means the same thing there
func (lk *lookup) valuesAt(t *table, pos token.Pos) ([]ast.Expr, []ast.Expr, bool) {
	pl := lk.pl
	scope := pl.pkg.Types.Scope().Innermost(pos)
	if scope == nil {
		return nil, nil, false
	}
	var keys, vals []ast.Expr
	for i := range t.keys {
		for _, e := range []ast.Expr{t.keys[i], t.vals[i]} {
			h := &helper{body: &ast.BlockStmt{List: []ast.Stmt{&ast.ExprStmt{X: e}}}}
			if why := pl.shadowed(h, scope, pos); why != "" {
				return nil, nil, false
			}
		}
		keys = append(keys, pl.clone(t.keys[i]).(ast.Expr))
		val := pl.clone(t.vals[i]).(ast.Expr)
		if cl, isCL := val.(*ast.CompositeLit); isCL && cl.Type == nil {
			// the element type the map literal let the row leave out
			et := t.v.Type().Underlying().(*types.Map).Elem()
			if pt, isPtr := et.(*types.Pointer); isPtr {
				te := lk.typeExprAt(pt.Elem(), pos)
				if te == nil {
					return nil, nil, false
				}
				cl.Type = te
				val = &ast.UnaryExpr{Op: token.AND, X: cl}
			} else {
				te := lk.typeExprAt(et, pos)
				if te == nil {
					return nil, nil, false
				}
				cl.Type = te
			}
		}
		vals = append(vals, val)
	}
	return keys, vals, true
}

func (lk *lookup) typeExprAt(t types.Type, pos token.Pos) ast.Expr {
	pl := lk.pl
	scope := pl.pkg.Types.Scope().Innermost(pos)
	if scope == nil {
		return nil
	}
	q, qerr := pl.qualifier(scope, pos)
	e, err := parser.ParseExpr(types.TypeString(t, q))
	if err != nil || qerr() != "" {
		return nil
	}
	pl.markPkgNames(e)
	return e
}

func blankUse(names ...string) ast.Stmt {
	as := &ast.AssignStmt{Tok: token.ASSIGN}
	for _, n := range names {
		as.Lhs = append(as.Lhs, ast.NewIdent("_"))
		as.Rhs = append(as.Rhs, ast.NewIdent(n))
	}
	return as
}

func hasLabel(list []ast.Stmt) bool {
	found := false
	for _, s := range list {
		ast.Inspect(s, func(n ast.Node) bool {
			if _, ok := n.(*ast.LabeledStmt); ok {
				found = true
			}
			return !found
		})
	}
	return found
}

func nodeCount(list []ast.Stmt) int {
	n := 0
	for _, s := range list {
		ast.Inspect(s, func(m ast.Node) bool {
			if m != nil {
				n++
			}
			return true
		})
	}
	return n
}

// chain builds `if k == K1 { arm(0) } else if k == K2 { arm(1) } … else { deflt }`
func chain(kname string, keys []ast.Expr, arm func(i int) []ast.Stmt, deflt []ast.Stmt) ast.Stmt {
	var first, cur *ast.IfStmt
	for i, k := range keys {
		is := &ast.IfStmt{Cond: &ast.BinaryExpr{X: ast.NewIdent(kname), Op: token.EQL, Y: k}, Body: &ast.BlockStmt{List: arm(i)}}
		if first == nil {
			first = is
		} else {
			cur.Else = is
		}
		cur = is
	}
	if deflt != nil {
		cur.Else = &ast.BlockStmt{List: deflt}
	}
	return first
}

func (lk *lookup) list(l *[]ast.Stmt) bool {
	pl := lk.pl
	info := pl.pkg.TypesInfo
	for j, s := range *l {
		switch x := s.(type) {
		case *ast.IfStmt:
			// if v, ok := T[k]; ok { BODY } else { ELSE }
			as, isAs := x.Init.(*ast.AssignStmt)
			if !isAs || as.Tok != token.DEFINE || len(as.Lhs) != 2 || len(as.Rhs) != 1 {
				continue
			}
			t, ix := lk.tableOf(as.Rhs[0])
			vid, _ := as.Lhs[0].(*ast.Ident)
			oid, _ := as.Lhs[1].(*ast.Ident)
			cid, _ := x.Cond.(*ast.Ident)
			if t == nil || vid == nil || oid == nil || cid == nil || info.Uses[cid] != info.Defs[oid] || info.Defs[oid] == nil {
				continue
			}
			// the else branch must not look at the (zero) value
			elseUsesV := false
			var elseList []ast.Stmt
			switch e := x.Else.(type) {
			case nil:
			case *ast.BlockStmt:
				elseList = e.List
			default:
				elseList = []ast.Stmt{e}
			}
			for _, es := range elseList {
				ast.Inspect(es, func(n ast.Node) bool {
					if id, ok := n.(*ast.Ident); ok && info.Defs[vid] != nil && info.Uses[id] == info.Defs[vid] {
						elseUsesV = true
					}
					return true
				})
			}
			if elseUsesV || hasLabel(x.Body.List) || hasLabel(elseList) || len(t.keys)*nodeCount(x.Body.List) > 6000 {
				continue
			}
			keys, vals, ok := lk.valuesAt(t, x.Pos())
			if !ok {
				continue
			}
			kname := pl.fresh("k")
			arm := func(i int) []ast.Stmt {
				out := []ast.Stmt{}
				if vid.Name != "_" {
					out = append(out, &ast.AssignStmt{Lhs: []ast.Expr{ast.NewIdent(vid.Name)}, Tok: token.DEFINE, Rhs: []ast.Expr{vals[i]}})
					if !t.fn {
						out = append(out, blankUse(vid.Name))
					}
				} else {
					out = append(out, &ast.AssignStmt{Lhs: []ast.Expr{ast.NewIdent("_")}, Tok: token.ASSIGN, Rhs: []ast.Expr{vals[i]}})
				}
				out = append(out, &ast.AssignStmt{Lhs: []ast.Expr{ast.NewIdent(oid.Name)}, Tok: token.DEFINE, Rhs: []ast.Expr{ast.NewIdent("true")}}, blankUse(oid.Name))
				body := pl.clone(x.Body).(*ast.BlockStmt)
				return append(out, body.List...)
			}
			var deflt []ast.Stmt
			if elseList != nil {
				deflt = append(deflt, &ast.AssignStmt{Lhs: []ast.Expr{ast.NewIdent(oid.Name)}, Tok: token.DEFINE, Rhs: []ast.Expr{ast.NewIdent("false")}}, blankUse(oid.Name))
				deflt = append(deflt, elseList...)
			}
			blk := &ast.BlockStmt{List: []ast.Stmt{
				&ast.AssignStmt{Lhs: []ast.Expr{ast.NewIdent(kname)}, Tok: token.DEFINE, Rhs: []ast.Expr{ix.Index}},
				chain(kname, keys, arm, deflt),
			}}
			if t.fn && vid.Name != "_" {
				// a function bound in an arm and never called there must still count as used
				for cur := blk.List[1].(*ast.IfStmt); cur != nil; {
					cur.Body.List = append([]ast.Stmt{cur.Body.List[0], blankUse(vid.Name)}, cur.Body.List[1:]...)
					next, _ := cur.Else.(*ast.IfStmt)
					cur = next
				}
			}
			(*l)[j] = blk
			lk.mark(t)
			return true
		case *ast.AssignStmt:
			if x.Tok != token.DEFINE || len(x.Rhs) != 1 || (len(x.Lhs) != 1 && len(x.Lhs) != 2) {
				break
			}
			t, ix := lk.tableOf(x.Rhs[0])
			if t == nil {
				break
			}
			vid, _ := x.Lhs[0].(*ast.Ident)
			var oid *ast.Ident
			if len(x.Lhs) == 2 {
				oid, _ = x.Lhs[1].(*ast.Ident)
				if oid == nil {
					break
				}
			}
			if vid == nil || info.Defs[vid] == nil && vid.Name != "_" {
				break
			}
			if oid != nil && info.Defs[oid] == nil && oid.Name != "_" {
				break
			}
			keys, vals, ok := lk.valuesAt(t, x.Pos())
			if !ok {
				break
			}
			mt := t.v.Type().Underlying().(*types.Map)
			vt := lk.typeExprAt(mt.Elem(), x.Pos())
			if vt == nil {
				break
			}
			kname := pl.fresh("k")
			kdef := &ast.AssignStmt{Lhs: []ast.Expr{ast.NewIdent(kname)}, Tok: token.DEFINE, Rhs: []ast.Expr{ix.Index}}
			rest := (*l)[j+1:]
			if t.fn && vid.Name != "_" && len(rest) > 0 && !hasLabel(rest) && len(t.keys)*nodeCount(rest) <= 6000 {
				// the statements that follow, once per function of the table
				bind := func(val ast.Expr, present string) []ast.Stmt {
					var out []ast.Stmt
					if val != nil {
						out = append(out, &ast.AssignStmt{Lhs: []ast.Expr{ast.NewIdent(vid.Name)}, Tok: token.DEFINE, Rhs: []ast.Expr{val}}, blankUse(vid.Name))
					} else {
						out = append(out, &ast.DeclStmt{Decl: &ast.GenDecl{Tok: token.VAR, Specs: []ast.Spec{&ast.ValueSpec{Names: []*ast.Ident{ast.NewIdent(vid.Name)}, Type: vt}}}}, blankUse(vid.Name))
					}
					if oid != nil && oid.Name != "_" {
						out = append(out, &ast.AssignStmt{Lhs: []ast.Expr{ast.NewIdent(oid.Name)}, Tok: token.DEFINE, Rhs: []ast.Expr{ast.NewIdent(present)}}, blankUse(oid.Name))
					}
					return out
				}
				arm := func(i int) []ast.Stmt {
					out := bind(vals[i], "true")
					for _, r := range rest {
						out = append(out, pl.clone(r).(ast.Stmt))
					}
					return out
				}
				deflt := append(bind(nil, "false"), rest...)
				nl := append([]ast.Stmt{}, (*l)[:j]...)
				nl = append(nl, kdef, chain(kname, keys, arm, deflt))
				*l = nl
				lk.mark(t)
				return true
			}
			// a plain value (or nothing follows): declared, then assigned per key
			var out []ast.Stmt
			out = append(out, kdef)
			var lhs []ast.Expr
			if vid.Name != "_" {
				out = append(out, &ast.DeclStmt{Decl: &ast.GenDecl{Tok: token.VAR, Specs: []ast.Spec{&ast.ValueSpec{Names: []*ast.Ident{ast.NewIdent(vid.Name)}, Type: vt}}}}, blankUse(vid.Name))
				lhs = append(lhs, ast.NewIdent(vid.Name))
			}
			if oid != nil && oid.Name != "_" {
				out = append(out, &ast.AssignStmt{Lhs: []ast.Expr{ast.NewIdent(oid.Name)}, Tok: token.DEFINE, Rhs: []ast.Expr{ast.NewIdent("false")}}, blankUse(oid.Name))
				lhs = append(lhs, ast.NewIdent(oid.Name))
			}
			if len(lhs) == 0 {
				break
			}
			arm := func(i int) []ast.Stmt {
				as := &ast.AssignStmt{Tok: token.ASSIGN}
				if vid.Name != "_" {
					as.Lhs, as.Rhs = append(as.Lhs, ast.NewIdent(vid.Name)), append(as.Rhs, vals[i])
				}
				if oid != nil && oid.Name != "_" {
					as.Lhs, as.Rhs = append(as.Lhs, ast.NewIdent(oid.Name)), append(as.Rhs, ast.NewIdent("true"))
				}
				return []ast.Stmt{as}
			}
			out = append(out, chain(kname, keys, arm, nil))
			nl := append([]ast.Stmt{}, (*l)[:j]...)
			nl = append(nl, out...)
			nl = append(nl, (*l)[j+1:]...)
			*l = nl
			lk.mark(t)
			return true
		}
		// a lookup inside a simple statement: evaluate what comes before it, and it, ahead of the statement
		if pre, ok := lk.hoist(s); ok {
			nl := append([]ast.Stmt{}, (*l)[:j]...)
			nl = append(nl, pre...)
			nl = append(nl, (*l)[j:]...)
			*l = nl
			return true
		}
	}
	return false
}

// hoist finds the first table lookup in a simple statement and moves it (and
// every call evaluated before it) into temporaries in front of the statement.
// Go orders calls lexically and leaves the order of plain reads open, so
// calling earlier what was called earlier keeps the meaning.
func (lk *lookup) hoist(s ast.Stmt) ([]ast.Stmt, bool) {
	pl := lk.pl
	info := pl.pkg.TypesInfo
	var roots []*ast.Expr
	switch x := s.(type) {
	case *ast.ExprStmt:
		roots = append(roots, &x.X)
	case *ast.AssignStmt:
		if x.Tok == token.DEFINE && len(x.Rhs) == 1 {
			if t, _ := lk.tableOf(x.Rhs[0]); t != nil {
				return nil, false // the statement form handled by the caller
			}
		}
		for i := range x.Lhs {
			roots = append(roots, &x.Lhs[i])
		}
		for i := range x.Rhs {
			roots = append(roots, &x.Rhs[i])
		}
	case *ast.ReturnStmt:
		for i := range x.Results {
			roots = append(roots, &x.Results[i])
		}
	case *ast.DeclStmt:
		gd, ok := x.Decl.(*ast.GenDecl)
		if !ok || gd.Tok != token.VAR {
			return nil, false
		}
		for _, sp := range gd.Specs {
			vs := sp.(*ast.ValueSpec)
			for i := range vs.Values {
				roots = append(roots, &vs.Values[i])
			}
		}
	default:
		return nil, false
	}
	// the first lookup, in source order
	var target *ast.IndexExpr
	conditional := false
	var effects []ast.Expr // calls in source order
	var walk func(e ast.Expr, cond bool)
	walk = func(e ast.Expr, cond bool) {
		ast.Inspect(e, func(n ast.Node) bool {
			if n == nil || n == ast.Node(e) && false {
				return true
			}
			switch y := n.(type) {
			case *ast.FuncLit:
				return false
			case *ast.BinaryExpr:
				if y.Op == token.LAND || y.Op == token.LOR {
					walk(y.X, cond)
					walk(y.Y, true)
					return false
				}
			case *ast.IndexExpr:
				if t, _ := lk.tableOf(y); t != nil && target == nil {
					target = y
					conditional = cond
					return false
				}
			case *ast.CallExpr:
				if target == nil {
					if tv, has := info.Types[y.Fun]; !has || !tv.IsType() {
						// post-order would be the evaluation order; record and sort by end position below
						effects = append(effects, y)
					}
				}
			case *ast.UnaryExpr:
				if y.Op == token.ARROW && target == nil {
					effects = append(effects, y)
				}
			}
			return true
		})
	}
	for _, r := range roots {
		if target != nil {
			break
		}
		walk(*r, false)
	}
	if target == nil || conditional {
		return nil, false
	}
	// calls that complete before the lookup starts (not its ancestors)
	var before []ast.Expr
	for _, e := range effects {
		if e.End() <= target.Pos() {
			before = append(before, e)
		}
	}
	// innermost first: a call nested in an earlier call's arguments runs first
	for i := 0; i < len(before); i++ {
		for k := i + 1; k < len(before); k++ {
			if before[k].End() < before[i].End() {
				before[i], before[k] = before[k], before[i]
			}
		}
	}
	var pre []ast.Stmt
	replace := func(old, repl ast.Expr) {
		for _, r := range roots {
			replaceExpr(r, old, repl)
		}
	}
	// decide first, change the tree afterwards: a statement that is given up must be left as it was
	for _, e := range before {
		tv, has := info.Types[e]
		if !has {
			return nil, false
		}
		if _, isTuple := tv.Type.(*types.Tuple); isTuple || tv.IsVoid() {
			return nil, false
		}
		if b, isBasic := tv.Type.(*types.Basic); isBasic && b.Info()&types.IsUntyped != 0 {
			return nil, false
		}
	}
	for _, e := range before {
		name := pl.fresh("h")
		pre = append(pre, &ast.AssignStmt{Lhs: []ast.Expr{ast.NewIdent(name)}, Tok: token.DEFINE, Rhs: []ast.Expr{e}}, blankUse(name))
		replace(e, ast.NewIdent(name))
	}
	name := pl.fresh("v")
	pre = append(pre, &ast.AssignStmt{Lhs: []ast.Expr{ast.NewIdent(name)}, Tok: token.DEFINE, Rhs: []ast.Expr{target}}, blankUse(name))
	replace(target, ast.NewIdent(name))
	return pre, true
}
