package norm

// Table unrolling: a loop over a local table of literal rows
//
//	rows := []row{{a, b}, {c, d}}
//	if cond { rows = append(rows, row{e, f}) }
//	for _, r := range rows { body(r.x, r.y) }
//
// says the same as body written out once per row. The rules look at what is
// compared with what and what guards what, not at whether that is spelled as
// a sequence or as a table, so the table form is brought to the sequence
// form: every row's fields become local variables defined where the row was
// written (same evaluation order), the loop becomes one copy of the body per
// row, rows appended under a condition run under a flag set where they were
// appended. Only tables the transformation provably preserves are touched:
// the table variable has no other use, the loop variable is only read through
// its fields (otherwise a per-row copy of the whole row is kept), the body has
// no labels.

import (
	"fmt"
	"go/ast"
	"go/token"
	"go/types"
	"strings"

	"golang.org/x/tools/go/ast/astutil"
	"golang.org/x/tools/go/packages"
)

const maxRows = 24

// Unroll plans the table unrolling for every function of the module's packages.
func Unroll(pkgs []*packages.Package, module string) *Result {
	res := &Result{Overlay: map[string][]byte{}}
	for _, p := range pkgs {
		if !strings.HasPrefix(p.PkgPath, module) || len(p.Syntax) == 0 || p.TypesInfo == nil {
			continue
		}
		pl := &planner{res: res, pkg: p, helpers: map[*types.Func]*helper{}, uses: map[*ast.Ident]types.Object{}, origin: map[ast.Node]ast.Node{},
			changed: map[*ast.File]bool{}, addImports: map[*ast.File]map[string]string{}}
		for _, f := range p.Syntax {
			for _, d := range f.Decls {
				fd, ok := d.(*ast.FuncDecl)
				if !ok || fd.Body == nil {
					continue
				}
				if Unchanged(strings.TrimPrefix(strings.TrimPrefix(p.PkgPath, module), "/"), fd) {
					continue // as on the reference tree: left as written
				}
				pl.curFile, pl.curFunc = f, FuncKey(fd)
				u := &unroller{pl: pl, fn: fd}
				if u.run() {
					pl.changed[f] = true
				}
			}
		}
		for f := range pl.changed {
			pl.emit(f)
		}
	}
	return res
}

type unroller struct {
	pl *planner
	fn *ast.FuncDecl
}

func (u *unroller) run() bool {
	changed := false
	for iter := 0; iter < 8; iter++ {
		var lists []*[]ast.Stmt
		ast.Inspect(u.fn.Body, func(n ast.Node) bool {
			switch x := n.(type) {
			case *ast.BlockStmt:
				lists = append(lists, &x.List)
			case *ast.CaseClause:
				lists = append(lists, &x.Body)
			case *ast.CommClause:
				lists = append(lists, &x.Body)
			}
			return true
		})
		did := false
		for _, l := range lists {
			if u.list(l) {
				did = true
				break // the tree changed: collect the lists again
			}
		}
		if !did {
			break
		}
		changed = true
	}
	return changed
}

type rowGroup struct {
	rows  []ast.Expr
	list  *[]ast.Stmt // the statement list holding the defining / appending statement
	idx   int
	cond  bool // appended in a nested statement: runs under a flag
	flag  string
	names [][]string // scalarised: per row, per field the variable; whole: per row one name
}

// list looks for one unrollable loop among the statements of l and rewrites it.
func (u *unroller) list(l *[]ast.Stmt) bool {
	info := u.pl.pkg.TypesInfo
	for j, s := range *l {
		rs, ok := s.(*ast.RangeStmt)
		if !ok || rs.Body == nil {
			continue
		}
		if rs.Key != nil {
			if id, ok := rs.Key.(*ast.Ident); !ok || id.Name != "_" {
				continue
			}
		}
		var loopVar *types.Var
		if rs.Value != nil {
			id, ok := rs.Value.(*ast.Ident)
			if !ok || rs.Tok != token.DEFINE {
				continue
			}
			if id.Name != "_" {
				loopVar, _ = info.Defs[id].(*types.Var)
				if loopVar == nil {
					continue
				}
			}
		}
		var groups []*rowGroup
		var arr *ast.ArrayType
		var handedOn []*types.Var
		accountedAll := false
		defIdx := -1
		switch x := rs.X.(type) {
		case *ast.CompositeLit:
			at, ok := x.Type.(*ast.ArrayType)
			if !ok {
				continue
			}
			arr = at
			groups = append(groups, &rowGroup{rows: x.Elts, list: l, idx: j})
			defIdx = j
		case *ast.Ident:
			tv, _ := info.Uses[x].(*types.Var)
			if tv == nil || tv.IsField() || tv.Pkg() == nil || tv.Parent() == tv.Pkg().Scope() {
				continue
			}
			// the definition: in this list before the loop, or — through names that only
			// hand the slice on (`cs := xpna2`, the parameter of an inlined variadic helper) —
			// a literal declared in an enclosing list
			var lit *ast.CompositeLit
			var chain []*types.Var // names between the literal's variable and the loop
			defList := l
			{
				cur := tv
				for hop := 0; hop < 4 && lit == nil; hop++ {
					d := u.defOf(cur)
					if d == nil && hop == 0 {
						d = u.defOf(cur, true) // `rows = append(rows, …)` is looked at below
						if d != nil && d.list != l {
							d = nil
						}
					}
					if d == nil {
						break
					}
					switch r := d.rhs.(type) {
					case *ast.CompositeLit:
						lit, defList, defIdx = r, d.list, d.idx
						if !d.single {
							lit = nil // a literal among other definitions: evaluation order with its neighbours
						}
						tv = cur
					case *ast.Ident:
						w, _ := info.Uses[r].(*types.Var)
						if w == nil || w.IsField() || w.Pkg() == nil || w.Parent() == w.Pkg().Scope() {
							hop = 99
							break
						}
						chain = append(chain, cur)
						cur = w
					default:
						hop = 99
					}
				}
				if lit != nil && (defList != l || len(chain) > 0) {
					// only handed on: every use of every name is the hand-over, the loop, or a blank
					okc := true
					names := append([]*types.Var{tv}, chain...)
					for _, nm := range names {
						for id, o := range info.Uses {
							if o != types.Object(nm) || id.Pos() < u.fn.Pos() || id.Pos() > u.fn.End() {
								continue
							}
							if id == x || u.isBlankUse(id) || u.isHandOver(id, names) {
								continue
							}
							okc = false
						}
					}
					if !okc {
						lit = nil
					}
				}
			}
			if lit == nil {
				continue
			}
			at, ok := lit.Type.(*ast.ArrayType)
			if !ok {
				continue
			}
			arr = at
			groups = append(groups, &rowGroup{rows: lit.Elts, list: defList, idx: defIdx})
			handedOn = append([]*types.Var{}, chain...)
			if defList != l || len(chain) > 0 {
				handedOn = append(handedOn, tv)
				accountedAll = true
			}
			// every other use of the table is `T = append(T, rows...)` between definition and loop
			accounted := map[*ast.Ident]bool{x: true}
			okUses := true
			var scan func(list *[]ast.Stmt, nested bool) bool
			scan = func(list *[]ast.Stmt, nested bool) bool {
				for i, st := range *list {
					if list == l && (i <= defIdx || i >= j) {
						continue
					}
					switch y := st.(type) {
					case *ast.AssignStmt:
						if y.Tok == token.ASSIGN && len(y.Lhs) == 1 && len(y.Rhs) == 1 {
							lid, _ := y.Lhs[0].(*ast.Ident)
							call, _ := y.Rhs[0].(*ast.CallExpr)
							if lid != nil && call != nil && info.Uses[lid] == types.Object(tv) {
								fid, _ := call.Fun.(*ast.Ident)
								if fid == nil || fid.Name != "append" || call.Ellipsis.IsValid() || len(call.Args) < 1 {
									return false
								}
								if _, isBuiltin := info.Uses[fid].(*types.Builtin); !isBuiltin {
									return false
								}
								aid, _ := call.Args[0].(*ast.Ident)
								if aid == nil || info.Uses[aid] != types.Object(tv) {
									return false
								}
								accounted[lid], accounted[aid] = true, true
								groups = append(groups, &rowGroup{rows: call.Args[1:], list: list, idx: i, cond: nested})
							}
						}
					case *ast.IfStmt:
						for cur := ast.Stmt(y); cur != nil; {
							switch z := cur.(type) {
							case *ast.IfStmt:
								if !scan(&z.Body.List, true) {
									return false
								}
								cur = z.Else
							case *ast.BlockStmt:
								if !scan(&z.List, true) {
									return false
								}
								cur = nil
							default:
								cur = nil
							}
						}
					case *ast.BlockStmt:
						if !scan(&y.List, true) {
							return false
						}
					}
				}
				return true
			}
			if defList == l && len(chain) == 0 {
				if !scan(l, false) {
					continue
				}
			}
			if !accountedAll {
				ast.Inspect(u.fn.Body, func(n ast.Node) bool {
					if id, ok := n.(*ast.Ident); ok && info.Uses[id] == types.Object(tv) && !accounted[id] {
						okUses = false
					}
					return true
				})
			}
			if !okUses {
				continue
			}
		default:
			continue
		}
		if arr == nil {
			continue
		}
		if _, isEllipsis := arr.Len.(*ast.Ellipsis); arr.Len != nil && !isEllipsis {
			continue // a sized array has zero rows beyond the literal's
		}
		n := 0
		keyed := false
		for _, g := range groups {
			n += len(g.rows)
			for _, r := range g.rows {
				if _, isKV := r.(*ast.KeyValueExpr); isKV {
					keyed = true // indexed rows ([]T{2: x})
				}
			}
		}
		if n == 0 || n > maxRows || keyed {
			continue
		}
		if u.rewrite(l, j, rs, loopVar, arr, groups) {
			u.dropNames(handedOn)
			u.pl.res.Inlined = append(u.pl.res.Inlined, fmt.Sprintf("table of %d row(s) unrolled in %s", n, u.pl.curFunc))
			return true
		}
	}
	return false
}

// loopBranches finds the unlabeled break / continue statements of body that
// bind to the loop itself; ok is false when the body has labels or gotos.
func loopBranches(body *ast.BlockStmt) (brk, cont map[*ast.BranchStmt]bool, ok bool) {
	brk, cont = map[*ast.BranchStmt]bool{}, map[*ast.BranchStmt]bool{}
	ok = true
	var walk func(n ast.Node, inLoop, inSwitch bool)
	walk = func(n ast.Node, inLoop, inSwitch bool) {
		ast.Inspect(n, func(m ast.Node) bool {
			if m == n {
				return true
			}
			switch x := m.(type) {
			case *ast.FuncLit:
				return false
			case *ast.LabeledStmt:
				ok = false
				return false
			case *ast.ForStmt, *ast.RangeStmt:
				walk(x, true, true)
				return false
			case *ast.SwitchStmt, *ast.TypeSwitchStmt, *ast.SelectStmt:
				walk(x, inLoop, true)
				return false
			case *ast.BranchStmt:
				switch {
				case x.Tok == token.GOTO:
					ok = false
				case x.Label != nil:
					// a label outside the body (labels inside were rejected above): the branch leaves the loop as before
				case x.Tok == token.BREAK && !inSwitch:
					brk[x] = true
				case x.Tok == token.CONTINUE && !inLoop:
					cont[x] = true
				}
			}
			return true
		})
	}
	walk(body, false, false)
	return
}

// rowLit returns the struct literal of a row (through & for pointer rows).
func rowLit(e ast.Expr) *ast.CompositeLit {
	if ue, ok := e.(*ast.UnaryExpr); ok && ue.Op == token.AND {
		e = ue.X
	}
	cl, _ := e.(*ast.CompositeLit)
	return cl
}

func (u *unroller) rewrite(l *[]ast.Stmt, j int, rs *ast.RangeStmt, loopVar *types.Var, arr *ast.ArrayType, groups []*rowGroup) bool {
	pl := u.pl
	info := pl.pkg.TypesInfo
	brk, cont, ok := loopBranches(rs.Body)
	if !ok {
		return false
	}
	// element type
	eltT, okT := info.Types[arr.Elt]
	if !okT {
		return false
	}
	structAST := arr.Elt
	ptrRows := false
	if se, ok := arr.Elt.(*ast.StarExpr); ok {
		structAST, ptrRows = se.X, true
	}
	var st *types.Struct
	{
		t := eltT.Type
		if p, ok := t.Underlying().(*types.Pointer); ok {
			t = p.Elem()
		}
		st, _ = t.Underlying().(*types.Struct)
	}
	// how the loop variable is used
	scalar := st != nil && loopVar != nil
	fieldOf := map[*ast.SelectorExpr]int{}
	if scalar {
		for _, g := range groups {
			for _, r := range g.rows {
				if rowLit(r) == nil {
					scalar = false
				}
			}
		}
		written := false
		base := func(e ast.Expr) *ast.Ident {
			for {
				switch x := e.(type) {
				case *ast.ParenExpr:
					e = x.X
				case *ast.SelectorExpr:
					e = x.X
				case *ast.IndexExpr:
					e = x.X
				case *ast.SliceExpr:
					e = x.X
				case *ast.StarExpr:
					e = x.X
				case *ast.Ident:
					return x
				default:
					return nil
				}
			}
		}
		isLV := func(id *ast.Ident) bool { return id != nil && info.Uses[id] == types.Object(loopVar) }
		parentSel := map[*ast.Ident]*ast.SelectorExpr{}
		ast.Inspect(rs.Body, func(n ast.Node) bool {
			switch x := n.(type) {
			case *ast.AssignStmt:
				for _, lh := range x.Lhs {
					if isLV(base(lh)) {
						written = true
					}
				}
			case *ast.IncDecStmt:
				if isLV(base(x.X)) {
					written = true
				}
			case *ast.UnaryExpr:
				if x.Op == token.AND && isLV(base(x.X)) {
					written = true
				}
			case *ast.RangeStmt:
				if (x.Key != nil && isLV(base(x.Key))) || (x.Value != nil && isLV(base(x.Value))) {
					written = true
				}
			case *ast.SelectorExpr:
				if id, ok := x.X.(*ast.Ident); ok {
					parentSel[id] = x
				}
			}
			return true
		})
		if written {
			scalar = false
		}
		if scalar {
			ast.Inspect(rs.Body, func(n ast.Node) bool {
				id, ok := n.(*ast.Ident)
				if !ok || !isLV(id) {
					return true
				}
				sel := parentSel[id]
				if sel == nil {
					scalar = false
					return true
				}
				si := info.Selections[sel]
				if si == nil || si.Kind() != types.FieldVal || len(si.Index()) != 1 {
					scalar = false
					return true
				}
				fieldOf[sel] = si.Index()[0]
				return true
			})
		}
	}
	k := pl.fresh("t")
	rowNo := 0
	// definitions, group by group
	type ins struct {
		list *[]ast.Stmt
		idx  int
		repl []ast.Stmt
	}
	var edits []ins
	var preDecl []ast.Stmt // zero-valued declarations of conditional groups, placed at the definition
	define := func(name string, val ast.Expr) []ast.Stmt {
		return []ast.Stmt{
			&ast.AssignStmt{Lhs: []ast.Expr{ast.NewIdent(name)}, Tok: token.DEFINE, Rhs: []ast.Expr{val}},
			&ast.AssignStmt{Lhs: []ast.Expr{ast.NewIdent("_")}, Tok: token.ASSIGN, Rhs: []ast.Expr{ast.NewIdent(name)}},
		}
	}
	assign := func(name string, val ast.Expr) ast.Stmt {
		return &ast.AssignStmt{Lhs: []ast.Expr{ast.NewIdent(name)}, Tok: token.ASSIGN, Rhs: []ast.Expr{val}}
	}
	zeroField := func(f int) ast.Expr {
		return &ast.SelectorExpr{X: &ast.ParenExpr{X: &ast.CompositeLit{Type: pl.clone(structAST).(ast.Expr)}}, Sel: ast.NewIdent(st.Field(f).Name())}
	}
	for _, g := range groups {
		var out []ast.Stmt
		if g.cond {
			g.flag = fmt.Sprintf("%son%d", k, rowNo)
			preDecl = append(preDecl, define(g.flag, ast.NewIdent("false"))...)
			out = append(out, assign(g.flag, ast.NewIdent("true")))
		}
		for _, r := range g.rows {
			rowNo++
			if scalar {
				lit := rowLit(r)
				vals := make([]ast.Expr, st.NumFields())
				var order []int
				for pos, e := range lit.Elts {
					if kv, ok := e.(*ast.KeyValueExpr); ok {
						kid, _ := kv.Key.(*ast.Ident)
						fi := -1
						for i := 0; i < st.NumFields(); i++ {
							if kid != nil && st.Field(i).Name() == kid.Name {
								fi = i
							}
						}
						if fi < 0 {
							return false
						}
						vals[fi] = kv.Value
						order = append(order, fi)
					} else {
						if pos >= st.NumFields() {
							return false
						}
						vals[pos] = e
						order = append(order, pos)
					}
				}
				names := make([]string, st.NumFields())
				for i := range names {
					if st.Field(i).Name() == "_" || (!st.Field(i).Exported() && st.Field(i).Pkg() != pl.pkg.Types) {
						continue
					}
					names[i] = fmt.Sprintf("%sr%d%s", k, rowNo, st.Field(i).Name())
				}
				emitField := func(fi int, val ast.Expr) {
					if names[fi] == "" {
						if val != nil {
							out = append(out, assign("_", val))
						}
						return
					}
					// declared with the field's own type (its zero value), then assigned:
					// `x := val` alone would infer val's type, not the field's
					sameType := false
					if tv, ok := info.Types[val]; ok && val != nil && tv.Type != nil && tv.Value == nil {
						if b, isBasic := tv.Type.(*types.Basic); !isBasic || b.Info()&types.IsUntyped == 0 {
							sameType = types.Identical(tv.Type, st.Field(fi).Type())
						}
					}
					if _, isFn := val.(*ast.FuncLit); (isFn || sameType) && !g.cond {
						// a function literal keeps the `f := func…` form the closure pass recognises
						out = append(out, define(names[fi], val)...)
						return
					}
					if !g.cond {
						out = append(out, define(names[fi], zeroField(fi))...)
					}
					if val != nil {
						out = append(out, assign(names[fi], val))
					}
				}
				seen := map[int]bool{}
				for _, fi := range order {
					seen[fi] = true
					emitField(fi, vals[fi])
				}
				for fi := 0; fi < st.NumFields(); fi++ {
					if !seen[fi] {
						emitField(fi, nil)
					}
				}
				if g.cond {
					for fi := 0; fi < st.NumFields(); fi++ {
						if names[fi] != "" {
							preDecl = append(preDecl, define(names[fi], zeroField(fi))...)
						}
					}
				}
				g.names = append(g.names, names)
			} else {
				name := fmt.Sprintf("%sr%d", k, rowNo)
				val := r
				// a row written without its type takes the element type
				if cl, ok := r.(*ast.CompositeLit); ok && cl.Type == nil {
					if ptrRows {
						val = &ast.UnaryExpr{Op: token.AND, X: &ast.CompositeLit{Type: pl.clone(structAST).(ast.Expr), Elts: cl.Elts}}
					} else {
						val = &ast.CompositeLit{Type: pl.clone(arr.Elt).(ast.Expr), Elts: cl.Elts}
					}
				}
				decl := &ast.DeclStmt{Decl: &ast.GenDecl{Tok: token.VAR, Specs: []ast.Spec{&ast.ValueSpec{Names: []*ast.Ident{ast.NewIdent(name)}, Type: pl.clone(arr.Elt).(ast.Expr)}}}}
				use := assign("_", ast.NewIdent(name))
				if g.cond {
					preDecl = append(preDecl, decl, use)
					out = append(out, assign(name, val))
				} else {
					d2 := &ast.DeclStmt{Decl: &ast.GenDecl{Tok: token.VAR, Specs: []ast.Spec{&ast.ValueSpec{Names: []*ast.Ident{ast.NewIdent(name)}, Type: pl.clone(arr.Elt).(ast.Expr), Values: []ast.Expr{val}}}}}
					out = append(out, d2, use)
				}
				g.names = append(g.names, []string{name})
			}
		}
		edits = append(edits, ins{g.list, g.idx, out})
	}
	// the loop
	outer := ""
	if len(brk) > 0 {
		outer = k + "loop"
	}
	var unrolled []ast.Stmt
	rowNo = 0
	for _, g := range groups {
		var its []ast.Stmt
		for ri := range g.rows {
			rowNo++
			body := pl.clone(rs.Body).(*ast.BlockStmt)
			lbl := ""
			if len(cont) > 0 {
				lbl = fmt.Sprintf("%snext%d", k, rowNo)
			}
			names := g.names[ri]
			astutil.Apply(body, func(c *astutil.Cursor) bool {
				switch x := c.Node().(type) {
				case *ast.SelectorExpr:
					if o, _ := pl.root(x).(*ast.SelectorExpr); o != nil && scalar {
						if fi, ok := fieldOf[o]; ok {
							c.Replace(ast.NewIdent(names[fi]))
							return false
						}
					}
				case *ast.BranchStmt:
					o, _ := pl.root(x).(*ast.BranchStmt)
					if brk[o] {
						c.Replace(&ast.BranchStmt{Tok: token.BREAK, Label: ast.NewIdent(outer)})
					} else if cont[o] {
						c.Replace(&ast.BranchStmt{Tok: token.BREAK, Label: ast.NewIdent(lbl)})
					}
				}
				return true
			}, nil)
			if !scalar && loopVar != nil {
				body.List = append([]ast.Stmt{
					&ast.AssignStmt{Lhs: []ast.Expr{ast.NewIdent(loopVar.Name())}, Tok: token.DEFINE, Rhs: []ast.Expr{ast.NewIdent(names[0])}},
					&ast.AssignStmt{Lhs: []ast.Expr{ast.NewIdent("_")}, Tok: token.ASSIGN, Rhs: []ast.Expr{ast.NewIdent(loopVar.Name())}},
				}, body.List...)
			}
			if lbl != "" {
				body.List = append(body.List, &ast.BranchStmt{Tok: token.BREAK, Label: ast.NewIdent(lbl)})
				its = append(its, &ast.LabeledStmt{Label: ast.NewIdent(lbl), Stmt: &ast.ForStmt{Body: body}})
			} else {
				its = append(its, body)
			}
		}
		if g.cond {
			unrolled = append(unrolled, &ast.IfStmt{Cond: ast.NewIdent(g.flag), Body: &ast.BlockStmt{List: its}})
		} else {
			unrolled = append(unrolled, its...)
		}
	}
	var loop ast.Stmt = &ast.BlockStmt{List: unrolled}
	if outer != "" {
		unrolled = append(unrolled, &ast.BranchStmt{Tok: token.BREAK, Label: ast.NewIdent(outer)})
		loop = &ast.LabeledStmt{Label: ast.NewIdent(outer), Stmt: &ast.ForStmt{Body: &ast.BlockStmt{List: unrolled}}}
	}
	// apply: nested lists first (indices of l shift when l itself is edited)
	var top []ins
	for _, e := range edits {
		if e.list == l {
			top = append(top, e)
			continue
		}
		nl := append([]ast.Stmt{}, (*e.list)[:e.idx]...)
		nl = append(nl, e.repl...)
		nl = append(nl, (*e.list)[e.idx+1:]...)
		*e.list = nl
	}
	var nl []ast.Stmt
	for i, s := range *l {
		repl := []ast.Stmt{s}
		isDef := false
		for ei, e := range top {
			if e.idx == i {
				repl = e.repl
				isDef = ei == 0
				if i == j {
					// the literal was written in the range clause itself
					repl = append(append([]ast.Stmt{}, e.repl...), loop)
				}
			}
		}
		if i == j && len(repl) == 1 && repl[0] == s {
			repl = []ast.Stmt{loop}
		}
		nl = append(nl, repl...)
		if isDef && i != j {
			nl = append(nl, preDecl...)
		}
	}
	*l = nl
	return true
}

type localDef struct {
	rhs    ast.Expr
	list   *[]ast.Stmt
	idx    int
	single bool
}

// defOf finds the one definition (`x := e`, also as one pair of a parallel
// definition, or `var x T = e`) of a local of this function, with the statement
// list that holds it; nil when there is none or the variable is assigned again.
func (u *unroller) defOf(v *types.Var, lenient ...bool) *localDef {
	info := u.pl.pkg.TypesInfo
	var found *localDef
	n := 0
	var lists []*[]ast.Stmt
	ast.Inspect(u.fn.Body, func(m ast.Node) bool {
		switch x := m.(type) {
		case *ast.BlockStmt:
			lists = append(lists, &x.List)
		case *ast.CaseClause:
			lists = append(lists, &x.Body)
		case *ast.CommClause:
			lists = append(lists, &x.Body)
		}
		return true
	})
	for _, l := range lists {
		for i, s := range *l {
			switch d := s.(type) {
			case *ast.AssignStmt:
				if len(d.Lhs) != len(d.Rhs) {
					continue
				}
				for k, lh := range d.Lhs {
					id, ok := lh.(*ast.Ident)
					if !ok {
						continue
					}
					if d.Tok == token.DEFINE && info.Defs[id] == types.Object(v) {
						found = &localDef{d.Rhs[k], l, i, len(d.Lhs) == 1}
						n++
					} else if d.Tok != token.DEFINE && info.Uses[id] == types.Object(v) && len(lenient) == 0 {
						n += 2 // assigned again
					}
				}
			case *ast.DeclStmt:
				gd, ok := d.Decl.(*ast.GenDecl)
				if !ok || gd.Tok != token.VAR || len(gd.Specs) != 1 {
					continue
				}
				vs := gd.Specs[0].(*ast.ValueSpec)
				for k, nm := range vs.Names {
					if info.Defs[nm] == types.Object(v) && len(vs.Values) == len(vs.Names) {
						found = &localDef{vs.Values[k], l, i, len(vs.Names) == 1}
						n++
					}
				}
			}
		}
	}
	if n != 1 {
		return nil
	}
	return found
}

// isBlankUse: id is the right side of `_ = id` (alone or as a pair).
func (u *unroller) isBlankUse(id *ast.Ident) bool {
	res := false
	ast.Inspect(u.fn.Body, func(n ast.Node) bool {
		as, ok := n.(*ast.AssignStmt)
		if !ok || as.Tok != token.ASSIGN || len(as.Lhs) != len(as.Rhs) {
			return true
		}
		for i := range as.Rhs {
			if as.Rhs[i] == ast.Expr(id) {
				if l, ok := as.Lhs[i].(*ast.Ident); ok && l.Name == "_" {
					res = true
				}
			}
		}
		return true
	})
	return res
}

// isHandOver: id is the right side of the definition of one of names.
func (u *unroller) isHandOver(id *ast.Ident, names []*types.Var) bool {
	for _, nm := range names {
		if d := u.defOf(nm); d != nil && d.rhs == ast.Expr(id) {
			return true
		}
	}
	return false
}

// dropNames removes the definitions and blank uses of names that only handed
// the unrolled table on.
func (u *unroller) dropNames(names []*types.Var) {
	if len(names) == 0 {
		return
	}
	info := u.pl.pkg.TypesInfo
	is := func(o types.Object) bool {
		for _, nm := range names {
			if o == types.Object(nm) {
				return true
			}
		}
		return false
	}
	astutil.Apply(u.fn.Body, func(c *astutil.Cursor) bool {
		if c.Index() < 0 {
			return true
		}
		switch x := c.Node().(type) {
		case *ast.AssignStmt:
			if len(x.Lhs) != len(x.Rhs) {
				return true
			}
			var lhs, rhs []ast.Expr
			for i := range x.Lhs {
				drop := false
				if lid, ok := x.Lhs[i].(*ast.Ident); ok {
					if x.Tok == token.DEFINE && info.Defs[lid] != nil && is(info.Defs[lid]) {
						drop = true
					}
					if x.Tok == token.ASSIGN && lid.Name == "_" {
						if rid, ok := x.Rhs[i].(*ast.Ident); ok && info.Uses[rid] != nil && is(info.Uses[rid]) {
							drop = true
						}
					}
				}
				if !drop {
					lhs, rhs = append(lhs, x.Lhs[i]), append(rhs, x.Rhs[i])
				}
			}
			if len(lhs) == len(x.Lhs) {
				return true
			}
			if len(lhs) == 0 {
				c.Delete()
				return false
			}
			x.Lhs, x.Rhs = lhs, rhs
		case *ast.DeclStmt:
			gd, ok := x.Decl.(*ast.GenDecl)
			if !ok || gd.Tok != token.VAR || len(gd.Specs) != 1 {
				return true
			}
			vs := gd.Specs[0].(*ast.ValueSpec)
			if len(vs.Names) == 1 && info.Defs[vs.Names[0]] != nil && is(info.Defs[vs.Names[0]]) {
				c.Delete()
				return false
			}
		}
		return true
	}, nil)
}
