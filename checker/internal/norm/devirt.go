package norm

// Method values held in locals: `step := p.gather; … step(ctx)` calls
// p.gather(ctx). Tables of steps (a slice of method values run in order), once
// written out row by row, leave exactly this shape; the call through the
// local is replaced by the call it stands for, so that the next round can
// treat the method like any other helper. Only locals with a single
// definition that are never assigned again and whose address is not taken
// qualify, and only receivers that are themselves such locals (or parameters)
// of pointer or interface type — binding a method value of a struct value
// copies the struct, calling later does not.

import (
	"fmt"
	"go/ast"
	"go/token"
	"go/types"
	"strings"

	"golang.org/x/tools/go/ast/astutil"
	"golang.org/x/tools/go/packages"
)

// Devirt plans the replacement of calls through method-value locals.
func Devirt(pkgs []*packages.Package, module string) *Result {
	res := &Result{Overlay: map[string][]byte{}}
	for _, p := range pkgs {
		if !strings.HasPrefix(p.PkgPath, module) || len(p.Syntax) == 0 || p.TypesInfo == nil {
			continue
		}
		pl := &planner{res: res, pkg: p, helpers: map[*types.Func]*helper{}, uses: map[*ast.Ident]types.Object{}, origin: map[ast.Node]ast.Node{},
			changed: map[*ast.File]bool{}, addImports: map[*ast.File]map[string]string{}}
		for _, f := range p.Syntax {
			for _, d := range f.Decls {
				fd, ok := d.(*ast.FuncDecl)
				if !ok || fd.Body == nil {
					continue
				}
				if Unchanged(strings.TrimPrefix(strings.TrimPrefix(p.PkgPath, module), "/"), fd) {
					continue // as on the reference tree: left as written
				}
				pl.curFile, pl.curFunc = f, FuncKey(fd)
				if n := devirtFunc(pl, fd); n > 0 {
					pl.changed[f] = true
					res.Inlined = append(res.Inlined, fmt.Sprintf("%d call(s) through a method-value local made direct in %s", n, pl.curFunc))
				}
			}
		}
		for f := range pl.changed {
			pl.emit(f)
		}
	}
	return res
}

func devirtFunc(pl *planner, fd *ast.FuncDecl) int {
	info := pl.pkg.TypesInfo
	type def struct {
		rhs ast.Expr
	}
	defs := map[*types.Var][]def{}
	spoiled := map[*types.Var]bool{} // assigned again, address taken, inc/dec, range target
	note := func(id *ast.Ident, rhs ast.Expr, define bool) {
		if id == nil || id.Name == "_" {
			return
		}
		var v *types.Var
		if define {
			v, _ = info.Defs[id].(*types.Var)
			if v == nil { // := of an existing variable
				v, _ = info.Uses[id].(*types.Var)
				if v != nil {
					spoiled[v] = true
				}
				return
			}
			defs[v] = append(defs[v], def{rhs})
			return
		}
		if v, _ = info.Uses[id].(*types.Var); v != nil {
			spoiled[v] = true
		}
	}
	ast.Inspect(fd.Body, func(n ast.Node) bool {
		switch x := n.(type) {
		case *ast.AssignStmt:
			for i, l := range x.Lhs {
				id, _ := l.(*ast.Ident)
				var rhs ast.Expr
				if len(x.Lhs) == len(x.Rhs) {
					rhs = x.Rhs[i]
				}
				if id == nil {
					// writes through x.f / x[i] / *x do not rebind x
					continue
				}
				note(id, rhs, x.Tok == token.DEFINE)
			}
		case *ast.ValueSpec:
			for i, nm := range x.Names {
				var rhs ast.Expr
				if len(x.Values) == len(x.Names) {
					rhs = x.Values[i]
				}
				note(nm, rhs, true)
			}
		case *ast.UnaryExpr:
			if id, ok := x.X.(*ast.Ident); ok && x.Op == token.AND {
				if v, _ := info.Uses[id].(*types.Var); v != nil {
					spoiled[v] = true
				}
			}
		case *ast.IncDecStmt:
			if id, ok := x.X.(*ast.Ident); ok {
				if v, _ := info.Uses[id].(*types.Var); v != nil {
					spoiled[v] = true
				}
			}
		case *ast.RangeStmt:
			for _, e := range []ast.Expr{x.Key, x.Value} {
				if id, ok := e.(*ast.Ident); ok && x.Tok == token.ASSIGN {
					if v, _ := info.Uses[id].(*types.Var); v != nil {
						spoiled[v] = true
					}
				}
			}
		}
		return true
	})
	// parameters and receivers count as singly defined
	stable := func(v *types.Var) bool {
		if v == nil || spoiled[v] || v.IsField() || v.Pkg() == nil || v.Parent() == v.Pkg().Scope() {
			return false
		}
		return len(defs[v]) <= 1
	}
	type bound struct {
		recv *types.Var
		meth string
		lit  *types.Var  // instead: the local that holds the function literal itself
		fn   *types.Func // instead: a declared function the local was bound to
	}
	var resolve func(v *types.Var, depth int) (bound, bool)
	resolve = func(v *types.Var, depth int) (bound, bool) {
		if depth > 6 || !stable(v) || len(defs[v]) != 1 || defs[v][0].rhs == nil {
			return bound{}, false
		}
		if _, isSig := v.Type().Underlying().(*types.Signature); !isSig {
			return bound{}, false
		}
		switch r := defs[v][0].rhs.(type) {
		case *ast.FuncLit:
			if depth == 0 {
				return bound{}, false // called under its own name already
			}
			return bound{lit: v}, true
		case *ast.Ident:
			if f, isFn := info.Uses[r].(*types.Func); isFn && f.Pkg() == pl.pkg.Types && f.Parent() == pl.pkg.Types.Scope() {
				return bound{fn: f}, true // `pred := isFatal`
			}
			w, _ := info.Uses[r].(*types.Var)
			if w == nil {
				return bound{}, false
			}
			return resolve(w, depth+1)
		case *ast.SelectorExpr:
			si := info.Selections[r]
			rid, _ := r.X.(*ast.Ident)
			if si == nil || si.Kind() != types.MethodVal || rid == nil {
				return bound{}, false
			}
			rv, _ := info.Uses[rid].(*types.Var)
			if !stable(rv) {
				return bound{}, false
			}
			switch rv.Type().Underlying().(type) {
			case *types.Pointer, *types.Interface:
			default:
				return bound{}, false
			}
			return bound{recv: rv, meth: r.Sel.Name}, true
		}
		return bound{}, false
	}
	n := 0
	replaced := map[*types.Var]bool{}
	astutil.Apply(fd.Body, func(c *astutil.Cursor) bool {
		call, ok := c.Node().(*ast.CallExpr)
		if !ok {
			return true
		}
		fid, ok := call.Fun.(*ast.Ident)
		if !ok {
			return true
		}
		v, _ := info.Uses[fid].(*types.Var)
		if v == nil {
			return true
		}
		b, ok := resolve(v, 0)
		if !ok {
			return true
		}
		// the receiver's name must mean the receiver at the call
		scope := pl.pkg.Types.Scope().Innermost(call.Pos())
		if scope == nil {
			return true
		}
		if b.fn != nil {
			if _, o := scope.LookupParent(b.fn.Name(), call.Pos()); o != types.Object(b.fn) {
				return true
			}
			call.Fun = ast.NewIdent(b.fn.Name())
			replaced[v] = true
			n++
			return true
		}
		if b.lit != nil {
			// `pred := f` … pred(x): call f itself (the closure pass takes it from there)
			if _, o := scope.LookupParent(b.lit.Name(), call.Pos()); o != types.Object(b.lit) {
				return true
			}
			call.Fun = ast.NewIdent(b.lit.Name())
			replaced[v] = true
			n++
			return true
		}
		if _, o := scope.LookupParent(b.recv.Name(), call.Pos()); o != types.Object(b.recv) {
			return true
		}
		call.Fun = &ast.SelectorExpr{X: ast.NewIdent(b.recv.Name()), Sel: ast.NewIdent(b.meth)}
		replaced[v] = true
		n++
		return true
	}, nil)
	if n == 0 {
		return 0
	}
	// locals whose every use went away (calls made direct, blank assignments,
	// definitions of other such locals) are deleted with their definitions
	type useKind int
	const (
		useOther useKind = iota
		useBlank
		useDef
	)
	type use struct {
		kind useKind
		into *types.Var
	}
	uses := map[*types.Var][]use{}
	var stack []ast.Node
	ast.Inspect(fd.Body, func(n ast.Node) bool {
		if n == nil {
			stack = stack[:len(stack)-1]
			return true
		}
		stack = append(stack, n)
		id, ok := n.(*ast.Ident)
		if !ok {
			return true
		}
		v, _ := info.Uses[id].(*types.Var)
		if v == nil || !replaced[v] && len(defs[v]) == 0 {
			return true
		}
		u := use{kind: useOther}
		switch p := stack[len(stack)-2].(type) {
		case *ast.AssignStmt:
			if len(p.Lhs) == len(p.Rhs) {
				for i := range p.Rhs {
					if p.Rhs[i] != ast.Expr(id) {
						continue
					}
					if lid, ok := p.Lhs[i].(*ast.Ident); ok {
						if lid.Name == "_" && p.Tok == token.ASSIGN {
							u.kind = useBlank
						} else if p.Tok == token.DEFINE {
							if w, _ := info.Defs[lid].(*types.Var); w != nil {
								u = use{useDef, w}
							}
						}
					}
				}
			}
		case *ast.ValueSpec:
			if len(p.Names) == 1 && len(p.Values) == 1 && p.Values[0] == ast.Expr(id) {
				if w, _ := info.Defs[p.Names[0]].(*types.Var); w != nil {
					u = use{useDef, w}
				}
			}
		}
		uses[v] = append(uses[v], u)
		return true
	})
	// (the call sites were rewritten above: their identifiers are gone from the tree)
	dead := map[*types.Var]bool{}
	for changed := true; changed; {
		changed = false
		for v := range defs {
			if dead[v] || spoiled[v] || len(defs[v]) != 1 {
				continue
			}
			if _, ok := resolve(v, 0); !ok {
				continue
			}
			all := true
			for _, u := range uses[v] {
				if u.kind == useOther || (u.kind == useDef && !dead[u.into]) {
					all = false
				}
			}
			if all {
				dead[v] = true
				changed = true
			}
		}
	}
	astutil.Apply(fd.Body, func(c *astutil.Cursor) bool {
		if c.Index() < 0 {
			return true
		}
		switch x := c.Node().(type) {
		case *ast.AssignStmt:
			if len(x.Lhs) == len(x.Rhs) && len(x.Lhs) > 1 {
				var lhs, rhs []ast.Expr
				for i := range x.Lhs {
					drop := false
					if lid, ok := x.Lhs[i].(*ast.Ident); ok {
						if x.Tok == token.DEFINE {
							if v, _ := info.Defs[lid].(*types.Var); v != nil && dead[v] {
								drop = true
							}
						} else if lid.Name == "_" {
							if rid, ok := x.Rhs[i].(*ast.Ident); ok {
								if v, _ := info.Uses[rid].(*types.Var); v != nil && dead[v] {
									drop = true
								}
							}
						}
					}
					if !drop {
						lhs, rhs = append(lhs, x.Lhs[i]), append(rhs, x.Rhs[i])
					}
				}
				if len(lhs) == 0 {
					c.Delete()
					return false
				}
				x.Lhs, x.Rhs = lhs, rhs
				return true
			}
			if len(x.Lhs) != 1 || len(x.Rhs) != 1 {
				return true
			}
			lid, _ := x.Lhs[0].(*ast.Ident)
			if lid == nil {
				return true
			}
			if x.Tok == token.DEFINE {
				if v, _ := info.Defs[lid].(*types.Var); v != nil && dead[v] {
					c.Delete()
					return false
				}
				if v, _ := info.Defs[lid].(*types.Var); v != nil && replaced[v] {
					c.InsertAfter(&ast.AssignStmt{Lhs: []ast.Expr{ast.NewIdent("_")}, Tok: token.ASSIGN, Rhs: []ast.Expr{ast.NewIdent(lid.Name)}})
				}
			} else if lid.Name == "_" {
				if rid, ok := x.Rhs[0].(*ast.Ident); ok {
					if v, _ := info.Uses[rid].(*types.Var); v != nil && dead[v] {
						c.Delete()
						return false
					}
				}
			}
		case *ast.DeclStmt:
			gd, ok := x.Decl.(*ast.GenDecl)
			if !ok || gd.Tok != token.VAR || len(gd.Specs) != 1 {
				return true
			}
			vs := gd.Specs[0].(*ast.ValueSpec)
			if len(vs.Names) != 1 {
				return true
			}
			if v, _ := info.Defs[vs.Names[0]].(*types.Var); v != nil {
				if dead[v] {
					c.Delete()
					return false
				}
				if replaced[v] {
					c.InsertAfter(&ast.AssignStmt{Lhs: []ast.Expr{ast.NewIdent("_")}, Tok: token.ASSIGN, Rhs: []ast.Expr{ast.NewIdent(vs.Names[0].Name)}})
				}
			}
		}
		return true
	}, nil)
	return n
}
