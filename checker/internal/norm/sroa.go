package norm

// Local struct bundles: a local struct that is only ever used field by field
//
//	s := summary{oldest: -1}                 op := &syncOp{cm: cm, xr: xr}
//	for … { if n > s.max { s.max = n } … }   o := op          // receiver of an inlined method
//	out := s                                 o.patch.SetName(o.cm.GetName())
//	… out.max …
//
// says the same as one local variable per field. go/ssa keeps such a struct in
// memory (field addresses, loads, stores); the rules follow values, so the
// bundle is taken apart at source level: every field becomes a local with the
// field's own type. Pointers to the struct that are themselves only used for
// field selection (`o := op`, `p := &s`, the result temporary of an inlined
// constructor) are names of the same bundle and disappear. A variable that is
// used in any other way (passed on, returned, compared, reassigned, address
// of a field taken, a method called on it) is left alone, and so is every
// other name of its bundle and everything copied from or to it.

import (
	"fmt"
	"go/ast"
	"go/token"
	"go/types"
	"sort"
	"strings"

	"golang.org/x/tools/go/ast/astutil"
	"golang.org/x/tools/go/packages"
)

// Scalarise plans the replacement of local struct bundles by per-field locals.
func Scalarise(pkgs []*packages.Package, module string) *Result {
	res := &Result{Overlay: map[string][]byte{}}
	for _, p := range pkgs {
		if !strings.HasPrefix(p.PkgPath, module) || len(p.Syntax) == 0 || p.TypesInfo == nil {
			continue
		}
		pl := &planner{res: res, pkg: p, helpers: map[*types.Func]*helper{}, uses: map[*ast.Ident]types.Object{}, origin: map[ast.Node]ast.Node{},
			changed: map[*ast.File]bool{}, addImports: map[*ast.File]map[string]string{}}
		for _, f := range p.Syntax {
			for _, d := range f.Decls {
				fd, ok := d.(*ast.FuncDecl)
				if !ok || fd.Body == nil {
					continue
				}
				if Unchanged(strings.TrimPrefix(strings.TrimPrefix(p.PkgPath, module), "/"), fd) {
					continue // as on the reference tree: left as written
				}
				pl.curFile, pl.curFunc = f, FuncKey(fd)
				if n := (&sroa{pl: pl, fn: fd}).run(); n > 0 {
					pl.changed[f] = true
					res.Inlined = append(res.Inlined, fmt.Sprintf("%d local struct bundle(s) taken apart in %s", n, pl.curFunc))
				}
			}
		}
		for f := range pl.changed {
			pl.emit(f)
		}
	}
	return res
}

// a cell is one struct object; several variables may name it
type cell struct {
	st     *types.Struct
	typ    ast.Expr // type expression valid at the creation site
	root   *bvar
	prefix string
	bad    string
	copies []*cell // cells copied from or to as a whole
	hoist  bool    // a name is declared before the cell is created: the fields are declared at the top of the function
}

type bvar struct {
	v     *types.Var
	ptr   bool
	def   ast.Stmt // declaring statement
	defID *ast.Ident
	// how it gets its value
	site   ast.Stmt          // the statement that gives it (def, or the one assignment of a late pointer)
	lit    *ast.CompositeLit // root: T{…} / &T{…}
	zero   bool              // root: var s T / new(T)
	from   *types.Var        // V: copy of another value bundle; P: another name of from's cell
	addrOf bool              // P: &from
	single bool              // the site statement has a single left side
	late   bool              // P declared `var p *T`, given its value by exactly one later assignment
	nasg   int
	cell   *cell
	bad    string
}

type sroa struct {
	pl *planner
	fn *ast.FuncDecl
}

func (s *sroa) structOf(t types.Type) *types.Struct {
	st, _ := t.Underlying().(*types.Struct)
	if st == nil || st.NumFields() == 0 {
		return nil
	}
	for i := 0; i < st.NumFields(); i++ {
		f := st.Field(i)
		if f.Name() == "_" || (!f.Exported() && f.Pkg() != s.pl.pkg.Types) {
			return nil
		}
	}
	return st
}

// pseudoLoop: `L: for { …; break L }` without a continue of its own never iterates
func pseudoLoop(fs *ast.ForStmt, label string) bool {
	if fs.Init != nil || fs.Cond != nil || fs.Post != nil || label == "" || len(fs.Body.List) == 0 {
		return false
	}
	last, ok := fs.Body.List[len(fs.Body.List)-1].(*ast.BranchStmt)
	if !ok || last.Tok != token.BREAK || last.Label == nil || last.Label.Name != label {
		return false
	}
	iterates := false
	var walk func(n ast.Node, nested bool)
	walk = func(n ast.Node, nested bool) {
		ast.Inspect(n, func(m ast.Node) bool {
			if m == n {
				return true
			}
			switch x := m.(type) {
			case *ast.FuncLit:
				return false
			case *ast.ForStmt, *ast.RangeStmt:
				walk(x, true)
				return false
			case *ast.BranchStmt:
				if x.Tok == token.GOTO || (x.Tok == token.CONTINUE && (x.Label != nil && x.Label.Name == label || x.Label == nil && !nested)) {
					iterates = true
				}
			}
			return true
		})
	}
	walk(fs.Body, false)
	return !iterates
}

func (s *sroa) run() int {
	info := s.pl.pkg.TypesInfo
	inList := map[ast.Stmt]bool{}
	// enclosing function body and enclosing real loops of every statement
	encFn := map[ast.Node]*ast.BlockStmt{}
	encLoops := map[ast.Node][]ast.Node{}
	{
		var fnStack []*ast.BlockStmt
		var loopStack []ast.Node
		var stack []ast.Node
		fnStack = append(fnStack, s.fn.Body)
		ast.Inspect(s.fn.Body, func(n ast.Node) bool {
			if n == nil {
				top := stack[len(stack)-1]
				stack = stack[:len(stack)-1]
				switch x := top.(type) {
				case *ast.FuncLit:
					fnStack = fnStack[:len(fnStack)-1]
				case *ast.RangeStmt:
					loopStack = loopStack[:len(loopStack)-1]
				case *ast.ForStmt:
					if len(loopStack) > 0 && loopStack[len(loopStack)-1] == ast.Node(x) {
						loopStack = loopStack[:len(loopStack)-1]
					}
				}
				return true
			}
			switch x := n.(type) {
			case *ast.FuncLit:
				fnStack = append(fnStack, x.Body)
			case *ast.RangeStmt:
				loopStack = append(loopStack, x)
			case *ast.ForStmt:
				label := ""
				if len(stack) > 0 {
					if ls, ok := stack[len(stack)-1].(*ast.LabeledStmt); ok {
						label = ls.Label.Name
					}
				}
				if !pseudoLoop(x, label) {
					loopStack = append(loopStack, x)
				}
			}
			stack = append(stack, n)
			if st, ok := n.(ast.Stmt); ok {
				encFn[st] = fnStack[len(fnStack)-1]
				encLoops[st] = append([]ast.Node{}, loopStack...)
			}
			var l []ast.Stmt
			switch x := n.(type) {
			case *ast.BlockStmt:
				l = x.List
			case *ast.CaseClause:
				l = x.Body
			case *ast.CommClause:
				l = x.Body
			}
			for _, st := range l {
				inList[st] = true
			}
			return true
		})
	}
	vars := map[*types.Var]*bvar{}
	// classify how b gets its value from rhs
	classify := func(b *bvar, st *types.Struct, rhs ast.Expr, typ ast.Expr) bool {
		sameType := func(e ast.Expr) bool {
			tv, ok := info.Types[e]
			return ok && types.Identical(tv.Type, b.v.Type())
		}
		switch r := rhs.(type) {
		case nil:
			if b.ptr || typ == nil {
				return false
			}
			b.zero = true
			b.cell = &cell{st: st, typ: typ, root: b}
		case *ast.CompositeLit:
			if b.ptr || r.Type == nil || !sameType(r) {
				return false
			}
			b.lit = r
			b.cell = &cell{st: st, typ: r.Type, root: b}
		case *ast.UnaryExpr:
			if !b.ptr || r.Op != token.AND || !sameType(r) {
				return false
			}
			switch x := r.X.(type) {
			case *ast.CompositeLit:
				if x.Type == nil {
					return false
				}
				b.lit = x
				b.cell = &cell{st: st, typ: x.Type, root: b}
			case *ast.Ident:
				w, _ := info.Uses[x].(*types.Var)
				if w == nil {
					return false
				}
				b.from, b.addrOf = w, true
			default:
				return false
			}
		case *ast.CallExpr:
			fid, _ := r.Fun.(*ast.Ident)
			if !b.ptr || fid == nil || fid.Name != "new" || len(r.Args) != 1 || !sameType(r) {
				return false
			}
			if _, isBuiltin := info.Uses[fid].(*types.Builtin); !isBuiltin {
				return false
			}
			b.zero = true
			b.cell = &cell{st: st, typ: r.Args[0], root: b}
		case *ast.Ident:
			w, _ := info.Uses[r].(*types.Var)
			if w == nil || !sameType(r) {
				return false
			}
			b.from = w
		default:
			return false
		}
		return true
	}
	structOfVar := func(v *types.Var) (*types.Struct, bool) {
		t := v.Type()
		ptr := false
		if p, ok := t.(*types.Pointer); ok {
			t, ptr = p.Elem(), true
		}
		return s.structOf(t), ptr
	}
	define := func(stmt ast.Stmt, id *ast.Ident, rhs ast.Expr, typ ast.Expr, single bool) {
		if id == nil || id.Name == "_" || !inList[stmt] {
			return
		}
		v, _ := info.Defs[id].(*types.Var)
		if v == nil {
			return
		}
		st, ptr := structOfVar(v)
		if st == nil {
			return
		}
		b := &bvar{v: v, ptr: ptr, def: stmt, defID: id, site: stmt, single: single}
		if rhs == nil && ptr && typ != nil {
			b.late = true
			vars[v] = b
			return
		}
		if classify(b, st, rhs, typ) {
			vars[v] = b
		}
	}
	ast.Inspect(s.fn.Body, func(n ast.Node) bool {
		switch x := n.(type) {
		case *ast.AssignStmt:
			if x.Tok == token.DEFINE && len(x.Lhs) == len(x.Rhs) {
				for i := range x.Lhs {
					id, _ := x.Lhs[i].(*ast.Ident)
					define(x, id, x.Rhs[i], nil, len(x.Lhs) == 1)
				}
			}
		case *ast.DeclStmt:
			gd, _ := x.Decl.(*ast.GenDecl)
			if gd == nil || gd.Tok != token.VAR || len(gd.Specs) != 1 {
				return true
			}
			vs := gd.Specs[0].(*ast.ValueSpec)
			switch {
			case len(vs.Values) == 0 && len(vs.Names) == 1:
				define(x, vs.Names[0], nil, vs.Type, true)
			case len(vs.Values) == len(vs.Names):
				for i := range vs.Names {
					define(x, vs.Names[i], vs.Values[i], vs.Type, len(vs.Names) == 1)
				}
			}
		}
		return true
	})
	if len(vars) == 0 {
		return 0
	}
	// late pointers: their one assignment
	ast.Inspect(s.fn.Body, func(n ast.Node) bool {
		as, ok := n.(*ast.AssignStmt)
		if !ok || as.Tok != token.ASSIGN {
			return true
		}
		for i, l := range as.Lhs {
			id, _ := l.(*ast.Ident)
			if id == nil {
				continue
			}
			v, _ := info.Uses[id].(*types.Var)
			b := vars[v]
			if b == nil || !b.late {
				continue
			}
			b.nasg++
			if b.nasg > 1 || len(as.Lhs) != 1 || len(as.Rhs) != 1 || !inList[as] {
				b.bad = "assigned more than once, or in a multiple assignment"
				continue
			}
			st, _ := structOfVar(v)
			b.site = as
			if !classify(b, st, as.Rhs[i], nil) {
				b.bad = "assigned something that is not a bundle"
			}
		}
		return true
	})
	for _, b := range vars {
		if b.late && b.nasg == 0 {
			b.bad = "never assigned"
		}
	}
	// names of the same cell; value copies get their own cell
	for changed := true; changed; {
		changed = false
		for _, b := range vars {
			if b.cell != nil || b.bad != "" || b.from == nil {
				continue
			}
			src := vars[b.from]
			if src == nil || src.bad != "" {
				b.bad = "defined from a variable that stays"
				changed = true
				continue
			}
			if src.cell == nil {
				continue // not resolved yet
			}
			switch {
			case b.ptr && b.addrOf && !src.ptr, b.ptr && !b.addrOf && src.ptr:
				b.cell = src.cell
			case !b.ptr && !src.ptr:
				b.cell = &cell{st: src.cell.st, typ: src.cell.typ, root: b}
				b.cell.copies = append(b.cell.copies, src.cell)
				src.cell.copies = append(src.cell.copies, b.cell)
			default:
				b.bad = "unsupported definition"
			}
			changed = true
		}
	}
	for _, b := range vars {
		if b.cell == nil && b.bad == "" {
			b.bad = "definition not resolved"
		}
		if b.cell != nil && b.cell.root == b && !b.single {
			b.bad = "created in a multiple assignment"
		}
	}
	// every use must be one of the recognised forms
	useOf := func(id *ast.Ident) *bvar {
		if v, ok := info.Uses[id].(*types.Var); ok {
			return vars[v]
		}
		return nil
	}
	type pair struct {
		lhs  ast.Expr
		tok  token.Token
		stmt ast.Stmt
		n    int
	}
	rhsPair := func(parent ast.Node, e ast.Expr, stack []ast.Node) (pair, bool) {
		switch p := parent.(type) {
		case *ast.AssignStmt:
			if len(p.Lhs) == len(p.Rhs) {
				for i := range p.Rhs {
					if p.Rhs[i] == e {
						return pair{p.Lhs[i], p.Tok, p, len(p.Lhs)}, true
					}
				}
			}
		case *ast.ValueSpec:
			if len(p.Names) == len(p.Values) {
				for i := range p.Values {
					if p.Values[i] == e {
						for j := len(stack) - 1; j >= 0; j-- {
							if ds, ok := stack[j].(*ast.DeclStmt); ok {
								return pair{p.Names[i], token.DEFINE, ds, len(p.Names)}, true
							}
						}
					}
				}
			}
		}
		return pair{}, false
	}
	// whole-value reads of a value bundle (an argument, a returned value, an
	// element of a literal, an operand): the literal built from its fields
	recon := map[*ast.Ident]bool{}
	reconstructible := func(b *bvar, parent ast.Node, id *ast.Ident) bool {
		if b.ptr || b.cell == nil || b.cell.typ == nil {
			return false
		}
		switch p := parent.(type) {
		case *ast.CallExpr:
			for _, a := range p.Args {
				if a == ast.Expr(id) {
					return !p.Ellipsis.IsValid()
				}
			}
		case *ast.ReturnStmt, *ast.CompositeLit, *ast.SendStmt, *ast.BinaryExpr, *ast.ParenExpr:
			return true
		case *ast.KeyValueExpr:
			return p.Value == ast.Expr(id)
		}
		return false
	}
	var stack []ast.Node
	ast.Inspect(s.fn.Body, func(n ast.Node) bool {
		if n == nil {
			stack = stack[:len(stack)-1]
			return true
		}
		stack = append(stack, n)
		id, ok := n.(*ast.Ident)
		if !ok {
			return true
		}
		b := useOf(id)
		if b == nil || b.bad != "" {
			return true
		}
		parent := stack[len(stack)-2]
		viaAddr := false
		// the target of a whole-value flow: a definition of another bundle name, the one assignment of a late pointer, an assignment to a value bundle, or the blank
		flowsInto := func(pr pair) string {
			if !inList[pr.stmt] {
				return "used outside a statement list"
			}
			lid, _ := pr.lhs.(*ast.Ident)
			if lid == nil {
				return "flows into something that is not a variable"
			}
			if lid.Name == "_" && pr.tok == token.ASSIGN {
				return ""
			}
			var o *bvar
			if pr.tok == token.DEFINE {
				if v, _ := info.Defs[lid].(*types.Var); v != nil {
					o = vars[v]
				}
			} else {
				o = useOf(lid)
				switch {
				case o == nil:
				case o.ptr:
					if !o.late || o.site != pr.stmt {
						o = nil
					}
				case b.ptr:
					o = nil
				case pr.n != 1:
					return "copied in a multiple assignment"
				default:
					o.cell.copies = append(o.cell.copies, b.cell)
					b.cell.copies = append(b.cell.copies, o.cell)
				}
			}
			if o == nil || o.bad != "" {
				if !b.ptr && b.cell != nil && b.cell.typ != nil && !viaAddr {
					recon[id] = true // read as a whole: the literal of its fields
					return ""
				}
				return "flows into a variable that stays"
			}
			return ""
		}
		switch p := parent.(type) {
		case *ast.SelectorExpr:
			if p.X != ast.Expr(id) {
				b.bad = "unexpected selector"
				return true
			}
			si := info.Selections[p]
			// x.f, or x.g / x.m() promoted from an embedded field of x
			if si == nil || (si.Kind() == types.FieldVal && len(si.Index()) < 1) || (si.Kind() == types.MethodVal && len(si.Index()) < 2) || si.Kind() == types.MethodExpr {
				b.bad = "method of the bundle itself used"
				return true
			}
			// &x.f (through any chain of selectors / indexes) lets a field escape
			// (an index into a slice or map field, or a selection through a pointer
			// field, leaves the field's own storage: its address is another matter)
			cur := ast.Expr(p)
		up:
			for i := len(stack) - 2; i > 0; i-- {
				viaPointer := func() bool {
					tv, ok := info.Types[cur]
					if !ok {
						return false
					}
					switch tv.Type.Underlying().(type) {
					case *types.Pointer, *types.Slice, *types.Map:
						return true
					}
					return false
				}
				switch a := stack[i-1].(type) {
				case *ast.ParenExpr:
					cur = a
					continue
				case *ast.SelectorExpr, *ast.IndexExpr, *ast.SliceExpr:
					if viaPointer() {
						break up
					}
					cur = a.(ast.Expr)
					continue
				case *ast.UnaryExpr:
					if a.Op == token.AND {
						b.bad = "address of a field taken"
					}
				}
				break
			}
		case *ast.UnaryExpr:
			if p.Op != token.AND || b.ptr || len(stack) < 3 {
				b.bad = "used as a whole"
				return true
			}
			pr, ok := rhsPair(stack[len(stack)-3], p, stack)
			if !ok {
				b.bad = "address taken"
				return true
			}
			viaAddr = true
			if why := flowsInto(pr); why != "" {
				b.bad = why
			}
			viaAddr = false
		case *ast.AssignStmt, *ast.ValueSpec:
			if as, ok := p.(*ast.AssignStmt); ok {
				isLhs := false
				for i, l := range as.Lhs {
					if l != ast.Expr(id) {
						continue
					}
					isLhs = true
					switch {
					case b.late && b.site == ast.Stmt(as):
						// its one assignment
					case as.Tok != token.ASSIGN || b.ptr || len(as.Lhs) != 1 || len(as.Rhs) != 1 || !inList[as]:
						b.bad = "reassigned"
					default:
						switch r := as.Rhs[i].(type) {
						case *ast.Ident:
							if o := useOf(r); o == nil || o.ptr || o.cell == nil {
								b.bad = "assigned from something that is not a bundle"
							} else {
								// linked here as well: the right side may already have been given up
								// (its uses are no longer visited), and that must reach this side
								o.cell.copies = append(o.cell.copies, b.cell)
								b.cell.copies = append(b.cell.copies, o.cell)
								if o.bad != "" {
									b.bad = "assigned from a variable that stays"
								}
							}
						case *ast.CompositeLit:
							if tv, ok := info.Types[r]; !ok || r.Type == nil || !types.Identical(tv.Type, b.v.Type()) {
								b.bad = "assigned a literal of another type"
							}
						default:
							b.bad = "assigned from something that is not a bundle"
						}
					}
				}
				if isLhs {
					return true
				}
			}
			pr, ok := rhsPair(parent, id, stack)
			if !ok {
				b.bad = "used in an unbalanced assignment"
				return true
			}
			if why := flowsInto(pr); why != "" {
				b.bad = why
			}
		default:
			if reconstructible(b, parent, id) {
				recon[id] = true
			} else {
				b.bad = fmt.Sprintf("used as a whole (%T)", parent)
			}
		}
		return true
	})
	// a cell one of whose names is declared before the cell is created: its
	// fields are declared at the top of the function. That needs the creation
	// and all names in one function body, a type expression that means the same
	// there, and no loop around the creation that a name outlives.
	hoistable := func(e ast.Expr) bool {
		ok := true
		ast.Inspect(e, func(n ast.Node) bool {
			if id, isID := n.(*ast.Ident); isID {
				o := info.Uses[id]
				if o == nil {
					return true // field names of a struct type expression
				}
				if _, isPkg := o.(*types.PkgName); isPkg {
					return true
				}
				if o.Parent() != types.Universe && o.Parent() != s.pl.pkg.Types.Scope() {
					ok = false
				}
			}
			return true
		})
		return ok
	}
	byCell := map[*cell][]*bvar{}
	for _, b := range vars {
		if b.cell != nil {
			byCell[b.cell] = append(byCell[b.cell], b)
		}
	}
	for c, names := range byCell {
		for _, b := range names {
			if b.late {
				c.hoist = true
			}
		}
		if !c.hoist {
			continue
		}
		rootFn := encFn[c.root.site]
		if c.typ == nil || !hoistable(c.typ) {
			c.bad = "type not nameable at the top of the function"
			continue
		}
		for _, b := range names {
			if encFn[b.def] != rootFn {
				// declared in another function body than the creation (a closure creating what its parent names)
				inside := false
				ast.Inspect(rootFn, func(n ast.Node) bool {
					if n == ast.Node(b.def) {
						inside = true
					}
					return !inside
				})
				if !inside {
					c.bad = "created in a closure, named outside it"
				}
			}
			for _, l := range encLoops[c.root.site] {
				within := false
				ast.Inspect(l, func(n ast.Node) bool {
					if n == ast.Node(b.def) {
						within = true
					}
					return !within
				})
				if !within {
					c.bad = "created in a loop that a name of it outlives"
				}
			}
		}
	}
	// rejection spreads over the names of a cell and along whole-value copies
	for changed := true; changed; {
		changed = false
		for _, b := range vars {
			if b.cell == nil {
				continue
			}
			if b.bad != "" && b.cell.bad == "" {
				b.cell.bad = b.bad
				changed = true
			}
			if b.bad == "" && b.cell.bad != "" {
				b.bad = b.cell.bad
				changed = true
			}
			if b.bad == "" && b.from != nil && (vars[b.from] == nil || vars[b.from].bad != "") {
				b.bad = "defined from a variable that stays"
				changed = true
			}
			for _, o := range b.cell.copies {
				if o.bad != "" && b.cell.bad == "" {
					b.cell.bad = "copied from or to a variable that stays"
					changed = true
				}
			}
		}
	}
	litVals := func(st *types.Struct, cl *ast.CompositeLit) ([]ast.Expr, bool) {
		vals := make([]ast.Expr, st.NumFields())
		for pos, e := range cl.Elts {
			if kv, ok := e.(*ast.KeyValueExpr); ok {
				kid, _ := kv.Key.(*ast.Ident)
				fi := -1
				for i := 0; i < st.NumFields(); i++ {
					if kid != nil && st.Field(i).Name() == kid.Name {
						fi = i
					}
				}
				if fi < 0 {
					return nil, false
				}
				vals[fi] = kv.Value
			} else {
				if pos >= st.NumFields() {
					return nil, false
				}
				vals[pos] = e
			}
		}
		return vals, true
	}
	var order []*bvar
	for _, b := range vars {
		order = append(order, b)
	}
	sort.Slice(order, func(i, j int) bool { return order[i].defID.Pos() < order[j].defID.Pos() })
	n := 0
	for _, b := range order {
		if b.bad != "" || b.cell.root != b || b.cell.bad != "" {
			continue
		}
		if b.lit != nil {
			if _, ok := litVals(b.cell.st, b.lit); !ok {
				b.cell.bad = "literal not understood"
				continue
			}
		}
		n++
		b.cell.prefix = s.pl.fresh("s") + b.v.Name()
	}
	if n == 0 {
		return 0
	}
	good := func(v *types.Var) *bvar {
		if b := vars[v]; b != nil && b.bad == "" && b.cell != nil && b.cell.bad == "" && b.cell.prefix != "" {
			return b
		}
		return nil
	}
	name := func(c *cell, i int) *ast.Ident { return ast.NewIdent(c.prefix + "_" + c.st.Field(i).Name()) }
	zero := func(typ ast.Expr, st *types.Struct, i int) ast.Expr {
		return &ast.SelectorExpr{X: &ast.ParenExpr{X: &ast.CompositeLit{Type: s.pl.clone(typ).(ast.Expr)}}, Sel: ast.NewIdent(st.Field(i).Name())}
	}
	fieldsOf := func(c *cell) []ast.Expr {
		var out []ast.Expr
		for i := 0; i < c.st.NumFields(); i++ {
			out = append(out, name(c, i))
		}
		return out
	}
	zeros := func(c *cell) []ast.Expr {
		var zs []ast.Expr
		for i := 0; i < c.st.NumFields(); i++ {
			zs = append(zs, zero(c.typ, c.st, i))
		}
		return zs
	}
	parallel := func(c *cell, rhs []ast.Expr, tok token.Token) ast.Stmt {
		return &ast.AssignStmt{Lhs: fieldsOf(c), Tok: tok, Rhs: rhs}
	}
	keep := func(c *cell) ast.Stmt {
		as := &ast.AssignStmt{Tok: token.ASSIGN}
		for i := 0; i < c.st.NumFields(); i++ {
			as.Lhs = append(as.Lhs, ast.NewIdent("_"))
			as.Rhs = append(as.Rhs, name(c, i))
		}
		return as
	}
	// the literal's values in the order written, onto the cell's fields
	litAssign := func(c *cell, cl *ast.CompositeLit, rest bool) *ast.AssignStmt {
		vals, _ := litVals(c.st, cl)
		as := &ast.AssignStmt{Tok: token.ASSIGN}
		seen := map[int]bool{}
		for _, e := range cl.Elts {
			val := e
			if kv, ok := e.(*ast.KeyValueExpr); ok {
				val = kv.Value
			}
			for i, v := range vals {
				if v == val && !seen[i] {
					as.Lhs = append(as.Lhs, name(c, i))
					as.Rhs = append(as.Rhs, v)
					seen[i] = true
				}
			}
		}
		if rest {
			for i := 0; i < c.st.NumFields(); i++ {
				if !seen[i] {
					as.Lhs = append(as.Lhs, name(c, i))
					as.Rhs = append(as.Rhs, zero(cl.Type, c.st, i))
				}
			}
		}
		return as
	}
	// statements that create a cell at its root's site
	create := func(b *bvar) []ast.Stmt {
		c := b.cell
		if b.from != nil { // value copy
			return []ast.Stmt{parallel(c, fieldsOf(good(b.from).cell), token.DEFINE), keep(c)}
		}
		var out []ast.Stmt
		if !c.hoist && b.lit != nil {
			// every value already has its field's type: one definition, in the order written
			vals, _ := litVals(c.st, b.lit)
			typed := true
			later := map[int]bool{} // constants: no evaluation to order, assigned after the definition
			for i, v := range vals {
				if v == nil {
					continue
				}
				tv, ok := info.Types[v]
				if !ok || tv.Type == nil {
					typed = false
					continue
				}
				if tv.Value != nil {
					later[i] = true
					continue
				}
				if bt, isBasic := tv.Type.(*types.Basic); isBasic && bt.Info()&types.IsUntyped != 0 {
					typed = false
				}
				if !types.Identical(tv.Type, c.st.Field(i).Type()) {
					typed = false
				}
			}
			if typed {
				all := litAssign(c, b.lit, false)
				def := &ast.AssignStmt{Tok: token.DEFINE}
				rest := &ast.AssignStmt{Tok: token.ASSIGN}
				seen := map[string]bool{}
				for k, l := range all.Lhs {
					fi := -1
					for i := 0; i < c.st.NumFields(); i++ {
						if name(c, i).Name == l.(*ast.Ident).Name {
							fi = i
						}
					}
					if later[fi] {
						rest.Lhs, rest.Rhs = append(rest.Lhs, l), append(rest.Rhs, all.Rhs[k])
						continue
					}
					seen[l.(*ast.Ident).Name] = true
					def.Lhs, def.Rhs = append(def.Lhs, l), append(def.Rhs, all.Rhs[k])
				}
				for i := 0; i < c.st.NumFields(); i++ {
					if !seen[name(c, i).Name] {
						def.Lhs = append(def.Lhs, name(c, i))
						def.Rhs = append(def.Rhs, zero(c.typ, c.st, i))
					}
				}
				out := []ast.Stmt{def, keep(c)}
				if len(rest.Lhs) > 0 {
					out = append(out, rest)
				}
				return out
			}
		}
		if c.hoist {
			out = append(out, parallel(c, zeros(c), token.ASSIGN)) // a fresh object every time the site runs
		} else {
			out = append(out, parallel(c, zeros(c), token.DEFINE), keep(c))
		}
		if b.lit != nil {
			if as := litAssign(c, b.lit, false); len(as.Lhs) > 0 {
				out = append(out, as)
			}
		}
		return out
	}
	// hoisted declarations, per function body
	hoisted := map[*ast.BlockStmt][]ast.Stmt{}
	for _, b := range order {
		if good(b.v) != nil && b.cell.root == b && b.cell.hoist {
			fb := encFn[b.site]
			hoisted[fb] = append(hoisted[fb], parallel(b.cell, zeros(b.cell), token.DEFINE), keep(b.cell))
		}
	}
	siteOf := map[ast.Stmt][]*bvar{}
	declOf := map[ast.Stmt][]*bvar{}
	for _, b := range order {
		if good(b.v) != nil {
			siteOf[b.site] = append(siteOf[b.site], b)
			if b.late {
				declOf[b.def] = append(declOf[b.def], b)
			}
		}
	}
	isGoodIdent := func(e ast.Expr) *bvar {
		switch x := e.(type) {
		case *ast.Ident:
			if v, _ := info.Uses[x].(*types.Var); v != nil {
				return good(v)
			}
		case *ast.UnaryExpr:
			if id, ok := x.X.(*ast.Ident); ok && x.Op == token.AND {
				if v, _ := info.Uses[id].(*types.Var); v != nil {
					return good(v)
				}
			}
		}
		return nil
	}
	replaceWith := func(c *astutil.Cursor, ds []ast.Stmt) {
		for _, d := range ds[:len(ds)-1] {
			c.InsertBefore(d)
		}
		c.Replace(ds[len(ds)-1])
	}
	// statements first (the new statements keep the original value expressions),
	// then every field selector, wherever it ended up, then the hoisted declarations
	defer func() {
		astutil.Apply(s.fn.Body, func(c *astutil.Cursor) bool {
			if id, ok := c.Node().(*ast.Ident); ok && recon[id] {
				if v, _ := info.Uses[id].(*types.Var); v != nil {
					if b := good(v); b != nil {
						cl := &ast.CompositeLit{Type: s.pl.clone(b.cell.typ).(ast.Expr)}
						for i := 0; i < b.cell.st.NumFields(); i++ {
							cl.Elts = append(cl.Elts, &ast.KeyValueExpr{Key: ast.NewIdent(b.cell.st.Field(i).Name()), Value: name(b.cell, i)})
						}
						c.Replace(cl)
						return false
					}
				}
			}
			if x, ok := c.Node().(*ast.SelectorExpr); ok {
				if id, ok := x.X.(*ast.Ident); ok {
					if v, _ := info.Uses[id].(*types.Var); v != nil {
						if b := good(v); b != nil {
							si := info.Selections[x]
							var e ast.Expr = name(b.cell, si.Index()[0])
							// promoted: spell out the path through the embedded fields
							t := b.cell.st.Field(si.Index()[0]).Type()
							for k, ix := range si.Index()[1:] {
								if pt, ok := t.Underlying().(*types.Pointer); ok {
									t = pt.Elem()
								}
								if k == len(si.Index())-2 && si.Kind() == types.MethodVal {
									break
								}
								st, ok := t.Underlying().(*types.Struct)
								if !ok {
									break
								}
								e = &ast.SelectorExpr{X: e, Sel: ast.NewIdent(st.Field(ix).Name())}
								t = st.Field(ix).Type()
							}
							if len(si.Index()) > 1 {
								e = &ast.SelectorExpr{X: e, Sel: ast.NewIdent(x.Sel.Name)}
								// the loop above already appended the last field of a field path
								if si.Kind() == types.FieldVal {
									e = e.(*ast.SelectorExpr).X
								}
							}
							c.Replace(e)
							return false
						}
					}
				}
			}
			return true
		}, nil)
		for fb, ds := range hoisted {
			fb.List = append(append([]ast.Stmt{}, ds...), fb.List...)
		}
	}()
	astutil.Apply(s.fn.Body, func(c *astutil.Cursor) bool {
		switch x := c.Node().(type) {
		case *ast.DeclStmt:
			vs, _ := x.Decl.(*ast.GenDecl).Specs[0].(*ast.ValueSpec)
			if vs == nil {
				return true
			}
			if len(declOf[x]) > 0 { // `var p *T` of a late pointer: the name disappears
				c.Delete()
				return false
			}
			bs := siteOf[x]
			if len(bs) == 0 {
				return true
			}
			if len(bs) == 1 && bs[0].cell.root == bs[0] {
				replaceWith(c, create(bs[0]))
				return true
			}
			var names []*ast.Ident
			var vals []ast.Expr
			for i, nm := range vs.Names {
				drop := false
				for _, b := range bs {
					if b.defID == nm && b.cell.root != b {
						drop = true
					}
				}
				if !drop {
					names = append(names, nm)
					if i < len(vs.Values) {
						vals = append(vals, vs.Values[i])
					}
				}
			}
			if len(names) == 0 {
				c.Delete()
				return false
			}
			vs.Names, vs.Values = names, vals
		case *ast.AssignStmt:
			if len(x.Lhs) != len(x.Rhs) {
				return true
			}
			if bs := siteOf[x]; len(bs) == 1 && len(x.Lhs) == 1 {
				if bs[0].cell.root == bs[0] {
					replaceWith(c, create(bs[0]))
					return true
				}
				if bs[0].late { // another name of an existing cell
					c.Delete()
					return false
				}
			}
			// whole-value assignment to a value bundle
			if x.Tok == token.ASSIGN && len(x.Lhs) == 1 {
				if lid, ok := x.Lhs[0].(*ast.Ident); ok && lid.Name != "_" {
					if v, _ := info.Uses[lid].(*types.Var); v != nil {
						if b := good(v); b != nil && !b.ptr {
							switch r := x.Rhs[0].(type) {
							case *ast.Ident:
								if o := isGoodIdent(r); o != nil {
									c.Replace(parallel(b.cell, fieldsOf(o.cell), token.ASSIGN))
									return false
								}
							case *ast.CompositeLit:
								c.Replace(litAssign(b.cell, r, true))
								return true
							}
						}
					}
				}
			}
			// other names of a cell, and blank uses, drop out of the statement
			var lhs, rhs []ast.Expr
			for i := range x.Lhs {
				drop := false
				if lid, ok := x.Lhs[i].(*ast.Ident); ok {
					if x.Tok == token.DEFINE {
						if v, _ := info.Defs[lid].(*types.Var); v != nil {
							if b := good(v); b != nil && b.cell.root != b {
								drop = true
							}
						}
					} else if lid.Name == "_" && isGoodIdent(x.Rhs[i]) != nil {
						drop = true
					}
				}
				if !drop {
					lhs, rhs = append(lhs, x.Lhs[i]), append(rhs, x.Rhs[i])
				}
			}
			if len(lhs) == len(x.Lhs) {
				return true
			}
			if len(lhs) == 0 {
				c.Delete()
				return false
			}
			x.Lhs, x.Rhs = lhs, rhs
			if x.Tok == token.DEFINE {
				allBlank := true
				for _, l := range lhs {
					if id, ok := l.(*ast.Ident); !ok || id.Name != "_" {
						allBlank = false
					}
				}
				if allBlank {
					x.Tok = token.ASSIGN
				}
			}
		}
		return true
	}, nil)
	return n
}
