package norm

// Local struct bundles: a local variable of struct type that is only ever
// used field by field (or copied as a whole into / from another such local)
//
//	s := summary{oldest: -1}
//	for … { if n > s.max { s.max = n } … }
//	out := s
//	… out.max …
//
// says the same as one local variable per field. go/ssa keeps such a struct in
// memory (field addresses, loads, stores); the rules follow values, so the
// bundle is taken apart at source level: every field becomes a local declared
// where the struct was declared, with the field's own type. A variable that
// is used in any other way (passed on, returned, address taken, compared,
// method called on it) is left alone, as is everything copied from or to it.

import (
	"fmt"
	"go/ast"
	"go/token"
	"go/types"
	"strings"

	"golang.org/x/tools/go/ast/astutil"
	"golang.org/x/tools/go/packages"
)

// Scalarise plans the replacement of local struct bundles by per-field locals.
func Scalarise(pkgs []*packages.Package, module string) *Result {
	res := &Result{Overlay: map[string][]byte{}}
	for _, p := range pkgs {
		if !strings.HasPrefix(p.PkgPath, module) || len(p.Syntax) == 0 || p.TypesInfo == nil {
			continue
		}
		pl := &planner{res: res, pkg: p, helpers: map[*types.Func]*helper{}, uses: map[*ast.Ident]types.Object{}, origin: map[ast.Node]ast.Node{},
			changed: map[*ast.File]bool{}, addImports: map[*ast.File]map[string]string{}}
		for _, f := range p.Syntax {
			for _, d := range f.Decls {
				fd, ok := d.(*ast.FuncDecl)
				if !ok || fd.Body == nil {
					continue
				}
				pl.curFile, pl.curFunc = f, FuncKey(fd)
				if n := (&sroa{pl: pl, fn: fd}).run(); n > 0 {
					pl.changed[f] = true
					res.Inlined = append(res.Inlined, fmt.Sprintf("%d local struct bundle(s) taken apart in %s", n, pl.curFunc))
				}
			}
		}
		for f := range pl.changed {
			pl.emit(f)
		}
	}
	return res
}

type bundle struct {
	v      *types.Var
	st     *types.Struct
	def    ast.Stmt // defining statement (in a statement list)
	defID  *ast.Ident
	typ    ast.Expr // type expression usable at the definition (nil when defined by copy)
	from   *types.Var
	lit    *ast.CompositeLit
	prefix string
	// copies: other bundles this one is assigned from / to
	peers []*types.Var
	bad   string
}

type sroa struct {
	pl *planner
	fn *ast.FuncDecl
}

func (s *sroa) run() int {
	info := s.pl.pkg.TypesInfo
	inList := map[ast.Stmt]bool{}
	ast.Inspect(s.fn.Body, func(n ast.Node) bool {
		var l []ast.Stmt
		switch x := n.(type) {
		case *ast.BlockStmt:
			l = x.List
		case *ast.CaseClause:
			l = x.Body
		case *ast.CommClause:
			l = x.Body
		}
		for _, st := range l {
			inList[st] = true
		}
		return true
	})
	structOf := func(t types.Type) *types.Struct {
		st, _ := t.Underlying().(*types.Struct)
		if st == nil || st.NumFields() == 0 {
			return nil
		}
		for i := 0; i < st.NumFields(); i++ {
			f := st.Field(i)
			if f.Name() == "_" || (!f.Exported() && f.Pkg() != s.pl.pkg.Types) {
				return nil
			}
		}
		return st
	}
	bundles := map[*types.Var]*bundle{}
	// candidates by definition form
	ast.Inspect(s.fn.Body, func(n ast.Node) bool {
		switch x := n.(type) {
		case *ast.AssignStmt:
			if x.Tok != token.DEFINE || len(x.Lhs) != 1 || len(x.Rhs) != 1 || !inList[x] {
				return true
			}
			id, _ := x.Lhs[0].(*ast.Ident)
			if id == nil || id.Name == "_" {
				return true
			}
			v, _ := info.Defs[id].(*types.Var)
			if v == nil {
				return true
			}
			st := structOf(v.Type())
			if st == nil {
				return true
			}
			switch r := x.Rhs[0].(type) {
			case *ast.CompositeLit:
				if r.Type == nil {
					return true
				}
				bundles[v] = &bundle{v: v, st: st, def: x, defID: id, typ: r.Type, lit: r}
			case *ast.Ident:
				if w, _ := info.Uses[r].(*types.Var); w != nil && types.Identical(w.Type(), v.Type()) {
					bundles[v] = &bundle{v: v, st: st, def: x, defID: id, from: w}
				}
			}
		case *ast.DeclStmt:
			gd, _ := x.Decl.(*ast.GenDecl)
			if gd == nil || gd.Tok != token.VAR || len(gd.Specs) != 1 || !inList[x] {
				return true
			}
			vs := gd.Specs[0].(*ast.ValueSpec)
			if len(vs.Names) != 1 || len(vs.Values) > 1 || vs.Names[0].Name == "_" {
				return true
			}
			v, _ := info.Defs[vs.Names[0]].(*types.Var)
			if v == nil {
				return true
			}
			st := structOf(v.Type())
			if st == nil {
				return true
			}
			b := &bundle{v: v, st: st, def: x, defID: vs.Names[0], typ: vs.Type}
			if len(vs.Values) == 1 {
				switch r := vs.Values[0].(type) {
				case *ast.CompositeLit:
					if r.Type == nil {
						return true
					}
					if tv, ok := info.Types[r]; !ok || !types.Identical(tv.Type, v.Type()) {
						return true // var x Iface = T{}: not a struct variable anyway
					}
					b.lit = r
					if b.typ == nil {
						b.typ = r.Type
					}
				case *ast.Ident:
					w, _ := info.Uses[r].(*types.Var)
					if w == nil || !types.Identical(w.Type(), v.Type()) {
						return true
					}
					b.from = w
				default:
					return true
				}
			}
			if b.typ == nil && b.from == nil {
				return true
			}
			bundles[v] = b
		}
		return true
	})
	if len(bundles) == 0 {
		return 0
	}
	// every use must be one of the recognised forms
	var stack []ast.Node
	useOf := func(id *ast.Ident) *bundle {
		if v, ok := info.Uses[id].(*types.Var); ok {
			return bundles[v]
		}
		return nil
	}
	asBundle := func(e ast.Expr) *bundle {
		if id, ok := e.(*ast.Ident); ok {
			return useOf(id)
		}
		return nil
	}
	ast.Inspect(s.fn.Body, func(n ast.Node) bool {
		if n == nil {
			stack = stack[:len(stack)-1]
			return true
		}
		stack = append(stack, n)
		id, ok := n.(*ast.Ident)
		if !ok {
			return true
		}
		b := useOf(id)
		if b == nil {
			return true
		}
		parent := stack[len(stack)-2]
		switch p := parent.(type) {
		case *ast.SelectorExpr:
			if p.X != ast.Expr(id) {
				b.bad = "unexpected selector"
				return true
			}
			si := info.Selections[p]
			if si == nil || si.Kind() != types.FieldVal || len(si.Index()) != 1 {
				b.bad = "method or promoted field used"
				return true
			}
			// &s.f (through any chain of selectors / indexes) lets a field escape
			for i := len(stack) - 2; i > 0; i-- {
				switch a := stack[i-1].(type) {
				case *ast.SelectorExpr, *ast.IndexExpr, *ast.ParenExpr, *ast.SliceExpr:
					continue
				case *ast.UnaryExpr:
					if a.Op == token.AND {
						b.bad = "address of a field taken"
					}
				}
				break
			}
		case *ast.AssignStmt:
			switch {
			case len(p.Lhs) == 1 && len(p.Rhs) == 1 && p.Lhs[0] == ast.Expr(id) && p.Tok == token.ASSIGN:
				if o := asBundle(p.Rhs[0]); o != nil && types.Identical(o.v.Type(), b.v.Type()) {
					b.peers = append(b.peers, o.v)
				} else if cl, ok := p.Rhs[0].(*ast.CompositeLit); ok && cl.Type != nil && inList[p] {
					if tv, ok := info.Types[cl]; !ok || !types.Identical(tv.Type, b.v.Type()) {
						b.bad = "assigned a literal of another type"
					}
				} else {
					b.bad = "assigned from something that is not a bundle"
				}
				if !inList[p] {
					b.bad = "assigned outside a statement list"
				}
			case len(p.Lhs) == 1 && len(p.Rhs) == 1 && p.Rhs[0] == ast.Expr(id):
				if lid, ok := p.Lhs[0].(*ast.Ident); ok && lid.Name == "_" && p.Tok == token.ASSIGN {
					break
				}
				var o *bundle
				if lid, ok := p.Lhs[0].(*ast.Ident); ok {
					if p.Tok == token.DEFINE {
						if v, _ := info.Defs[lid].(*types.Var); v != nil {
							o = bundles[v]
						}
					} else {
						o = useOf(lid)
					}
				}
				if o == nil || !types.Identical(o.v.Type(), b.v.Type()) || !inList[p] {
					b.bad = "copied into something that is not a bundle"
				} else {
					b.peers = append(b.peers, o.v)
				}
			default:
				b.bad = "used in a multiple assignment"
			}
		case *ast.ValueSpec:
			var o *bundle
			if len(p.Names) == 1 && len(p.Values) == 1 && p.Values[0] == ast.Expr(id) {
				if v, _ := info.Defs[p.Names[0]].(*types.Var); v != nil {
					o = bundles[v]
				}
			}
			if o == nil {
				b.bad = "copied into something that is not a bundle"
			} else {
				b.peers = append(b.peers, o.v)
			}
		default:
			b.bad = fmt.Sprintf("used as a whole (%T)", parent)
		}
		return true
	})
	// a bundle defined by copy needs its source; rejection spreads along copies
	for changed := true; changed; {
		changed = false
		for _, b := range bundles {
			if b.bad != "" {
				continue
			}
			if b.from != nil && (bundles[b.from] == nil || bundles[b.from].bad != "") {
				b.bad = "copied from a variable that stays"
				changed = true
				continue
			}
			for _, o := range b.peers {
				if bundles[o] == nil || bundles[o].bad != "" {
					b.bad = "copied from or to a variable that stays"
					changed = true
					break
				}
			}
		}
	}
	n := 0
	for _, b := range bundles {
		if b.bad == "" {
			n++
			b.prefix = s.pl.fresh("s") + b.v.Name()
		}
	}
	if n == 0 {
		return 0
	}
	good := func(v *types.Var) *bundle {
		if b := bundles[v]; b != nil && b.bad == "" {
			return b
		}
		return nil
	}
	name := func(b *bundle, i int) *ast.Ident { return ast.NewIdent(b.prefix + "_" + b.st.Field(i).Name()) }
	zero := func(typ ast.Expr, st *types.Struct, i int) ast.Expr {
		return &ast.SelectorExpr{X: &ast.ParenExpr{X: &ast.CompositeLit{Type: s.pl.clone(typ).(ast.Expr)}}, Sel: ast.NewIdent(st.Field(i).Name())}
	}
	// values of a literal per field (nil: omitted)
	litVals := func(st *types.Struct, cl *ast.CompositeLit) ([]ast.Expr, bool) {
		vals := make([]ast.Expr, st.NumFields())
		for pos, e := range cl.Elts {
			if kv, ok := e.(*ast.KeyValueExpr); ok {
				kid, _ := kv.Key.(*ast.Ident)
				fi := -1
				for i := 0; i < st.NumFields(); i++ {
					if kid != nil && st.Field(i).Name() == kid.Name {
						fi = i
					}
				}
				if fi < 0 {
					return nil, false
				}
				vals[fi] = kv.Value
			} else {
				if pos >= st.NumFields() {
					return nil, false
				}
				vals[pos] = e
			}
		}
		return vals, true
	}
	for _, b := range bundles {
		if b.bad == "" && b.lit != nil {
			if _, ok := litVals(b.st, b.lit); !ok {
				b.bad = "literal not understood"
				n--
			}
		}
	}
	if n == 0 {
		return 0
	}
	parallel := func(b *bundle, rhs []ast.Expr, tok token.Token) ast.Stmt {
		as := &ast.AssignStmt{Tok: tok}
		for i := 0; i < b.st.NumFields(); i++ {
			as.Lhs = append(as.Lhs, name(b, i))
		}
		as.Rhs = rhs
		return as
	}
	keep := func(b *bundle) ast.Stmt {
		as := &ast.AssignStmt{Tok: token.ASSIGN}
		for i := 0; i < b.st.NumFields(); i++ {
			as.Lhs = append(as.Lhs, ast.NewIdent("_"))
			as.Rhs = append(as.Rhs, name(b, i))
		}
		return as
	}
	fieldsOf := func(b *bundle) []ast.Expr {
		var out []ast.Expr
		for i := 0; i < b.st.NumFields(); i++ {
			out = append(out, name(b, i))
		}
		return out
	}
	// define b at its definition: zero values of the fields' own types, then the literal's values
	defStmts := func(b *bundle) []ast.Stmt {
		var out []ast.Stmt
		if b.from != nil {
			out = append(out, parallel(b, fieldsOf(good(b.from)), token.DEFINE), keep(b))
			return out
		}
		var zs []ast.Expr
		for i := 0; i < b.st.NumFields(); i++ {
			zs = append(zs, zero(b.typ, b.st, i))
		}
		out = append(out, parallel(b, zs, token.DEFINE), keep(b))
		if b.lit != nil {
			vals, _ := litVals(b.st, b.lit)
			as := &ast.AssignStmt{Tok: token.ASSIGN}
			// in the order written
			for _, e := range b.lit.Elts {
				for i, v := range vals {
					val := e
					if kv, ok := e.(*ast.KeyValueExpr); ok {
						val = kv.Value
					}
					if v == val {
						as.Lhs = append(as.Lhs, name(b, i))
						as.Rhs = append(as.Rhs, v)
					}
				}
			}
			if len(as.Lhs) > 0 {
				out = append(out, as)
			}
		}
		return out
	}
	// statements first (the new statements keep the original value expressions),
	// then every field selector, wherever it ended up
	defer astutil.Apply(s.fn.Body, func(c *astutil.Cursor) bool {
		if x, ok := c.Node().(*ast.SelectorExpr); ok {
			if id, ok := x.X.(*ast.Ident); ok {
				if v, _ := info.Uses[id].(*types.Var); v != nil {
					if b := good(v); b != nil {
						si := info.Selections[x]
						c.Replace(name(b, si.Index()[0]))
						return false
					}
				}
			}
		}
		return true
	}, nil)
	astutil.Apply(s.fn.Body, func(c *astutil.Cursor) bool {
		switch x := c.Node().(type) {
		case *ast.DeclStmt:
			if vs, ok := x.Decl.(*ast.GenDecl).Specs[0].(*ast.ValueSpec); ok && len(vs.Names) == 1 {
				if v, _ := info.Defs[vs.Names[0]].(*types.Var); v != nil {
					if b := good(v); b != nil && b.def == ast.Stmt(x) {
						ds := defStmts(b)
						for _, d := range ds[:len(ds)-1] {
							c.InsertBefore(d)
						}
						c.Replace(ds[len(ds)-1])
						return true
					}
				}
			}
		case *ast.AssignStmt:
			if len(x.Lhs) != 1 || len(x.Rhs) != 1 {
				return true
			}
			lid, _ := x.Lhs[0].(*ast.Ident)
			if lid == nil {
				return true
			}
			if x.Tok == token.DEFINE {
				if v, _ := info.Defs[lid].(*types.Var); v != nil {
					if b := good(v); b != nil && b.def == ast.Stmt(x) {
						ds := defStmts(b)
						for _, d := range ds[:len(ds)-1] {
							c.InsertBefore(d)
						}
						c.Replace(ds[len(ds)-1])
						return true
					}
				}
				return true
			}
			if lid.Name == "_" {
				if rid, ok := x.Rhs[0].(*ast.Ident); ok {
					if v, _ := info.Uses[rid].(*types.Var); v != nil {
						if b := good(v); b != nil {
							c.Replace(keep(b))
							return false
						}
					}
				}
				return true
			}
			v, _ := info.Uses[lid].(*types.Var)
			if v == nil {
				return true
			}
			b := good(v)
			if b == nil {
				return true
			}
			switch r := x.Rhs[0].(type) {
			case *ast.Ident:
				if w, _ := info.Uses[r].(*types.Var); w != nil && good(w) != nil {
					c.Replace(parallel(b, fieldsOf(good(w)), token.ASSIGN))
					return false
				}
			case *ast.CompositeLit:
				vals, ok := litVals(b.st, r)
				if !ok {
					return true
				}
				// the literal's values in the order written, then the fields it leaves at zero
				as := &ast.AssignStmt{Tok: token.ASSIGN}
				seen := map[int]bool{}
				for _, e := range r.Elts {
					val := e
					if kv, ok := e.(*ast.KeyValueExpr); ok {
						val = kv.Value
					}
					for i, vv := range vals {
						if vv == val {
							as.Lhs = append(as.Lhs, name(b, i))
							as.Rhs = append(as.Rhs, vv)
							seen[i] = true
						}
					}
				}
				for i := 0; i < b.st.NumFields(); i++ {
					if !seen[i] {
						as.Lhs = append(as.Lhs, name(b, i))
						as.Rhs = append(as.Rhs, zero(r.Type, b.st, i))
					}
				}
				c.Replace(as)
				return true
			}
		}
		return true
	}, nil)
	return n
}
