// Package load loads /repo's current working tree with go/packages, builds
// go/ssa for it and offers type-resolved lookup of the anchors the rules name.
package load

import (
	"bytes"
	"fmt"
	"go/ast"
	"go/printer"
	"go/token"
	"go/types"
	"os"
	"runtime"
	"runtime/debug"
	"sort"
	"strings"
	"time"

	"golang.org/x/tools/go/callgraph"
	"golang.org/x/tools/go/callgraph/cha"
	"golang.org/x/tools/go/callgraph/vta"
	"golang.org/x/tools/go/packages"
	"golang.org/x/tools/go/ssa"
	"golang.org/x/tools/go/ssa/ssautil"

	"xpcheck/internal/norm"
)

// Module is the import path prefix of the analysed repository.
const Module = "github.com/crossplane/crossplane"

// Program is a loaded, type-checked, SSA-built view of the repository.
type Program struct {
	Dir      string
	Fset     *token.FileSet
	Roots    []*packages.Package
	All      map[string]*packages.Package // by import path, roots and deps
	SSA      *ssa.Program
	SSAPkgs  map[string]*ssa.Package
	LoadTime time.Duration
	Overlay  map[string][]byte
	// NormNotes records what the normaliser inlined or left alone; NormOverlay
	// holds the normalised sources that were analysed instead of the files.
	NormNotes   []string
	NormOverlay map[string][]byte
	// Dead holds the helpers (types.Func full names) whose every use was inlined.
	Dead map[string]bool

	cg      *callgraph.Graph
	allFns  map[*ssa.Function]bool
	srcFunc map[*ssa.Function]*ast.FuncDecl
}

// Config for Load.
type Config struct {
	Dir      string
	Patterns []string
	Overlay  map[string][]byte
	// NoNormalize analyses the tree exactly as written (no helper inlining).
	NoNormalize bool
}

// DefaultPatterns are the three root patterns of the quick tier.
var DefaultPatterns = []string{"./apis/...", "./internal/...", "./cmd/crossplane/..."}

// ThoroughPatterns add the crank CLI so every caller in the module is covered.
var ThoroughPatterns = []string{"./apis/...", "./internal/...", "./cmd/..."}

// Load type-checks and SSA-builds the tree. Any load or type error is returned.
func Load(cfg Config) (*Program, error) {
	start := time.Now()
	if len(cfg.Patterns) == 0 {
		cfg.Patterns = DefaultPatterns
	}
	env := append(os.Environ(), "GOFLAGS=-mod=mod", "GOPROXY=off", "GOSUMDB=off", "GOTOOLCHAIN=local", "GOWORK=off")
	fset := token.NewFileSet()
	pc := &packages.Config{
		Mode:    packages.LoadAllSyntax,
		Dir:     cfg.Dir,
		Fset:    fset,
		Tests:   false,
		Env:     env,
		Overlay: cfg.Overlay,
	}
	pkgs, err := loadPkgs(pc, cfg.Patterns)
	if err != nil {
		return nil, err
	}
	var notes []string
	var normOverlay map[string][]byte
	var dead []string
	if !cfg.NoNormalize {
		// normal form, in stages, repeated while one of them finds work: (0) calls through method-value locals
		// are made direct, (1) helpers the rules do not know are inlined into
		// their callers, (2) loops over local literal tables are written out row by row,
		// (3) local struct variables only used field by field become one local per field
		cum := map[string][]byte{}
		for k, v := range cfg.Overlay {
			cum[k] = v
		}
		stages := []func([]*packages.Package) *norm.Result{
			func(ps []*packages.Package) *norm.Result { return norm.Devirt(ps, Module) },
			func(ps []*packages.Package) *norm.Result { return norm.Plan(ps, norm.Known(), Module) },
			func(ps []*packages.Package) *norm.Result { return norm.Lookup(ps, Module) },
			func(ps []*packages.Package) *norm.Result { return norm.Unroll(ps, Module) },
			func(ps []*packages.Package) *norm.Result { return norm.Scalarise(ps, Module) },
		}
		for round := 0; round < 4; round++ {
			progress := false
			for si, stage := range stages {
				var before map[string]string
				if os.Getenv("XPCHECK_DEBUG_MUT") != "" {
					before = printAll(pkgs)
				}
				res := stage(pkgs)
				if before != nil {
					after := printAll(pkgs)
					for f, b := range before {
						if _, emitted := res.Overlay[f]; !emitted && after[f] != b {
							fmt.Printf("DEBUG: round %d stage %d changed %s without emitting it\n", round+1, si, f)
						}
					}
				}
				if round == 0 {
					notes = append(notes, res.Skipped...)
				}
				if len(res.Overlay) == 0 {
					continue
				}
				ov := map[string][]byte{}
				for k, v := range cum {
					ov[k] = v
				}
				for k, v := range res.Overlay {
					ov[k] = v
				}
				pkgs = nil
				runtime.GC()
				fset = token.NewFileSet()
				pc2 := *pc
				pc2.Fset = fset
				pc2.Overlay = ov
				pkgs2, err2 := loadPkgs(&pc2, cfg.Patterns)
				if err2 != nil {
					// the normaliser must never make a compiling tree undecidable: analyse the tree as it was before this stage
					if d := os.Getenv("XPCHECK_DEBUG_NORM"); d != "" {
						for f, b := range res.Overlay {
							os.WriteFile(d+"/"+strings.ReplaceAll(strings.TrimPrefix(f, cfg.Dir+"/"), "/", "__"), b, 0o644)
						}
					}
					notes = append(notes, fmt.Sprintf("normal form (round %d stage %d) rejected by the type checker, analysing the tree without it: %s", round+1, si+1, err2.Error()))
					fset = token.NewFileSet()
					pc3 := *pc
					pc3.Fset = fset
					pc3.Overlay = cum
					if pkgs, err = loadPkgs(&pc3, cfg.Patterns); err != nil {
						return nil, err
					}
					continue
				}
				if d := os.Getenv("XPCHECK_DUMP_STAGES"); d != "" {
					for f, b := range res.Overlay {
						os.WriteFile(fmt.Sprintf("%s/r%ds%d__%s", d, round+1, si, strings.ReplaceAll(strings.TrimPrefix(f, cfg.Dir+"/"), "/", "__")), b, 0o644)
					}
				}
				progress = true
				pkgs = pkgs2
				cum = ov
				if normOverlay == nil {
					normOverlay = map[string][]byte{}
				}
				for k, v := range res.Overlay {
					normOverlay[k] = v
				}
				if si == 1 {
					dead = norm.DeadHelpers(pkgs, norm.Known(), Module)
				}
				for _, s := range res.Inlined {
					if si == 1 {
						notes = append(notes, "inlined "+s)
					} else {
						notes = append(notes, s)
					}
				}
			}
			if !progress {
				break
			}
		}
	}
	p := &Program{Dir: cfg.Dir, Fset: fset, Roots: pkgs, All: map[string]*packages.Package{}, SSAPkgs: map[string]*ssa.Package{}, Overlay: cfg.Overlay, NormNotes: notes, NormOverlay: normOverlay, Dead: map[string]bool{}}
	for _, d := range dead {
		p.Dead[d] = true
	}
	packages.Visit(pkgs, nil, func(pp *packages.Package) { p.All[pp.PkgPath] = pp })
	prog, _ := ssautil.AllPackages(pkgs, ssa.InstantiateGenerics)
	if bad := buildAll(prog); len(bad) > 0 {
		if len(normOverlay) > 0 {
			// the SSA builder could not digest the normal form of some package: never let that decide
			// anything — analyse the tree as written
			cfg2 := cfg
			cfg2.NoNormalize = true
			p2, err := Load(cfg2)
			if err != nil {
				return nil, err
			}
			p2.NormNotes = append(notes, "normal form rejected by the SSA builder ("+strings.Join(bad, "; ")+"), analysing the tree as written")
			return p2, nil
		}
		return nil, fmt.Errorf("SSA construction failed: %s", strings.Join(bad, "; "))
	}
	p.SSA = prog
	for _, sp := range prog.AllPackages() {
		p.SSAPkgs[sp.Pkg.Path()] = sp
	}
	p.LoadTime = time.Since(start)
	return p, nil
}

func printAll(pkgs []*packages.Package) map[string]string {
	out := map[string]string{}
	for _, p := range pkgs {
		if !strings.HasPrefix(p.PkgPath, Module) {
			continue
		}
		for _, f := range p.Syntax {
			var buf bytes.Buffer
			printer.Fprint(&buf, p.Fset, f)
			out[p.Fset.Position(f.Pos()).Filename] = buf.String()
		}
	}
	return out
}

// buildAll builds every package in parallel like (*ssa.Program).Build, but a
// panic of the builder is caught: the first one ends the wait (the builder may
// have died holding one of the program's locks, so the other goroutines are
// abandoned together with the program) and is reported.
func buildAll(prog *ssa.Program) []string {
	pkgs := prog.AllPackages()
	done := make(chan string, len(pkgs))
	for _, sp := range pkgs {
		go func(sp *ssa.Package) {
			defer func() {
				if e := recover(); e != nil {
					if os.Getenv("XPCHECK_DEBUG_SSA") != "" {
						fmt.Printf("SSA builder panic in %s: %v\n%s\n", sp.Pkg.Path(), e, debug.Stack())
						os.Exit(3)
					}
					done <- fmt.Sprintf("%s: %v", sp.Pkg.Path(), e)
					return
				}
				done <- ""
			}()
			sp.Build()
		}(sp)
	}
	for range pkgs {
		if bad := <-done; bad != "" {
			return []string{bad}
		}
	}
	return nil
}

func loadPkgs(pc *packages.Config, patterns []string) ([]*packages.Package, error) {
	pkgs, err := packages.Load(pc, patterns...)
	if err != nil {
		return nil, fmt.Errorf("packages.Load: %w", err)
	}
	if len(pkgs) == 0 {
		return nil, fmt.Errorf("no packages matched %v in %s", patterns, pc.Dir)
	}
	var errs []string
	packages.Visit(pkgs, nil, func(p *packages.Package) {
		for _, e := range p.Errors {
			errs = append(errs, e.Error())
		}
	})
	if len(errs) > 0 {
		sort.Strings(errs)
		if len(errs) > 10 {
			errs = errs[:10]
		}
		return nil, fmt.Errorf("type/load errors: %s", strings.Join(errs, "; "))
	}
	return pkgs, nil
}

// RootCount is the number of root packages loaded from the repository.
func (p *Program) RootCount() int { return len(p.Roots) }

// Pkg returns the SSA package for a path relative to the module ("internal/engine")
// or an absolute import path.
func (p *Program) Pkg(path string) *ssa.Package {
	if sp, ok := p.SSAPkgs[path]; ok {
		return sp
	}
	return p.SSAPkgs[Module+"/"+path]
}

// TypesPkg returns the go/packages package for a module-relative or absolute path.
func (p *Program) TypesPkg(path string) *packages.Package {
	if pp, ok := p.All[path]; ok {
		return pp
	}
	return p.All[Module+"/"+path]
}

// Func returns a package-level function, or nil.
func (p *Program) Func(pkg, name string) *ssa.Function {
	sp := p.Pkg(pkg)
	if sp == nil {
		return nil
	}
	return sp.Func(name)
}

// Method returns the method `name` declared on named type `typ` (value or
// pointer receiver) in package pkg, or nil.
func (p *Program) Method(pkg, typ, name string) *ssa.Function {
	sp := p.Pkg(pkg)
	if sp == nil {
		return nil
	}
	m := sp.Members[typ]
	t, ok := m.(*ssa.Type)
	if !ok {
		return nil
	}
	for _, T := range []types.Type{t.Type(), types.NewPointer(t.Type())} {
		ms := p.SSA.MethodSets.MethodSet(T)
		for i := 0; i < ms.Len(); i++ {
			sel := ms.At(i)
			if sel.Obj().Name() == name {
				if f := p.SSA.MethodValue(sel); f != nil && f.Synthetic == "" {
					return f
				}
				// promoted/wrapper: fall through to declared function
				if fn, ok := sel.Obj().(*types.Func); ok {
					if f := p.SSA.FuncValue(fn); f != nil {
						return f
					}
				}
			}
		}
	}
	return nil
}

// NamedType returns the named type pkg.name.
func (p *Program) NamedType(pkg, name string) *types.Named {
	tp := p.TypesPkg(pkg)
	if tp == nil || tp.Types == nil {
		return nil
	}
	o := tp.Types.Scope().Lookup(name)
	if o == nil {
		return nil
	}
	n, _ := o.Type().(*types.Named)
	return n
}

// Object returns the package-level object pkg.name.
func (p *Program) Object(pkg, name string) types.Object {
	tp := p.TypesPkg(pkg)
	if tp == nil || tp.Types == nil {
		return nil
	}
	return tp.Types.Scope().Lookup(name)
}

// Pos renders a position relative to the repository directory.
func (p *Program) Pos(pos token.Pos) string {
	if !pos.IsValid() {
		return "?"
	}
	ps := p.Fset.Position(pos)
	f := ps.Filename
	if strings.HasPrefix(f, p.Dir+"/") {
		f = f[len(p.Dir)+1:]
	} else if i := strings.Index(f, "/pkg/mod/"); i >= 0 {
		f = f[i+len("/pkg/mod/"):]
	}
	return fmt.Sprintf("%s:%d", f, ps.Line)
}

// InRepo reports whether fn is declared in the analysed module.
func InRepo(fn *ssa.Function) bool {
	if fn == nil {
		return false
	}
	if fn.Pkg != nil {
		return strings.HasPrefix(fn.Pkg.Pkg.Path(), Module)
	}
	if fn.Parent() != nil {
		return InRepo(fn.Parent())
	}
	if o := fn.Origin(); o != nil && o != fn {
		return InRepo(o)
	}
	return false
}

// IsDead reports whether fn (or the function it is nested in) is a helper whose
// every use the normaliser inlined: its body is analysed inside its callers.
func (p *Program) IsDead(fn *ssa.Function) bool {
	if len(p.Dead) == 0 {
		return false
	}
	for fn.Parent() != nil {
		fn = fn.Parent()
	}
	if o, ok := fn.Object().(*types.Func); ok {
		return p.Dead[o.FullName()]
	}
	return false
}

// AllFunctions returns every function of the program (including anonymous).
func (p *Program) AllFunctions() map[*ssa.Function]bool {
	if p.allFns == nil {
		p.allFns = ssautil.AllFunctions(p.SSA)
	}
	return p.allFns
}

// RepoFunctions returns every source function (with blocks) declared in the
// module, including closures, sorted by position.
func (p *Program) RepoFunctions() []*ssa.Function {
	var out []*ssa.Function
	for fn := range p.AllFunctions() {
		if fn.Blocks != nil && fn.Synthetic == "" && InRepo(fn) && !p.IsDead(fn) {
			out = append(out, fn)
		}
	}
	sort.Slice(out, func(i, j int) bool { return out[i].Pos() < out[j].Pos() })
	return out
}

// PkgFunctions returns the source functions (methods, closures too) of a package.
func (p *Program) PkgFunctions(pkg string) []*ssa.Function {
	sp := p.Pkg(pkg)
	if sp == nil {
		return nil
	}
	var out []*ssa.Function
	for fn := range p.AllFunctions() {
		if fn.Blocks == nil || fn.Synthetic != "" {
			continue
		}
		root := fn
		for root.Parent() != nil {
			root = root.Parent()
		}
		if root.Pkg == sp && !p.IsDead(fn) {
			out = append(out, fn)
		}
	}
	sort.Slice(out, func(i, j int) bool { return out[i].Pos() < out[j].Pos() })
	return out
}

// CallGraph builds (once) the VTA call graph seeded with CHA.
func (p *Program) CallGraph() *callgraph.Graph {
	if p.cg == nil {
		p.cg = vta.CallGraph(p.AllFunctions(), cha.CallGraph(p.SSA))
	}
	return p.cg
}

// FileOf returns the AST file containing pos among root packages and their deps.
func (p *Program) FileOf(pos token.Pos) (*packages.Package, *ast.File) {
	tf := p.Fset.File(pos)
	if tf == nil {
		return nil, nil
	}
	for _, pp := range p.All {
		for _, f := range pp.Syntax {
			if p.Fset.File(f.Pos()) == tf {
				return pp, f
			}
		}
	}
	return nil, nil
}

// FuncName renders a function as pkg-relative "(*T).M" / "F" / "F$1".
func FuncName(fn *ssa.Function) string {
	if fn == nil {
		return "<nil>"
	}
	s := fn.RelString(nil)
	s = strings.ReplaceAll(s, Module+"/", "")
	return s
}
