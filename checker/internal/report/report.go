// Package report collects obligations, decides exit status against the
// known-findings file and writes the evidence JSON.
package report

import (
	"encoding/json"
	"fmt"
	"os"
	"path/filepath"
	"sort"
	"strings"
	"time"
)

// Verdict of one obligation.
type Verdict string

const (
	Discharged Verdict = "discharged"
	Violated   Verdict = "violated"
	Undecided  Verdict = "undecided"
)

// Obligation is one rule instance on one construct.
type Obligation struct {
	Rule       string   `json:"rule"`
	Construct  string   `json:"construct"` // function + callee + ordinal, never a line
	Pos        string   `json:"pos,omitempty"`
	Verdict    Verdict  `json:"verdict"`
	Detail     string   `json:"detail,omitempty"`
	Witness    []string `json:"witness,omitempty"`
	Nontrivial bool     `json:"nontrivial"` // needed a path / provenance / table query
}

// Key identifies the obligation across runs.
func (o Obligation) Key() string { return o.Rule + " " + o.Construct }

// RuleInfo documents a rule.
type RuleInfo struct {
	ID           string `json:"id"`
	Title        string `json:"title"`
	MinInstances int    `json:"min_instances"`
	Instances    int    `json:"instances"`
	Breaks       string `json:"breaks,omitempty"`
}

// Report accumulates one property's run.
type Report struct {
	Property    string
	Tier        string
	Seed        int64
	Start       time.Time
	Rules       []*RuleInfo
	Obls        []Obligation
	Functions   map[string]bool
	Packages    int
	SSAFuncs    int
	Explanation string
	Assumptions []string
	NotDecided  []string
	Extra       map[string]any
	cur         *RuleInfo
}

// New report.
func New(property, tier string, seed int64) *Report {
	return &Report{Property: property, Tier: tier, Seed: seed, Start: time.Now(), Functions: map[string]bool{}, Extra: map[string]any{}}
}

// Rule opens a rule; subsequent Add calls are counted under it.
func (r *Report) Rule(id, title string, min int, breaks string) {
	r.cur = &RuleInfo{ID: id, Title: title, MinInstances: min, Breaks: breaks}
	r.Rules = append(r.Rules, r.cur)
}

// Analysed records that a function body was examined.
func (r *Report) Analysed(fn string) { r.Functions[fn] = true }

func (r *Report) add(o Obligation) {
	if r.cur == nil {
		panic("obligation outside a rule")
	}
	o.Rule = r.cur.ID
	r.cur.Instances++
	r.Obls = append(r.Obls, o)
}

// OK records a discharged obligation.
func (r *Report) OK(construct, pos, detail string) {
	r.add(Obligation{Construct: construct, Pos: pos, Verdict: Discharged, Detail: detail, Nontrivial: true})
}

// OKTrivial records a discharged obligation that needed no path/provenance query.
func (r *Report) OKTrivial(construct, pos, detail string) {
	r.add(Obligation{Construct: construct, Pos: pos, Verdict: Discharged, Detail: detail})
}

// Bad records a violated obligation.
func (r *Report) Bad(construct, pos, detail string, witness ...string) {
	r.add(Obligation{Construct: construct, Pos: pos, Verdict: Violated, Detail: detail, Witness: witness, Nontrivial: true})
}

// Unknown records an undecided obligation (fails the check).
func (r *Report) Unknown(construct, pos, detail string) {
	r.add(Obligation{Construct: construct, Pos: pos, Verdict: Undecided, Detail: detail, Nontrivial: true})
}

// Check is shorthand: ok ? OK : Bad.
func (r *Report) Check(ok bool, construct, pos, okDetail, badDetail string, witness ...string) {
	if ok {
		r.OK(construct, pos, okDetail)
	} else {
		r.Bad(construct, pos, badDetail, witness...)
	}
}

// KnownFinding is an entry of /verif/known_findings.json.
type KnownFinding struct {
	Property  string `json:"property"`
	Rule      string `json:"rule"`
	Construct string `json:"construct"`
	What      string `json:"what"`
	Status    string `json:"status"` // open | fixed
	Commit    string `json:"commit,omitempty"`
	Input     string `json:"failing_input,omitempty"`
}

// LoadKnown reads the known-findings file (missing file = none).
func LoadKnown(path string) ([]KnownFinding, error) {
	b, err := os.ReadFile(path)
	if os.IsNotExist(err) {
		return nil, nil
	}
	if err != nil {
		return nil, err
	}
	var f struct {
		Findings []KnownFinding `json:"findings"`
	}
	if err := json.Unmarshal(b, &f); err != nil {
		return nil, err
	}
	return f.Findings, nil
}

// Finish closes the rules (min-instance checks), writes evidence and replay
// files, prints VIOLATION / KNOWN-FINDING lines and returns the exit code.
func (r *Report) Finish(evidencePath string, known []KnownFinding) int {
	for _, ri := range r.Rules {
		if ri.Instances < ri.MinInstances {
			r.Obls = append(r.Obls, Obligation{Rule: ri.ID, Construct: "min_instances", Verdict: Undecided, Nontrivial: true,
				Detail: fmt.Sprintf("rule matched %d instance(s), at least %d were confirmed by hand on the reference tree: an anchor was removed or renamed, the rule would pass vacuously", ri.Instances, ri.MinInstances)})
		}
	}
	open := map[string]KnownFinding{}
	for _, k := range known {
		if k.Property == r.Property && k.Status == "open" {
			open[k.Rule+" "+k.Construct] = k
		}
	}
	var failing, knownHit []Obligation
	discharged, nontrivial := 0, map[string]bool{}
	for _, o := range r.Obls {
		if o.Nontrivial {
			nontrivial[o.Key()] = true
		}
		switch {
		case o.Verdict == Discharged:
			discharged++
		case o.Verdict == Violated && open[o.Key()].Status == "open":
			knownHit = append(knownHit, o)
		default:
			failing = append(failing, o)
		}
	}
	dir := strings.TrimSuffix(evidencePath, ".json") + ".violations"
	_ = os.RemoveAll(dir)
	for _, o := range knownHit {
		fmt.Printf("KNOWN-FINDING: property=%s %s %s: %s\n", r.Property, o.Rule, o.Construct, open[o.Key()].What)
	}
	for i, o := range failing {
		_ = os.MkdirAll(dir, 0o755)
		p := filepath.Join(dir, fmt.Sprintf("%d.txt", i+1))
		var b strings.Builder
		fmt.Fprintf(&b, "property: %s\nrule: %s\nconstruct: %s\nposition: %s\nverdict: %s\ndetail: %s\n", r.Property, o.Rule, o.Construct, o.Pos, o.Verdict, o.Detail)
		for _, ri := range r.Rules {
			if ri.ID == o.Rule {
				fmt.Fprintf(&b, "rule text: %s\nwhat breaks when violated: %s\n", ri.Title, ri.Breaks)
			}
		}
		if len(o.Witness) > 0 {
			fmt.Fprintf(&b, "witness path:\n  %s\n", strings.Join(o.Witness, "\n  "))
		}
		fmt.Fprintf(&b, "replay: cd /verif && ./run.sh %s %s\n", r.Property, r.Tier)
		_ = os.WriteFile(p, []byte(b.String()), 0o644)
		reason := ""
		if o.Verdict == Undecided {
			reason = " reason=undecided"
		}
		fmt.Printf("VIOLATION property=%s replay=%s%s rule=%s construct=%q at=%s: %s\n", r.Property, p, reason, o.Rule, o.Construct, o.Pos, o.Detail)
	}

	// samples: deterministic pick by seed, violations and known findings first.
	var samples []Obligation
	samples = append(samples, failing...)
	samples = append(samples, knownHit...)
	var rest []Obligation
	for _, o := range r.Obls {
		if o.Verdict == Discharged && o.Nontrivial {
			rest = append(rest, o)
		}
	}
	if len(rest) > 0 {
		step := len(rest)/12 + 1
		off := int(r.Seed % int64(step))
		if off < 0 {
			off = -off
		}
		for i := off; i < len(rest) && len(samples) < 16+len(failing); i += step {
			samples = append(samples, rest[i])
		}
	}
	fns := make([]string, 0, len(r.Functions))
	for f := range r.Functions {
		fns = append(fns, f)
	}
	sort.Strings(fns)
	cov := map[string]any{
		"explanation":         r.Explanation,
		"obligations":         len(r.Obls),
		"discharged":          discharged,
		"evaluations":         len(r.Obls),
		"distinct_nontrivial": len(nontrivial),
		"rule":                "one obligation per (rule, construct) found by type-resolved discovery on this run's tree; non-trivial = its verdict needed a CFG path, provenance, lockset or table query (not a mere presence test); distinct = distinct rule+construct keys",
		"samples":             samples,
		"rules":               r.Rules,
		"functions_analysed":  fns,
		"packages":            r.Packages,
		"ssa_functions":       r.SSAFuncs,
		"known_findings_hit":  len(knownHit),
		"not_decided":         r.NotDecided,
		"checker_cmd":         fmt.Sprintf("./run.sh %s %s", r.Property, r.Tier),
		"trusted_base":        []string{"go/types, go/packages, go/ssa (golang.org/x/tools v0.29.0)", "the rule tables in /verif/checker/rules", "atomicity and durability of each acknowledged API call"},
	}
	for k, v := range r.Extra {
		cov[k] = v
	}
	ev := map[string]any{
		"property_id": r.Property,
		"tier":        r.Tier,
		"seed":        r.Seed,
		"level":       "other",
		"coverage":    cov,
		"assumptions": r.Assumptions,
		"wall_s":      time.Since(r.Start).Seconds(),
		"violations":  len(failing),
	}
	b, _ := json.MarshalIndent(ev, "", " ")
	_ = os.MkdirAll(filepath.Dir(evidencePath), 0o755)
	if err := os.WriteFile(evidencePath, b, 0o644); err != nil {
		fmt.Printf("VIOLATION property=%s replay=%s reason=undecided: cannot write evidence: %v\n", r.Property, evidencePath, err)
		return 1
	}
	fmt.Printf("%s %s: %d obligations, %d discharged, %d known findings, %d failing, %d rules, %d functions, %.1fs\n",
		r.Property, r.Tier, len(r.Obls), discharged, len(knownHit), len(failing), len(r.Rules), len(fns), time.Since(r.Start).Seconds())
	if len(failing) > 0 {
		return 1
	}
	return 0
}
