// Package selfcheck runs the engine's primitives on the positive-control
// programs under testdata/positive. Every control states what must fire and
// what must stay silent.
package selfcheck

import (
	"fmt"
	"go/ast"
	"go/token"
	"go/types"
	"os"
	"path/filepath"
	"strings"

	"golang.org/x/tools/go/packages"
	"golang.org/x/tools/go/ssa"
	"golang.org/x/tools/go/ssa/ssautil"

	"xpcheck/internal/cfgx"
	"xpcheck/internal/flow"
	"xpcheck/internal/locks"
	"xpcheck/internal/norm"
)

// Result of one control.
type Result struct {
	Name   string `json:"name"`
	OK     bool   `json:"ok"`
	Detail string `json:"detail"`
}

// Run loads the control package from checkerDir and evaluates all controls.
func Run(checkerDir string) ([]Result, error) {
	dir := filepath.Join(checkerDir, "testdata", "positive")
	if _, err := os.Stat(dir); err != nil {
		return nil, err
	}
	cfg := &packages.Config{Mode: packages.LoadAllSyntax, Dir: checkerDir, Fset: token.NewFileSet(),
		Env: append(os.Environ(), "GOFLAGS=-mod=mod", "GOPROXY=off", "GOSUMDB=off", "GOTOOLCHAIN=local", "GOWORK=off")}
	pkgs, err := packages.Load(cfg, "./testdata/positive")
	if err != nil || len(pkgs) != 1 || len(pkgs[0].Errors) > 0 {
		return nil, fmt.Errorf("cannot load positive controls: %v %v", err, pkgs)
	}
	prog, spkgs := ssautil.AllPackages(pkgs, ssa.InstantiateGenerics)
	prog.Build()
	sp := spkgs[0]
	fn := func(name string) *ssa.Function {
		if f := sp.Func(name); f != nil {
			return f
		}
		g := sp.Type("guarded")
		ms := prog.MethodSets.MethodSet(types.NewPointer(g.Type()))
		for i := 0; i < ms.Len(); i++ {
			if ms.At(i).Obj().Name() == name {
				return prog.MethodValue(ms.At(i))
			}
		}
		return nil
	}
	call := func(f *ssa.Function, suffix string, nth int) ssa.CallInstruction {
		n := 0
		for _, c := range cfgx.Calls(f, nil) {
			if strings.HasSuffix(cfgx.CalleeName(c), suffix) {
				if n == nth {
					return c
				}
				n++
			}
		}
		return nil
	}
	var out []Result
	add := func(name string, ok bool, detail string) { out = append(out, Result{name, ok, detail}) }

	// gate-crossing
	{
		f := fn("GateMissing")
		ok, _ := cfgx.MustCross(call(f, ").Create", 0), cfgx.ErrEvents(call(f, ").Write", 0)).OK, nil)
		add("gate-missing fires", !ok, "Create reachable without ok(Write)")
		g := fn("GateHeld")
		ok2, _ := cfgx.MustCross(call(g, ").Create", 0), cfgx.ErrEvents(call(g, ").Write", 0)).OK, nil)
		add("gate-held silent", ok2, "Create needs ok(Write)")
	}
	// loop bypass with whitelist
	{
		f := fn("LoopSkip")
		d := call(f, ").Delete", 0)
		loop := cfgx.LoopOf(d.Block())
		var empty []cfgx.Edge
		for _, b := range f.Blocks {
			for _, in := range b.Instrs {
				if bo, ok := in.(*ssa.BinOp); ok && bo.Op == token.EQL {
					if s, ok := cfgx.ConstString(bo.Y); ok && s == "" {
						t, _ := cfgx.CondEdges(bo)
						empty = append(empty, t...)
					}
				}
			}
		}
		by, _ := cfgx.LoopBypass(loop, map[*ssa.BasicBlock]bool{d.Block(): true}, empty, nil)
		add("loop-skip fires", by && len(empty) == 1, "an iteration skips Delete over a non-whitelisted edge")
		by2, _ := cfgx.LoopBypass(loop, map[*ssa.BasicBlock]bool{d.Block(): true}, nil, nil)
		add("loop-skip fires without whitelist too", by2, "")
	}
	{
		f := fn("LoopEarlySuccess")
		d := call(f, ").Delete", 0)
		rets := cfgx.ReturnsFromLoop(cfgx.LoopOf(d.Block()))
		nilRet := 0
		for _, r := range rets {
			if cfgx.IsNilConst(cfgx.ReturnValue(r, 0)) {
				nilRet++
			}
		}
		add("loop-early-success fires", nilRet == 1 && len(rets) == 2, fmt.Sprintf("%d early exits, %d with nil error", len(rets), nilRet))
	}
	// feasible paths with flag propagation
	for _, it := range []struct {
		name string
		bad  bool
	}{{"FlagPath", true}, {"FlagPathGood", false}} {
		f := fn(it.name)
		cr := call(f, ").Create", 0)
		two := call(f, ").Write", 1)
		paths, pruned, ok := cfgx.FeasiblePaths(cr, 1000)
		viol := 0
		for _, p := range paths {
			if !p.CrossesAny(cfgx.ErrEvents(two).OK) {
				viol++
			}
		}
		add("flag-path "+it.name, ok && (viol > 0) == it.bad && pruned > 0, fmt.Sprintf("%d feasible paths, %d reach Create after a failed step, %d edges pruned by constant flags", len(paths), viol, pruned))
	}
	// locks
	{
		guards := map[string]locks.LockID{"positive.guarded.m": "positive.guarded.mx"}
		r := locks.Analyse(fn("LockLeak"), locks.Config{Guards: guards})
		add("lock-leak fires", len(r.Problems) > 0, fmt.Sprint(len(r.Problems), " pairing problems"))
		r = locks.Analyse(fn("UnguardedWrite"), locks.Config{Guards: guards})
		bad := false
		for _, a := range r.Accesses {
			if a.Write && a.Weakest < locks.W {
				bad = true
			}
		}
		add("write-under-read-lock fires", bad, "")
		r = locks.Analyse(fn("ConditionalDefer"), locks.Config{Guards: guards})
		okAll := len(r.Problems) == 0
		for _, a := range r.Accesses {
			if a.Write && a.Weakest < locks.W || !a.Write && a.Weakest < locks.R {
				okAll = false
			}
		}
		add("conditional-defer idiom silent", okAll && len(r.Accesses) >= 2, fmt.Sprint(len(r.Accesses), " accesses, ", r.States, " lock states"))
		ab := locks.Analyse(fn("OrderAB"), locks.Config{})
		ba := locks.Analyse(fn("OrderBA"), locks.Config{})
		cyc := false
		for _, e := range ab.Order {
			for _, e2 := range ba.Order {
				if e.From == e2.To && e.To == e2.From {
					cyc = true
				}
			}
		}
		add("lock-order cycle fires", cyc, "")
	}
	// path sensitivity: result temporaries, re-tested values, pure predicates
	{
		g := fn("ResultTempGood")
		ok, _ := cfgx.MustCross(call(g, ").Create", 0), cfgx.ErrEvents(call(g, ").Write", 0)).StrictOK(), nil)
		add("result-temporary good silent", ok, "the caller's nil test of the temporary is correlated with the path that set it")
		b := fn("ResultTempBad")
		ok2, _ := cfgx.MustCross(call(b, ").Create", 0), cfgx.ErrEvents(call(b, ").Write", 0)).StrictOK(), nil)
		add("result-temporary bad fires", !ok2, "a path that never wrote leaves the temporary nil: the contextual success edge does not cover it")
		r := fn("RetestedGood")
		var never []cfgx.Edge
		for _, p := range r.Params {
			if p.Name() == "never" {
				t, _ := cfgx.DirectCondEdges(p)
				never = append(never, t...)
			}
		}
		var nilRC []cfgx.Edge
		for _, bb := range r.Blocks {
			for _, in := range bb.Instrs {
				if bo, isB := in.(*ssa.BinOp); isB && bo.Op == token.EQL && cfgx.IsNilConst(bo.Y) {
					t, _ := cfgx.DirectCondEdges(bo)
					nilRC = append(nilRC, t...)
				}
			}
		}
		reach, _ := cfgx.ReachableFromEdges(nilRC[:1], call(r, ").Create", 0), nil, nil)
		add("re-tested value silent", !reach && len(never) > 0 && len(nilRC) >= 2, "after `rc == nil && never` returned, `never` is false on the rc == nil paths")
		p := fn("PredicateGood")
		first := call(p, ").Write", 0)
		var benignFirst []cfgx.Edge
		for _, x := range cfgx.Calls(p, nil) {
			if strings.HasSuffix(cfgx.CalleeName(x), "isBenign") {
				t, _ := cfgx.CallCondEdges(x)
				benignFirst = append(benignFirst, t...)
			}
		}
		// from the edge "first error is NOT benign" the nil return must be unreachable
		var notBenign []cfgx.Edge
		for _, x := range cfgx.Calls(p, nil) {
			if strings.HasSuffix(cfgx.CalleeName(x), "isBenign") && x.Block() == first.Block() {
				_, f := cfgx.CallCondEdges(x)
				notBenign = append(notBenign, f...)
			}
		}
		bad := false
		for _, er := range cfgx.ErrorReturnsFrom(notBenign, nil) {
			if cfgx.IsNilConst(er.Val) {
				bad = true
			}
		}
		add("pure predicate consistency silent", !bad && len(notBenign) == 1 && len(benignFirst) >= 2, "isBenign(err) answers the same for the same error value along a path")
	}
	// normaliser: helpers unknown to the rules are inlined; verdicts carry over
	{
		known := map[string]bool{}
		for _, f := range pkgs[0].Syntax {
			for _, d := range f.Decls {
				if fd, ok := d.(*ast.FuncDecl); ok && !strings.HasPrefix(fd.Name.Name, "helper") {
					known["testdata/positive "+norm.FuncKey(fd)] = true
				}
			}
		}
		res := norm.Plan(pkgs, known, "xpcheck")
		okPlan := len(res.Overlay) == 1 && len(res.Inlined) == 4
		detail := fmt.Sprintf("%d call sites inlined, %d left alone", len(res.Inlined), len(res.Skipped))
		if okPlan {
			cfg2 := *cfg
			cfg2.Fset = token.NewFileSet()
			cfg2.Overlay = res.Overlay
			pk2, err := packages.Load(&cfg2, "./testdata/positive")
			if err != nil || len(pk2) != 1 || len(pk2[0].Errors) > 0 {
				okPlan = false
				detail = "the normal form does not type-check"
			} else {
				prog2, sp2 := ssautil.AllPackages(pk2, ssa.InstantiateGenerics)
				prog2.Build()
				g, b := sp2[0].Func("ExtractedGood"), sp2[0].Func("ExtractedBad")
				okG, _ := cfgx.MustCross(call(g, ").Create", 0), cfgx.ErrEvents(call(g, ").Write", 0)).StrictOK(), nil)
				okB, _ := cfgx.MustCross(call(b, ").Create", 0), cfgx.ErrEvents(call(b, ").Write", 0)).StrictOK(), nil)
				add("normaliser: extracted helper, gate held", call(g, ").Write", 0) != nil && okG, "after inlining, Create in the caller needs ok(Write) of the helper's body")
				add("normaliser: extracted helper, gate missing fires", call(b, ").Write", 0) != nil && !okB, "the helper's early `return nil` is a path to Create without ok(Write)")
				cf := sp2[0].Func("ClosureFlag")
				okC := len(cf.AnonFuncs) == 0
				if okC {
					cr := call(cf, ").Create", 0)
					paths, _, okP := cfgx.FeasiblePaths(cr, 1000)
					viol := 0
					for _, p := range paths {
						if !p.CrossesAny(cfgx.ErrEvents(call(cf, ").Write", 1)).OK) {
							viol++
						}
					}
					okC = okP && viol == 0 && len(paths) > 0
				}
				add("normaliser: closure-mutated flag", okC, "calls of a local closure are inlined and its definition dropped: the flag it clears is tracked like any local")
				// later stages: tables row by row, struct bundles field by field
				ov := map[string][]byte{}
				for k, v := range res.Overlay {
					ov[k] = v
				}
				stageOK := true
				cur := pk2
				for _, stage := range []func([]*packages.Package) *norm.Result{
					func(ps []*packages.Package) *norm.Result { return norm.Unroll(ps, "xpcheck") },
					func(ps []*packages.Package) *norm.Result { return norm.Scalarise(ps, "xpcheck") },
				} {
					r := stage(cur)
					if len(r.Overlay) != 1 {
						stageOK = false
						break
					}
					for k, v := range r.Overlay {
						ov[k] = v
					}
					cfg3 := *cfg
					cfg3.Fset = token.NewFileSet()
					cfg3.Overlay = ov
					pk3, err := packages.Load(&cfg3, "./testdata/positive")
					if err != nil || len(pk3) != 1 || len(pk3[0].Errors) > 0 {
						stageOK = false
						break
					}
					cur = pk3
				}
				if stageOK {
					prog3, sp3 := ssautil.AllPackages(cur, ssa.InstantiateGenerics)
					prog3.Build()
					tc, bm := sp3[0].Func("TableCompare"), sp3[0].Func("BundleMax")
					same := 0
					for _, b := range tc.Blocks {
						for _, in := range b.Instrs {
							if bo, ok := in.(*ssa.BinOp); ok && bo.Op == token.NEQ {
								_, px, okx := flow.AccessPathC(cfgx.ResolveAt(bo.X, b))
								_, py, oky := flow.AccessPathC(cfgx.ResolveAt(bo.Y, b))
								if okx && oky && px == py && px != "" {
									same++
								}
							}
						}
					}
					add("normaliser: table written out row by row", len(cfgx.BackEdges(tc)) == 0 && same == 3, fmt.Sprintf("no loop is left and %d of 3 comparisons are between the fields their row names (the conditionally appended row resolved under its flag)", same))
					mem := 0
					for _, b := range bm.Blocks {
						for _, in := range b.Instrs {
							switch in.(type) {
							case *ssa.Alloc, *ssa.FieldAddr, *ssa.Store:
								mem++
							}
						}
					}
					add("normaliser: struct bundle taken apart", mem == 0, "accumulators kept in fields of a local struct, copied as a whole, are SSA values afterwards")
				}
				add("normaliser: later stages plan and type-check", stageOK, "table unrolling and bundle splitting of the control package")
			}
		}
		add("normaliser plans and type-checks", okPlan, detail)
	}
	// a value tested twice across a short-circuit: the second arm of `case nf && ctl: … case nf:` knows ctl is false
	{
		f := fn("RetestedSwitch")
		var ctl ssa.Value
		for _, p := range f.Params {
			if p.Name() == "ctl" {
				ctl = p
			}
		}
		gates := cfgx.ErrEvents(call(f, ").Create", 0)).OK
		okPlain, _ := cfgx.MustCross(call(f, ").Delete", 0), gates, nil)
		okS, _ := cfgx.MustCrossOrKnow(call(f, ").Delete", 0), gates, ctl, false, nil)
		add("re-tested value across a short-circuit", ctl != nil && !okPlain && okS, "the second arm is reached only with ctl == false (learnt from the and-combined test it failed), although no edge tests ctl alone")
	}
	// self-carry
	{
		f := fn("SelfCarry")
		self := false
		for _, b := range f.Blocks {
			for _, in := range b.Instrs {
				if phi, ok := in.(*ssa.Phi); ok {
					for _, e := range phi.Edges {
						if ip, ok := e.(*ssa.Phi); ok {
							for _, e2 := range ip.Edges {
								if e2 == ssa.Value(phi) {
									self = true
								}
							}
						}
					}
				}
			}
		}
		add("self-carry detected", self, "loop-carried value can survive an iteration unchanged")
	}
	return out, nil
}
