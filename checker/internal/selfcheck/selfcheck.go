// Package selfcheck runs the engine's primitives on the positive-control
// programs under testdata/positive. Every control states what must fire and
// what must stay silent.
package selfcheck

import (
	"fmt"
	"go/token"
	"go/types"
	"os"
	"path/filepath"
	"strings"

	"golang.org/x/tools/go/packages"
	"golang.org/x/tools/go/ssa"
	"golang.org/x/tools/go/ssa/ssautil"

	"xpcheck/internal/cfgx"
	"xpcheck/internal/locks"
)

// Result of one control.
type Result struct {
	Name   string `json:"name"`
	OK     bool   `json:"ok"`
	Detail string `json:"detail"`
}

// Run loads the control package from checkerDir and evaluates all controls.
func Run(checkerDir string) ([]Result, error) {
	dir := filepath.Join(checkerDir, "testdata", "positive")
	if _, err := os.Stat(dir); err != nil {
		return nil, err
	}
	cfg := &packages.Config{Mode: packages.LoadAllSyntax, Dir: checkerDir, Fset: token.NewFileSet(),
		Env: append(os.Environ(), "GOFLAGS=-mod=mod", "GOPROXY=off", "GOSUMDB=off", "GOTOOLCHAIN=local", "GOWORK=off")}
	pkgs, err := packages.Load(cfg, "./testdata/positive")
	if err != nil || len(pkgs) != 1 || len(pkgs[0].Errors) > 0 {
		return nil, fmt.Errorf("cannot load positive controls: %v %v", err, pkgs)
	}
	prog, spkgs := ssautil.AllPackages(pkgs, ssa.InstantiateGenerics)
	prog.Build()
	sp := spkgs[0]
	fn := func(name string) *ssa.Function {
		if f := sp.Func(name); f != nil {
			return f
		}
		g := sp.Type("guarded")
		ms := prog.MethodSets.MethodSet(types.NewPointer(g.Type()))
		for i := 0; i < ms.Len(); i++ {
			if ms.At(i).Obj().Name() == name {
				return prog.MethodValue(ms.At(i))
			}
		}
		return nil
	}
	call := func(f *ssa.Function, suffix string, nth int) ssa.CallInstruction {
		n := 0
		for _, c := range cfgx.Calls(f, nil) {
			if strings.HasSuffix(cfgx.CalleeName(c), suffix) {
				if n == nth {
					return c
				}
				n++
			}
		}
		return nil
	}
	var out []Result
	add := func(name string, ok bool, detail string) { out = append(out, Result{name, ok, detail}) }

	// gate-crossing
	{
		f := fn("GateMissing")
		ok, _ := cfgx.MustCross(call(f, ").Create", 0), cfgx.ErrEvents(call(f, ").Write", 0)).OK, nil)
		add("gate-missing fires", !ok, "Create reachable without ok(Write)")
		g := fn("GateHeld")
		ok2, _ := cfgx.MustCross(call(g, ").Create", 0), cfgx.ErrEvents(call(g, ").Write", 0)).OK, nil)
		add("gate-held silent", ok2, "Create needs ok(Write)")
	}
	// loop bypass with whitelist
	{
		f := fn("LoopSkip")
		d := call(f, ").Delete", 0)
		loop := cfgx.LoopOf(d.Block())
		var empty []cfgx.Edge
		for _, b := range f.Blocks {
			for _, in := range b.Instrs {
				if bo, ok := in.(*ssa.BinOp); ok && bo.Op == token.EQL {
					if s, ok := cfgx.ConstString(bo.Y); ok && s == "" {
						t, _ := cfgx.CondEdges(bo)
						empty = append(empty, t...)
					}
				}
			}
		}
		by, _ := cfgx.LoopBypass(loop, map[*ssa.BasicBlock]bool{d.Block(): true}, empty, nil)
		add("loop-skip fires", by && len(empty) == 1, "an iteration skips Delete over a non-whitelisted edge")
		by2, _ := cfgx.LoopBypass(loop, map[*ssa.BasicBlock]bool{d.Block(): true}, nil, nil)
		add("loop-skip fires without whitelist too", by2, "")
	}
	{
		f := fn("LoopEarlySuccess")
		d := call(f, ").Delete", 0)
		rets := cfgx.ReturnsFromLoop(cfgx.LoopOf(d.Block()))
		nilRet := 0
		for _, r := range rets {
			if cfgx.IsNilConst(cfgx.ReturnValue(r, 0)) {
				nilRet++
			}
		}
		add("loop-early-success fires", nilRet == 1 && len(rets) == 2, fmt.Sprintf("%d early exits, %d with nil error", len(rets), nilRet))
	}
	// feasible paths with flag propagation
	for _, it := range []struct {
		name string
		bad  bool
	}{{"FlagPath", true}, {"FlagPathGood", false}} {
		f := fn(it.name)
		cr := call(f, ").Create", 0)
		two := call(f, ").Write", 1)
		paths, pruned, ok := cfgx.FeasiblePaths(cr, 1000)
		viol := 0
		for _, p := range paths {
			if !p.CrossesAny(cfgx.ErrEvents(two).OK) {
				viol++
			}
		}
		add("flag-path "+it.name, ok && (viol > 0) == it.bad && pruned > 0, fmt.Sprintf("%d feasible paths, %d reach Create after a failed step, %d edges pruned by constant flags", len(paths), viol, pruned))
	}
	// locks
	{
		guards := map[string]locks.LockID{"positive.guarded.m": "positive.guarded.mx"}
		r := locks.Analyse(fn("LockLeak"), locks.Config{Guards: guards})
		add("lock-leak fires", len(r.Problems) > 0, fmt.Sprint(len(r.Problems), " pairing problems"))
		r = locks.Analyse(fn("UnguardedWrite"), locks.Config{Guards: guards})
		bad := false
		for _, a := range r.Accesses {
			if a.Write && a.Weakest < locks.W {
				bad = true
			}
		}
		add("write-under-read-lock fires", bad, "")
		r = locks.Analyse(fn("ConditionalDefer"), locks.Config{Guards: guards})
		okAll := len(r.Problems) == 0
		for _, a := range r.Accesses {
			if a.Write && a.Weakest < locks.W || !a.Write && a.Weakest < locks.R {
				okAll = false
			}
		}
		add("conditional-defer idiom silent", okAll && len(r.Accesses) >= 2, fmt.Sprint(len(r.Accesses), " accesses, ", r.States, " lock states"))
		ab := locks.Analyse(fn("OrderAB"), locks.Config{})
		ba := locks.Analyse(fn("OrderBA"), locks.Config{})
		cyc := false
		for _, e := range ab.Order {
			for _, e2 := range ba.Order {
				if e.From == e2.To && e.To == e2.From {
					cyc = true
				}
			}
		}
		add("lock-order cycle fires", cyc, "")
	}
	// self-carry
	{
		f := fn("SelfCarry")
		self := false
		for _, b := range f.Blocks {
			for _, in := range b.Instrs {
				if phi, ok := in.(*ssa.Phi); ok {
					for _, e := range phi.Edges {
						if ip, ok := e.(*ssa.Phi); ok {
							for _, e2 := range ip.Edges {
								if e2 == ssa.Value(phi) {
									self = true
								}
							}
						}
					}
				}
			}
		}
		add("self-carry detected", self, "loop-carried value can survive an iteration unchanged")
	}
	return out, nil
}

