// Package locks is a forward lockset analysis on go/ssa, path-sensitive in the
// lock state only. It reports guarded-by facts for accesses of chosen fields,
// pairing errors and the held->acquired lock-order edges.
package locks

import (
	"fmt"
	"go/token"
	"go/types"
	"sort"
	"strings"

	"golang.org/x/tools/go/ssa"
)

// Mode of a held lock.
type Mode int

const (
	None Mode = iota
	R
	W
)

func (m Mode) String() string { return [...]string{"-", "R", "W"}[m] }

// LockID names a mutex by the struct type and field that holds it ("engine.ControllerEngine.mx").
type LockID string

// state is the lock state on one path: mode per lock plus pending deferred unlocks.
type state struct {
	held     map[LockID]Mode
	deferred []deferredOp
}

type deferredOp struct {
	lock LockID
	read bool
}

func (s state) key() string {
	var ks []string
	for k, v := range s.held {
		if v != None {
			ks = append(ks, string(k)+"="+v.String())
		}
	}
	sort.Strings(ks)
	var ds []string
	for _, d := range s.deferred {
		ds = append(ds, fmt.Sprintf("%s/%v", d.lock, d.read))
	}
	return strings.Join(ks, ",") + "|" + strings.Join(ds, ",")
}

func (s state) clone() state {
	n := state{held: map[LockID]Mode{}}
	for k, v := range s.held {
		n.held[k] = v
	}
	n.deferred = append(n.deferred, s.deferred...)
	return n
}

// Access is one read or write of a guarded field's content.
type Access struct {
	Field   string // "engine.controller.sources"
	Write   bool
	Instr   ssa.Instruction
	Held    map[LockID]Mode // state on some path reaching it (the weakest seen for the guarding lock)
	Weakest Mode            // weakest mode of the guarding lock over all paths
}

// Problem is a pairing error.
type Problem struct {
	Instr ssa.Instruction
	Fn    *ssa.Function
	What  string
}

// OrderEdge: lock To acquired (mode) while From is held.
type OrderEdge struct {
	From, To LockID
	FromMode Mode
	ToMode   Mode
	At       ssa.Instruction
	Via      string // callee chain when interprocedural
}

// CallUnder: a call made while locks are held.
type CallUnder struct {
	Call ssa.CallInstruction
	Held map[LockID]Mode
}

// Result of analysing one function.
type Result struct {
	Fn       *ssa.Function
	Accesses []Access
	Problems []Problem
	Order    []OrderEdge
	Calls    []CallUnder
	Acquires map[LockID]Mode // locks this function itself acquires (strongest mode)
	States   int
}

// Config tells the analysis which fields are guarded by which lock.
type Config struct {
	// Guards maps a guarded field id ("engine.controller.sources") to its lock id.
	Guards map[string]LockID
}

func fieldID(fa *ssa.FieldAddr) string {
	pt, ok := fa.X.Type().Underlying().(*types.Pointer)
	if !ok {
		return ""
	}
	n, ok := pt.Elem().(*types.Named)
	if !ok {
		return ""
	}
	st, ok := n.Underlying().(*types.Struct)
	if !ok {
		return ""
	}
	pkg := ""
	if n.Obj().Pkg() != nil {
		pkg = n.Obj().Pkg().Name() + "."
	}
	return pkg + n.Obj().Name() + "." + st.Field(fa.Field).Name()
}

func isMutex(t types.Type) bool {
	if p, ok := t.(*types.Pointer); ok {
		t = p.Elem()
	}
	n, ok := t.(*types.Named)
	return ok && n.Obj().Pkg() != nil && n.Obj().Pkg().Path() == "sync" && (n.Obj().Name() == "RWMutex" || n.Obj().Name() == "Mutex")
}

// lockOp recognises mx.Lock/RLock/Unlock/RUnlock on a struct field.
func lockOp(c *ssa.CallCommon) (id LockID, op string, ok bool) {
	f := c.StaticCallee()
	if f == nil || f.Pkg == nil || f.Pkg.Pkg.Path() != "sync" || len(c.Args) == 0 {
		return "", "", false
	}
	switch f.Name() {
	case "Lock", "RLock", "Unlock", "RUnlock":
	default:
		return "", "", false
	}
	if !isMutex(c.Args[0].Type()) {
		return "", "", false
	}
	fa, isFA := c.Args[0].(*ssa.FieldAddr)
	if !isFA {
		return "", "", false
	}
	return LockID(fieldID(fa)), f.Name(), true
}

// Analyse runs the lockset analysis on fn.
func Analyse(fn *ssa.Function, cfg Config) *Result {
	res := &Result{Fn: fn, Acquires: map[LockID]Mode{}}
	if fn == nil || len(fn.Blocks) == 0 {
		return res
	}
	in := map[*ssa.BasicBlock]map[string]state{}
	add := func(b *ssa.BasicBlock, s state) bool {
		if in[b] == nil {
			in[b] = map[string]state{}
		}
		k := s.key()
		if _, ok := in[b][k]; ok {
			return false
		}
		if len(in[b]) > 64 {
			return false
		}
		in[b][k] = s
		return true
	}
	add(fn.Blocks[0], state{held: map[LockID]Mode{}})
	work := []*ssa.BasicBlock{fn.Blocks[0]}
	accSeen := map[ssa.Instruction]*Access{}
	probSeen := map[string]bool{}
	problem := func(i ssa.Instruction, what string) {
		k := fmt.Sprintf("%p|%s", i, what)
		if !probSeen[k] {
			probSeen[k] = true
			res.Problems = append(res.Problems, Problem{Instr: i, Fn: fn, What: what})
		}
	}
	orderSeen := map[string]bool{}
	callSeen := map[string]bool{}
	processed := map[*ssa.BasicBlock]map[string]bool{}
	for len(work) > 0 {
		b := work[len(work)-1]
		work = work[:len(work)-1]
		for k, s0 := range in[b] {
			if processed[b] == nil {
				processed[b] = map[string]bool{}
			}
			if processed[b][k] {
				continue
			}
			processed[b][k] = true
			res.States++
			s := s0.clone()
			for _, ins := range b.Instrs {
				switch x := ins.(type) {
				case *ssa.Call:
					if id, op, ok := lockOp(&x.Call); ok {
						apply(&s, id, op, x, res, problem, orderSeen)
						continue
					}
					recordCall(x, s, res, callSeen)
				case *ssa.Defer:
					if id, op, ok := lockOp(&x.Call); ok {
						switch op {
						case "Unlock":
							s.deferred = append(s.deferred, deferredOp{id, false})
						case "RUnlock":
							s.deferred = append(s.deferred, deferredOp{id, true})
						default:
							problem(x, "deferred "+op)
						}
						continue
					}
				case *ssa.Go:
					// goroutine starts with an empty lockset: nothing to record here
				case *ssa.RunDefers:
					for i := len(s.deferred) - 1; i >= 0; i-- {
						d := s.deferred[i]
						op := "Unlock"
						if d.read {
							op = "RUnlock"
						}
						apply(&s, d.lock, op, x, res, problem, orderSeen)
					}
					s.deferred = nil
				case *ssa.Return:
					for id, m := range s.held {
						if m != None {
							problem(x, fmt.Sprintf("returns with %s held (%s)", id, m))
						}
					}
				}
				// guarded accesses
				for _, ac := range accessesOf(ins, cfg) {
					lock := cfg.Guards[ac.Field]
					m := s.held[lock]
					if prev, ok := accSeen[ins]; ok {
						if m < prev.Weakest {
							prev.Weakest = m
						}
					} else {
						a := ac
						a.Weakest = m
						a.Held = map[LockID]Mode{lock: m}
						accSeen[ins] = &a
					}
				}
			}
			for _, succ := range b.Succs {
				if add(succ, s) {
					work = append(work, succ)
				}
			}
		}
	}
	for _, a := range accSeen {
		res.Accesses = append(res.Accesses, *a)
	}
	sort.Slice(res.Accesses, func(i, j int) bool { return res.Accesses[i].Instr.Pos() < res.Accesses[j].Instr.Pos() })
	return res
}

func apply(s *state, id LockID, op string, at ssa.Instruction, res *Result, problem func(ssa.Instruction, string), orderSeen map[string]bool) {
	cur := s.held[id]
	switch op {
	case "Lock", "RLock":
		want := W
		if op == "RLock" {
			want = R
		}
		if cur != None {
			problem(at, fmt.Sprintf("%s of %s while already held (%s): self-deadlock", op, id, cur))
		}
		for other, m := range s.held {
			if m != None && other != id {
				k := string(other) + ">" + string(id)
				if !orderSeen[k] {
					orderSeen[k] = true
					res.Order = append(res.Order, OrderEdge{From: other, To: id, FromMode: m, ToMode: want, At: at})
				}
			}
		}
		s.held[id] = want
		if res.Acquires[id] < want {
			res.Acquires[id] = want
		}
	case "Unlock":
		if cur != W {
			problem(at, fmt.Sprintf("Unlock of %s which is not write-held (%s)", id, cur))
		}
		s.held[id] = None
	case "RUnlock":
		if cur != R {
			problem(at, fmt.Sprintf("RUnlock of %s which is not read-held (%s)", id, cur))
		}
		s.held[id] = None
	}
}

func recordCall(c *ssa.Call, s state, res *Result, seen map[string]bool) {
	held := map[LockID]Mode{}
	for id, m := range s.held {
		if m != None {
			held[id] = m
		}
	}
	var ks []string
	for id, m := range held {
		ks = append(ks, string(id)+m.String())
	}
	sort.Strings(ks)
	k := fmt.Sprintf("%p|%s", c, strings.Join(ks, ","))
	if seen[k] {
		return
	}
	seen[k] = true
	res.Calls = append(res.Calls, CallUnder{Call: c, Held: held})
}

// accessesOf classifies instruction ins as a read/write of a guarded field's content.
func accessesOf(ins ssa.Instruction, cfg Config) []Access {
	var out []Access
	guarded := func(v ssa.Value) (string, bool) {
		// v is the loaded map/slice value: *FieldAddr(guarded)
		ld, ok := v.(*ssa.UnOp)
		if !ok || ld.Op != token.MUL {
			return "", false
		}
		fa, ok := ld.X.(*ssa.FieldAddr)
		if !ok {
			return "", false
		}
		id := fieldID(fa)
		if _, ok := cfg.Guards[id]; ok {
			return id, true
		}
		return "", false
	}
	switch x := ins.(type) {
	case *ssa.Lookup:
		if f, ok := guarded(x.X); ok {
			out = append(out, Access{Field: f, Instr: ins})
		}
	case *ssa.MapUpdate:
		if f, ok := guarded(x.Map); ok {
			out = append(out, Access{Field: f, Write: true, Instr: ins})
		}
	case *ssa.Range:
		if f, ok := guarded(x.X); ok {
			out = append(out, Access{Field: f, Instr: ins})
		}
	case *ssa.Call:
		if b, ok := x.Call.Value.(*ssa.Builtin); ok && len(x.Call.Args) > 0 {
			if f, ok := guarded(x.Call.Args[0]); ok {
				switch b.Name() {
				case "delete":
					out = append(out, Access{Field: f, Write: true, Instr: ins})
				case "len":
					out = append(out, Access{Field: f, Instr: ins})
				}
			}
		}
	case *ssa.Store:
		if fa, ok := x.Addr.(*ssa.FieldAddr); ok {
			if id := fieldID(fa); id != "" {
				if _, ok := cfg.Guards[id]; ok {
					out = append(out, Access{Field: id, Write: true, Instr: ins})
				}
			}
		}
	}
	return out
}
