package rules

import (
	"strings"

	"golang.org/x/tools/go/ssa"

	"xpcheck/internal/cfgx"
	"xpcheck/internal/flow"
)

const (
	mustBeControllableBy       = xprt + "resource.MustBeControllableBy"
	connSecretMustBeControlled = xprt + "resource.ConnectionSecretMustBeControllableBy"
	allowUpdateIf              = xprt + "resource.AllowUpdateIf"
)

// applyOptions returns the option-constructor calls that flow into the
// variadic options of an Applicator.Apply call.
func applyOptions(call ssa.CallInstruction) []ssa.CallInstruction {
	args := cfgx.CallArgs(call)
	if len(args) < 3 {
		return nil
	}
	var out []ssa.CallInstruction
	for _, ci := range flow.Strict.CallsIn(args[2]) {
		out = append(out, ci)
	}
	// options appended through slices need calls as pass-through for append only
	w := &flow.Walker{Opts: flow.Opts{ThroughCall: func(c ssa.CallInstruction) bool { return cfgx.CalleeName(c) == "builtin.append" }}}
	seen := map[ssa.CallInstruction]bool{}
	for _, ci := range out {
		seen[ci] = true
	}
	for _, ci := range w.CallsIn(args[2]) {
		if !seen[ci] {
			out = append(out, ci)
		}
	}
	return out
}

// controlGuard finds a MustBeControllableBy / ConnectionSecretMustBeControllableBy
// option on an Apply call and returns the value whose GetUID() it was given.
func controlGuard(call ssa.CallInstruction) (guard ssa.CallInstruction, uidOf ssa.Value) {
	for _, o := range applyOptions(call) {
		n := cfgx.CalleeName(o)
		if n != mustBeControllableBy && n != connSecretMustBeControlled {
			continue
		}
		guard = o
		a := cfgx.CallArgs(o)
		if len(a) == 0 {
			return guard, nil
		}
		for _, ci := range flow.Strict.CallsIn(a[0]) {
			if strings.HasSuffix(cfgx.CalleeName(ci), ".GetUID") {
				if r := cfgx.Receiver(ci); r != nil {
					return guard, flow.Root(underIface(r))
				}
			}
		}
		return guard, nil
	}
	return nil, nil
}

// requireGuardedApply records the obligation that an Apply of a child object
// carries a controller guard keyed on owner's UID. owner is the SSA value of
// the owning object (nil = any GetUID receiver of type ownerType).
func (c *Ctx) requireGuardedApply(call ssa.CallInstruction, ownerType string, why string) {
	g, uidOf := controlGuard(call)
	switch {
	case g == nil:
		c.R.Bad(site(call)+" guarded", c.pos(call.Pos()), "Apply of "+why+" carries no MustBeControllableBy/ConnectionSecretMustBeControllableBy option: an object controlled by another owner would be overwritten")
	case uidOf == nil:
		c.R.Bad(site(call)+" guarded", c.pos(call.Pos()), "the controller guard of this Apply is not keyed on a GetUID() value")
	case ownerType != "" && !typeMatches(uidOf, ownerType):
		c.R.Bad(site(call)+" guarded", c.pos(call.Pos()), "the controller guard is keyed on the UID of a "+uidOf.Type().String()+", expected the owner ("+ownerType+")")
	default:
		c.R.OK(site(call)+" guarded", c.pos(call.Pos()), "carries "+cfgx.ShortCallee(cfgx.CalleeName(g))+"(owner.GetUID()) for "+why)
	}
	c.noWriteBeforeGuard(call, g)
}

// noWriteBeforeGuard: the applicator runs its options in order: nothing that
// writes may run before ownership was checked.
func (c *Ctx) noWriteBeforeGuard(call, g ssa.CallInstruction) {
	if g != nil {
		gi := optionIndex(call, g)
		for _, o := range applyOptions(call) {
			if o == g {
				continue
			}
			fn := o.Common().StaticCallee()
			if fn == nil || !inThisRepo(fn) {
				continue
			}
			writes := false
			for _, f := range closures(fn) {
				if len(directWrites(f)) > 0 {
					writes = true
				}
			}
			if !writes {
				continue
			}
			oi := optionIndex(call, o)
			c.R.Check(gi >= 0 && oi > gi, site(call)+" no write before the guard ("+cfgx.ShortCallee(cfgx.CalleeName(o))+")", c.pos(o.Pos()), "the writing option runs after the controller guard", "the option "+cfgx.ShortCallee(cfgx.CalleeName(o))+" performs a write and is not ordered after the controller guard: it modifies an object another owner controls before the guard refuses the apply")
		}
	}
}

// optionIndex is the position of option constructor call o in the variadic
// option list literal of call (-1 when it cannot be determined).
func optionIndex(call, o ssa.CallInstruction) int {
	v := o.Value()
	if v == nil || v.Referrers() == nil {
		return -1
	}
	for _, r := range *v.Referrers() {
		st, ok := r.(*ssa.Store)
		if !ok {
			continue
		}
		if ia, ok := st.Addr.(*ssa.IndexAddr); ok {
			if k, ok := cfgx.ConstInt(ia.Index); ok {
				return int(k)
			}
		}
	}
	return -1
}

func inThisRepo(fn *ssa.Function) bool {
	for fn.Parent() != nil {
		fn = fn.Parent()
	}
	return fn.Pkg != nil && strings.HasPrefix(fn.Pkg.Pkg.Path(), strings.TrimSuffix(xp, "/"))
}

func typeMatches(v ssa.Value, want string) bool {
	t := v.Type().String()
	return t == want || strings.TrimPrefix(t, "*") == strings.TrimPrefix(want, "*") || strings.HasSuffix(t, want)
}
