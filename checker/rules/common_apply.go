package rules

import (
	"strings"

	"golang.org/x/tools/go/ssa"

	"xpcheck/internal/cfgx"
	"xpcheck/internal/flow"
)

const (
	mustBeControllableBy       = xprt + "resource.MustBeControllableBy"
	connSecretMustBeControlled = xprt + "resource.ConnectionSecretMustBeControllableBy"
	allowUpdateIf              = xprt + "resource.AllowUpdateIf"
)

// applyOptions returns the option-constructor calls that flow into the
// variadic options of an Applicator.Apply call.
func applyOptions(call ssa.CallInstruction) []ssa.CallInstruction {
	args := cfgx.CallArgs(call)
	if len(args) < 3 {
		return nil
	}
	var out []ssa.CallInstruction
	for _, ci := range flow.Strict.CallsIn(args[2]) {
		out = append(out, ci)
	}
	// options appended through slices need calls as pass-through for append only
	w := &flow.Walker{Opts: flow.Opts{ThroughCall: func(c ssa.CallInstruction) bool { return cfgx.CalleeName(c) == "builtin.append" }}}
	seen := map[ssa.CallInstruction]bool{}
	for _, ci := range out {
		seen[ci] = true
	}
	for _, ci := range w.CallsIn(args[2]) {
		if !seen[ci] {
			out = append(out, ci)
		}
	}
	return out
}

// controlGuard finds a MustBeControllableBy / ConnectionSecretMustBeControllableBy
// option on an Apply call and returns the value whose GetUID() it was given.
func controlGuard(call ssa.CallInstruction) (guard ssa.CallInstruction, uidOf ssa.Value) {
	for _, o := range applyOptions(call) {
		n := cfgx.CalleeName(o)
		if n != mustBeControllableBy && n != connSecretMustBeControlled {
			continue
		}
		guard = o
		a := cfgx.CallArgs(o)
		if len(a) == 0 {
			return guard, nil
		}
		for _, ci := range flow.Strict.CallsIn(a[0]) {
			if strings.HasSuffix(cfgx.CalleeName(ci), ".GetUID") {
				if r := cfgx.Receiver(ci); r != nil {
					return guard, flow.Root(underIface(r))
				}
			}
		}
		return guard, nil
	}
	return nil, nil
}

// requireGuardedApply records the obligation that an Apply of a child object
// carries a controller guard keyed on owner's UID. owner is the SSA value of
// the owning object (nil = any GetUID receiver of type ownerType).
func (c *Ctx) requireGuardedApply(call ssa.CallInstruction, ownerType string, why string) {
	g, uidOf := controlGuard(call)
	switch {
	case g == nil:
		c.R.Bad(site(call)+" guarded", c.pos(call.Pos()), "Apply of "+why+" carries no MustBeControllableBy/ConnectionSecretMustBeControllableBy option: an object controlled by another owner would be overwritten")
	case uidOf == nil:
		c.R.Bad(site(call)+" guarded", c.pos(call.Pos()), "the controller guard of this Apply is not keyed on a GetUID() value")
	case ownerType != "" && !typeMatches(uidOf, ownerType):
		c.R.Bad(site(call)+" guarded", c.pos(call.Pos()), "the controller guard is keyed on the UID of a "+uidOf.Type().String()+", expected the owner ("+ownerType+")")
	default:
		c.R.OK(site(call)+" guarded", c.pos(call.Pos()), "carries "+cfgx.ShortCallee(cfgx.CalleeName(g))+"(owner.GetUID()) for "+why)
	}
}

func typeMatches(v ssa.Value, want string) bool {
	t := v.Type().String()
	return t == want || strings.TrimPrefix(t, "*") == strings.TrimPrefix(want, "*") || strings.HasSuffix(t, want)
}
