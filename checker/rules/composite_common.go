package rules

import (
	"strings"

	"golang.org/x/tools/go/ssa"

	"xpcheck/internal/cfgx"
	"xpcheck/internal/flow"
)

const (
	pkgComposite = "internal/controller/apiextensions/composite"
	tComposedIf  = xprt + "resource.Composed"
	gcInvoke     = "(" + xp + pkgComposite + ".ComposedResourceGarbageCollector).GarbageCollectComposedResources"
	assocInvoke  = "(" + xp + pkgComposite + ".CompositionTemplateAssociator).AssociateTemplates"
	observeInv   = "(" + xp + pkgComposite + ".ComposedResourceObserver).ObserveComposedResources"
	upgradeInv   = "(" + xp + pkgComposite + ".ManagedFieldsUpgrader).Upgrade"
	genNameInv   = "(" + xp + "internal/names.NameGenerator).GenerateName"
	runFnInv     = "(" + xp + pkgComposite + ".FunctionRunner).RunFunction"
)

// isApplyPatch reports whether a client.Patch call uses client.Apply (server-side apply).
func isApplyPatch(call ssa.CallInstruction) bool {
	a := cfgx.CallArgs(call)
	return len(a) >= 3 && flow.Strict.Any(a[2], func(v ssa.Value) bool { return isGlobalNamed(v, crc, "Apply") })
}

func isComposedType(t string) bool { return t == tComposedIf || t == tComposedU }

// composerSites collects the anchored sites of a Compose method.
type composerSites struct {
	fn      *ssa.Function
	creates []ssa.CallInstruction // create-capable writes of composed resources
	refsW   []ssa.CallInstruction // non-status writes of the XR carrying the resource references
	gc      []ssa.CallInstruction // role: may delete composed resources
}

func findComposerSites(fn *ssa.Function) composerSites {
	s := composerSites{fn: fn}
	for _, c := range calls(fn, clientPatch) {
		a := cfgx.CallArgs(c)
		switch {
		case isApplyPatch(c) && isComposedType(fullType(a[1])):
			s.creates = append(s.creates, c)
		case fullType(a[1]) == tXRUnstr:
			s.refsW = append(s.refsW, c)
		}
	}
	for _, c := range calls(fn, applicatorApply) {
		if isComposedType(fullType(cfgx.CallArgs(c)[1])) {
			s.creates = append(s.creates, c)
		}
	}
	for _, c := range calls(fn, clientUpdate) {
		if fullType(cfgx.CallArgs(c)[1]) == tXRUnstr {
			s.refsW = append(s.refsW, c)
		}
	}
	for _, c := range calls(fn, clientCreate) {
		if isComposedType(fullType(cfgx.CallArgs(c)[1])) {
			s.creates = append(s.creates, c)
		}
	}
	s.gc = calls(fn, gcInvoke, assocInvoke)
	return s
}

// composerMethods returns the two production Compose implementations.
func (c *Ctx) composerMethods() (fc, pt *ssa.Function) {
	return c.method(pkgComposite, "FunctionComposer", "Compose"), c.method(pkgComposite, "PTComposer", "Compose")
}

func nameOfCall(ci ssa.CallInstruction) string { return cfgx.ShortCallee(cfgx.CalleeName(ci)) }

func hasSuffixCall(v ssa.Value, suffix string) bool {
	ci, ok := v.(ssa.CallInstruction)
	return ok && strings.HasSuffix(cfgx.CalleeName(ci), suffix)
}
