package rules

import (
	"go/token"
	"strings"

	"golang.org/x/tools/go/ssa"

	"xpcheck/internal/cfgx"
	"xpcheck/internal/flow"
	"xpcheck/internal/load"
)

const pkgClaim = "internal/controller/apiextensions/claim"

func init() {
	register(&Property{
		ID:  "C06",
		Run: c06,
		Explanation: "Decides the ordering and provenance that make a claim bind exactly one XR, for both syncers: (R6.1/R6.2) the XR write is reached only over the success edge of a full client.Update of the claim that follows SetResourceReference(reference of the very XR object written) — the client-side syncer may skip that Update only on the edge where the recorded and the proposed reference compare equal; the claim is written with Update (resourceVersion-checked), never Patch/Apply, before the XR; " +
			"(R6.3) the name of the written XR is taken from cm.GetResourceReference().Name on its non-nil edge before any name is generated, and no other SetName touches it; GenerateName is only reached when no name is set / the XR was not created; (R6.4) in the claim reconciler every effect on the XR (field-manager upgrade, delete, sync) is dominated by the claimRef comparison and unreachable from its not-equal edge; " +
			"(R6.5) the claim reference written to the XR is cm.GetReference(). (R6.6) the name generator hands out a name only on the IsNotFound edge of its probe, sets the name it probed and never renames.",
		NotDecided:  []string{"optimistic-concurrency behaviour of the API server", "stale caches", "interleavings with the XR reconciler and claim deletion", "generated-name collisions (the code concedes a hijack is possible then)"},
		Assumptions: []string{"client.Update carries the read resourceVersion and is rejected when stale", "names.NameGenerator does not rename (decided in C01 R1.3)"},
	})
}

// xrWritten finds the XR write of a Sync method and the XR object it writes.
func syncSites(fn *ssa.Function) (xrWrite ssa.CallInstruction, xrObj ssa.Value, claimUpdates []ssa.CallInstruction) {
	for _, c := range calls(fn, clientPatch) {
		if fullType(cfgx.CallArgs(c)[1]) == tXRUnstr && isApplyPatch(c) {
			xrWrite = c
		}
	}
	for _, c := range calls(fn, applicatorApply) {
		if fullType(cfgx.CallArgs(c)[1]) == tXRUnstr {
			xrWrite = c
		}
	}
	if xrWrite != nil {
		xrObj = flow.Root(underIface(cfgx.CallArgs(xrWrite)[1]))
	}
	for _, c := range calls(fn, clientUpdate) {
		if fullType(cfgx.CallArgs(c)[1]) == tClaimUnstr {
			claimUpdates = append(claimUpdates, c)
		}
	}
	return
}

func methodCallOn(fn *ssa.Function, suffix string, recv ssa.Value) []ssa.CallInstruction {
	var out []ssa.CallInstruction
	for _, x := range cfgx.Calls(fn, nil) {
		if strings.HasSuffix(cfgx.CalleeName(x), suffix) {
			if r := cfgx.Receiver(x); r != nil && (recv == nil || flow.Root(underIface(r)) == recv) {
				out = append(out, x)
			}
		}
	}
	return out
}

func c06(c *Ctx) {
	ssaS := c.method(pkgClaim, "ServerSideCompositeSyncer", "Sync")
	csaS := c.method(pkgClaim, "ClientSideCompositeSyncer", "Sync")

	claimRecordsFirst(c, ssaS, csaS, "R6.1", "R6.2")

	c.R.Rule("R6.3", "a recorded name is reused: SetName(cm.GetResourceReference().Name) on the non-nil edge, before GenerateName; no other SetName on the written XR", 6,
		"a retry after a failed XR write (or an XR that cannot be read yet) would generate a new name and create a second XR")
	for _, fn := range []*ssa.Function{ssaS, csaS} {
		if fn == nil {
			continue
		}
		xw, xrObj, _ := syncSites(fn)
		if xw == nil {
			continue
		}
		cm := ssa.Value(fn.Params[2])
		sn := methodCallOn(fn, "Unstructured).SetName", xrObj)
		if len(sn) == 0 {
			c.R.Bad(load.FuncName(fn)+": SetName", c.pos(fn.Pos()), "the written XR never gets the recorded name")
			continue
		}
		gen := calls(fn, genNameInv)
		for _, s := range sn {
			arg := cfgx.CallArgs(s)[0]
			r, p, ok := flow.AccessPathC(arg)
			rc, isCall := r.(*ssa.Call)
			good := ok && p == "Name" && isCall && strings.HasSuffix(cfgx.CalleeName(rc), "claim.Unstructured).GetResourceReference") && flow.Root(underIface(cfgx.Receiver(rc))) == cm
			c.R.Check(good, site(s)+" recorded-name", c.pos(s.Pos()), "the XR is named cm.GetResourceReference().Name", "the written XR is named from something other than the claim's recorded resource reference")
			for _, g := range gen {
				c.R.Check(cfgx.InstrReaches(s, g, nil) && !cfgx.InstrReaches(g, s, nil), site(s)+" before-generate", c.pos(s.Pos()), "the recorded name is applied before a name may be generated", "a name may be generated before the recorded name is applied")
			}
			c.R.Check(cfgx.InstrReaches(s, xw, nil), site(s)+" before-write", c.pos(s.Pos()), "applied before the XR write", "the recorded name is applied after the XR write")
		}
		if len(gen) != 1 {
			c.R.Unknown(load.FuncName(fn)+": GenerateName", c.pos(fn.Pos()), "expected one GenerateName call")
			continue
		}
		c.R.Check(flow.Root(underIface(cfgx.CallArgs(gen[0])[1])) == xrObj, site(gen[0])+" on-written-xr", c.pos(gen[0].Pos()), "the name is generated on the XR object that is written", "GenerateName is applied to a different object than the one written")
		// GenerateName only when unnamed / not created
		var gate []cfgx.Edge
		for _, b := range fn.Blocks {
			for _, in := range b.Instrs {
				if bo, ok := in.(*ssa.BinOp); ok {
					for _, pr := range [][2]ssa.Value{{bo.X, bo.Y}, {bo.Y, bo.X}} {
						if s, isC := cfgx.ConstString(pr[1]); isC && s == "" && hasSuffixCall(pr[0], "Unstructured).GetName") {
							t, f := cfgx.CondEdges(bo)
							if bo.Op.String() == "==" {
								gate = append(gate, t...)
							} else {
								gate = append(gate, f...)
							}
						}
					}
				}
			}
		}
		_, notCreated, _ := boolCallEdges(fn, metaWasCreated, argHasType(0, tXRUnstr))
		gate = append(gate, notCreated...)
		c.requireCross(site(gen[0])+" only-unnamed", gen[0], gate, "xr.GetName()==\"\" or !WasCreated(xr)")
		// a failed GenerateName returns
		ev := cfgx.ErrEvents(gen[0])
		r, w := cfgx.ReachableFromEdges(ev.Fail, xw, ev.OK, c.posf())
		c.R.Check(!r && len(ev.Fail) > 0, site(gen[0])+" failure-returns", c.pos(gen[0].Pos()), "a failed GenerateName returns", "the XR write is reachable after a failed GenerateName", w...)
	}

	c.R.Rule("R6.4", "foreign-bound XRs are untouched: every effect on the XR is dominated by the claimRef comparison and unreachable from its not-equal edge", 3,
		"a claim whose resourceRef points at another claim's XR would upgrade, rebind or delete it")
	if rec := c.method(pkgClaim, "Reconciler", "Reconcile"); rec != nil {
		var bound, unbound []cfgx.Edge
		var head ssa.CallInstruction
		for _, eq := range calls(rec, "github.com/google/go-cmp/cmp.Equal") {
			a := eq.Common().Args
			isCM := func(v ssa.Value) bool {
				return flow.Default.Any(v, func(x ssa.Value) bool { return hasSuffixCall(x, "claim.Unstructured).GetReference") })
			}
			isXR := func(v ssa.Value) bool {
				return flow.Default.Any(v, func(x ssa.Value) bool { return hasSuffixCall(x, "composite.Unstructured).GetClaimReference") })
			}
			if (isCM(a[0]) && isXR(a[1])) || (isCM(a[1]) && isXR(a[0])) {
				// only the guard before Sync (the one after Sync compares the post-sync ref for an event)
				if head == nil || eq.Pos() < head.Pos() {
					head = eq
				}
			}
		}
		if head == nil {
			c.R.Unknown(load.FuncName(rec)+": unbound guard", c.pos(rec.Pos()), "no comparison of cm.GetReference() with xr.GetClaimReference() found")
		} else {
			bound, unbound = cfgx.CallCondEdges(head)
			_ = bound
			var effects []ssa.CallInstruction
			effects = append(effects, calls(rec, "("+xp+pkgClaim+".ManagedFieldsUpgrader).Upgrade")...)
			effects = append(effects, callsWithArg(rec, 1, tXRUnstr, clientDelete)...)
			effects = append(effects, calls(rec, "("+xp+pkgClaim+".CompositeSyncer).Sync")...)
			for _, w := range directWrites(rec) {
				a := cfgx.CallArgs(w)
				if len(a) > 1 && fullType(a[1]) == tXRUnstr && cfgx.CalleeName(w) != clientDelete {
					effects = append(effects, w)
				}
			}
			if len(effects) < 3 {
				c.R.Unknown(load.FuncName(rec)+": XR effects", c.pos(rec.Pos()), "expected Upgrade, Delete and Sync on the XR")
			}
			// allowed edges: XR does not exist, has no claimRef, or claimRef equals this claim
			_, notCreated, _ := boolCallEdges(rec, metaWasCreated, argHasType(0, tXRUnstr))
			allowed := union(bound, notCreated)
			for _, a := range head.Common().Args {
				for _, ci := range flow.Default.CallsIn(a) {
					if !strings.HasSuffix(cfgx.CalleeName(ci), "composite.Unstructured).GetClaimReference") {
						continue
					}
					for _, b := range rec.Blocks {
						for _, in := range b.Instrs {
							if bo, ok := in.(*ssa.BinOp); ok && (bo.X == ci.Value() && cfgx.IsNilConst(bo.Y) || bo.Y == ci.Value() && cfgx.IsNilConst(bo.X)) {
								t, f := cfgx.CondEdges(bo)
								if bo.Op.String() == "!=" {
									allowed = append(allowed, f...)
								} else if bo.Op.String() == "==" {
									allowed = append(allowed, t...)
								}
							}
						}
					}
				}
			}
			// the same tests combined in a named boolean (`bindable := !created || ref == nil || equal`,
			// `foreign := created && ref != nil && !equal`)
			{
				var pos, neg []ssa.Value
				notOf := func(v ssa.Value) []ssa.Value {
					var out []ssa.Value
					if v.Referrers() != nil {
						for _, r := range *v.Referrers() {
							if u, ok := r.(*ssa.UnOp); ok && u.Op == token.NOT {
								out = append(out, u)
							}
						}
					}
					return out
				}
				pos = append(pos, head.Value())
				neg = append(neg, notOf(head.Value())...)
				for _, x := range calls(rec, metaWasCreated) {
					if argHasType(0, tXRUnstr)(cfgx.CallArgs(x)) {
						neg = append(neg, x.Value())
						pos = append(pos, notOf(x.Value())...)
					}
				}
				for _, a := range head.Common().Args {
					for _, ci := range flow.Default.CallsIn(a) {
						if !strings.HasSuffix(cfgx.CalleeName(ci), "composite.Unstructured).GetClaimReference") {
							continue
						}
						for _, b := range rec.Blocks {
							for _, in := range b.Instrs {
								if bo, ok := in.(*ssa.BinOp); ok && (bo.X == ci.Value() && cfgx.IsNilConst(bo.Y) || bo.Y == ci.Value() && cfgx.IsNilConst(bo.X)) {
									if bo.Op == token.EQL {
										pos = append(pos, bo)
									} else if bo.Op == token.NEQ {
										neg = append(neg, bo)
									}
								}
							}
						}
					}
				}
				allowed = append(allowed, boolDisjTrueEdges(rec, pos)...)
				allowed = append(allowed, boolConjFalseEdges(rec, neg)...)
			}
			for _, e := range effects {
				r, w := cfgx.ReachableFromEdges(unbound, e, nil, c.posf())
				c.R.Check(!r && len(unbound) > 0, site(e)+" not-foreign-bound", c.pos(e.Pos()), "unreachable when the XR's claimRef names another claim", "an effect on the XR is reachable although its claimRef names a different claim", w...)
				c.requireCross(site(e)+" guarded", e, allowed, "XR not created, XR without claimRef, or claimRef == this claim")
			}
			// the unbound edge performs a status-only write and returns
			for _, w := range directWrites(rec) {
				if r, _ := cfgx.ReachableFromEdges(unbound, w, nil, nil); r {
					c.R.Check(cfgx.CalleeName(w) == statusUpdate && fullType(cfgx.CallArgs(w)[1]) == tClaimUnstr, site(w)+" unbound-status-only", c.pos(w.Pos()), "the unbound path only updates the claim's status", "the unbound path performs a write other than the claim status update")
				}
			}
		}
	}

	c.R.Rule("R6.5", "the claim reference written to the XR is this claim's", 2, "an XR bound to a reference other than the syncing claim's")
	for _, fn := range []*ssa.Function{ssaS, csaS} {
		if fn == nil {
			continue
		}
		_, xrObj, _ := syncSites(fn)
		cm := ssa.Value(fn.Params[2])
		sc := methodCallOn(fn, "composite.Unstructured).SetClaimReference", xrObj)
		if len(sc) != 1 {
			c.R.Bad(load.FuncName(fn)+": SetClaimReference", c.pos(fn.Pos()), "the written XR does not get exactly one claim reference")
			continue
		}
		arg := cfgx.CallArgs(sc[0])[0]
		ci, ok := arg.(*ssa.Call)
		c.R.Check(ok && strings.HasSuffix(cfgx.CalleeName(ci), "claim.Unstructured).GetReference") && flow.Root(underIface(cfgx.Receiver(ci))) == cm, site(sc[0])+" cm.GetReference()", c.pos(sc[0].Pos()), "claimRef = cm.GetReference()", "the claim reference written to the XR is not cm.GetReference()")
	}

	c.R.Rule("R6.6", "the name generator hands out a name only when nothing holds it", 3,
		"a generated name that an existing XR already holds - bound to another claim, even if that XR is terminating - makes the syncer write this claim's spec and claimRef onto that XR")
	nameGeneratorRules(c)
}

// headDominatesViaNil: the guard `WasCreated(xr) && ref != nil && !Equal(...)`
// short-circuits; the comparison itself does not dominate later code, but the
// call that produces the compared reference (xr.GetClaimReference()) does.
func headDominatesViaNil(fn *ssa.Function, head ssa.CallInstruction, e ssa.CallInstruction) bool {
	for _, a := range head.Common().Args {
		for _, ci := range flow.Default.CallsIn(a) {
			if strings.HasSuffix(cfgx.CalleeName(ci), "composite.Unstructured).GetClaimReference") {
				if cfgx.MustPass(ci.Block(), e.Block()) {
					return true
				}
			}
		}
	}
	return false
}

// claimRecordsFirst: the XR write is reached only over the success edge of a
// full Update of the claim that carries the written XR's reference.
func claimRecordsFirst(c *Ctx, ssaS, csaS *ssa.Function, idSSA, idCSA string) {
	for _, it := range []struct {
		rule string
		fn   *ssa.Function
		csa  bool
	}{{idSSA, ssaS, false}, {idCSA, csaS, true}} {
		c.R.Rule(it.rule, "record the reference first: the XR write needs ok(Update(claim)) after SetResourceReference(ref of the written XR)"+boolStr(it.csa, "; skip only when the reference is already recorded"), 4,
			"an XR created before its reference is durable on the claim is leaked by a crash and a second XR is created on retry")
		fn := it.fn
		if fn == nil {
			continue
		}
		xw, xrObj, cu := syncSites(fn)
		if xw == nil || len(cu) == 0 {
			c.R.Unknown(load.FuncName(fn)+": sites", c.pos(fn.Pos()), "XR write or claim Update not found")
			continue
		}
		cm := ssa.Value(fn.Params[2])
		// the claim update that precedes the XR write
		var first ssa.CallInstruction
		for _, u := range cu {
			if cfgx.InstrReaches(u, xw, nil) {
				first = u
			}
		}
		if first == nil {
			c.R.Bad(site(xw)+" after-claim-update", c.pos(xw.Pos()), "no claim Update precedes the XR write")
			continue
		}
		gates := okEdges(first)
		what := "ok(client.Update(claim))"
		if it.csa {
			for _, eq := range calls(fn, "github.com/google/go-cmp/cmp.Equal") {
				a := eq.Common().Args
				isExisting := func(v ssa.Value) bool {
					return flow.Default.Any(v, func(x ssa.Value) bool { return hasSuffixCall(x, "claim.Unstructured).GetResourceReference") })
				}
				isProposed := func(v ssa.Value) bool {
					return flow.Default.Any(v, func(x ssa.Value) bool { return hasSuffixCall(x, "composite.Unstructured).GetReference") })
				}
				if (isExisting(a[0]) && isProposed(a[1])) || (isExisting(a[1]) && isProposed(a[0])) {
					t, _ := cfgx.CallCondEdges(eq)
					gates = append(gates, t...)
					what += " or cmp.Equal(recorded, proposed reference)"
				}
			}
		}
		c.requireCross(site(xw)+" after-claim-update", xw, gates, what)
		// SetResourceReference(ref of written XR) dominates the claim update
		srr := methodCallOn(fn, "claim.Unstructured).SetResourceReference", cm)
		good := false
		for _, s := range srr {
			arg := cfgx.CallArgs(s)[0]
			fromXR := false
			for _, ci := range flow.Strict.CallsIn(arg) {
				if strings.HasSuffix(cfgx.CalleeName(ci), "composite.Unstructured).GetReference") && flow.Root(underIface(cfgx.Receiver(ci))) == xrObj {
					fromXR = true
				}
			}
			if fromXR && cfgx.MustPass(s.Block(), first.Block()) && cfgx.InstrReaches(s, first, nil) {
				good = true
			}
		}
		c.R.Check(good, site(first)+" carries-reference", c.pos(first.Pos()), "the claim written carries the reference of the XR object that will be written", "the claim Update is not preceded by SetResourceReference(reference of the XR that is written)")
		c.R.Check(flow.Root(underIface(cfgx.CallArgs(first)[1])) == cm, site(first)+" updates-claim", c.pos(first.Pos()), "updates the claim parameter", "the Update before the XR write is not of the claim being synced")
		// no Patch/Apply/Create of the claim before the XR write
		for _, w := range directWrites(fn) {
			if w == first || cfgx.CalleeName(w) == clientUpdate {
				continue
			}
			a := cfgx.CallArgs(w)
			if len(a) > 1 && fullType(a[1]) == tClaimUnstr && cfgx.InstrReaches(w, xw, nil) && cfgx.CalleeName(w) != statusUpdate {
				c.R.Bad(site(w)+" claim-write-kind", c.pos(w.Pos()), "the claim is written before the XR with a call that is not resourceVersion-checked (must be client.Update)")
			}
		}
		// a failed claim update returns
		ev := cfgx.ErrEvents(first)
		r, w := cfgx.ReachableFromEdges(ev.Fail, xw, ev.OK, c.posf())
		c.R.Check(!r && len(ev.Fail) > 0, site(first)+" failure-returns", c.pos(first.Pos()), "a failed claim Update returns before the XR write", "the XR write is reachable after a failed claim Update", w...)
	}
}
