package rules

import (
	"go/token"
	"go/types"
	"sort"
	"strings"

	"golang.org/x/tools/go/ssa"

	"xpcheck/internal/cfgx"
	"xpcheck/internal/flow"
	"xpcheck/internal/load"
	"xpcheck/internal/locks"
)

func init() {
	register(&Property{
		ID:  "C13",
		Run: c13,
		Explanation: "Decides the lock discipline and the watch bookkeeping of the controller engine as shapes of the code: (R13.1) every read of ControllerEngine.controllers, controller.sources, InformerTrackingCache.active and PackagedFunctionRunner.conns happens with the owning mutex held on every path, every write with the write lock (forward lockset analysis, path-sensitive in the lock state, conditional-defer idiom handled); " +
			"(R13.2) no return with a lock held, no unlock of an unheld lock, no re-acquisition; (R13.3) the held→acquired graph, closed over calls made under a lock, is acyclic; (R13.4) the watch start/stop actions are taken under the write lock and are dominated by a lookup of c.sources made under that write lock (re-check after upgrade); " +
			"(R13.5) a source is recorded only on the not-already-watching edge after ok(ctrl.Watch(src)), and it is the source that was started; (R13.6) the watch collector only ever selects watch ids whose Type is compared equal to WatchTypeComposedResource; (R13.7) Start records a controller only after its constructor succeeded, IsRunning is a pure lookup; (R13.9) Stop returns nil for a running controller only after every source was stopped (event handlers removed), then cancel() and delete(controllers) — the rule shared with C08 R8.6. R13.8 also covers the decision under the write lock (a watch is left alone only when it exists and its informer is active); R13.7 also requires that the goroutine running a controller stops it by name only after that run returned an error. R13.5 also requires that StopWatches forgets a watch only after its source stopped.",
		NotDecided:  []string{"absence of deadlock/races as a whole-program theorem (only the discipline on the named fields and mutexes)", "informer and controller-runtime behaviour", "scheduling / interleavings", "instance-sensitivity: locks are identified by struct type and field"},
		Assumptions: []string{"sync.RWMutex semantics", "kcontroller.Controller.Watch calls the source's Start synchronously"},
	})
}

var lockGuards = map[string]locks.LockID{
	"engine.ControllerEngine.controllers": "engine.ControllerEngine.mx",
	"engine.controller.sources":           "engine.controller.mx",
	"engine.InformerTrackingCache.active": "engine.InformerTrackingCache.mx",
	"xfn.PackagedFunctionRunner.conns":    "xfn.PackagedFunctionRunner.connsMx",
}

type lockWorld struct {
	res   map[*ssa.Function]*locks.Result
	funcs []*ssa.Function
}

func analyseLocks(c *Ctx, pkgs ...string) *lockWorld {
	w := &lockWorld{res: map[*ssa.Function]*locks.Result{}}
	for _, p := range pkgs {
		for _, f := range c.P.PkgFunctions(p) {
			w.funcs = append(w.funcs, f)
			w.res[f] = locks.Analyse(f, locks.Config{Guards: lockGuards})
			c.R.Analysed(load.FuncName(f))
		}
	}
	return w
}

// implementersIn resolves an interface invoke to the in-repo methods that can
// be its target (types of the given packages).
func implementers(c *Ctx, caller *ssa.Function, call *ssa.CallCommon, pkgs ...string) []*ssa.Function {
	var out []*ssa.Function
	iface, ok := call.Value.Type().Underlying().(*types.Interface)
	if !ok {
		return nil
	}
	for _, p := range pkgs {
		sp := c.P.Pkg(p)
		if sp == nil {
			continue
		}
		for _, m := range sp.Members {
			t, ok := m.(*ssa.Type)
			if !ok {
				continue
			}
			for _, T := range []types.Type{t.Type(), types.NewPointer(t.Type())} {
				if _, isI := T.Underlying().(*types.Interface); isI {
					continue
				}
				if !types.Implements(T, iface) {
					continue
				}
				// delegation to a wrapped value of an embedded interface field of the
				// caller's own receiver (InformerTrackingCache.Cache) never targets the
				// wrapper type itself
				if caller != nil && caller.Signature.Recv() != nil && types.Identical(deref(caller.Signature.Recv().Type()), t.Type()) && fromOwnField(call.Value, caller) {
					continue
				}
				ms := c.P.SSA.MethodSets.MethodSet(T)
				if sel := ms.Lookup(call.Method.Pkg(), call.Method.Name()); sel != nil {
					if f := c.P.SSA.MethodValue(sel); f != nil {
						// unwrap promoted-method wrappers to the declared function when possible
						out = append(out, f)
					}
				}
			}
		}
	}
	return out
}

func (w *lockWorld) transitiveAcquires(c *Ctx, fn *ssa.Function, pkgs []string, seen map[*ssa.Function]bool) map[locks.LockID]string {
	out := map[locks.LockID]string{}
	if fn == nil || seen[fn] || len(seen) > 400 {
		return out
	}
	seen[fn] = true
	r := w.res[fn]
	if r == nil && fn.Blocks != nil && load.InRepo(fn) {
		r = locks.Analyse(fn, locks.Config{Guards: lockGuards})
		w.res[fn] = r
	}
	if r != nil {
		for id := range r.Acquires {
			out[id] = load.FuncName(fn)
		}
	}
	if fn.Blocks == nil {
		return out
	}
	for _, b := range fn.Blocks {
		for _, in := range b.Instrs {
			call, ok := in.(*ssa.Call) // go statements start with an empty lockset; defers run in this goroutine
			var cc *ssa.CallCommon
			if ok {
				cc = &call.Call
			} else if d, ok := in.(*ssa.Defer); ok {
				cc = &d.Call
			} else {
				continue
			}
			var targets []*ssa.Function
			if cc.IsInvoke() {
				targets = implementers(c, fn, cc, pkgs...)
				if cc.Method.FullName() == "(sigs.k8s.io/controller-runtime/pkg/controller.TypedController[sigs.k8s.io/controller-runtime/pkg/reconcile.Request]).Watch" || strings.HasSuffix(cc.Method.FullName(), ".Watch") {
					if s := c.P.Method("internal/engine", "StoppableSource", "Start"); s != nil {
						targets = append(targets, s)
					}
				}
			} else if f := cc.StaticCallee(); f != nil {
				targets = []*ssa.Function{f}
			} else if mc, ok := cc.Value.(*ssa.MakeClosure); ok {
				targets = []*ssa.Function{mc.Fn.(*ssa.Function)}
			}
			for _, t := range targets {
				if !load.InRepo(t) {
					continue
				}
				for id, via := range w.transitiveAcquires(c, t, pkgs, seen) {
					if _, ok := out[id]; !ok {
						out[id] = load.FuncName(t) + " → " + via
					}
				}
			}
		}
	}
	return out
}

func c13(c *Ctx) {
	pkgs := []string{"internal/engine", "internal/xfn"}
	w := analyseLocks(c, pkgs...)

	c.R.Rule("R13.1", "guarded-by: reads of the guarded maps under R or W, writes under W, on every path", 25,
		"an unguarded access of the controllers/sources/active/conns maps is a data race (concurrent map access panics)")
	for _, f := range w.funcs {
		for _, a := range w.res[f].Accesses {
			lock := lockGuards[a.Field]
			if st, ok := a.Instr.(*ssa.Store); ok {
				if _, fresh := flow.Root(st.Addr).(*ssa.Alloc); fresh {
					c.R.OKTrivial(load.FuncName(f)+": init "+a.Field, c.pos(a.Instr.Pos()), "initialisation of a not yet shared object")
					continue
				}
			}
			need := locks.R
			kind := "read"
			if a.Write {
				need, kind = locks.W, "write"
			}
			n := accessOrdinal(w.res[f].Accesses, a)
			c.R.Check(a.Weakest >= need, load.FuncName(f)+": "+kind+" "+a.Field+" #"+itoa(n), c.pos(a.Instr.Pos()),
				kind+" with "+string(lock)+" held ("+a.Weakest.String()+") on every path", kind+" of "+a.Field+" with "+string(lock)+" only "+a.Weakest.String()+"-held on some path")
		}
	}

	c.R.Rule("R13.2", "pairing: no return with a lock held, no unlock of an unheld lock, no re-acquisition", 1,
		"a leaked lock deadlocks every later engine operation; a double unlock panics")
	np := 0
	for _, f := range w.funcs {
		for _, p := range w.res[f].Problems {
			np++
			c.R.Bad(load.FuncName(f)+": "+p.What, c.pos(p.Instr.Pos()), p.What)
		}
	}
	nl := 0
	for _, f := range w.funcs {
		if len(w.res[f].Acquires) > 0 {
			nl++
			if !hasProblem(w.res[f]) {
				c.R.OK(load.FuncName(f)+": lock pairing", c.pos(f.Pos()), "every path releases what it acquired ("+itoa(w.res[f].States)+" lock states explored)")
			}
		}
	}
	if nl < 10 {
		c.R.Unknown("lock users", "", "fewer than 10 functions acquire one of the engine locks: anchors moved")
	}

	c.R.Rule("R13.3", "lock order: held→acquired graph (closed over calls made under a lock) is acyclic", 2,
		"a cycle in the lock order lets two goroutines deadlock the engine")
	edges := map[[2]locks.LockID]string{}
	for _, f := range w.funcs {
		r := w.res[f]
		for _, e := range r.Order {
			edges[[2]locks.LockID{e.From, e.To}] = load.FuncName(f) + " at " + c.pos(e.At.Pos())
		}
		for _, cu := range r.Calls {
			var targets []*ssa.Function
			cc := cu.Call.Common()
			if cc.IsInvoke() {
				targets = implementers(c, f, cc, pkgs...)
				if strings.HasSuffix(cc.Method.FullName(), ".Watch") {
					if s := c.P.Method("internal/engine", "StoppableSource", "Start"); s != nil {
						targets = append(targets, s)
					}
				}
			} else if t := cc.StaticCallee(); t != nil {
				targets = []*ssa.Function{t}
			}
			for _, t := range targets {
				if !load.InRepo(t) {
					continue
				}
				for id, via := range w.transitiveAcquires(c, t, pkgs, map[*ssa.Function]bool{}) {
					for held := range cu.Held {
						k := [2]locks.LockID{held, id}
						if _, ok := edges[k]; !ok {
							edges[k] = load.FuncName(f) + " at " + c.pos(cu.Call.Pos()) + " calls " + via
						}
					}
				}
			}
		}
	}
	var es []string
	adj := map[locks.LockID][]locks.LockID{}
	for k, v := range edges {
		es = append(es, string(k[0])+" → "+string(k[1])+" ("+v+")")
		adj[k[0]] = append(adj[k[0]], k[1])
	}
	sort.Strings(es)
	c.R.Extra["lock_order_edges"] = es
	cyc := findCycle(adj)
	c.R.Check(cyc == "", "lock order graph", "", "acyclic: "+strings.Join(es, "; "), "lock order cycle: "+cyc)
	for k, v := range edges {
		if k[0] == k[1] {
			c.R.Bad("re-entrant acquisition of "+string(k[0]), "", "a function that acquires "+string(k[0])+" is called while it is held: "+v)
		}
	}
	if _, ok := edges[[2]locks.LockID{"engine.ControllerEngine.mx", "engine.controller.mx"}]; ok {
		c.R.OK("engine.mx before controller.mx", "", "the engine lock is taken before the controller lock")
	} else {
		c.R.Unknown("engine.mx before controller.mx", "", "expected edge e.mx → c.mx (ControllerEngine.Stop) not found: anchors moved")
	}

	c.R.Rule("R13.4", "re-check after upgrade: watch start/stop actions run under the write lock and are dominated by a c.sources lookup made under it", 4,
		"acting on a decision taken under the read lock starts a second watch for the same id or stops one that was just replaced")
	for _, name := range []string{"StartWatches", "StopWatches"} {
		fn := c.method("internal/engine", "ControllerEngine", name)
		if fn == nil {
			continue
		}
		r := w.res[fn]
		var wLookups []ssa.Instruction
		for _, a := range r.Accesses {
			if a.Field == "engine.controller.sources" && !a.Write && a.Weakest == locks.W {
				if _, ok := a.Instr.(*ssa.Lookup); ok {
					wLookups = append(wLookups, a.Instr)
				}
			}
		}
		var actions []ssa.Instruction
		for _, a := range r.Accesses {
			if a.Field == "engine.controller.sources" && a.Write {
				actions = append(actions, a.Instr)
			}
		}
		for _, x := range cfgx.Calls(fn, nil) {
			n := cfgx.CalleeName(x)
			if strings.HasSuffix(n, ".Watch") || n == "(*"+xp+"internal/engine.StoppableSource).Stop" {
				actions = append(actions, x)
				held := locks.W
				seenCall := false
				for _, cu := range r.Calls {
					if cu.Call == x {
						seenCall = true
						if m := cu.Held["engine.controller.mx"]; m < held {
							held = m // weakest over all paths reaching the call
						}
					}
				}
				if !seenCall {
					held = locks.None
				}
				c.R.Check(held == locks.W, site(x)+" under-write-lock", c.pos(x.Pos()), "called with controller.mx write-held", "a watch is started/stopped without the controller write lock")
			}
		}
		if len(actions) < 2 {
			c.R.Unknown(load.FuncName(fn)+": actions", c.pos(fn.Pos()), "expected a Watch/Stop call and a sources update")
		}
		for i, act := range actions {
			dom := false
			for _, lk := range wLookups {
				if cfgx.MustPass(lk.Block(), act.Block()) {
					dom = true
				}
			}
			c.R.Check(dom, load.FuncName(fn)+": action #"+itoa(i)+" re-checked", c.pos(act.Pos()), "dominated by a c.sources lookup performed under the write lock", "the decision for this action is not re-taken under the write lock")
		}
	}

	c.R.Rule("R13.5", "one watch per id: sources[wid]=src only on the not-already-watching edge, after ok(ctrl.Watch(src)), storing the started source", 3,
		"two live watches for one id deliver every event twice and leak the first source")
	if fn := c.method("internal/engine", "ControllerEngine", "StartWatches"); fn != nil {
		var mu *ssa.MapUpdate
		for _, b := range fn.Blocks {
			for _, in := range b.Instrs {
				if m, ok := in.(*ssa.MapUpdate); ok && strings.HasSuffix(m.Map.Type().String(), "StoppableSource") {
					mu = m
				}
			}
		}
		var watch ssa.CallInstruction
		for _, x := range cfgx.Calls(fn, nil) {
			if strings.HasSuffix(cfgx.CalleeName(x), ".Watch") {
				watch = x
			}
		}
		if mu == nil || watch == nil {
			c.R.Unknown(load.FuncName(fn)+": shape", c.pos(fn.Pos()), "expected c.ctrl.Watch(src) and c.sources[wid] = src")
		} else {
			c.requireCross(load.FuncName(fn)+": sources[wid]= after Watch", mu, okEdges(watch), "ok(c.ctrl.Watch(src))")
			c.R.Check(flow.Strict.Any(cfgx.CallArgs(watch)[0], func(v ssa.Value) bool { return v == mu.Value }), load.FuncName(fn)+": stores started source", c.pos(mu.Pos()), "the source recorded is the one passed to Watch", "the source recorded is not the one that was started")
			// not-already-watching: exists lookup ok==false edge or activeInformer==false edge, in the write-locked loop
			wl := map[ssa.Instruction]bool{}
			for _, a := range w.res[fn].Accesses {
				if a.Field == "engine.controller.sources" && !a.Write && a.Weakest == locks.W {
					wl[a.Instr] = true
				}
			}
			loop := cfgx.LoopOf(mu.Block())
			var watching []ssa.Value // the conjuncts of "already watching", as tested under the write lock
			for _, b := range fn.Blocks {
				for _, in := range b.Instrs {
					lk, ok := in.(*ssa.Lookup)
					if !ok || loop == nil || !loop[lk.Block()] {
						continue
					}
					if lk.CommaOk && wl[lk] {
						for _, r := range *lk.Referrers() {
							if ex, ok := r.(*ssa.Extract); ok && ex.Index == 1 {
								watching = append(watching, ex)
							}
						}
					} else if !lk.CommaOk && isBoolMap(lk.X.Type()) {
						watching = append(watching, lk)
					}
				}
			}
			notWatching := boolConjFalseEdges(fn, watching)
			c.requireCross(load.FuncName(fn)+": sources[wid]= only if not watching", mu, notWatching, "watchExists==false or activeInformer[gvk]==false (under the write lock)")
			// same key looked up and stored
			c.R.Check(sameKeyLookup(fn, mu), load.FuncName(fn)+": same wid", c.pos(mu.Pos()), "the id looked up is the id stored", "the watch id that is checked differs from the one that is stored")
		}
	}

	// a watch is forgotten only once it is stopped: delete(c.sources, wid) in StopWatches needs ok(w.Stop)
	if fn := c.method("internal/engine", "ControllerEngine", "StopWatches"); fn != nil {
		var stops []ssa.CallInstruction
		for _, x := range cfgx.Calls(fn, nil) {
			if strings.HasSuffix(cfgx.CalleeName(x), "StoppableSource).Stop") || x.Common().IsInvoke() && x.Common().Method.Name() == "Stop" {
				stops = append(stops, x)
			}
		}
		n := 0
		for _, a := range w.res[fn].Accesses {
			ci, ok := a.Instr.(ssa.CallInstruction)
			if !ok || a.Field != "engine.controller.sources" || !a.Write {
				continue
			}
			if b, isB := ci.Common().Value.(*ssa.Builtin); !isB || b.Name() != "delete" {
				continue
			}
			n++
			var gates []cfgx.Edge
			for _, sp := range stops {
				gates = append(gates, okEdges(sp)...)
			}
			c.requireCross(load.FuncName(fn)+": forgotten only after it stopped #"+itoa(n), ci, gates, "ok(w.Stop(ctx))")
		}
		if n == 0 {
			c.R.Unknown(load.FuncName(fn)+": delete(c.sources)", c.pos(fn.Pos()), "the removal of a stopped watch from c.sources was not found")
		}
	}

	c.R.Rule("R13.8", "the read-locked fast path of StartWatches agrees with the write-locked decision: an iteration is skipped only when the watch exists AND its informer is active", 2,
		"a watch lost with its informer would never be re-established by steady-state StartWatches calls")
	if fn := c.method("internal/engine", "ControllerEngine", "StartWatches"); fn != nil {
		var rl *ssa.Lookup
		for _, a := range w.res[fn].Accesses {
			if lk, ok := a.Instr.(*ssa.Lookup); ok && a.Field == "engine.controller.sources" && a.Weakest == locks.R && lk.CommaOk {
				rl = lk
			}
		}
		if rl == nil {
			c.R.Unknown(load.FuncName(fn)+": read-locked pre-check", c.pos(fn.Pos()), "no c.sources lookup under the read lock found")
		} else if loop := cfgx.LoopOf(rl.Block()); loop == nil {
			c.R.Unknown(load.FuncName(fn)+": read-locked loop", c.pos(rl.Pos()), "the pre-check is not in a loop")
		} else {
			var existsT, activeT []cfgx.Edge
			for _, r := range *rl.Referrers() {
				if ex, ok := r.(*ssa.Extract); ok && ex.Index == 1 {
					t, _ := cfgx.CondEdges(ex)
					existsT = append(existsT, t...)
				}
			}
			for b := range loop {
				for _, in := range b.Instrs {
					if lk, ok := in.(*ssa.Lookup); ok && !lk.CommaOk && isBoolMap(lk.X.Type()) {
						t, _ := cfgx.CondEdges(lk)
						activeT = append(activeT, t...)
					}
				}
			}
			by1, w1 := cfgx.LoopBypass(loop, nil, existsT, c.posf())
			c.R.Check(!by1 && len(existsT) > 0, load.FuncName(fn)+": fast path skips only existing watches", c.pos(rl.Pos()), "an iteration continues only over watchExists==true", "the pre-check can skip a watch that does not exist", w1...)
			by2, w2 := cfgx.LoopBypass(loop, nil, activeT, c.posf())
			c.R.Check(!by2 && len(activeT) > 0, load.FuncName(fn)+": fast path skips only active informers", c.pos(rl.Pos()), "an iteration continues only over activeInformer[gvk]==true", "the pre-check skips a watch whose informer is not active: StartWatches returns without restarting it", w2...)
		}
	}

	// the same for the decision under the write lock: a watch is left alone only when it exists AND its informer is active
	if fn := c.method("internal/engine", "ControllerEngine", "StartWatches"); fn != nil {
		var wl *ssa.Lookup
		var wls []*ssa.Lookup
		for _, a := range w.res[fn].Accesses {
			if lk, ok := a.Instr.(*ssa.Lookup); ok && a.Field == "engine.controller.sources" && a.Weakest == locks.W && lk.CommaOk {
				wls = append(wls, lk)
				if wl == nil || lk.Pos() < wl.Pos() {
					wl = lk // the decision; later lookups may only report
				}
			}
		}
		if wl == nil {
			c.R.Unknown(load.FuncName(fn)+": write-locked re-check", c.pos(fn.Pos()), "no c.sources lookup under the write lock found")
		} else if loop := cfgx.LoopOf(wl.Block()); loop == nil {
			c.R.Unknown(load.FuncName(fn)+": write-locked loop", c.pos(wl.Pos()), "the re-check is not in a loop")
		} else {
			var existsT, activeT []cfgx.Edge
			for _, l := range wls {
				if !loop[l.Block()] {
					continue
				}
				for _, r := range *l.Referrers() {
					if ex, ok := r.(*ssa.Extract); ok && ex.Index == 1 {
						t, _ := cfgx.CondEdges(ex)
						existsT = append(existsT, t...)
					}
				}
			}
			through := map[*ssa.BasicBlock]bool{}
			for b := range loop {
				for _, in := range b.Instrs {
					if lk, ok := in.(*ssa.Lookup); ok && !lk.CommaOk && isBoolMap(lk.X.Type()) {
						t, _ := cfgx.CondEdges(lk)
						activeT = append(activeT, t...)
					}
					if _, ok := in.(*ssa.MapUpdate); ok {
						for _, a := range w.res[fn].Accesses {
							if a.Instr == in && a.Field == "engine.controller.sources" {
								through[b] = true
							}
						}
					}
				}
			}
			if len(through) == 0 {
				c.R.Unknown(load.FuncName(fn)+": write-locked start", c.pos(wl.Pos()), "no c.sources[wid] = … in the write-locked loop")
			} else {
				by1, w1 := cfgx.LoopBypass(loop, through, existsT, c.posf())
				c.R.Check(!by1 && len(existsT) > 0, load.FuncName(fn)+": re-check leaves alone only existing watches", c.pos(wl.Pos()), "under the write lock a watch is not (re)started only over watchExists==true", "under the write lock a watch that does not exist can be left unstarted", w1...)
				by2, w2 := cfgx.LoopBypass(loop, through, activeT, c.posf())
				c.R.Check(!by2 && len(activeT) > 0, load.FuncName(fn)+": re-check leaves alone only active informers", c.pos(wl.Pos()), "under the write lock a watch is not (re)started only over activeInformer[gvk]==true", "under the write lock a watch whose informer is gone is left as it is: the read-locked pass saw work to do, the write-locked pass skips it, and the dead source stays registered", w2...)
			}
		}
	}

	c.R.Rule("R13.10", "informer tracking is atomic with the wrapped cache: every call into the embedded cache is made with InformerTrackingCache.mx held", 3,
		"between marking an informer (in)active and the wrapped cache acting on it another goroutine sees the wrong state: a StartWatches that runs while an informer is being removed registers its handler on the informer that is about to be dropped and is never re-established")
	{
		n := 0
		covered := map[string]bool{}
		for _, f := range c.P.PkgFunctions("internal/engine") {
			if !strings.HasPrefix(load.FuncName(f), "(*internal/engine.InformerTrackingCache).") {
				continue
			}
			r := w.res[f]
			if r == nil {
				continue
			}
			for _, x := range cfgx.Calls(f, nil) {
				if !x.Common().IsInvoke() || !strings.HasPrefix(cfgx.CalleeName(x), "(sigs.k8s.io/controller-runtime/pkg/cache.") {
					continue
				}
				if _, isDefer := x.(*ssa.Defer); isDefer {
					continue
				}
				n++
				covered[x.Common().Method.Name()] = true
				weakest := locks.W
				seenCall := false
				for _, cu := range r.Calls {
					if cu.Call == x {
						seenCall = true
						if m := cu.Held["engine.InformerTrackingCache.mx"]; m < weakest {
							weakest = m
						}
					}
				}
				if (!seenCall || weakest == locks.None) && f.Parent() != nil {
					// a closure handed to a helper of the same type that holds the lock while it calls it
					if m, ok := closureRunsUnder(w.res, f, "engine.InformerTrackingCache.mx"); ok {
						seenCall, weakest = true, m
					}
				}
				c.R.Check(seenCall && weakest != locks.None, site(x)+" under-mx", c.pos(x.Pos()), "the wrapped cache is called with the tracking lock held", "the wrapped cache is called without InformerTrackingCache.mx: the active set and the informers can be observed out of step")
			}
		}
		if !covered["GetInformer"] || !covered["GetInformerForKind"] || !covered["RemoveInformer"] {
			c.R.Unknown("InformerTrackingCache: wrapped calls", "", "expected the GetInformer/GetInformerForKind/RemoveInformer calls into the embedded cache")
		}
	}

	c.R.Rule("R13.6", "the collector only collects composed-resource watches", 2,
		"stopping the XR or CompositionRevision watch leaves the XR controller blind until it is restarted")
	if gc := c.method(pkgComposite+"/watch", "GarbageCollector", "GarbageCollectWatchesNow"); gc != nil {
		var isComposed []cfgx.Edge
		for _, b := range gc.Blocks {
			for _, in := range b.Instrs {
				bo, ok := in.(*ssa.BinOp)
				if !ok || (bo.Op != token.EQL && bo.Op != token.NEQ) {
					continue
				}
				for _, pr := range [][2]ssa.Value{{bo.X, bo.Y}, {bo.Y, bo.X}} {
					if s, ok := cfgx.ConstString(pr[1]); ok && s == "ComposedResource" && strings.HasSuffix(pr[1].Type().String(), "engine.WatchType") {
						if _, p, ok := flow.AccessPathC(pr[0]); ok && strings.HasSuffix(p, "Type") {
							t, f := cfgx.CondEdges(bo)
							if bo.Op == token.EQL {
								isComposed = append(isComposed, t...)
							} else {
								isComposed = append(isComposed, f...)
							}
						}
					}
				}
			}
		}
		sw := calls(gc, "("+xp+pkgComposite+"/watch.ControllerEngine).StopWatches")
		n := 0
		for _, ap := range calls(gc, "builtin.append") {
			if !strings.HasSuffix(ap.Common().Args[0].Type().String(), "engine.WatchID") {
				continue
			}
			n++
			c.requireCross(site(ap)+" composed-only", ap, isComposed, "wid.Type == WatchTypeComposedResource")
		}
		if n == 0 || len(sw) != 1 {
			c.R.Unknown(load.FuncName(gc)+": shape", c.pos(gc.Pos()), "expected the stop-list append and one StopWatches call")
		} else {
			// the stop list is only filled by those appends
			arg := cfgx.CallArgs(sw[0])[2]
			apps, clean := growthAppends(arg)
			okArg := clean && len(apps) > 0
			for _, ap := range apps {
				if ok, _ := cfgx.MustCross(ap, isComposed, nil); !ok {
					okArg = false
				}
			}
			c.R.Check(okArg, site(sw[0])+" ids", c.pos(sw[0].Pos()), "the ids passed to StopWatches come only from the gated stop list", "ids reach StopWatches that did not pass the composed-resource gate")
			// not-used gate
			var unused []cfgx.Edge
			for _, b := range gc.Blocks {
				for _, in := range b.Instrs {
					if lk, ok := in.(*ssa.Lookup); ok && !lk.CommaOk && isBoolMap(lk.X.Type()) {
						_, f := cfgx.CondEdges(lk)
						unused = append(unused, f...)
					}
				}
			}
			for _, ap := range calls(gc, "builtin.append") {
				if strings.HasSuffix(ap.Common().Args[0].Type().String(), "engine.WatchID") {
					c.requireCross(site(ap)+" unused-only", ap, unused, "used[wid]==false")
				}
			}
		}
	}

	// `used` covers every reference of every listed XR: no XR and no reference is skipped
	if gc := c.method(pkgComposite+"/watch", "GarbageCollector", "GarbageCollectWatchesNow"); gc != nil {
		var mu *ssa.MapUpdate
		for _, b := range gc.Blocks {
			for _, in := range b.Instrs {
				if m, ok := in.(*ssa.MapUpdate); ok && isBoolMap(m.Map.Type()) {
					mu = m
				}
			}
		}
		refs := cfgx.Calls(gc, func(ci ssa.CallInstruction) bool {
			return strings.HasSuffix(cfgx.CalleeName(ci), ".GetResourceReferences")
		})
		if mu == nil || len(refs) != 1 {
			c.R.Unknown(load.FuncName(gc)+": used set", c.pos(gc.Pos()), "expected used[...]=true and one GetResourceReferences call")
		} else {
			inner := cfgx.LoopOf(mu.Block())
			outer := cfgx.LoopOf(refs[0].Block())
			if inner == nil || outer == nil || outer[mu.Block()] == false {
				c.R.Bad(load.FuncName(gc)+": used set loops", c.pos(mu.Pos()), "used[...] is not filled in a loop over the references inside a loop over the listed XRs")
			} else {
				by, w := cfgx.LoopBypass(outer, map[*ssa.BasicBlock]bool{refs[0].Block(): true}, nil, c.posf())
				c.R.Check(!by, load.FuncName(gc)+": every listed XR counts", c.pos(refs[0].Pos()), "every listed XR's references are read", "a listed XR can be skipped when the used kinds are computed: a composed-resource watch it still needs would be stopped", w...)
				by2, w2 := cfgx.LoopBypass(inner, map[*ssa.BasicBlock]bool{mu.Block(): true}, nil, c.posf())
				c.R.Check(!by2, load.FuncName(gc)+": every reference counts", c.pos(mu.Pos()), "every reference marks its kind as used", "a reference can be skipped when the used kinds are computed", w2...)
				c.R.Check(func() bool { v, ok := cfgx.ConstBool(mu.Value); return ok && v }(), load.FuncName(gc)+": used[...]=true", c.pos(mu.Pos()), "marks the kind used", "the used set is not filled with true")
			}
		}
	}

	engineStopRule(c, "R13.9")

	c.R.Rule("R13.7", "lifecycle: Start records the controller only after its constructor succeeded; IsRunning is a pure lookup", 3,
		"a controller reported running that was never created, or a lookup with side effects")
	if st := c.method("internal/engine", "ControllerEngine", "Start"); st != nil {
		var mu *ssa.MapUpdate
		for _, b := range st.Blocks {
			for _, in := range b.Instrs {
				if m, ok := in.(*ssa.MapUpdate); ok && strings.HasSuffix(m.Map.Type().String(), "engine.controller") {
					mu = m
				}
			}
		}
		var nc ssa.CallInstruction
		for _, x := range cfgx.Calls(st, nil) {
			if cfgx.CalleeName(x) == "" && flow.Default.Any(x.Common().Value, func(v ssa.Value) bool { return isFieldSel(v, "engine.ControllerOptions", "nc") }) {
				nc = x
			}
		}
		if mu == nil || nc == nil {
			c.R.Unknown(load.FuncName(st)+": shape", c.pos(st.Pos()), "expected co.nc(...) and e.controllers[name] = r")
		} else {
			c.requireCross(load.FuncName(st)+": controllers[name]= after constructor", mu, okEdges(nc), "ok(co.nc(name, mgr, opts))")
			// no-op when running: a lookup ok==true edge returns before
			var running []cfgx.Edge
			for _, b := range st.Blocks {
				for _, in := range b.Instrs {
					if lk, ok := in.(*ssa.Lookup); ok && lk.CommaOk {
						for _, r := range *lk.Referrers() {
							if ex, ok := r.(*ssa.Extract); ok && ex.Index == 1 {
								t, _ := cfgx.CondEdges(ex)
								running = append(running, t...)
							}
						}
					}
				}
			}
			r, wit := cfgx.ReachableFromEdges(running, mu, nil, c.posf())
			c.R.Check(!r && len(running) > 0, load.FuncName(st)+": idempotent", c.pos(mu.Pos()), "an already running controller is not started again", "Start can replace a running controller (its context and sources would leak)", wit...)
		}
	}
	// the goroutine that runs a controller stops it by name only when that run ended with an error:
	// a run that ends because it was stopped must not stop whatever carries the name by then
	if st := c.method("internal/engine", "ControllerEngine", "Start"); st != nil {
		n := 0
		for _, g := range closures(st) {
			if g == st {
				continue
			}
			stops := calls(g, "(*"+xp+"internal/engine.ControllerEngine).Stop")
			var runs []ssa.CallInstruction
			for _, x := range cfgx.Calls(g, nil) {
				if strings.HasSuffix(cfgx.CalleeName(x), "controller.Controller).Start") || strings.HasSuffix(cfgx.CalleeName(x), ".Start") && x.Common().IsInvoke() {
					runs = append(runs, x)
				}
			}
			for _, sp := range stops {
				n++
				var fail []cfgx.Edge
				for _, r := range runs {
					fail = append(fail, failEdges(r)...)
				}
				c.requireCross(site(sp)+" only after a failed run", sp, fail, "Start(ctx) of the controller returned an error")
			}
		}
		if n == 0 {
			c.R.Unknown(load.FuncName(st)+": cleanup", c.pos(st.Pos()), "the running goroutine's best-effort Stop was not found")
		}
	}
	if ir := c.method("internal/engine", "ControllerEngine", "IsRunning"); ir != nil {
		pure := true
		for _, a := range w.res[ir].Accesses {
			if a.Write {
				pure = false
			}
		}
		nCalls := 0
		for _, x := range cfgx.Calls(ir, nil) {
			if _, _, isLock := lockOpName(x); !isLock {
				nCalls++
			}
		}
		c.R.Check(pure && nCalls == 0, load.FuncName(ir)+": pure lookup", c.pos(ir.Pos()), "only looks up e.controllers under the read lock", "IsRunning writes state or calls out")
	}
}

func lockOpName(x ssa.CallInstruction) (string, string, bool) {
	f := x.Common().StaticCallee()
	if f != nil && f.Pkg != nil && f.Pkg.Pkg.Path() == "sync" {
		return "sync", f.Name(), true
	}
	return "", "", false
}

func hasProblem(r *locks.Result) bool { return len(r.Problems) > 0 }

func accessOrdinal(all []locks.Access, a locks.Access) int {
	n := 0
	for _, x := range all {
		if x.Instr == a.Instr {
			return n
		}
		if x.Field == a.Field && x.Write == a.Write {
			n++
		}
	}
	return n
}

func findCycle(adj map[locks.LockID][]locks.LockID) string {
	color := map[locks.LockID]int{}
	var stack []string
	var found string
	var dfs func(n locks.LockID) bool
	dfs = func(n locks.LockID) bool {
		color[n] = 1
		stack = append(stack, string(n))
		for _, m := range adj[n] {
			if m == n {
				continue // self edges are reported separately
			}
			if color[m] == 1 {
				found = strings.Join(append(stack, string(m)), " → ")
				return true
			}
			if color[m] == 0 && dfs(m) {
				return true
			}
		}
		stack = stack[:len(stack)-1]
		color[n] = 2
		return false
	}
	var keys []string
	for k := range adj {
		keys = append(keys, string(k))
	}
	sort.Strings(keys)
	for _, k := range keys {
		if color[locks.LockID(k)] == 0 && dfs(locks.LockID(k)) {
			return found
		}
	}
	return ""
}

// sameKeyLookup: the MapUpdate's key is also the key of a comma-ok Lookup of the same map that dominates it.
func sameKeyLookup(fn *ssa.Function, mu *ssa.MapUpdate) bool {
	for _, b := range fn.Blocks {
		for _, in := range b.Instrs {
			lk, ok := in.(*ssa.Lookup)
			if !ok || !lk.CommaOk || !cfgx.MustPass(lk.Block(), mu.Block()) {
				continue
			}
			if sameAccessValue(lk.Index, mu.Key) && sameAccessValue(lk.X, mu.Map) {
				return true
			}
		}
	}
	return false
}

func sameAccessValue(a, b ssa.Value) bool {
	if a == b {
		return true
	}
	la, ok1 := a.(*ssa.UnOp)
	lb, ok2 := b.(*ssa.UnOp)
	if ok1 && ok2 && la.Op == token.MUL && lb.Op == token.MUL {
		if la.X == lb.X {
			return true
		}
		if sameAccess(la, lb) {
			return true
		}
	}
	// the same variable read through copies (a by-value parameter of an inlined helper)
	ra, pa, _ := flow.AccessPathC(a)
	rb, pb, _ := flow.AccessPathC(b)
	return ra == rb && pa == pb && ra != nil
}

func deref(t types.Type) types.Type {
	if p, ok := t.(*types.Pointer); ok {
		return p.Elem()
	}
	return t
}

// fromOwnField: v is loaded from a field of fn's receiver.
func fromOwnField(v ssa.Value, fn *ssa.Function) bool {
	if len(fn.Params) == 0 {
		return false
	}
	ld, ok := v.(*ssa.UnOp)
	if !ok || ld.Op != token.MUL {
		return false
	}
	fa, ok := ld.X.(*ssa.FieldAddr)
	return ok && fa.X == ssa.Value(fn.Params[0])
}

// growthAppends walks a slice value back through phis and the first argument of
// append calls; it returns the appends that can contribute elements and whether
// every origin is an empty make/nil.
func growthAppends(v ssa.Value) (apps []ssa.CallInstruction, clean bool) {
	clean = true
	seen := map[ssa.Value]bool{}
	var walk func(v ssa.Value)
	walk = func(v ssa.Value) {
		if seen[v] {
			return
		}
		seen[v] = true
		switch x := v.(type) {
		case *ssa.Phi:
			for _, e := range x.Edges {
				walk(e)
			}
		case *ssa.MakeSlice:
		case *ssa.Const:
		case *ssa.Slice:
			// make([]T, 0) with constant length lowers to slice(new [0]T)
			if a, ok := x.X.(*ssa.Alloc); ok {
				for _, r := range *a.Referrers() {
					if _, isIdx := r.(*ssa.IndexAddr); isIdx {
						clean = false // a literal with elements
					}
				}
			} else {
				clean = false
			}
		case *ssa.Call:
			if cfgx.CalleeName(x) == "builtin.append" {
				apps = append(apps, x)
				walk(x.Call.Args[0])
				return
			}
			clean = false
		default:
			clean = false
		}
	}
	walk(v)
	return
}

// closureRunsUnder: the closure cl is only ever passed, as an argument, to
// functions of the analysed set that do nothing with that parameter but call
// it, and every such call is made with lock id held: the weakest mode held.
func closureRunsUnder(res map[*ssa.Function]*locks.Result, cl *ssa.Function, id string) (locks.Mode, bool) {
	parent := cl.Parent()
	if parent == nil {
		return locks.None, false
	}
	weakest, uses := locks.W, 0
	for _, b := range parent.Blocks {
		for _, in := range b.Instrs {
			mc, ok := in.(*ssa.MakeClosure)
			if !ok || mc.Fn != ssa.Value(cl) || mc.Referrers() == nil {
				continue
			}
			for _, r := range *mc.Referrers() {
				call, isCall := r.(ssa.CallInstruction)
				if !isCall {
					if _, dbg := r.(*ssa.DebugRef); dbg {
						continue
					}
					return locks.None, false
				}
				g := call.Common().StaticCallee()
				if g == nil || res[g] == nil {
					return locks.None, false
				}
				args := call.Common().Args
				for i, a := range args {
					if a != ssa.Value(mc) {
						continue
					}
					pi := i
					if len(g.Params) != len(args) {
						return locks.None, false
					}
					param := g.Params[pi]
					if param.Referrers() == nil {
						return locks.None, false
					}
					for _, pr := range *param.Referrers() {
						pc, ok := pr.(*ssa.Call)
						if !ok || pc.Call.Value != ssa.Value(param) {
							if _, dbg := pr.(*ssa.DebugRef); dbg {
								continue
							}
							return locks.None, false
						}
						found := false
						for _, cu := range res[g].Calls {
							if cu.Call == pc {
								found = true
								uses++
								if m := cu.Held[locks.LockID(id)]; m < weakest {
									weakest = m
								}
							}
						}
						if !found {
							return locks.None, false
						}
					}
				}
			}
		}
	}
	return weakest, uses > 0 && weakest != locks.None
}
