package rules

import (
	"go/types"
	"strings"

	"golang.org/x/tools/go/ssa"

	"xpcheck/internal/cfgx"
	"xpcheck/internal/flow"
	"xpcheck/internal/load"
)

func init() {
	register(&Property{
		ID:  "C01",
		Run: c01,
		Explanation: "Decides the ordering and dataflow discipline inside one reconcile that makes leaks and duplicates impossible whatever call fails or wherever the process dies, for both composers: " +
			"(R1.1) every create-capable write of a composed resource is reached only over the success edge of the XR write that persists the resource references; (R1.2) that write is reached only over the success edge of garbage collection / template association; " +
			"(R1.3) an object enters the desired collection only after its name was allocated (or was already set), and the name generator never renames; (R1.4) an existing resource's name and namespace are inherited before a name is generated, RenderFromJSON restores them; " +
			"(R1.5) the reference array is sorted before it is set; (R1.6) references and applied objects derive from the same collection; (R1.7) the observer and the associator skip a referenced resource only for the three stated reasons (no name, not found by the uncached read, foreign controller) and return every other read error. " +
			"Invariant argued in DESIGN.md §2 C01: 'live ∧ controlled by the XR ⇒ listed in spec.resourceRefs' is preserved by every instruction under the assumption that each API call is atomic and an acknowledged write is durable. R1.8 also covers the stamp itself: SetCompositionResourceName writes the supplied name on every path (an annotation the rendered body already carries never wins). (R1.9) in the managed-fields upgrade every loop-carried 'found' flag is sticky: once set by an element of managedFields it is never reset by a later one.",
		NotDecided:  []string{"that the API server persists what it acknowledged; a crash during a call", "cache staleness of the XR read", "collisions of generated names", "quiescence beyond the sorted reference array", "P&T anonymous templates (excluded by the property)"},
		Assumptions: []string{"each API call is atomic and acknowledged writes are durable", "interface calls resolve to the production implementations wired by NewFunctionComposer/NewPTComposer"},
	})
}

func c01(c *Ctx) {
	fc, pt := c.composerMethods()
	comps := []*ssa.Function{fc, pt}

	c.R.Rule("R1.1", "refs-before-create: a create-capable write of a composed resource needs ok(XR refs write)", 2,
		"a composed resource created before (or despite a failed) reference write is unknown to the next reconcile: leaked, and duplicated when rendered again")
	sites := map[*ssa.Function]composerSites{}
	for _, f := range comps {
		if f == nil {
			continue
		}
		s := findComposerSites(f)
		sites[f] = s
		if len(s.creates) == 0 || len(s.refsW) == 0 {
			c.R.Unknown(load.FuncName(f)+": sites", c.pos(f.Pos()), "expected a create-capable composed write and an XR references write")
			continue
		}
		var refsOK []cfgx.Edge
		for _, w := range s.refsW {
			refsOK = append(refsOK, okEdges(w)...)
		}
		for _, cr := range s.creates {
			c.requireCross(site(cr)+" after-refs", cr, refsOK, "the success edge of the XR write that persists spec.resourceRefs")
		}
	}

	c.R.Rule("R1.2", "GC-before-refs-rewrite: the XR refs write needs ok(garbage collection / association)", 2,
		"rewriting the references before (or despite a failed) delete drops the reference of a resource that still exists")
	for _, f := range comps {
		s, ok := sites[f]
		if !ok || len(s.refsW) == 0 {
			continue
		}
		if len(s.gc) == 0 {
			c.R.Unknown(load.FuncName(f)+": gc", c.pos(f.Pos()), "no garbage collection / association call found")
			continue
		}
		var gcOK []cfgx.Edge
		for _, g := range s.gc {
			gcOK = append(gcOK, okEdges(g)...)
		}
		for _, w := range s.refsW {
			c.requireCross(site(w)+" after-gc", w, gcOK, "the success edge of garbage collection")
			// the written XR carries references derived from the collection that is applied
		}
	}

	c.R.Rule("R1.3", "names are allocated before they are persisted; the generator never renames", 4,
		"a reference persisted without a name cannot find the resource later; renaming an existing resource creates a duplicate")
	if fc != nil {
		gen := calls(fc, genNameInv)
		var stores []*ssa.MapUpdate
		for _, b := range fc.Blocks {
			for _, in := range b.Instrs {
				if mu, ok := in.(*ssa.MapUpdate); ok && strings.HasSuffix(mu.Map.Type().String(), "composite.ComposedResourceStates") {
					stores = append(stores, mu)
				}
			}
		}
		if len(gen) != 1 || len(stores) != 1 {
			c.R.Unknown(load.FuncName(fc)+": desired store", c.pos(fc.Pos()), "expected one GenerateName call and one store into the desired collection")
		} else {
			// skip edge: cd.GetName() != "" (name already known)
			var named []cfgx.Edge
			for _, b := range fc.Blocks {
				for _, in := range b.Instrs {
					if bo, ok := in.(*ssa.BinOp); ok {
						for _, pr := range [][2]ssa.Value{{bo.X, bo.Y}, {bo.Y, bo.X}} {
							if s, isC := cfgx.ConstString(pr[1]); isC && s == "" && hasSuffixCall(pr[0], ".GetName") {
								t, f := cfgx.CondEdges(bo)
								if bo.Op.String() == "==" {
									named = append(named, f...)
								} else if bo.Op.String() == "!=" {
									named = append(named, t...)
								}
							}
						}
					}
				}
			}
			c.requireCross(load.FuncName(fc)+": desired[name]= after name allocation", stores[0], union(okEdges(gen[0]), named), "ok(GenerateName) or the name-already-set edge")
			// the generated object is the stored one
			genObj := flow.Root(underIface(cfgx.CallArgs(gen[0])[1]))
			c.R.Check(flow.Strict.Any(stores[0].Value, func(v ssa.Value) bool { return v == genObj }), load.FuncName(fc)+": stored object is the named one", c.pos(stores[0].Pos()),
				"the object stored in desired is the one GenerateName was called on", "GenerateName is called on a different object than the one stored in desired")
		}
	}
	nameGeneratorRules(c)
	if pt != nil {
		// P&T: refs[i] is stored on every path of the iteration (placeholder refs keep array order)
		var refStore ssa.Instruction
		for _, b := range pt.Blocks {
			for _, in := range b.Instrs {
				if st, ok := in.(*ssa.Store); ok {
					if ia, ok := st.Addr.(*ssa.IndexAddr); ok && strings.HasSuffix(ia.X.Type().String(), "[]k8s.io/api/core/v1.ObjectReference") {
						refStore = st
					}
				}
			}
		}
		if refStore == nil {
			c.R.Unknown(load.FuncName(pt)+": refs[i] store", c.pos(pt.Pos()), "no store into the references slice found")
		} else {
			loop := cfgx.LoopOf(refStore.Block())
			by, w := cfgx.LoopBypass(loop, map[*ssa.BasicBlock]bool{refStore.Block(): true}, nil, c.posf())
			c.R.Check(loop != nil && !by, load.FuncName(pt)+": refs[i] stored on every iteration path", c.pos(refStore.Pos()), "no iteration path skips recording the reference", "an iteration can finish without recording refs[i]: an existing resource's reference is dropped", w...)
		}
	}

	c.R.Rule("R1.4", "an existing resource keeps its name: inherited from the observed/associated resource before a name is generated", 3,
		"a new random name every reconcile creates a second composed resource per desired name")
	if fc != nil {
		// cd.SetName(or.Resource.GetName()) on the ok edge of observed[...] lookup, before GenerateName
		var obs ssa.Value
		if o := calls(fc, observeInv); len(o) == 1 {
			obs = cfgx.TupleResult(o[0], 0)
		}
		found := 0
		for _, x := range cfgx.Calls(fc, nil) {
			n := cfgx.CalleeName(x)
			if !strings.HasSuffix(n, "composed.Unstructured).SetName") && !strings.HasSuffix(n, "composed.Unstructured).SetNamespace") && !strings.HasSuffix(n, "Unstructured).SetName") && !strings.HasSuffix(n, "Unstructured).SetNamespace") {
				continue
			}
			arg := cfgx.CallArgs(x)[0]
			fromObserved := obs != nil && flow.Default.Any(arg, func(v ssa.Value) bool {
				lk, ok := v.(*ssa.Lookup)
				return ok && sole(lk.X) == sole(obs)
			})
			if !fromObserved {
				continue
			}
			found++
			wantGetter := ".GetName"
			if strings.HasSuffix(n, "SetNamespace") {
				wantGetter = ".GetNamespace"
			}
			c.R.Check(flow.Default.Any(arg, func(v ssa.Value) bool { return hasSuffixCall(v, wantGetter) }), site(x)+" inherits", c.pos(x.Pos()), "inherits the observed resource's "+wantGetter[4:], "the inherited value is not the observed resource's "+wantGetter[4:])
			for _, g := range calls(fc, genNameInv) {
				c.R.Check(cfgx.ReachesInIteration(x, g) && !cfgx.ReachesInIteration(g, x), site(x)+" before-generate", c.pos(x.Pos()), "happens before GenerateName", "the observed name is applied after GenerateName")
				// whenever the desired name was observed, the inherit is not optional:
				// GenerateName is unreachable from the found edge of observed[name]
				// without passing this SetName.
				var foundE []cfgx.Edge
				for _, b := range fc.Blocks {
					for _, in := range b.Instrs {
						if lk, ok := in.(*ssa.Lookup); ok && sole(lk.X) == sole(obs) && lk.CommaOk {
							if okv := extractOf(lk, 1); okv != nil {
								t, _ := cfgx.CondEdges(okv)
								foundE = append(foundE, t...)
							}
						}
					}
				}
				if len(foundE) == 0 {
					c.R.Unknown(site(x)+" unconditional-on-found", c.pos(x.Pos()), "no `_, ok := observed[name]` test found")
				} else {
					bad, w := cfgx.ReachesAvoidingBlocks(foundE, g.Block(), map[*ssa.BasicBlock]bool{x.Block(): true}, cfgx.BackEdges(fc), c.posf())
					c.R.Check(!bad, site(x)+" unconditional-on-found", c.pos(x.Pos()), "every path from `observed[name]` found to GenerateName passes the inherit", "an observed resource can reach GenerateName without inheriting its name (extra condition on the inherit): it would be renamed, i.e. duplicated and the old one leaked", w...)
				}
			}
		}
		if found < 2 {
			c.R.Bad(load.FuncName(fc)+": inherit observed name/namespace", c.pos(fc.Pos()), "the desired resource does not inherit name and namespace from observed[name]: a new name would be generated on every reconcile")
		}
	}
	if rj := c.fn(pkgComposite, "RenderFromJSON"); rj != nil {
		um := calls(rj, "encoding/json.Unmarshal", "k8s.io/apimachinery/pkg/util/json.Unmarshal")
		var sn, gn ssa.CallInstruction
		for _, x := range cfgx.Calls(rj, nil) {
			if strings.HasSuffix(cfgx.CalleeName(x), ".SetName") {
				sn = x
			}
			if strings.HasSuffix(cfgx.CalleeName(x), ".GetName") {
				gn = x
			}
		}
		if len(um) != 1 || sn == nil || gn == nil {
			c.R.Unknown(load.FuncName(rj)+": shape", c.pos(rj.Pos()), "expected json.Unmarshal, GetName and SetName")
		} else {
			c.R.Check(cfgx.InstrReaches(gn, um[0], nil) && flow.Strict.Any(cfgx.CallArgs(sn)[0], func(v ssa.Value) bool { return v == gn.Value() }), load.FuncName(rj)+": restores name", c.pos(sn.Pos()),
				"the name read before unmarshalling the base is restored afterwards", "the name is not read before / restored after unmarshalling the template base")
			c.requireCross(site(sn)+" after-unmarshal", sn, okEdges(um[0]), "ok(json.Unmarshal)")
			// every normal return after a successful unmarshal passes SetName
			c.R.Check(cfgx.MustPass(sn.Block(), lastReturnBlock(rj)), load.FuncName(rj)+": SetName dominates success return", c.pos(sn.Pos()), "SetName dominates the success return", "a success return is not dominated by the name restore")
		}
	}
	if pt != nil {
		// the rendered object is constructed from the associated reference
		okRef := false
		for _, x := range calls(pt, xprt+"resource/unstructured/composed.FromReference") {
			if flow.Strict.Any(cfgx.CallArgs(x)[0], func(v ssa.Value) bool { return isFieldSel(v, "composite.TemplateAssociation", "Reference") }) {
				okRef = true
			}
		}
		c.R.Check(okRef, load.FuncName(pt)+": rendered from association", c.pos(pt.Pos()), "the rendered object starts from composed.FromReference(ta.Reference)", "the rendered object is not built from the associated reference: existing names are lost")
	}

	c.R.Rule("R1.5", "deterministic reference array: sorted before SetResourceReferences", 1,
		"an unsorted array built from map iteration rewrites the XR on every steady-state reconcile")
	if ur := c.fn(pkgComposite, "UpdateResourceRefs"); ur != nil {
		var set ssa.CallInstruction
		for _, x := range cfgx.Calls(ur, nil) {
			if strings.HasSuffix(cfgx.CalleeName(x), ".SetResourceReferences") {
				set = x
			}
		}
		var sorts []ssa.CallInstruction
		for _, x := range cfgx.Calls(ur, nil) {
			n := cfgx.CalleeName(x)
			if strings.HasPrefix(n, "sort.") || strings.HasPrefix(n, "slices.Sort") {
				sorts = append(sorts, x)
			}
		}
		if set == nil {
			c.R.Unknown(load.FuncName(ur)+": SetResourceReferences", c.pos(ur.Pos()), "not found")
		} else {
			arg := flow.Root(cfgx.CallArgs(set)[0])
			good := false
			for _, s := range sorts {
				if cfgx.MustPass(s.Block(), set.Block()) && flow.Default.Any(s.Common().Args[0], func(v ssa.Value) bool { return v == arg || flow.Root(v) == arg }) {
					good = true
				}
			}
			// is the slice built inside a range over a map?
			c.R.Check(good, load.FuncName(ur)+": sorted", c.pos(set.Pos()), "the slice passed to SetResourceReferences was sorted on every path", "the reference slice is built from map iteration and not sorted before it is set")
			c.R.Check(flow.Default.Any(cfgx.CallArgs(set)[0], func(v ssa.Value) bool { return v == ssa.Value(ur.Params[1]) }), load.FuncName(ur)+": refs from desired", c.pos(set.Pos()), "the references derive from the desired parameter", "the references set do not derive from the desired collection")
		}
	}

	c.R.Rule("R1.6", "references are derived from the objects that will be written", 2,
		"references to other objects than the ones applied leave the applied ones unrecorded")
	if fc != nil {
		s := sites[fc]
		ur := calls(fc, xp+pkgComposite+".UpdateResourceRefs")
		if len(ur) == 1 && len(s.creates) == 1 && len(s.refsW) == 1 {
			desired := cfgx.CallArgs(ur[0])[1]
			c.R.Check(flow.Strict.Any(cfgx.CallArgs(s.creates[0])[1], func(v ssa.Value) bool {
				rg, ok := v.(*ssa.Range)
				return ok && rg.X == desired
			}), site(s.creates[0])+" same-collection", c.pos(s.creates[0].Pos()), "the applied objects range over the collection whose references were persisted", "the apply loop does not range over the collection UpdateResourceRefs recorded")
			c.R.Check(flow.Root(underIface(cfgx.CallArgs(ur[0])[0])) == flow.Root(underIface(cfgx.CallArgs(s.refsW[0])[1])), site(s.refsW[0])+" writes-updated-refs", c.pos(s.refsW[0].Pos()), "the XR object written is the one UpdateResourceRefs filled", "the XR object written is not the one that received the references")
			c.R.Check(cfgx.InstrReaches(ur[0], s.refsW[0], nil) && cfgx.MustPass(ur[0].Block(), s.refsW[0].Block()), site(ur[0])+" before-write", c.pos(ur[0].Pos()), "UpdateResourceRefs dominates the write", "the references are not set before the XR is written")
		} else {
			c.R.Unknown(load.FuncName(fc)+": UpdateResourceRefs", c.pos(fc.Pos()), "expected one UpdateResourceRefs call")
		}
	}
	if pt != nil {
		// refs[i] = ReferenceTo(r) and cds[i] = r share r
		var refVal, cdVal ssa.Value
		for _, b := range pt.Blocks {
			for _, in := range b.Instrs {
				if st, ok := in.(*ssa.Store); ok {
					if ia, ok := st.Addr.(*ssa.IndexAddr); ok {
						t := ia.X.Type().String()
						if strings.HasSuffix(t, "[]k8s.io/api/core/v1.ObjectReference") {
							refVal = st.Val
						}
						if strings.HasSuffix(t, "[]"+tComposedIf) {
							if !cfgx.IsNilConst(st.Val) {
								cdVal = st.Val
							}
						}
					}
				}
			}
		}
		if refVal == nil || cdVal == nil {
			c.R.Unknown(load.FuncName(pt)+": refs[i]/cds[i]", c.pos(pt.Pos()), "stores not found")
		} else {
			obj := flow.Root(underIface(cdVal))
			c.R.Check(flow.Default.Any(refVal, func(v ssa.Value) bool { return v == obj }), load.FuncName(pt)+": ref of rendered object", c.pos(pt.Pos()), "refs[i] is the reference to the object stored in cds[i]", "refs[i] does not refer to the object that will be applied")
		}
		var setRefs ssa.CallInstruction
		for _, x := range cfgx.Calls(pt, nil) {
			if strings.HasSuffix(cfgx.CalleeName(x), ".SetResourceReferences") {
				setRefs = x
			}
		}
		s := sites[pt]
		if setRefs != nil && len(s.refsW) == 1 {
			c.R.Check(cfgx.MustPass(setRefs.Block(), s.refsW[0].Block()) && cfgx.InstrReaches(setRefs, s.refsW[0], nil), site(setRefs)+" before-update", c.pos(setRefs.Pos()), "SetResourceReferences dominates the XR Update", "the XR is updated without the new references")
		} else {
			c.R.Unknown(load.FuncName(pt)+": SetResourceReferences", c.pos(pt.Pos()), "not found")
		}
	}

	c.R.Rule("R1.7", "observation is complete: a referenced resource is skipped only when it has no name, the uncached read says NotFound, or a foreign controller owns it; other read errors return", 4,
		"a live resource that is skipped silently is dropped from spec.resourceRefs by the next reference write (leak) and re-created under a new name (duplicate)")
	if ob := c.method(pkgComposite, "ExistingComposedResourceObserver", "ObserveComposedResources"); ob != nil {
		c01skipWhitelist(c, ob, func() ssa.Instruction {
			for _, b := range ob.Blocks {
				for _, in := range b.Instrs {
					if mu, ok := in.(*ssa.MapUpdate); ok {
						return mu
					}
				}
			}
			return nil
		}(), true)
	}
	if as := c.method(pkgComposite, "GarbageCollectingAssociator", "AssociateTemplates"); as != nil {
		// each iteration either associates (store of ref into tas[i].Reference) or reaches the Delete
		var through []ssa.Instruction
		for _, b := range as.Blocks {
			for _, in := range b.Instrs {
				if st, ok := in.(*ssa.Store); ok && isFieldSel(st.Addr, "composite.TemplateAssociation", "Reference") {
					through = append(through, st)
				}
			}
		}
		for _, d := range calls(as, clientDelete) {
			through = append(through, d)
		}
		c01skipWhitelistMulti(c, as, through, false)
	}

	c.R.Rule("R1.8", "the template-name annotation is authoritative: RenderComposedResourceMetadata stamps it on every path that names the resource, and it is stamped after the from-XR patches", 3,
		"both composers re-associate live composed resources with templates / desired resources by this annotation only: a stale or overwritten value files the resource under another name, which deletes and re-creates it (or leaks and duplicates it) on every reconcile")
	stampRules(c)
	ptRenderOrder(c, pt)

	c.R.Rule("R1.9", "the managed-fields upgrade recognises an upgraded object whatever the order of its managers", 1,
		"an upgraded composed resource whose own manager entry is not the last one is taken for not upgraded: its managed fields are cleared and re-applied on every reconcile - the steady state never stops writing")
	if up := c.method(pkgComposite, "PatchingManagedFieldsUpgrader", "Upgrade"); up != nil {
		stickyFlags(c, up)
	}
}

// ptRenderOrder: in the P&T composer the metadata of a composed resource (the
// template-name annotation the associator keys on, the controller reference) is
// rendered after the from-XR patches, so that no patch can overwrite it.
func ptRenderOrder(c *Ctx, pt *ssa.Function) {
	if pt == nil {
		return
	}
	// an anonymous template stays anonymous: the name stamped is the template's own name, or empty
	for _, m := range calls(pt, xp+pkgComposite+".RenderComposedResourceMetadata") {
		a := cfgx.CallArgs(m)
		good, sawDeref := false, false
		flow.Default.Any(a[len(a)-1], func(v ssa.Value) bool {
			ci, ok := v.(*ssa.Call)
			if !ok {
				return false
			}
			n := cfgx.CalleeName(ci)
			if i := strings.Index(n, "["); i > 0 {
				n = n[:i]
			}
			if strings.HasSuffix(n, "ptr.Deref") && len(ci.Call.Args) == 2 {
				sawDeref = true
				if d, isC := cfgx.ConstString(ci.Call.Args[1]); isC && d == "" {
					good = true
				}
			}
			return false
		})
		if !good && !sawDeref {
			// written out: `if t.Name != nil { n = *t.Name }` - every leaf is a load of the template name or ""
			good = true
			nv := a[len(a)-1]
			for i := 0; i < 3; i++ {
				switch x := nv.(type) {
				case *ssa.Convert:
					nv = x.X
				case *ssa.ChangeType:
					nv = x.X
				}
			}
			for _, l := range leaves(nv) {
				// the template's Name field, read through whatever temporaries the inlined Deref left
				if !flow.Default.Any(l, func(x ssa.Value) bool {
					switch y := x.(type) {
					case *ssa.FieldAddr:
						return fieldName(y.X.Type(), y.Field) == "Name"
					case *ssa.Field:
						return fieldName(y.X.Type(), y.Field) == "Name"
					}
					return false
				}) {
					good = false
				}
			}
		}
		c.R.Check(good, site(m)+" template name or none", c.pos(m.Pos()), "the name stamped is the template's name, empty for an anonymous template", "an anonymous template is stamped with a made-up name: once the templates are named, the associator finds no template of that name and deletes the still-desired resource")
	}
	md := calls(pt, xp+pkgComposite+".RenderComposedResourceMetadata")
	ps := calls(pt, xp+pkgComposite+".RenderFromCompositePatches")
	if len(md) == 0 || len(ps) == 0 {
		c.R.Unknown(load.FuncName(pt)+": render steps", c.pos(pt.Pos()), "expected RenderFromCompositePatches and RenderComposedResourceMetadata")
	}
	for _, m := range md {
		for _, p := range ps {
			c.R.Check(!cfgx.ReachesInIteration(m, p), site(m)+" after-patches", c.pos(m.Pos()), "metadata (annotation, controller reference) is rendered after the from-XR patches", "a from-XR patch runs after the metadata was rendered: it can overwrite the template-name annotation or the controller reference")
		}
	}
}

func lastReturnBlock(fn *ssa.Function) *ssa.BasicBlock {
	var last *ssa.BasicBlock
	for _, b := range fn.Blocks {
		if r, ok := b.Instrs[len(b.Instrs)-1].(*ssa.Return); ok {
			n := len(r.Results)
			if n > 0 && cfgx.IsNilConst(cfgx.ReturnValue(r, n-1)) {
				last = b
			}
		}
	}
	if last == nil {
		return fn.Blocks[0]
	}
	return last
}

func c01skipWhitelist(c *Ctx, fn *ssa.Function, through ssa.Instruction, foreignSkip bool) {
	if through == nil {
		c.R.Unknown(load.FuncName(fn)+": result store", c.pos(fn.Pos()), "the store that records an observed resource was not found")
		return
	}
	c01skipWhitelistMulti(c, fn, []ssa.Instruction{through}, foreignSkip)
}

// c01skipWhitelistMulti: in the loop over xr.GetResourceReferences(), every
// iteration path passes one of `through` or leaves the loop, except over the
// whitelisted skip edges.
func c01skipWhitelistMulti(c *Ctx, fn *ssa.Function, through []ssa.Instruction, foreignSkip bool) {
	if len(through) == 0 {
		c.R.Unknown(load.FuncName(fn)+": iteration sinks", c.pos(fn.Pos()), "no association/delete sites found")
		return
	}
	var cachedGet, uncachedGet []ssa.CallInstruction
	for _, g := range calls(fn, clientGet) {
		if recvField(g, "uncached") {
			uncachedGet = append(uncachedGet, g)
		} else {
			cachedGet = append(cachedGet, g)
		}
	}
	if len(cachedGet) != 1 || len(uncachedGet) != 1 {
		c.R.Unknown(load.FuncName(fn)+": cached/uncached Get", c.pos(fn.Pos()), "expected one cached and one uncached Get")
		return
	}
	noName, _ := emptyStringFieldEdges(fn, "core/v1.ObjectReference", "Name")
	allowed := union(noName, notFoundEdgesOf(fn, uncachedGet[0]))
	what := "ref.Name==\"\" or IsNotFound(uncached Get)"
	if foreignSkip {
		for _, fc := range foreignControllerTests(fn) {
			allowed = append(allowed, fc.Foreign...)
		}
		what += " or a foreign controller"
	}
	loop := cfgx.LoopOf(through[0].Block())
	if loop == nil {
		c.R.Unknown(load.FuncName(fn)+": loop", c.pos(fn.Pos()), "the reference loop was not found")
		return
	}
	tb := map[*ssa.BasicBlock]bool{}
	for _, t := range through {
		tb[t.Block()] = true
	}
	by, w := cfgx.LoopBypass(loop, tb, allowed, c.posf())
	c.R.Check(!by, load.FuncName(fn)+": skip reasons", c.pos(through[0].Pos()), "an iteration ends without handling the reference only over: "+what,
		"a referenced resource can be skipped for a reason other than: "+what, w...)
	// the uncached retry happens on the cached NotFound edge and its other errors return
	c.requireCross(site(uncachedGet[0])+" on-cache-miss", uncachedGet[0], notFoundEdgesOf(fn, cachedGet[0]), "IsNotFound(cached Get)==true")
	for _, g := range []ssa.CallInstruction{cachedGet[0], uncachedGet[0]} {
		ev := cfgx.ErrEvents(g)
		// from the failure edge (not NotFound) no sink and no loop header is reachable
		if len(ev.Fail) == 0 {
			c.R.Bad(site(g)+" error-tested", c.pos(g.Pos()), "the read error is never tested against nil: a failed read is treated like a successful one")
			continue
		}
		nf := union(notFoundEdgesOf(fn, cachedGet[0]), notFoundEdgesOf(fn, uncachedGet[0]))
		bad := false
		var wit []string
		h := cfgx.LoopHeader(loop)
		seen, _ := cfgx.ReachBlocks(edgeTargets(ev.Fail), edgeSet(nf))
		for _, t := range through {
			if seen[t.Block()] {
				bad = true
				wit = []string{"reaches " + c.pos(t.Pos())}
			}
		}
		// reaching the header again from the fail edge (without NotFound) means the error was swallowed
		for b := range seen {
			for _, s := range b.Succs {
				if s == h && loop[b] {
					bad = true
					wit = []string{"continues the loop from " + c.pos(firstPos(b))}
				}
			}
		}
		c.R.Check(!bad, site(g)+" error-returns", c.pos(g.Pos()), "a read error other than NotFound leaves the loop with an error", "a read error other than NotFound is swallowed: observation continues with an incomplete view", wit...)
	}
}

func edgeTargets(es []cfgx.Edge) []*ssa.BasicBlock {
	var out []*ssa.BasicBlock
	for _, e := range es {
		out = append(out, e.To())
	}
	return out
}

func edgeSet(es []cfgx.Edge) map[cfgx.Edge]bool {
	m := map[cfgx.Edge]bool{}
	for _, e := range es {
		m[e] = true
	}
	return m
}

// isWrapOfCall: errors.Wrap(f(...), msg) — nil when the wrapped call succeeds.
func isWrapOfCall(v ssa.Value) bool {
	c, ok := v.(*ssa.Call)
	if !ok {
		return false
	}
	n := cfgx.CalleeName(c)
	if !strings.HasSuffix(n, "errors.Wrap") && !strings.HasSuffix(n, "errors.Wrapf") {
		return false
	}
	_, isCall := c.Call.Args[0].(*ssa.Call)
	return isCall
}

// stickyFlags: every boolean carried round a loop of fn ("found one") only ever
// goes from false to true: the value it has after an iteration is itself, true,
// or something computed only where it was false. Reports flags that a later
// element can reset.
func stickyFlags(c *Ctx, fn *ssa.Function) {
	n := 0
	for _, b := range fn.Blocks {
		loop := cfgx.LoopOf(b)
		if loop == nil || cfgx.LoopHeader(loop) != b {
			continue
		}
		for _, in := range b.Instrs {
			phi, ok := in.(*ssa.Phi)
			if !ok {
				break
			}
			if bt, isB := phi.Type().Underlying().(*types.Basic); !isB || bt.Kind() != types.Bool {
				continue
			}
			_, whenFalse := cfgx.CondEdges(phi)
			seen := map[ssa.Value]bool{}
			var walk func(v ssa.Value, pred *ssa.BasicBlock) bool
			walk = func(v ssa.Value, pred *ssa.BasicBlock) bool {
				if v == ssa.Value(phi) {
					return true
				}
				if k, isC := cfgx.ConstBool(v); isC {
					return k
				}
				if p, isPhi := v.(*ssa.Phi); isPhi && loop[p.Block()] {
					if seen[p] {
						return true
					}
					seen[p] = true
					for i, e := range p.Edges {
						if !walk(e, p.Block().Preds[i]) {
							return false
						}
					}
					return true
				}
				if pred == nil || len(whenFalse) == 0 {
					return false
				}
				okc, _ := cfgx.MustCross(pred.Instrs[len(pred.Instrs)-1], whenFalse, nil)
				return okc
			}
			sticky, initFalse := true, false
			for i, e := range phi.Edges {
				if loop[b.Preds[i]] {
					if !walk(e, b.Preds[i]) {
						sticky = false
					}
				} else if k, isC := cfgx.ConstBool(e); isC && !k {
					initFalse = true
				}
			}
			if !initFalse {
				continue // not a "found" flag
			}
			n++
			c.R.Check(sticky, load.FuncName(fn)+": flag "+phi.Comment+" is sticky", c.pos(firstPos(b)), "once set in the loop the flag stays set", "the flag "+phi.Comment+" can be reset by a later element of the loop: only the last element decides")
		}
	}
	if n == 0 {
		c.R.Unknown(load.FuncName(fn)+": flags", c.pos(fn.Pos()), "no loop-carried found-flag in this function")
	}
}

// nameGeneratorRules: the name generator never renames and hands out a name
// only when the probe found nothing under it.
func nameGeneratorRules(c *Ctx) {
	if ng := c.method("internal/names", "nameGenerator", "GenerateName"); ng != nil {
		var setName []ssa.CallInstruction
		for _, x := range cfgx.Calls(ng, nil) {
			if strings.HasSuffix(cfgx.CalleeName(x), ".SetName") {
				setName = append(setName, x)
			}
		}
		// don't-rename: GetName() != "" true edge must not reach SetName
		var hasName, noGen []cfgx.Edge
		for _, b := range ng.Blocks {
			for _, in := range b.Instrs {
				if bo, ok := in.(*ssa.BinOp); ok {
					for _, pr := range [][2]ssa.Value{{bo.X, bo.Y}, {bo.Y, bo.X}} {
						if s, isC := cfgx.ConstString(pr[1]); isC && s == "" {
							t, f := cfgx.CondEdges(bo)
							if bo.Op.String() == "==" {
								t, f = f, t
							} else if bo.Op.String() != "!=" {
								continue
							}
							if hasSuffixCall(pr[0], ".GetName") {
								hasName = append(hasName, t...)
							}
							if hasSuffixCall(pr[0], ".GetGenerateName") {
								noGen = append(noGen, f...)
							}
						}
					}
				}
			}
		}
		if len(setName) == 0 || len(hasName) == 0 {
			c.R.Unknown(load.FuncName(ng)+": shape", c.pos(ng.Pos()), "expected a SetName call and a GetName()!=\"\" test")
		}
		for _, sn := range setName {
			reach, w := cfgx.ReachableFromEdges(hasName, sn, nil, c.posf())
			c.R.Check(!reach, site(sn)+" never-renames", c.pos(sn.Pos()), "SetName is unreachable when the object already has a name", "the generator can rename an object that already has a name", w...)
			// availability: SetName only on the IsNotFound edge of the probe Get
			gets := calls(ng, clientGet)
			c.requireCross(site(sn)+" name-available", sn, notFoundEdgesOf(ng, gets...), "IsNotFound(probe Get)==true")
			// the name set is the name probed
			if len(gets) == 1 {
				probe := cfgx.CallArgs(gets[0])[1]
				nm := cfgx.CallArgs(sn)[0]
				c.R.Check(flow.Strict.Any(probe, func(v ssa.Value) bool { return v == nm }), site(sn)+" probed-name", c.pos(sn.Pos()), "the name set is the name whose availability was probed", "the name that is set is not the one that was probed")
			}
		}
	}
}

// stampRules: RenderComposedResourceMetadata stamps the template-name annotation on
// every path that names the resource, and the stamp itself overwrites.
func stampRules(c *Ctx) {
	if rm := c.fn(pkgComposite, "RenderComposedResourceMetadata"); rm != nil {
		stamp := calls(rm, xp+pkgComposite+".SetCompositionResourceName")
		if len(stamp) == 0 {
			c.R.Unknown(load.FuncName(rm)+": stamp", c.pos(rm.Pos()), "SetCompositionResourceName is not called")
		} else {
			// the only way past the stamp is an empty name
			var noName []cfgx.Edge
			for _, cf := range findCmps(rm, true, func(x, y ssa.Value) bool {
				s, ok := cfgx.ConstString(y)
				return ok && s == "" && flow.Root(x) == ssa.Value(rm.Params[2])
			}) {
				noName = append(noName, cf.Holds...)
			}
			through := map[*ssa.BasicBlock]bool{}
			for _, st := range stamp {
				through[st.Block()] = true
				c.R.Check(cfgx.CallArgs(st)[1] == ssa.Value(rm.Params[2]) && flow.Root(underIface(cfgx.CallArgs(st)[0])) == ssa.Value(rm.Params[0]), site(st)+" stamps-name", c.pos(st.Pos()), "stamps the supplied name on the rendered resource", "the annotation stamped is not the supplied name on the supplied resource")
			}
			seen := cfgx.ReachFromEntry(rm, through, noName)
			bad := false
			var at ssa.Instruction = stamp[0]
			for b := range seen {
				if through[b] {
					continue
				}
				if r, ok := b.Instrs[len(b.Instrs)-1].(*ssa.Return); ok && classifyErr(cfgx.ReturnValue(r, 0)) != "nonnil" || ok && isWrapOfCall(cfgx.ReturnValue(r, 0)) {
					bad = true
					at = r
				}
			}
			c.R.Check(!bad && len(noName) > 0, load.FuncName(rm)+": stamped unless unnamed", c.pos(at.Pos()), "every successful render passes the stamp, except for an empty name", "a named resource can be rendered without (re)stamping crossplane.io/composition-resource-name: an existing value wins")
		}
	}
	// the stamp itself overwrites: SetCompositionResourceName writes the annotation on every path
	if sn := c.fn(pkgComposite, "SetCompositionResourceName"); sn != nil && len(sn.Params) == 2 {
		adds := calls(sn, xprt+"meta.AddAnnotations")
		through := map[*ssa.BasicBlock]bool{}
		named := false
		for _, a := range adds {
			through[a.Block()] = true
			if flow.Root(underIface(cfgx.CallArgs(a)[0])) == ssa.Value(sn.Params[0]) {
				for _, b := range sn.Blocks {
					for _, in := range b.Instrs {
						if mu, ok := in.(*ssa.MapUpdate); ok && flow.Default.Any(mu.Value, func(v ssa.Value) bool { return v == ssa.Value(sn.Params[1]) }) {
							named = true
						}
					}
				}
			}
		}
		bad := len(adds) == 0
		var at ssa.Instruction
		for b := range cfgx.ReachFromEntry(sn, through, nil) {
			if r, ok := b.Instrs[len(b.Instrs)-1].(*ssa.Return); ok && !through[b] {
				bad, at = true, r
			}
		}
		p := sn.Pos()
		if at != nil {
			p = at.Pos()
		}
		c.R.Check(!bad && named, load.FuncName(sn)+": always overwrites", c.pos(p), "the helper writes the supplied name into the annotation on every path", "SetCompositionResourceName can return without writing the supplied name: an annotation the rendered body already carries wins, and the resource is filed under another template")
	}
}
