package rules

import (
	"go/ast"

	"golang.org/x/tools/go/packages"
)

type pkgT = packages.Package
type exprT = ast.Expr

// walkPolicyRules visits `Field: value` pairs of every struct literal nested in e.
func walkPolicyRules(p *packages.Package, e ast.Expr, visit func(field string, v ast.Expr)) {
	ast.Inspect(e, func(n ast.Node) bool {
		kv, ok := n.(*ast.KeyValueExpr)
		if !ok {
			return true
		}
		if id, ok := kv.Key.(*ast.Ident); ok {
			visit(id.Name, kv.Value)
		}
		return true
	})
}
