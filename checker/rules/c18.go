package rules

import (
	"go/token"
	"sort"
	"strings"

	"golang.org/x/tools/go/ssa"

	"xpcheck/internal/cfgx"
	"xpcheck/internal/flow"
	"xpcheck/internal/load"
	"xpcheck/internal/tables"
)

func init() {
	register(&Property{
		ID:  "C18",
		Run: c18,
		Explanation: "Decides, on every path and for every literal of the RBAC manager: (R18.1) no role Apply without an acknowledged validation and the empty-rejected edge; (R18.2) family members are merged only on the OrgDiffer.Differs==false edge and Differs fails closed; " +
			"(R18.3) permission requests flow only into the system role; (R18.4) the hard-coded baseline is within the set the property enumerates; (R18.5) rendered rules are built only from the CRD references / XRD names plus constant suffixes, DefinedResources keeps only apiextensions.k8s.io CustomResourceDefinitions; " +
			"(R18.6) the allow tree only answers true through a child keyed by the request segment or the wildcard, rejections are collected for every expanded request, Rule.path carries every field; (R18.7) roles and bindings are applied with a controller guard keyed on the owner's UID. R18.6 also requires that the allow tree consulted is a newNode() of the same call, filled after the ClusterRole was read.",
		NotDecided:  []string{"agreement of the allow tree with Kubernetes' own 'covers' relation for all rule pairs", "contents of the allow-list ClusterRole", "semantics of go-containerregistry reference parsing"},
		Assumptions: []string{"rbacv1.PolicyRule semantics as documented", "the Applicator enforces MustBeControllableBy"},
	})
}

func c18(c *Ctx) {
	pkg := "internal/controller/rbac/provider/roles"
	rec := c.method(pkg, "Reconciler", "Reconcile")

	c.R.Rule("R18.1", "reject ⇒ no role: every Apply needs ok(ValidatePermissionRequests) and the len(rejected)==0 edge; the validated requests are the revision's", 3,
		"a provider whose extra permission request is not covered by the allow list would still get its system role (including the rejected rule)")
	var applies []ssa.CallInstruction
	if rec != nil {
		applies = calls(rec, applicatorApply)
		val := calls(rec, "("+xp+pkg+".PermissionRequestsValidator).ValidatePermissionRequests")
		if c.expect("Apply", len(applies), 1, rec) && c.expect("ValidatePermissionRequests", len(val), 1, rec) {
			rej := cfgx.TupleResult(val[0], 0)
			var empty []cfgx.Edge
			for _, lc := range cfgx.LenCmps(rec) {
				if lc.Of != rej {
					continue
				}
				t, f := lc.Edges()
				if lc.Eval(0) == lc.Eval(1) || lc.Eval(1) != lc.Eval(5) {
					c.R.Bad(load.FuncName(rec)+": rejected test", c.pos(lc.Bin.Pos()), "the comparison on len(rejected) does not separate 0 from ≥1 rejected rules")
					continue
				}
				if lc.Eval(0) {
					empty = append(empty, t...)
				} else {
					empty = append(empty, f...)
				}
			}
			for _, a := range applies {
				c.requireCross(site(a)+" validated", a, okEdges(val[0]), "the success edge of ValidatePermissionRequests")
				c.requireCross(site(a)+" none-rejected", a, empty, "the len(rejected)==0 edge")
			}
			reqArg := cfgx.CallArgs(val[0])[1]
			c.R.Check(flow.Strict.Any(reqArg, func(v ssa.Value) bool { return isFieldSel(v, "v1.PackageRevisionStatus", "PermissionRequests") }), site(val[0])+" validates-own-requests", c.pos(val[0].Pos()),
				"the validated rules are pr.Status.PermissionRequests", "the rules handed to the validator are not the revision's permission requests")
		}
	}

	c.R.Rule("R18.2", "family filter: member resources are merged only on Differs(pr pkg, member pkg)==false; Differs returns true on parse errors, registry or org inequality", 6,
		"a malicious provider declaring itself part of a family would be granted access to the family's CRDs")
	if rec != nil {
		dif := calls(rec, "("+xp+pkg+".OrgDiffer).Differs")
		if c.expect("Differs", len(dif), 1, rec) {
			_, same := cfgx.CallCondEdges(dif[0])
			n := 0
			for _, ap := range calls(rec, "builtin.append") {
				if !strings.HasSuffix(ap.Common().Args[0].Type().String(), "roles.Resource") {
					continue
				}
				// a slice that was itself accumulated by appends (the result of an
				// extracted helper) carries elements that were gated where they were added
				reappend := false
				direct := false
				for _, ci := range flow.Strict.CallsIn(ap.Common().Args[1]) {
					switch {
					case cfgx.CalleeName(ci) == "builtin.append":
						reappend = true
					case strings.HasSuffix(cfgx.CalleeName(ci), ".DefinedResources") && ci.Block() == ap.Block():
						direct = true
					}
				}
				if reappend && !direct {
					continue
				}
				n++
				c.requireCross(site(ap)+" same-org", ap, same, "OrgDiffer.Differs(...)==false")
			}
			if n == 0 {
				c.R.Unknown(load.FuncName(rec)+": member merge", c.pos(rec.Pos()), "no append of member resources found")
			}
			a := cfgx.CallArgs(dif[0])
			p0, _, _ := pathOf(a[0])
			p1, _, _ := pathOf(a[1])
			c.R.Check(strings.HasSuffix(p0, "Spec.PackageRevisionSpec.Package") && strings.HasSuffix(p1, "Spec.PackageRevisionSpec.Package") && rootOf(a[0]) != rootOf(a[1]), site(dif[0])+" args", c.pos(dif[0].Pos()),
				"compares pr.Spec.Package with member.Spec.Package", "Differs is not given the two package sources (got "+p0+" / "+p1+")")
		}
	}
	df := c.method(pkg, "OrgDiffer", "Differs")
	if df != nil {
		pr := calls(df, "github.com/google/go-containerregistry/pkg/name.ParseReference")
		if c.expect("ParseReference", len(pr), 2, df) {
			for _, p := range pr {
				good := true
				rets := cfgx.ReturnsReachable(failEdges(p), okEdges(p))
				if len(rets) == 0 {
					good = false
				}
				for _, r := range rets {
					if b, ok := cfgx.ConstBool(cfgx.ReturnValue(r, 0)); !ok || !b {
						good = false
					}
				}
				c.R.Check(good, site(p)+" fails-closed", c.pos(p.Pos()), "a parse error returns true (differs)", "an unparsable reference is not treated as a different org")
				// both sides are parsed with the configured default registry (sibling agreement):
				// an unqualified source must resolve to the same registry on both sides
				withDef := false
				if len(p.Common().Args) > 1 {
					withDef = flow.Default.Any(p.Common().Args[1], func(v ssa.Value) bool {
						ci, ok := v.(*ssa.Call)
						return ok && strings.HasSuffix(cfgx.CalleeName(ci), "name.WithDefaultRegistry") && flow.Default.Any(ci.Call.Args[0], func(y ssa.Value) bool { return isFieldSel(y, "roles.OrgDiffer", "DefaultRegistry") })
					})
				}
				c.R.Check(withDef, site(p)+" default-registry", c.pos(p.Pos()), "parsed with name.WithDefaultRegistry(d.DefaultRegistry)", "this reference is parsed without the configured default registry: an unqualified source resolves to index.docker.io on one side only, so packages of different registries compare as the same registry")
			}
		}
		// registry inequality returns true; final result compares first path segments
		reg, org := false, false
		for _, b := range df.Blocks {
			for _, in := range b.Instrs {
				bo, ok := in.(*ssa.BinOp)
				if !ok || !isEqOrNeq(bo) {
					continue
				}
				fromReg := func(v ssa.Value) bool {
					return flow.Default.Any(v, func(x ssa.Value) bool {
						ci, ok := x.(ssa.CallInstruction)
						return ok && strings.HasSuffix(cfgx.CalleeName(ci), "name.Registry).RegistryStr")
					})
				}
				fromRepo := func(v ssa.Value) bool {
					return flow.Default.Any(v, func(x ssa.Value) bool {
						ci, ok := x.(ssa.CallInstruction)
						return ok && strings.HasSuffix(cfgx.CalleeName(ci), "name.Repository).RepositoryStr")
					})
				}
				if fromReg(bo.X) && fromReg(bo.Y) {
					_, ne := eqEdges(bo)
					rets := cfgx.BoolReturnsFrom(ne, 0)
					reg = len(rets) > 0
					for _, r := range rets {
						if !r.NonNil {
							reg = false
						}
					}
				}
				if fromRepo(bo.X) && fromRepo(bo.Y) && !fromReg(bo.X) && firstSegment(bo.X, bo.Block()) && firstSegment(bo.Y, bo.Block()) {
					if bo.Referrers() != nil {
						for _, r := range *bo.Referrers() {
							if _, ok := r.(*ssa.Return); ok && bo.Op == token.NEQ {
								org = true
							}
						}
					}
					if !org {
						// the same decision spelled with branches: unequal orgs always
						// return true, equal orgs (registries being equal) return false
						eq, ne := eqEdges(bo)
						t, f := cfgx.BoolReturnsFrom(ne, 0), cfgx.BoolReturnsFrom(eq, 0)
						good := len(t) > 0 && len(f) > 0
						for _, r := range t {
							if !r.NonNil {
								good = false
							}
						}
						sawFalse := false
						for _, r := range f {
							if r.Nil {
								sawFalse = true
							}
						}
						org = good && sawFalse
					}
				}
			}
		}
		c.R.Check(reg, load.FuncName(df)+": registry", c.pos(df.Pos()), "different registries return true", "registry inequality does not make Differs return true")
		c.R.Check(org, load.FuncName(df)+": org", c.pos(df.Pos()), "the result is the inequality of the first repository path segments", "the final result is not the inequality of the repository's first path segment")
	}

	c.R.Rule("R18.3", "permission requests reach only the system role's Rules; edit/view derive from CRD resources and constant verbs only", 3,
		"requests copied into an aggregated role would be granted to every subject bound to the aggregate")
	ren := c.fn(pkg, "RenderClusterRoles")
	if ren != nil {
		isReq := func(v ssa.Value) bool { return isFieldSel(v, "v1.PackageRevisionStatus", "PermissionRequests") }
		isExtra := func(v ssa.Value) bool { return isGlobalNamed(v, xp+pkg, "rulesSystemExtra") }
		n := 0
		for _, b := range ren.Blocks {
			for _, in := range b.Instrs {
				st, ok := in.(*ssa.Store)
				if !ok || !isFieldSel(st.Addr, "rbac/v1.ClusterRole", "Rules") {
					continue
				}
				n++
				role := flow.Root(st.Addr)
				isSystem := false
				// the role's name store
				for _, b2 := range ren.Blocks {
					for _, in2 := range b2.Instrs {
						if s2, ok := in2.(*ssa.Store); ok && isFieldSel(s2.Addr, "meta/v1.ObjectMeta", "Name") && flow.Root(s2.Addr) == role {
							if flow.Default.AnyCall(s2.Val, xp+pkg+".SystemClusterRoleName") {
								isSystem = true
							}
						}
					}
				}
				// … also when the rules are deep-copied element by element (x[i].DeepCopyInto(&out[i]))
				viaDeepCopy := func(pred func(ssa.Value) bool) bool {
					for _, dc := range cfgx.Calls(ren, func(ci ssa.CallInstruction) bool { return strings.HasSuffix(cfgx.CalleeName(ci), ".DeepCopyInto") }) {
						recv := cfgx.Receiver(dc)
						if recv == nil || !flow.Default.Any(recv, pred) {
							continue
						}
						dst := cfgx.CallArgs(dc)[0]
						var into ssa.Value
						if ia, ok := dst.(*ssa.IndexAddr); ok {
							into = ia.X
						}
						if into == nil {
							continue
						}
						if flow.Default.Any(st.Val, func(v ssa.Value) bool { return v == into || sole(v) == sole(into) }) {
							return true
						}
					}
					return false
				}
				// … or appended one by one as `*x[i].DeepCopy()`
				viaAppendedCopy := func(pred func(ssa.Value) bool) bool {
					for _, ap := range calls(ren, "builtin.append") {
						if !flow.Default.Any(st.Val, func(v ssa.Value) bool { return v == ap.Value() }) {
							continue
						}
						a := ap.Common().Args
						if len(a) != 2 {
							continue
						}
						sl, ok := a[1].(*ssa.Slice)
						if !ok {
							continue
						}
						arr, ok := sl.X.(*ssa.Alloc)
						if !ok || arr.Referrers() == nil {
							continue
						}
						for _, r := range *arr.Referrers() {
							ia, ok := r.(*ssa.IndexAddr)
							if !ok || ia.Referrers() == nil {
								continue
							}
							for _, u := range *ia.Referrers() {
								es, ok := u.(*ssa.Store)
								if !ok {
									continue
								}
								if flow.Default.Any(es.Val, func(v ssa.Value) bool {
									ci, ok := v.(*ssa.Call)
									if !ok || !strings.HasSuffix(cfgx.CalleeName(ci), ".DeepCopy") {
										return false
									}
									rc := cfgx.Receiver(ci)
									return rc != nil && flow.Default.Any(rc, pred)
								}) {
									return true
								}
							}
						}
					}
					return false
				}
				hasReq := flow.Default.Any(st.Val, isReq) || viaDeepCopy(isReq) || viaAppendedCopy(isReq)
				hasExtra := flow.Default.Any(st.Val, isExtra) || viaDeepCopy(isExtra) || viaAppendedCopy(isExtra)
				if isSystem {
					c.R.Check(hasReq && hasExtra, load.FuncName(ren)+": system role rules", c.pos(st.Pos()), "system role = CRD rules + finalizers + baseline + permission requests", "the system role's rules lost the baseline or the permission requests")
				} else {
					c.R.Check(!hasReq && !hasExtra, load.FuncName(ren)+": aggregated role rules #"+itoa(n), c.pos(st.Pos()), "an aggregated role's rules derive from CRD resources only", "permission requests or the system baseline flow into an aggregated (edit/view) role")
				}
			}
		}
		if n < 3 {
			c.R.Unknown(load.FuncName(ren)+": Rules stores", c.pos(ren.Pos()), "expected three ClusterRole literals")
		}
	}

	c.R.Rule("R18.4", "baseline ⊆ {secrets, configmaps, events, leases} in groups ⊆ {\"\", coordination.k8s.io}", 2,
		"any addition to the fixed baseline is granted to every provider without a request")
	tp := c.P.TypesPkg(pkg)
	if tp != nil {
		init := tables.FindVarInit(tp, "rulesSystemExtra")
		if init == nil {
			c.R.Unknown(pkg+".rulesSystemExtra", "", "baseline table not found")
		} else {
			res := func(p string) *pkgT { return c.P.All[p] }
			var groups, resources []string
			complete := true
			walkPolicyRules(tp, init, func(field string, e exprT) {
				s, ok := tables.Strings(tp, e, res)
				if !ok {
					complete = false
				}
				switch field {
				case "APIGroups":
					groups = append(groups, s...)
				case "Resources":
					resources = append(resources, s...)
				case "NonResourceURLs", "ResourceNames":
					resources = append(resources, "<"+field+">")
				}
			})
			okR := tables.Minus(resources, tables.Set([]string{"secrets", "configmaps", "events", "leases"}))
			okG := tables.Minus(groups, tables.Set([]string{"", "coordination.k8s.io"}))
			c.R.Check(complete && len(okR) == 0 && len(resources) > 0, pkg+".rulesSystemExtra resources", c.pos(init.Pos()), "resources "+strings.Join(resources, ",")+" are within the stated baseline", "baseline grants resources beyond the stated set: "+strings.Join(okR, ",")+boolStr(!complete, " (table not fully constant)"))
			c.R.Check(complete && len(okG) == 0 && len(groups) > 0, pkg+".rulesSystemExtra groups", c.pos(init.Pos()), "groups are within {\"\", coordination.k8s.io}", "baseline covers API groups beyond the stated set: "+strings.Join(okG, ","))
		}
	}

	c.R.Rule("R18.5", "rule provenance: provider role rules come from Resource.Group/Plural (+/status, */finalizers in those groups); DefinedResources keeps only apiextensions.k8s.io CustomResourceDefinition refs; XRD role literals use d.Spec.Group and (Claim)Names.Plural + constant suffixes", 10,
		"a rule built from anything else grants access to resources the revision / XRD does not define")
	dr := c.fn(pkg, "DefinedResources")
	if dr != nil {
		var grpNE, kindNE []*ssa.BinOp
		for _, b := range dr.Blocks {
			for _, in := range b.Instrs {
				if bo, ok := in.(*ssa.BinOp); ok && (bo.Op == token.NEQ || bo.Op == token.EQL) {
					for _, s := range []ssa.Value{bo.X, bo.Y} {
						if v, ok := cfgx.ConstString(s); ok {
							if v == "apiextensions.k8s.io" {
								grpNE = append(grpNE, bo)
							}
							if v == "CustomResourceDefinition" {
								kindNE = append(kindNE, bo)
							}
						}
					}
				}
			}
		}
		eqEdges := func(bs []*ssa.BinOp) []cfgx.Edge {
			var out []cfgx.Edge
			for _, bo := range bs {
				t, f := cfgx.CondEdges(bo)
				if bo.Op == token.NEQ {
					out = append(out, f...)
				} else {
					out = append(out, t...)
				}
			}
			return out
		}
		for _, ap := range calls(dr, "builtin.append") {
			c.requireCross(site(ap)+" group-is-apiextensions", ap, eqEdges(grpNE), "gv.Group == apiextensions.k8s.io")
			c.requireCross(site(ap)+" kind-is-CRD", ap, eqEdges(kindNE), "ref.Kind == CustomResourceDefinition")
			// group/plural come from strings.Cut(ref.Name, ".")
			c.R.Check(flow.Default.AnyCall(ap.Common().Args[1], "strings.Cut"), site(ap)+" from-crd-name", c.pos(ap.Pos()), "Group/Plural are the two halves of the CRD name", "the resource is not derived from the CRD's <plural>.<group> name")
		}
	}
	if ren != nil {
		c18policyLiterals(c, ren, func(field string, v ssa.Value) (bool, string) {
			switch field {
			case "APIGroups":
				okv := flow.Default.Any(v, func(x ssa.Value) bool { return isFieldSel(x, "roles.Resource", "Group") })
				bad := flow.Default.Any(v, func(x ssa.Value) bool {
					return isFieldSel(x, "v1.PackageRevisionStatus", "PermissionRequests") || isFieldSel(x, "roles.Resource", "Plural")
				})
				return okv && !bad, "derives from Resource.Group"
			case "Resources":
				if s, ok := sliceConstStrings(v); ok {
					return len(s) == 1 && s[0] == "*/finalizers", "constant " + strings.Join(s, ",")
				}
				okv := flow.Default.Any(v, func(x ssa.Value) bool { return isFieldSel(x, "roles.Resource", "Plural") })
				return okv, "derives from Resource.Plural"
			}
			return true, ""
		})
	}
	xr := c.fn("internal/controller/rbac/definition", "RenderClusterRoles")
	if xr != nil {
		c18policyLiterals(c, xr, func(field string, v ssa.Value) (bool, string) {
			elems := sliceElems(v)
			if len(elems) == 0 {
				if field == "Verbs" {
					return true, ""
				}
				return false, "not a slice literal"
			}
			for _, e := range elems {
				switch field {
				case "APIGroups":
					if _, p, ok := flow.AccessPathC(e); !ok || p != "Spec.Group" {
						return false, "element is not d.Spec.Group"
					}
				case "Resources":
					base := e
					if bo, ok := e.(*ssa.BinOp); ok && bo.Op == token.ADD {
						s, isC := cfgx.ConstString(bo.Y)
						if !isC || (s != "/status" && s != "/finalizers") {
							return false, "unexpected suffix"
						}
						base = bo.X
					}
					_, p, ok := flow.AccessPathC(base)
					if !ok || (p != "Spec.Names.Plural" && p != "Spec.ClaimNames.Plural") {
						return false, "element is not (Claim)Names.Plural[+suffix]: " + p
					}
				}
			}
			return true, "d.Spec.Group / (Claim)Names.Plural + constant suffix"
		})
	}

	c.R.Rule("R18.6", "allow tree: true only via a child keyed by the request segment or the wildcard; every expanded request is checked; Rule.path carries every field; empty ResourceNames expand to the wildcard", 6,
		"a tree that answers true too easily grants requests the administrator never allowed")
	// the tree is built the way it is read: a path is marked allowed at the node its LAST segment leads to
	if aw := c.method(pkg, "node", "Allow"); aw != nil && len(aw.Params) == 2 {
		var atEnd []cfgx.Edge
		for _, lc := range cfgx.LenCmps(aw) {
			if flow.Root(lc.Of) != ssa.Value(aw.Params[1]) {
				continue
			}
			tr, fa := lc.Edges()
			switch {
			case lc.Op == token.EQL && lc.Const == 0 && !lc.Swap, lc.Op == token.LSS && lc.Const == 1 && !lc.Swap, lc.Op == token.LEQ && lc.Const == 0 && !lc.Swap:
				atEnd = append(atEnd, tr...)
			case lc.Op == token.NEQ && lc.Const == 0, lc.Op == token.GTR && lc.Const == 0 && !lc.Swap, lc.Op == token.GEQ && lc.Const == 1 && !lc.Swap:
				atEnd = append(atEnd, fa...)
			}
		}
		n := 0
		// the iterative form: walk one child per segment of p, mark the node the walk ends at
		walked := func(st *ssa.Store) bool {
			for _, loop := range cfgx.Loops(aw) {
				overP := false
				for b := range loop {
					for _, in := range b.Instrs {
						if nx, ok := in.(*ssa.Next); ok {
							if rg, ok := nx.Iter.(*ssa.Range); ok && flow.Root(rg.X) == ssa.Value(aw.Params[1]) {
								overP = true
							}
						}
					}
				}
				if pre := cfgx.LoopHeader(loop); pre != nil && !overP {
					// `for _, k := range p` over a slice is an index loop: len(p) bounds it
					for _, lc := range cfgx.LenCmps(aw) {
						if flow.Root(lc.Of) == ssa.Value(aw.Params[1]) && loop[lc.Bin.Block()] {
							overP = true
						}
					}
					for _, in := range pre.Instrs {
						if bo, ok := in.(*ssa.BinOp); ok && bo.Op == token.LSS {
							if of, isLen := lenOfValue(bo.Y); isLen && flow.Root(of) == ssa.Value(aw.Params[1]) {
								overP = true
							}
						}
					}
				}
				exits, _ := cfgx.OnlyHeaderExits(loop)
				if overP && exits && !loop[st.Block()] && cfgx.MustPass(cfgx.LoopHeader(loop), st.Block()) {
					// the node marked is the one the walk carries
					if _, isPhi := flow.Root(st.Addr).(*ssa.Phi); isPhi {
						return true
					}
				}
			}
			return false
		}
		iterative := false
		for _, b := range aw.Blocks {
			for _, in := range b.Instrs {
				if st, ok := in.(*ssa.Store); ok && isFieldSel(st.Addr, "roles.node", "allowed") {
					n++
					if len(atEnd) == 0 && walked(st) {
						iterative = true
						c.R.OK(load.FuncName(aw)+": allowed only at the end of the path", c.pos(st.Pos()), "the node marked is the one reached after walking every segment of the path")
						continue
					}
					c.requireCross(load.FuncName(aw)+": allowed only at the end of the path", st, atEnd, "len(p) == 0")
				}
			}
		}
		rec := calls(aw, "(*"+xp+pkg+".node).Allow")
		if iterative && len(rec) == 0 {
			rec = nil
			n += 0
		}
		for _, rc := range rec {
			good := false
			if sl, ok := cfgx.CallArgs(rc)[0].(*ssa.Slice); ok && sl.Low != nil && sl.High == nil {
				k, isC := cfgx.ConstInt(sl.Low)
				good = isC && k == 1 && flow.Root(sl.X) == ssa.Value(aw.Params[1])
			}
			c.R.Check(good, site(rc)+" tail", c.pos(rc.Pos()), "recurses on p[1:]", "the insertion does not consume exactly one path segment per level")
		}
		if n == 0 || (len(rec) == 0 && !iterative) {
			c.R.Unknown(load.FuncName(aw)+": shape", c.pos(aw.Pos()), "expected n.allowed = true at the end of the path and a recursion on the tail")
		}
	}
	al := c.method(pkg, "node", "Allowed")
	if al != nil {
		// every `return true` needs a successful children lookup; lookup keys derive from p[0] or the wildcard
		var lookOK []cfgx.Edge
		keysOK := true
		nl := 0
		for _, b := range al.Blocks {
			for _, in := range b.Instrs {
				lk, ok := in.(*ssa.Lookup)
				if !ok || !lk.CommaOk {
					continue
				}
				nl++
				for _, r := range *lk.Referrers() {
					if ex, ok := r.(*ssa.Extract); ok && ex.Index == 1 {
						t, _ := cfgx.CondEdges(ex)
						lookOK = append(lookOK, t...)
					}
				}
				// key: element of a literal {p[0], "*"}
				for x := range flow.Strict.Back(lk.Index) {
					if cs, ok := cfgx.ConstString(x); ok && cs != "*" {
						keysOK = false
					}
					if ia, ok := x.(*ssa.IndexAddr); ok {
						if pr, ok := flow.Root(ia).(*ssa.Parameter); ok && pr == al.Params[1] {
							if n, ok := cfgx.ConstInt(ia.Index); !ok || n != 0 {
								keysOK = false
							}
						}
					}
				}
			}
		}
		c.R.Check(nl > 0 && keysOK, load.FuncName(al)+": lookup keys", c.pos(al.Pos()), "children are looked up by p[0] or the wildcard only", "the allow tree is consulted with a key other than the request's first segment or the wildcard")
		for _, b := range al.Blocks {
			if r, ok := b.Instrs[len(b.Instrs)-1].(*ssa.Return); ok {
				if v, isC := cfgx.ConstBool(cfgx.ReturnValue(r, 0)); isC && v {
					c.requireCross(load.FuncName(al)+": return true @"+b.Comment+"#"+itoa(b.Index), r, lookOK, "a successful n.children[k] lookup")
				} else if !isC {
					c.R.Bad(load.FuncName(al)+": computed return", c.pos(r.Pos()), "Allowed returns a computed value; the rule only recognises constant returns guarded by lookups")
				}
			}
		}
		// recursion passes the tail
		for _, rc := range calls(al, "(*"+xp+pkg+".node).Allowed") {
			sl, ok := cfgx.CallArgs(rc)[0].(*ssa.Slice)
			good := ok && sl.High == nil
			if good {
				n, isC := cfgx.ConstInt(sl.Low)
				good = isC && n == 1 && flow.Root(sl.X) == ssa.Value(al.Params[1])
			}
			c.R.Check(good, site(rc)+" tail", c.pos(rc.Pos()), "recurses on p[1:]", "the recursion does not consume exactly one path segment")
		}
	}
	vp := c.method(pkg, "ClusterRoleBackedValidator", "ValidatePermissionRequests")
	if vp != nil {
		ac := calls(vp, "(*"+xp+pkg+".node).Allowed")
		if c.expect("Allowed", len(ac), 1, vp) {
			_, denied := cfgx.CallCondEdges(ac[0])
			n := 0
			for _, ap := range calls(vp, "builtin.append") {
				n++
				reach, _ := cfgx.ReachableFromEdges(denied, ap, nil, nil)
				c.R.Check(reach && ap.Block().Index > ac[0].Block().Index, site(ap)+" on-denied", c.pos(ap.Pos()), "a rule is recorded as rejected on the Allowed==false edge", "the rejected list is not filled on the Allowed==false edge")
			}
			if n == 0 {
				c.R.Bad(load.FuncName(vp)+": rejected append", c.pos(vp.Pos()), "rejected rules are never collected")
			}
			loop := cfgx.LoopOf(ac[0].Block())
			good := loop != nil
			if loop != nil {
				good, _ = cfgx.OnlyHeaderExits(loop)
			}
			c.R.Check(good, load.FuncName(vp)+": checks every request", c.pos(ac[0].Pos()), "the loop over the expanded requests has no early exit", "the validation loop can exit before all expanded requests are checked")
			// the tree consulted is built in this call from the ClusterRole read in this call
			{
				fresh := true
				recv := cfgx.Receiver(ac[0])
				if recv == nil {
					recv = ac[0].Common().Args[0]
				}
				for _, leaf := range leaves(recv) {
					ci, ok := leaf.(*ssa.Call)
					if !ok || !strings.HasSuffix(cfgx.CalleeName(ci), pkg+".newNode") {
						fresh = false
					}
				}
				gets := calls(vp, clientGet)
				c.R.Check(fresh && len(gets) > 0 && cfgx.MustPass(gets[0].Block(), ac[0].Block()), site(ac[0])+" on a fresh tree", c.pos(ac[0].Pos()), "the allow tree is a newNode() of this call, filled after the ClusterRole was read", "the allow tree consulted can be one remembered from an earlier call: a permission removed from the allow-list since then is still granted")
			}
			// the checked rules are Expand(requests...), the tree is built from Expand(cr.Rules...)
			c.R.Check(flow.Default.Any(cfgx.CallArgs(ac[0])[0], func(v ssa.Value) bool { return v == ssa.Value(vp.Params[2]) }), site(ac[0])+" of-requests", c.pos(ac[0].Pos()), "the paths checked derive from the requests parameter", "the paths checked do not derive from the requests")
		}
	}
	rp := c.method(pkg, "Rule", "path")
	if rp != nil {
		want := map[string]bool{"APIGroup": false, "Resource": false, "ResourceName": false, "Verb": false, "NonResourceURL": false}
		for _, b := range rp.Blocks {
			for _, in := range b.Instrs {
				if st, ok := in.(*ssa.Store); ok {
					if _, isIdx := st.Addr.(*ssa.IndexAddr); isIdx {
						for x := range flow.Strict.Back(st.Val) {
							for k := range want {
								if isFieldSel(x, "roles.Rule", k) {
									want[k] = true
								}
							}
						}
					}
				}
			}
		}
		var missing []string
		for k, v := range want {
			if !v {
				missing = append(missing, k)
			}
		}
		sort.Strings(missing)
		c.R.Check(len(missing) == 0, load.FuncName(rp)+": fields", c.pos(rp.Pos()), "the tree path carries group, resource, name, URL and verb", "Rule.path drops "+strings.Join(missing, ",")+": requests differing only in that field are indistinguishable")
	}
	ex := c.fn(pkg, "Expand")
	if ex != nil {
		// names defaults to the wildcard when len(ResourceNames) < 1
		good := false
		for _, lc := range cfgx.LenCmps(ex) {
			if _, p, ok := flow.AccessPathC(lc.Of); ok && strings.HasSuffix(p, "ResourceNames") {
				if lc.Eval(0) != lc.Eval(1) && lc.Eval(1) == lc.Eval(3) {
					good = true
				}
			}
		}
		// names is decided per rule: the slice ranged over in the names loop is never carried over from the previous rule
		var outer map[*ssa.BasicBlock]bool
		for _, l := range cfgx.Loops(ex) {
			if outer == nil || len(l) > len(outer) {
				outer = l
			}
		}
		carried := false
		nRanges := 0
		if outer != nil {
			oh := cfgx.LoopHeader(outer)
			for _, b := range ex.Blocks {
				for _, in := range b.Instrs {
					// range over a []string inside the outer loop: `len(names)` of the rangeindex lowering
					ci, ok := in.(*ssa.Call)
					if !ok || cfgx.CalleeName(ci) != "builtin.len" || !outer[b] {
						continue
					}
					nRanges++
					for _, leaf := range append(phiLeaves(ci.Call.Args[0]), ci.Call.Args[0]) {
						if ph, ok := leaf.(*ssa.Phi); ok && ph.Block() == oh {
							carried = true
						}
					}
				}
			}
		}
		c.R.Check(!carried && nRanges > 0, load.FuncName(ex)+": names decided per rule", c.pos(ex.Pos()), "no slice ranged over inside the per-rule loop is carried over from the previous rule", "the names a rule is expanded with can be carried over from the previous rule: a rule without resourceNames is checked more narrowly than it is granted")
		c.R.Check(good, load.FuncName(ex)+": empty names = wildcard", c.pos(ex.Pos()), "an empty ResourceNames list is separated from non-empty ones (and mapped to the wildcard)", "Expand does not treat an empty ResourceNames list specially")
	}

	c.R.Rule("R18.8", "no allow-list, no grant: the validator answers only after it read the allow-list ClusterRole; a binding is rewritten whenever its subjects differ in either direction", 3,
		"with the allow-list role missing every request would count as approved; a subject dropped from the desired binding would keep its access")
	if vp := c.method(pkg, "ClusterRoleBackedValidator", "ValidatePermissionRequests"); vp != nil {
		gets := calls(vp, clientGet)
		if c.expect("Get(ClusterRole)", len(gets), 1, vp) {
			ev := cfgx.ErrEvents(gets[0])
			c.R.Check(len(ev.Filtered) == 0, site(gets[0])+" unfiltered", c.pos(gets[0].Pos()), "any failure to read the allow-list (NotFound included) is an error", "the error of reading the allow-list ClusterRole passes through "+strings.Join(ev.Filtered, ",")+": a missing allow-list yields (nil, nil), i.e. nothing rejected")
			n := 0
			for _, er := range cfgx.ErrorReturnsFrom(entryEdges(vp), nil) {
				if er.NonNil || classifyErr(er.Val) == "nonnil" {
					continue
				}
				n++
				c.requireCross(load.FuncName(vp)+": verdict only after the allow-list was read #"+itoa(n), er.At, okEdges(gets[0]), "ok(Get(allow-list ClusterRole))")
			}
			if n == 0 {
				c.R.Unknown(load.FuncName(vp)+": verdict returns", c.pos(vp.Pos()), "no return without error found")
			}
		}
	}
	if bd := c.fn("internal/controller/rbac/provider/binding", "ClusterRoleBindingsDiffer"); bd != nil {
		sym := false
		for _, x := range cfgx.Calls(bd, nil) {
			switch cfgx.CalleeName(x) {
			case "github.com/google/go-cmp/cmp.Equal", "reflect.DeepEqual":
				a := x.Common().Args
				_, p0, _ := flow.AccessPathC(underIface(a[0]))
				_, p1, _ := flow.AccessPathC(underIface(a[1]))
				r0, _, _ := flow.AccessPathC(underIface(a[0]))
				r1, _, _ := flow.AccessPathC(underIface(a[1]))
				if p0 == "Subjects" && p1 == "Subjects" && r0 != r1 {
					sym = true
				}
			}
		}
		c.R.Check(sym, load.FuncName(bd)+": subjects compared as whole values", c.pos(bd.Pos()), "current and desired subjects are compared with a symmetric whole-value equality", "the subjects of the current and the desired binding are not compared with cmp.Equal/reflect.DeepEqual: a one-sided comparison leaves stale subjects bound")
	}

	c.R.Rule("R18.7", "roles, bindings and XRD roles are applied with MustBeControllableBy(owner.GetUID())", 3,
		"a ClusterRole/Binding with the derived name that another owner controls would be overwritten")
	for _, a := range applies {
		c.requireGuardedApply(a, "v1.ProviderRevision", "the provider's ClusterRoles")
	}
	if b := c.method("internal/controller/rbac/provider/binding", "Reconciler", "Reconcile"); b != nil {
		ap := calls(b, applicatorApply)
		if c.expect("Apply", len(ap), 1, b) {
			c.requireGuardedApply(ap[0], "v1.ProviderRevision", "the provider's ClusterRoleBinding")
		}
	}
	if d := c.method("internal/controller/rbac/definition", "Reconciler", "Reconcile"); d != nil {
		ap := calls(d, applicatorApply)
		if c.expect("Apply", len(ap), 1, d) {
			c.requireGuardedApply(ap[0], "v1.CompositeResourceDefinition", "the XRD's ClusterRoles")
		}
	}
}

// c18policyLiterals checks every store into a PolicyRule's APIGroups/Resources in fn.
func c18policyLiterals(c *Ctx, fn *ssa.Function, ok func(field string, v ssa.Value) (bool, string)) {
	n := map[string]int{}
	for _, b := range fn.Blocks {
		for _, in := range b.Instrs {
			st, isSt := in.(*ssa.Store)
			if !isSt {
				continue
			}
			for _, f := range []string{"APIGroups", "Resources"} {
				if isFieldSel(st.Addr, "rbac/v1.PolicyRule", f) {
					n[f]++
					good, why := ok(f, st.Val)
					c.R.Check(good, load.FuncName(fn)+": PolicyRule."+f+" #"+itoa(n[f]), c.pos(st.Pos()), why, "a PolicyRule."+f+" literal is not built from the defined resources ("+why+")")
				}
			}
		}
	}
	if n["APIGroups"] == 0 || n["Resources"] == 0 {
		c.R.Unknown(load.FuncName(fn)+": PolicyRule literals", c.pos(fn.Pos()), "no PolicyRule literals found")
	}
}

// sliceElems returns the element values stored into the backing array of a
// slice literal value.
func sliceElems(v ssa.Value) []ssa.Value {
	sl, ok := v.(*ssa.Slice)
	if !ok {
		return nil
	}
	al, ok := sl.X.(*ssa.Alloc)
	if !ok {
		return nil
	}
	var out []ssa.Value
	for _, r := range *al.Referrers() {
		if ia, ok := r.(*ssa.IndexAddr); ok && ia.Referrers() != nil {
			for _, rr := range *ia.Referrers() {
				if st, ok := rr.(*ssa.Store); ok && st.Addr == ia {
					out = append(out, st.Val)
				}
			}
		}
	}
	return out
}

func sliceConstStrings(v ssa.Value) ([]string, bool) {
	el := sliceElems(v)
	if len(el) == 0 {
		return nil, false
	}
	var out []string
	for _, e := range el {
		s, ok := cfgx.ConstString(e)
		if !ok {
			return nil, false
		}
		out = append(out, s)
	}
	return out, true
}

func pathOf(v ssa.Value) (string, ssa.Value, bool) {
	r, p, ok := flow.AccessPathC(v)
	return p, r, ok
}

func rootOf(v ssa.Value) ssa.Value {
	r, _, _ := flow.AccessPathC(v)
	return r
}

func itoa(n int) string {
	if n == 0 {
		return "0"
	}
	s := ""
	neg := n < 0
	if neg {
		n = -n
	}
	for n > 0 {
		s = string(rune('0'+n%10)) + s
		n /= 10
	}
	if neg {
		s = "-" + s
	}
	return s
}

func boolStr(b bool, s string) string {
	if b {
		return s
	}
	return ""
}

// firstSegment: v is the first "/"-separated segment of a string, in one of
// the enumerated idioms: strings.Split(x,"/")[0], strings.SplitN(x,"/",n)[0],
// first result of strings.Cut(x,"/").
func firstSegment(v ssa.Value, at *ssa.BasicBlock) bool {
	// handed on through the result temporary of an extracted helper: the one non-zero value it can be
	if phi, isPhi := v.(*ssa.Phi); isPhi {
		// only the operands that can feasibly reach the comparison count: the "" of the helper's error
		// return is cut off by the error test, a "" returned for "no slash" is not
		if at != nil {
			if w := cfgx.ResolveAt(phi, at); w != ssa.Value(phi) {
				return firstSegment(w, at)
			}
		}
		return false
	}
	// load of IndexAddr(split result, 0)
	if ld, ok := v.(*ssa.UnOp); ok {
		if ia, ok := ld.X.(*ssa.IndexAddr); ok {
			if n, ok := cfgx.ConstInt(ia.Index); ok && n == 0 {
				if ci, ok := ia.X.(*ssa.Call); ok {
					nm := cfgx.CalleeName(ci)
					if nm == "strings.Split" || nm == "strings.SplitN" {
						sep, ok := cfgx.ConstString(ci.Call.Args[1])
						return ok && sep == "/"
					}
				}
			}
		}
	}
	if ex, ok := v.(*ssa.Extract); ok && ex.Index == 0 {
		if ci, ok := ex.Tuple.(*ssa.Call); ok && cfgx.CalleeName(ci) == "strings.Cut" {
			sep, ok := cfgx.ConstString(ci.Call.Args[1])
			return ok && sep == "/"
		}
	}
	return false
}
