package rules

import (
	"go/token"
	"go/types"
	"strings"

	"golang.org/x/tools/go/ssa"

	"xpcheck/internal/cfgx"
	"xpcheck/internal/flow"
	"xpcheck/internal/load"
)

const xpv1p = "github.com/crossplane/crossplane-runtime/apis/common/v1"

func init() {
	register(&Property{
		ID:  "C05",
		Run: c05,
		Explanation: "Decides that Ready/Synced cannot overstate and cannot be forged, as shapes of the code: (R5.1) every SetConditions / SetClaimConditionTypes whose argument comes from function-supplied or stored conditions is reached only over the IsSystemConditionType==false edge; " +
			"(R5.2) after a create-capable apply was rejected as invalid and composition continues, the resource is recorded without Synced=true (pipeline) / its slot is nil-ed and the nil slot yields Synced=false, Ready=false (P&T); Synced=true records need the apply's success edge; " +
			"(R5.3) the reconciler collects every unsynced and every unready composed resource with no early exit and passes both to updateXRConditions; (R5.4) on every loop-free path of updateXRConditions (phi and slot definitions resolved along the path, branch on readyCond.Status pruned by the constructors' constant Status) a Ready condition with Status True reaches SetConditions only if no resource is unready and the composite was not marked unready, or it was explicitly marked ready, and a Synced condition with Status True only if no resource is unsynced; " +
			"(R5.5) after a Compose error the status write is preceded by SetConditions(ReconcileError), and unseen custom conditions are set Unknown; (R5.6) a claim is marked Available only after ok(Sync) on the edge where the synced XR's Ready condition is true. (R5.8) the default readiness of a composed resource is the conjunction of its readiness checks: after a check reported not-ready every return reports not-ready. R5.8 also requires that an empty list of checks (nil or not) is decided by the Ready condition.",
		NotDecided:  []string{"readiness-check evaluation", "conditions a function writes through the desired XR status between the status patch and the final status update (transient)", "the truth of the per-resource Ready/Synced flags themselves beyond R5.2"},
		Assumptions: []string{"xpv1 condition constructors return the constant Status found in their body", "Status().Update persists the in-memory conditions"},
	})
}

// condStatus finds the constant Status of the condition value v builds
// (following With* methods to their receiver), or "".
func condStatus(v ssa.Value) (status, ctor string) {
	for depth := 0; depth < 8; depth++ {
		ci, ok := v.(*ssa.Call)
		if !ok {
			return "", ""
		}
		f := ci.Call.StaticCallee()
		if f == nil || f.Pkg == nil || f.Pkg.Pkg.Path() != xpv1p {
			return "", ""
		}
		if f.Signature.Recv() != nil && strings.HasPrefix(f.Name(), "With") {
			v = ci.Call.Args[0]
			continue
		}
		for _, b := range f.Blocks {
			for _, in := range b.Instrs {
				if st, ok := in.(*ssa.Store); ok && isFieldSel(st.Addr, "common/v1.Condition", "Status") {
					if s, ok := cfgx.ConstString(st.Val); ok {
						return s, f.Name()
					}
				}
			}
		}
		return "", f.Name()
	}
	return "", ""
}

// slotValue returns the value an Alloc holds when control is at the end of the
// path (the last Store to it along the path), or nil.
func slotValue(p cfgx.Path, a *ssa.Alloc, before ssa.Instruction) ssa.Value {
	var last ssa.Value
	for _, b := range p {
		for _, in := range b.Instrs {
			if in == before {
				return last
			}
			if st, ok := in.(*ssa.Store); ok && st.Addr == a {
				last = st.Val
			}
		}
	}
	return last
}

func c05(c *Ctx) {
	rec := c.method(pkgComposite, "Reconciler", "Reconcile")
	hc := c.method(pkgComposite, "Reconciler", "handleCommonCompositionResult")

	c.R.Rule("R5.1", "system conditions are filtered: SetConditions/SetClaimConditionTypes with non-constructor arguments need IsSystemConditionType==false", 3,
		"a function (or a stale stored condition) could overwrite the system Ready/Synced conditions")
	isSys := xpv1p + ".IsSystemConditionType"
	for _, fn := range []*ssa.Function{hc, rec} {
		if fn == nil {
			continue
		}
		_, notSys, n := boolCallEdges(fn, isSys, nil)
		for _, x := range cfgx.Calls(fn, nil) {
			name := cfgx.CalleeName(x)
			isSet := strings.HasSuffix(name, "composite.Unstructured).SetConditions")
			isClaimTypes := strings.HasSuffix(name, "composite.Unstructured).SetClaimConditionTypes")
			_ = isClaimTypes // SetClaimConditionTypes rejects system types itself (crossplane-runtime): no gate demanded
			if !isSet {
				continue
			}
			args := cfgx.CallArgs(x)
			if len(args) == 0 {
				continue
			}
			elems := sliceElems(args[0])
			external := len(elems) == 0
			for _, e := range elems {
				if st, _ := condStatus(e); st == "" {
					if _, ok := e.(*ssa.Phi); ok {
						// phi of constructor calls (updateXRConditions style) is still constructor-built
						allCtor := true
						for x := range flow.Strict.Back(e) {
							if ci, ok := x.(*ssa.Call); ok {
								if s, _ := condStatus(ci); s == "" {
									allCtor = false
								}
							}
						}
						if allCtor {
							continue
						}
					}
					external = true
				}
			}
			if !external {
				continue
			}
			if n == 0 {
				c.R.Bad(site(x)+" system-filtered", c.pos(x.Pos()), "conditions from outside are set but IsSystemConditionType is never consulted")
				continue
			}
			c.requireCross(site(x)+" system-filtered", x, notSys, "IsSystemConditionType(type)==false")
		}
		// the filter is applied to the condition that is set (same range element)
		for _, s := range calls(fn, isSys) {
			a := cfgx.CallArgs(s)[0]
			_, p, ok := flow.AccessPathC(a)
			c.R.Check(ok && strings.HasSuffix(p, "Type"), site(s)+" on-type", c.pos(s.Pos()), "tests the condition's Type", "IsSystemConditionType is not applied to the condition's Type field")
		}
	}

	c.R.Rule("R5.2", "invalid apply ⇒ unsynced: the continuing IsInvalid arm records the resource without Synced=true / nils its slot; Synced=true needs ok(apply)", 5,
		"a composed resource the API server rejected would be counted as synced and the XR reported Synced=True/Ready=True")
	fc, pt := c.composerMethods()
	if fc != nil {
		s := findComposerSites(fc)
		if len(s.creates) == 1 {
			cr := s.creates[0]
			loop := cfgx.LoopOf(cr.Block())
			var invalidTrue []cfgx.Edge
			for _, iv := range calls(fc, kerr+".IsInvalid") {
				if flow.Strict.Any(cfgx.CallArgs(iv)[0], func(v ssa.Value) bool { return v == cfgx.ErrorResult(cr) }) {
					t, _ := cfgx.CallCondEdges(iv)
					invalidTrue = append(invalidTrue, t...)
				}
			}
			// classify ComposedResource literals appended to the result
			through := map[*ssa.BasicBlock]bool{}
			for _, ap := range calls(fc, "builtin.append") {
				if !strings.HasSuffix(ap.Common().Args[0].Type().String(), "composite.ComposedResource") {
					continue
				}
				synced := composedLiteralField(ap.Common().Args[1], "Synced")
				switch synced {
				case "true":
					c.requireCross(site(ap)+" synced-needs-ok-apply", ap, okEdges(cr), "ok(apply of the composed resource)")
					if r, w := cfgx.ReachableFromEdges(invalidTrue, ap, cfgx.BackEdges(fc), c.posf()); r {
						c.R.Bad(site(ap)+" synced-on-invalid", c.pos(ap.Pos()), "a Synced=true record is reachable from the IsInvalid arm", w...)
					}
				case "false", "unset":
					through[ap.Block()] = true
				case "flag":
					// Synced is a local flag: true may only arrive over a path on which
					// the apply succeeded, never from the IsInvalid arm
					phi := lastFlagPhi
					for i, e := range phi.Edges {
						if b, _ := cfgx.ConstBool(e); !b {
							continue
						}
						pred := phi.Block().Preds[i]
						term := pred.Instrs[len(pred.Instrs)-1]
						isOK := false
						for _, oe := range okEdges(cr) {
							if oe.From == pred && oe.To() == phi.Block() {
								isOK = true
							}
						}
						if !isOK {
							c.requireCross(site(ap)+" synced-needs-ok-apply", term, okEdges(cr), "ok(apply of the composed resource)")
						} else {
							c.R.OK(site(ap)+" synced-needs-ok-apply", c.pos(ap.Pos()), "the flag is true only over the success edge of the apply")
						}
						if r, w := cfgx.ReachableFromEdges(invalidTrue, term, cfgx.BackEdges(fc), c.posf()); r && !isOK {
							c.R.Bad(site(ap)+" synced-on-invalid", c.pos(ap.Pos()), "the Synced flag can still be true on the IsInvalid arm", w...)
						}
					}
					through[ap.Block()] = true
				default:
					c.R.Unknown(site(ap)+" synced-literal", c.pos(ap.Pos()), "Synced is not a constant in this ComposedResource literal")
				}
			}
			if len(invalidTrue) == 0 || loop == nil {
				c.R.Unknown(load.FuncName(fc)+": IsInvalid arm", c.pos(cr.Pos()), "no IsInvalid(err) test of the apply error found")
			} else {
				h := cfgx.LoopHeader(loop)
				r, w := cfgx.ReachesAvoidingBlocks(union(invalidTrue, failEdges(cr)), h, through, nil, c.posf())
				c.R.Check(!r, load.FuncName(fc)+": invalid arm records unsynced", c.pos(cr.Pos()), "the continuing IsInvalid arm appends a record that is not Synced", "the IsInvalid arm continues without recording the resource as unsynced: it silently counts as synced", w...)
			}
		} else {
			c.R.Unknown(load.FuncName(fc)+": apply site", c.pos(fc.Pos()), "expected one create-capable write")
		}
	}
	if pt != nil {
		s := findComposerSites(pt)
		if len(s.creates) == 1 {
			cr := s.creates[0]
			loop := cfgx.LoopOf(cr.Block())
			var invalidTrue []cfgx.Edge
			for _, iv := range calls(pt, kerr+".IsInvalid") {
				if flow.Strict.Any(cfgx.CallArgs(iv)[0], func(v ssa.Value) bool { return v == cfgx.ErrorResult(cr) }) {
					t, _ := cfgx.CallCondEdges(iv)
					invalidTrue = append(invalidTrue, t...)
				}
			}
			through := map[*ssa.BasicBlock]bool{}
			var cdsSlice ssa.Value
			for _, b := range pt.Blocks {
				for _, in := range b.Instrs {
					if st, ok := in.(*ssa.Store); ok {
						if ia, ok := st.Addr.(*ssa.IndexAddr); ok && strings.HasSuffix(ia.X.Type().String(), "[]"+tComposedIf) {
							cdsSlice = ia.X
							if cfgx.IsNilConst(st.Val) {
								through[b] = true
							}
						}
					}
				}
			}
			if len(invalidTrue) == 0 || loop == nil || cdsSlice == nil {
				c.R.Unknown(load.FuncName(pt)+": IsInvalid arm", c.pos(cr.Pos()), "no IsInvalid(err) test of the apply error found")
			} else {
				h := cfgx.LoopHeader(loop)
				// from every failure edge of the apply (not only the IsInvalid arm)
				r, w := cfgx.ReachesAvoidingBlocks(union(invalidTrue, failEdges(cr)), h, through, nil, c.posf())
				c.R.Check(!r, load.FuncName(pt)+": invalid arm nils cds[i]", c.pos(cr.Pos()), "the continuing IsInvalid arm stores nil into cds[i]", "the IsInvalid arm continues without clearing cds[i]: the rejected resource is later observed and reported Synced", w...)
				// the applied object is cds[i]
				c.R.Check(flow.Strict.Any(cfgx.CallArgs(cr)[1], func(v ssa.Value) bool { ia, ok := v.(*ssa.IndexAddr); return ok && sole(ia.X) == sole(cdsSlice) }), site(cr)+" applies cds[i]", c.pos(cr.Pos()), "the object applied is cds[i]", "the object applied is not the slot that is later observed")
			}
			// third loop: resources[i] literals
			nilEdges, nonNilEdges := nilTestsOfSlot(pt, cdsSlice)
			nLit := 0
			for _, b := range pt.Blocks {
				for _, in := range b.Instrs {
					st, ok := in.(*ssa.Store)
					if !ok {
						continue
					}
					ia, ok := st.Addr.(*ssa.IndexAddr)
					if !ok || !strings.HasSuffix(ia.X.Type().String(), "[]"+xp+pkgComposite+".ComposedResource") {
						continue
					}
					nLit++
					synced := composedLiteralField(st.Val, "Synced")
					ready := composedLiteralField(st.Val, "Ready")
					if synced == "true" {
						c.requireCross(load.FuncName(pt)+": Synced=true record needs cd!=nil", st, nonNilEdges, "cds[i] != nil")
					} else {
						c.R.Check((synced == "false" || synced == "unset") && (ready == "false" || ready == "unset"), load.FuncName(pt)+": nil slot record", c.pos(st.Pos()), "a missing resource is recorded Synced=false, Ready=false", "the record for an unrendered/rejected resource is not constant Synced=false, Ready=false")
					}
				}
			}
			if nLit < 2 || len(nilEdges) == 0 {
				c.R.Unknown(load.FuncName(pt)+": result records", c.pos(pt.Pos()), "expected the nil-slot and the observed records")
			} else {
				// on the nil edge of the observe loop a record is stored before continuing
				var obsNil []cfgx.Edge
				thr := map[*ssa.BasicBlock]bool{}
				for _, b := range pt.Blocks {
					for _, in := range b.Instrs {
						if st, ok := in.(*ssa.Store); ok {
							if ia, ok := st.Addr.(*ssa.IndexAddr); ok && strings.HasSuffix(ia.X.Type().String(), "[]"+xp+pkgComposite+".ComposedResource") {
								thr[b] = true
							}
						}
					}
				}
				for _, e := range nilEdges {
					for b := range thr {
						if l := cfgx.LoopOf(b); l != nil && l[e.From] {
							obsNil = append(obsNil, e)
						}
					}
				}
				if len(obsNil) > 0 {
					l := cfgx.LoopOf(obsNil[0].From)
					// no iteration of the observe loop ends without a record having been stored
					// (before or after the nil test)
					r, w := cfgx.LoopBypass(l, thr, nil, c.posf())
					c.R.Check(!r, load.FuncName(pt)+": every template gets a record", c.pos(firstPos(obsNil[0].From)), "a nil slot still produces a (not ready, not synced) record", "a nil slot produces no record: the XR would not see the resource as unready/unsynced", w...)
				}
			}
		}
	}

	c.R.Rule("R5.3", "unready/unsynced are collected completely and passed to updateXRConditions", 4,
		"a resource missing from the unsynced/unready sets lets Ready/Synced=True through")
	if rec != nil {
		up := calls(rec, xp+pkgComposite+".updateXRConditions")
		if c.expect("updateXRConditions", len(up), 1, rec) && len(cfgx.CallArgs(up[0])) < 4 {
			c.R.Unknown(load.FuncName(rec)+": updateXRConditions arguments", c.pos(up[0].Pos()), "updateXRConditions no longer takes (xr, unsynced, unready, res): the collections it decides on cannot be identified")
		} else if len(up) == 1 {
			a := cfgx.CallArgs(up[0])
			for i, fld := range []string{"Synced", "Ready"} {
				var apps []ssa.CallInstruction
				for _, ap := range calls(rec, "builtin.append") {
					if flow.Strict.Any(a[1+i], func(v ssa.Value) bool { return v == ap.Value() }) {
						apps = append(apps, ap)
					}
				}
				if len(apps) != 1 {
					c.R.Bad(load.FuncName(rec)+": un"+strings.ToLower(fld)+" collection", c.pos(up[0].Pos()), "the slice passed to updateXRConditions is not filled by exactly one append")
					continue
				}
				ap := apps[0]
				var notF []cfgx.Edge
				for _, b := range rec.Blocks {
					for _, in := range b.Instrs {
						if ld, ok := in.(*ssa.UnOp); ok && ld.Op == token.MUL {
							if fa, ok := ld.X.(*ssa.FieldAddr); ok && isFieldSel(fa, "composite.ComposedResource", fld) {
								_, f := cfgx.CondEdges(ld)
								notF = append(notF, f...)
							}
						}
						if fv, ok := in.(*ssa.Field); ok && isFieldSel(fv, "composite.ComposedResource", fld) {
							_, f := cfgx.CondEdges(fv)
							notF = append(notF, f...)
						}
					}
				}
				c.requireCross(site(ap)+" on-!"+fld, ap, notF, "cd."+fld+"==false")
				loop := cfgx.LoopOf(ap.Block())
				if loop == nil {
					c.R.Bad(site(ap)+" in-loop", c.pos(ap.Pos()), "not inside the loop over res.Composed")
					continue
				}
				r, w := cfgx.ReachesAvoidingBlocks(notF, cfgx.LoopHeader(loop), map[*ssa.BasicBlock]bool{ap.Block(): true}, nil, c.posf())
				c.R.Check(!r, site(ap)+" always-on-!"+fld, c.pos(ap.Pos()), "every resource with "+fld+"==false is appended", "a resource with "+fld+"==false can be left out of the collection", w...)
				// the test itself is made for every resource: no iteration reaches the
				// next one without passing a test of cd.<fld>
				tests := map[*ssa.BasicBlock]bool{}
				for _, e := range notF {
					tests[e.From] = true
				}
				hd := cfgx.LoopHeader(loop)
				var entry []cfgx.Edge
				for i, sc := range hd.Succs {
					if loop[sc] {
						entry = append(entry, cfgx.Edge{From: hd, Idx: i})
					}
				}
				r2, w2 := cfgx.ReachesAvoidingBlocks(entry, hd, tests, nil, c.posf())
				c.R.Check(!r2 && len(entry) > 0, site(ap)+" every-resource-tested-for-"+fld, c.pos(ap.Pos()), "every iteration tests cd."+fld, "an iteration can finish without testing cd."+fld+" (the test is nested under another condition): a resource that is not "+strings.ToLower(fld)+" is left out of the collection", w2...)
				okx, _ := cfgx.OnlyHeaderExits(loop)
				c.R.Check(okx, site(ap)+" no-early-exit", c.pos(ap.Pos()), "the collection loop has no early exit", "the collection loop can exit early")
				// ranges over res.Composed of this reconcile's Compose
				c.R.Check(flow.Strict.Any(ap.Common().Args[1], func(v ssa.Value) bool { return isFieldSel(v, "composite.CompositionResult", "Composed") }), site(ap)+" from-res.Composed", c.pos(ap.Pos()), "elements come from res.Composed", "the elements collected do not come from res.Composed")
			}
			comp := calls(rec, "("+xp+pkgComposite+".Composer).Compose")
			if len(comp) == 1 {
				resV := cfgx.TupleResult(comp[0], 0)
				c.R.Check(flow.Strict.Any(a[3], func(v ssa.Value) bool { return v == resV }), site(up[0])+" res", c.pos(up[0].Pos()), "res is this reconcile's Compose result", "updateXRConditions is not given this reconcile's Compose result")
			}
		}
	}

	c.R.Rule("R5.4", "updateXRConditions: path-by-path, Status-True Ready/Synced reach SetConditions only under the stated conditions", 6,
		"Ready=True or Synced=True reported while a composed resource is unready/unsynced or the pipeline marked the XR unready")
	if ux := c.fn(pkgComposite, "updateXRConditions"); ux != nil {
		c05updateXR(c, ux)
	}

	c.R.Rule("R5.5", "compose error ⇒ Synced false; unseen custom conditions become Unknown", 3,
		"after a failed composition the XR would keep Synced=True / stale custom conditions")
	if rec != nil {
		comp := calls(rec, "("+xp+pkgComposite+".Composer).Compose")
		if c.expect("Compose", len(comp), 1, rec) {
			ev := cfgx.ErrEvents(comp[0])
			through := map[*ssa.BasicBlock]bool{}
			for _, x := range cfgx.Calls(rec, nil) {
				if strings.HasSuffix(cfgx.CalleeName(x), "composite.Unstructured).SetConditions") {
					for _, e := range sliceElems(cfgx.CallArgs(x)[0]) {
						if _, ctor := condStatus(e); ctor == "ReconcileError" {
							through[x.Block()] = true
						}
					}
				}
			}
			n := 0
			for _, su := range calls(rec, statusUpdate) {
				if r, _ := cfgx.ReachableFromEdges(ev.Fail, su, ev.OK, nil); !r {
					continue
				}
				n++
				r, w := cfgx.ReachesAvoidingBlocks(ev.Fail, su.Block(), through, ev.OK, c.posf())
				c.R.Check(!r, site(su)+" after-ReconcileError", c.pos(su.Pos()), "on the Compose failure path the status write is preceded by SetConditions(ReconcileError)", "a status write on the Compose failure path is not preceded by SetConditions(ReconcileError)", w...)
			}
			if n == 0 {
				c.R.Bad(load.FuncName(rec)+": failure status write", c.pos(comp[0].Pos()), "no status write on the Compose failure path")
			}
			// Unknown marking
			found := false
			for _, b := range rec.Blocks {
				for _, in := range b.Instrs {
					st, ok := in.(*ssa.Store)
					if !ok || !isFieldSel(st.Addr, "common/v1.Condition", "Status") {
						continue
					}
					if s, ok := cfgx.ConstString(st.Val); ok && s == "Unknown" {
						found = true
						if r, _ := cfgx.ReachableFromEdges(ev.Fail, st, ev.OK, nil); !r {
							c.R.Bad(load.FuncName(rec)+": Unknown marking on failure path", c.pos(st.Pos()), "the Unknown marking is not on the Compose failure path")
						}
						// gated by !conditionTypesSeen[type]
						var unseen []cfgx.Edge
						for _, bb := range rec.Blocks {
							for _, i2 := range bb.Instrs {
								if lk, ok := i2.(*ssa.Lookup); ok && !lk.CommaOk && isBoolMap(lk.X.Type()) {
									_, f := cfgx.CondEdges(lk)
									unseen = append(unseen, f...)
								}
							}
						}
						c.requireCross(load.FuncName(rec)+": Unknown only for unseen types", st, unseen, "conditionTypesSeen[type]==false")
						l := cfgx.LoopOf(st.Block())
						if l != nil {
							okx, _ := cfgx.OnlyHeaderExits(l)
							c.R.Check(okx, load.FuncName(rec)+": Unknown loop complete", c.pos(st.Pos()), "the loop over existing conditions has no early exit", "the loop that marks unseen conditions Unknown can exit early")
						}
					}
				}
			}
			c.R.Check(found, load.FuncName(rec)+": Unknown marking exists", c.pos(comp[0].Pos()), "unseen custom conditions are set to Unknown", "custom conditions not re-asserted after a fatal error are not set Unknown")
		}
	}

	c.R.Rule("R5.7", "explicit XR readiness is read from the final desired state: after the pipeline, from the last step's desired composite", 2,
		"a readiness mark that a later step retracted (READY_UNSPECIFIED) would stick: the XR is reported Ready although its composed resources are not")
	if fc != nil {
		var loop map[*ssa.BasicBlock]bool
		var hdr *ssa.BasicBlock
		if r := calls(fc, runFnInv); len(r) == 1 {
			loop = cfgx.LoopOf(r[0].Block())
			if loop != nil {
				hdr = cfgx.LoopHeader(loop)
			}
		}
		n := 0
		for _, b := range fc.Blocks {
			for _, in := range b.Instrs {
				st, ok := in.(*ssa.Store)
				if !ok || !isFieldSel(st.Addr, "composite.CompositeResource", "Ready") {
					continue
				}
				n++
				c.R.Check(loop != nil && !loop[b], load.FuncName(fc)+": composite Ready set after the pipeline #"+itoa(n), c.pos(st.Pos()), "the explicit readiness is taken once, after the last step", "the XR's explicit readiness is set inside the pipeline loop: an earlier step's mark survives a later step that does not repeat it")
			}
		}
		nr := 0
		for _, x := range cfgx.Calls(fc, nil) {
			if !strings.HasSuffix(cfgx.CalleeName(x), "v1.Resource).GetReady") {
				continue
			}
			gc, ok := cfgx.Receiver(x).(*ssa.Call)
			if !ok || !strings.HasSuffix(cfgx.CalleeName(gc), "v1.State).GetComposite") {
				continue
			}
			nr++
			// the receiver is the loop-carried desired state (possibly handed on through a result temporary)
			isPhi := false
			if hdr != nil {
				for _, in := range hdr.Instrs {
					if hp, ok := in.(*ssa.Phi); ok && carries(cfgx.ResolveAt(cfgx.Receiver(gc), gc.Block()), hp) {
						isPhi = true
					}
				}
			}
			c.R.Check(loop != nil && !loop[x.Block()] && isPhi, site(x)+" final-desired", c.pos(x.Pos()), "reads the readiness of the last step's desired composite", "the XR readiness is not read from the final desired state")
		}
		if n == 0 || nr == 0 {
			c.R.Unknown(load.FuncName(fc)+": composite readiness", c.pos(fc.Pos()), "expected the desired composite's GetReady() to be read and stored into CompositeResource.Ready")
		}
	}

	c.R.Rule("R5.6", "claim readiness: Available only after ok(Sync) on the edge where the XR's Ready condition is true", 2,
		"a claim would report Ready=True although its XR is not ready or was not synced in this reconcile")
	if cr := c.method("internal/controller/apiextensions/claim", "Reconciler", "Reconcile"); cr != nil {
		sync := calls(cr, "("+xp+"internal/controller/apiextensions/claim.CompositeSyncer).Sync")
		var readyTrue []cfgx.Edge
		for _, ict := range calls(cr, xprt+"resource.IsConditionTrue") {
			arg := cfgx.CallArgs(ict)[0]
			okArg := false
			for _, ci := range flow.Strict.CallsIn(arg) {
				if strings.HasSuffix(cfgx.CalleeName(ci), "composite.Unstructured).GetCondition") {
					if s, ok := cfgx.ConstString(cfgx.CallArgs(ci)[0]); ok && s == "Ready" {
						okArg = true
					}
				}
			}
			if okArg {
				t, _ := cfgx.CallCondEdges(ict)
				readyTrue = append(readyTrue, t...)
			}
		}
		n := 0
		for _, x := range cfgx.Calls(cr, nil) {
			if !strings.HasSuffix(cfgx.CalleeName(x), "claim.Unstructured).SetConditions") {
				continue
			}
			for _, e := range sliceElems(cfgx.CallArgs(x)[0]) {
				if st, ctor := condStatus(e); ctor == "Available" || (st == "True" && ctor != "ReconcileSuccess") {
					n++
					if len(sync) == 1 {
						c.requireCross(site(x)+" after-sync", x, okEdges(sync[0]), "ok(Sync)")
					}
					c.requireCross(site(x)+" xr-ready", x, readyTrue, "IsConditionTrue(xr.GetCondition(Ready))==true")
				}
			}
		}
		if n == 0 || len(sync) != 1 {
			c.R.Unknown(load.FuncName(cr)+": Available", c.pos(cr.Pos()), "expected one Sync call and a SetConditions(Available())")
		}
	}

	c.R.Rule("R5.8", "the default readiness of a composed resource is the conjunction of its checks", 1,
		"a composed resource with one failing readiness check would be counted ready, and the XR Ready although a desired resource is not")
	if ir := c.fn(pkgComposite, "IsReady"); ir != nil {
		n := 0
		for _, x := range cfgx.Calls(ir, nil) {
			if !strings.HasSuffix(cfgx.CalleeName(x), "ReadinessCheck).IsReady") {
				continue
			}
			n++
			ok := cfgx.TupleResult(x, 0)
			if ok == nil {
				c.R.Bad(site(x)+" verdict", c.pos(x.Pos()), "the verdict of a readiness check is discarded")
				continue
			}
			_, fa := cfgx.CondEdges(ok)
			if len(fa) == 0 {
				c.R.Bad(site(x)+" verdict", c.pos(x.Pos()), "the verdict of a readiness check is not tested: a later check can overrule a failing one")
				continue
			}
			bad := ""
			for _, r := range cfgx.BoolReturnsFrom(fa, 0) {
				if !r.Nil {
					bad = c.pos(r.At.Pos())
				}
			}
			c.R.Check(bad == "", site(x)+" verdict", c.pos(x.Pos()), "once a check reports not-ready every return reports not-ready", "after a check reported not-ready the function can still report ready (return at "+bad+")")
		}
		if n == 0 {
			c.R.Unknown(load.FuncName(ir)+": checks", c.pos(ir.Pos()), "no ReadinessCheck.IsReady call found")
		}
		// no checks at all (nil or empty) means "ready when the Ready condition is true", never "ready unconditionally"
		rcP := ir.Params[len(ir.Params)-1]
		var none []cfgx.Edge
		for _, lc := range cfgx.LenCmps(ir) {
			if flow.Root(lc.Of) != ssa.Value(rcP) {
				continue
			}
			t, f := lc.Edges()
			if lc.Eval(0) && !lc.Eval(1) {
				none = append(none, t...)
			} else if !lc.Eval(0) && lc.Eval(1) {
				none = append(none, f...)
			}
		}
		bad := ""
		if len(none) == 0 {
			bad = "no test of len(checks) == 0"
		} else {
			for _, r := range cfgx.BoolReturnsFrom(none, 0) {
				if r.NonNil && cfgx.IsNilConst(r.Val) == false {
					if k, isC := cfgx.ConstBool(r.Val); isC && k {
						bad = "returns true unconditionally at " + c.pos(r.At.Pos())
					}
				}
			}
		}
		c.R.Check(bad == "", load.FuncName(ir)+": no checks falls back to the Ready condition", c.pos(ir.Pos()), "an empty list of checks is decided by the resource's Ready condition", "without readiness checks the resource is not judged by its Ready condition ("+bad+"): an empty, non-nil list runs no check and reports ready")
	}
}

func isBoolMap(t types.Type) bool {
	m, ok := t.Underlying().(*types.Map)
	if !ok {
		return false
	}
	b, ok := m.Elem().Underlying().(*types.Basic)
	return ok && b.Kind() == types.Bool
}

// composedLiteralField classifies the value stored into field `name` of the
// ComposedResource literal v: "true", "false", "unset" (no store), "dynamic".
// lastFlagPhi is the boolean phi of constants composedLiteralField last
// classified as "flag" (a local `synced := true; ...; synced = false`).
var lastFlagPhi *ssa.Phi

func allBoolConst(phi *ssa.Phi) bool {
	for _, e := range phi.Edges {
		if _, ok := cfgx.ConstBool(e); !ok {
			return false
		}
	}
	return len(phi.Edges) > 0
}

func composedLiteralField(v ssa.Value, name string) string {
	// v is a load of an alloc (complit) or the alloc's loaded struct
	var al *ssa.Alloc
	switch x := v.(type) {
	case *ssa.UnOp:
		if a, ok := x.X.(*ssa.Alloc); ok {
			al = a
		}
	case *ssa.Alloc:
		al = x
	case *ssa.Slice:
		// append(resources, lit) — varargs array holding the literal
		if a, ok := x.X.(*ssa.Alloc); ok {
			for _, r := range *a.Referrers() {
				if ia, ok := r.(*ssa.IndexAddr); ok {
					for _, rr := range *ia.Referrers() {
						if st, ok := rr.(*ssa.Store); ok && st.Addr == ia {
							return composedLiteralField(st.Val, name)
						}
					}
				}
			}
		}
	}
	if al == nil {
		return "dynamic"
	}
	res := "unset"
	for _, r := range *al.Referrers() {
		fa, ok := r.(*ssa.FieldAddr)
		if !ok || !isFieldSel(fa, "composite.ComposedResource", name) {
			continue
		}
		for _, rr := range *fa.Referrers() {
			if st, ok := rr.(*ssa.Store); ok && st.Addr == fa {
				if b, ok := cfgx.ConstBool(st.Val); ok {
					if b {
						res = "true"
					} else if res == "unset" {
						res = "false"
					}
				} else if phi, isPhi := st.Val.(*ssa.Phi); isPhi && allBoolConst(phi) {
					lastFlagPhi = phi
					return "flag"
				} else {
					return "dynamic"
				}
			}
		}
	}
	return res
}

// nilTestsOfSlot finds `cds[i] == nil` tests: (nil edges, non-nil edges).
func nilTestsOfSlot(fn *ssa.Function, slice ssa.Value) (isNil, notNil []cfgx.Edge) {
	if slice == nil {
		return
	}
	for _, b := range fn.Blocks {
		for _, in := range b.Instrs {
			bo, ok := in.(*ssa.BinOp)
			if !ok || (bo.Op != token.EQL && bo.Op != token.NEQ) {
				continue
			}
			var other ssa.Value
			if cfgx.IsNilConst(bo.X) {
				other = bo.Y
			} else if cfgx.IsNilConst(bo.Y) {
				other = bo.X
			} else {
				continue
			}
			if !flow.Strict.Any(other, func(v ssa.Value) bool { ia, ok := v.(*ssa.IndexAddr); return ok && sole(ia.X) == sole(slice) }) {
				continue
			}
			t, f := cfgx.CondEdges(bo)
			if bo.Op == token.EQL {
				isNil, notNil = append(isNil, t...), append(notNil, f...)
			} else {
				isNil, notNil = append(isNil, f...), append(notNil, t...)
			}
		}
	}
	return
}

func c05updateXR(c *Ctx, ux *ssa.Function) {
	var set ssa.CallInstruction
	for _, x := range cfgx.Calls(ux, nil) {
		if strings.HasSuffix(cfgx.CalleeName(x), "composite.Unstructured).SetConditions") {
			if set != nil {
				c.R.Unknown(load.FuncName(ux)+": shape", c.pos(ux.Pos()), "more than one SetConditions call: the default-plus-overrides shape this rule decides is gone")
				return
			}
			set = x
		}
	}
	if set == nil {
		c.R.Unknown(load.FuncName(ux)+": shape", c.pos(ux.Pos()), "no SetConditions call")
		return
	}
	elems := sliceElems(cfgx.CallArgs(set)[0])
	if len(elems) != 2 {
		c.R.Unknown(load.FuncName(ux)+": SetConditions args", c.pos(set.Pos()), "expected SetConditions(syncedCond, readyCond)")
		return
	}
	// facts
	var unsyncedNE, unreadyNE []cfgx.Edge
	for _, lc := range cfgx.LenCmps(ux) {
		var dst *[]cfgx.Edge
		switch lc.Of {
		case ssa.Value(ux.Params[1]):
			dst = &unsyncedNE
		case ssa.Value(ux.Params[2]):
			dst = &unreadyNE
		default:
			continue
		}
		if lc.Eval(0) == lc.Eval(1) || lc.Eval(1) != lc.Eval(7) {
			c.R.Bad(load.FuncName(ux)+": emptiness test", c.pos(lc.Bin.Pos()), "a length comparison on unsynced/unready does not separate 0 from ≥1")
			return
		}
		t, f := lc.Edges()
		if lc.Eval(1) {
			*dst = append(*dst, t...)
		} else {
			*dst = append(*dst, f...)
		}
	}
	var explicitTrue, explicitFalse []cfgx.Edge
	type statusTest struct {
		bin   *ssa.BinOp
		alloc *ssa.Alloc
		val   string
	}
	var stTests []statusTest
	for _, b := range ux.Blocks {
		for _, in := range b.Instrs {
			switch x := in.(type) {
			case *ssa.UnOp:
				if x.Op == token.MUL {
					if _, p, ok := flow.AccessPathC(x); ok && p == "Composite.Ready" {
						if bt, ok := x.Type().Underlying().(*types.Basic); ok && bt.Kind() == types.Bool {
							t, f := cfgx.CondEdges(x)
							explicitTrue, explicitFalse = append(explicitTrue, t...), append(explicitFalse, f...)
						}
					}
				}
			case *ssa.BinOp:
				if x.Op == token.NEQ || x.Op == token.EQL {
					for _, pr := range [][2]ssa.Value{{x.X, x.Y}, {x.Y, x.X}} {
						if s, ok := cfgx.ConstString(pr[1]); ok {
							if r, p, ok := flow.AccessPathC(pr[0]); ok && p == "Status" {
								if a, ok := r.(*ssa.Alloc); ok {
									stTests = append(stTests, statusTest{x, a, s})
								}
							}
						}
					}
				}
			}
		}
	}
	if len(unsyncedNE) == 0 || len(unreadyNE) == 0 || len(explicitTrue) == 0 {
		c.R.Unknown(load.FuncName(ux)+": facts", c.pos(ux.Pos()), "len(unsynced), len(unready) or *res.Composite.Ready tests not found")
		return
	}
	paths, ok := cfgx.AcyclicPaths(set, 256)
	if !ok || len(paths) == 0 {
		c.R.Unknown(load.FuncName(ux)+": paths", c.pos(ux.Pos()), "too many paths or a loop: the rule only decides the loop-free default-plus-overrides shape")
		return
	}
	resolve := func(p cfgx.Path, v ssa.Value) ssa.Value {
		v = p.Resolve(v)
		if ld, ok := v.(*ssa.UnOp); ok && ld.Op == token.MUL {
			if a, ok := ld.X.(*ssa.Alloc); ok {
				if sv := slotValue(p, a, ld); sv != nil {
					return p.Resolve(sv)
				}
			}
		}
		return v
	}
	feasible, infeasible := 0, 0
	for pi, p := range paths {
		// prune by Status tests on a slot whose current constructor is known
		okPath := true
		for _, t := range stTests {
			// value of the slot when the test executes
			sv := slotValue(p, t.alloc, t.bin)
			if sv == nil {
				continue
			}
			st, _ := condStatus(p.Resolve(sv))
			if st == "" {
				continue
			}
			tr, fa := cfgx.CondEdges(t.bin)
			holds := (st == t.val) == (t.bin.Op == token.EQL)
			if holds && p.CrossesAny(fa) || !holds && p.CrossesAny(tr) {
				okPath = false
			}
		}
		if !okPath {
			infeasible++
			continue
		}
		feasible++
		syn, _ := condStatus(resolve(p, elems[0]))
		rdy, rctor := condStatus(resolve(p, elems[1]))
		tag := load.FuncName(ux) + ": path " + itoa(pi)
		if syn == "" || rdy == "" {
			c.R.Unknown(tag, c.pos(set.Pos()), "cannot resolve the condition constructors along this path")
			continue
		}
		uS, uR := p.CrossesAny(unsyncedNE), p.CrossesAny(unreadyNE)
		eT, eF := p.CrossesAny(explicitTrue), p.CrossesAny(explicitFalse)
		desc := "unsynced>0=" + boolS(uS) + " unready>0=" + boolS(uR) + " explicitReady=" + tri(eT, eF) + " ⇒ Synced " + syn + ", Ready " + rdy + " (" + rctor + ")"
		good := true
		if syn == "True" && uS {
			good = false
		}
		if rdy == "True" && !(eT || (!uR && !eF)) {
			good = false
		}
		c.R.Check(good, tag+" ["+tri(eT, eF)+","+boolS(uS)+","+boolS(uR)+"]", c.pos(set.Pos()), desc, "overstated: "+desc)
	}
	c.R.Extra["R5.4_paths"] = map[string]int{"enumerated": len(paths), "feasible": feasible, "pruned_by_constant_status": infeasible}
}

func boolS(b bool) string {
	if b {
		return "T"
	}
	return "F"
}

func tri(t, f bool) string {
	switch {
	case t:
		return "true"
	case f:
		return "false"
	}
	return "unset"
}
