package rules

import (
	"go/token"
	"strings"

	"golang.org/x/tools/go/ssa"

	"xpcheck/internal/cfgx"
	"xpcheck/internal/flow"
)

// foreignController describes one "controlled by someone else" test:
// `c := metav1.GetControllerOf(x); c != nil && c.UID != owner.GetUID()`.
type foreignController struct {
	Get     ssa.CallInstruction // the GetControllerOf call
	Of      ssa.Value           // root of x
	Owner   ssa.Value           // root of the GetUID receiver
	Foreign []cfgx.Edge         // edges on which the controller is foreign
	Ours    []cfgx.Edge         // edges on which there is no controller or it is the owner
	NoCtrl  []cfgx.Edge         // edges on which there is no controller
	SameUID []cfgx.Edge         // edges on which the controller's UID equals the owner's
}

// foreignControllerTests finds the tests in fn.
func foreignControllerTests(fn *ssa.Function) []foreignController {
	var out []foreignController
	for _, g := range calls(fn, metaGetController) {
		fc := foreignController{Get: g, Of: flow.Root(underIface(cfgx.CallArgs(g)[0]))}
		gv := g.Value()
		// the tests as booleans: those that are true when the object is ours (== forms)
		// and those that are true when it may be foreign (!= forms)
		var oursVals, foreignVals []ssa.Value
		defer func(i int) {
			// a named boolean combining the tests: `ours := c == nil || c.UID == uid`,
			// `foreign := c != nil && c.UID != uid`, and their negations
			out[i].Ours = append(out[i].Ours, boolDisjTrueEdges(fn, oursVals)...)
			out[i].Ours = append(out[i].Ours, boolConjFalseEdges(fn, foreignVals)...)
		}(len(out))
		for _, b := range fn.Blocks {
			for _, in := range b.Instrs {
				bo, ok := in.(*ssa.BinOp)
				if !ok || (bo.Op != token.NEQ && bo.Op != token.EQL) {
					continue
				}
				// nil test of the controller pointer
				if (bo.X == gv && cfgx.IsNilConst(bo.Y)) || (bo.Y == gv && cfgx.IsNilConst(bo.X)) {
					t, f := cfgx.CondEdges(bo)
					if bo.Op == token.NEQ {
						foreignVals = append(foreignVals, bo)
					} else {
						oursVals = append(oursVals, bo)
					}
					if bo.Op == token.NEQ {
						fc.Ours = append(fc.Ours, f...)
						fc.NoCtrl = append(fc.NoCtrl, f...)
					} else {
						fc.Ours = append(fc.Ours, t...)
						fc.NoCtrl = append(fc.NoCtrl, t...)
					}
					continue
				}
				// UID comparison
				var uidSide, ownSide ssa.Value
				for _, pr := range [][2]ssa.Value{{bo.X, bo.Y}, {bo.Y, bo.X}} {
					if r, p, ok := flow.AccessPathC(pr[0]); ok && r == gv && p == "UID" {
						uidSide, ownSide = pr[0], pr[1]
					}
				}
				if uidSide == nil {
					continue
				}
				for _, ci := range flow.Strict.CallsIn(ownSide) {
					if strings.HasSuffix(cfgx.CalleeName(ci), ".GetUID") {
						if r := cfgx.Receiver(ci); r != nil {
							fc.Owner = flow.Root(underIface(r))
						}
					}
				}
				if bo.Op == token.NEQ {
					foreignVals = append(foreignVals, bo)
				} else {
					oursVals = append(oursVals, bo)
				}
				t, f := cfgx.CondEdges(bo)
				if bo.Op == token.NEQ {
					fc.Foreign, fc.Ours, fc.SameUID = append(fc.Foreign, t...), append(fc.Ours, f...), append(fc.SameUID, f...)
				} else {
					fc.Foreign, fc.Ours, fc.SameUID = append(fc.Foreign, f...), append(fc.Ours, t...), append(fc.SameUID, t...)
				}
			}
		}
		out = append(out, fc)
	}
	return out
}

// emptyNameEdges returns the edges on which `<ObjectReference>.Name == ""`.
func emptyStringFieldEdges(fn *ssa.Function, typeSuffix, field string) (isEmpty, notEmpty []cfgx.Edge) {
	for _, b := range fn.Blocks {
		for _, in := range b.Instrs {
			bo, ok := in.(*ssa.BinOp)
			if !ok || (bo.Op != token.NEQ && bo.Op != token.EQL) {
				continue
			}
			var other ssa.Value
			if s, ok := cfgx.ConstString(bo.Y); ok && s == "" {
				other = bo.X
			} else if s, ok := cfgx.ConstString(bo.X); ok && s == "" {
				other = bo.Y
			} else {
				continue
			}
			if !flow.Strict.Any(other, func(v ssa.Value) bool { return isFieldSel(v, typeSuffix, field) }) {
				continue
			}
			t, f := cfgx.CondEdges(bo)
			if bo.Op == token.EQL {
				isEmpty, notEmpty = append(isEmpty, t...), append(notEmpty, f...)
			} else {
				isEmpty, notEmpty = append(isEmpty, f...), append(notEmpty, t...)
			}
		}
	}
	return
}

// recvField reports whether the receiver of a method call derives from the
// struct field `field`.
func recvField(call ssa.CallInstruction, field string) bool {
	r := cfgx.Receiver(call)
	if r == nil {
		return false
	}
	return flow.Strict.Any(r, func(v ssa.Value) bool {
		switch x := v.(type) {
		case *ssa.FieldAddr:
			_, p, _ := flow.AccessPathC(x)
			return p == field || strings.HasSuffix(p, "."+field)
		case *ssa.Field:
			_, p, _ := flow.AccessPathC(x)
			return p == field || strings.HasSuffix(p, "."+field)
		}
		return false
	})
}

// notFoundEdgesOf returns the true edges of kerrors.IsNotFound(err) calls whose
// argument derives from the error of one of gets.
func notFoundEdgesOf(fn *ssa.Function, gets ...ssa.CallInstruction) []cfgx.Edge {
	var out []cfgx.Edge
	for _, nf := range calls(fn, kerr+".IsNotFound") {
		arg := cfgx.CallArgs(nf)[0]
		for {
			if ci, ok := arg.(*ssa.ChangeInterface); ok {
				arg = ci.X
				continue
			}
			break
		}
		t, _ := cfgx.CallCondEdges(nf)
		for _, g := range gets {
			ev := cfgx.ErrorResult(g)
			if ev == nil {
				continue
			}
			// the error itself
			if arg == ev {
				out = append(out, t...)
				continue
			}
			// an error variable assigned on several branches (cached, then uncached
			// Get): the NotFound edge speaks about g only on the paths that reach the
			// phi through the edge carrying g's error
			out = append(out, viaPhi(arg, ev, t, "", 0)...)
		}
	}
	return out
}

// viaPhi contextualises edges es for the paths on which phi-value v stands for leaf.
func viaPhi(v, leaf ssa.Value, es []cfgx.Edge, via string, depth int) []cfgx.Edge {
	phi, ok := v.(*ssa.Phi)
	if !ok || depth > 4 {
		return nil
	}
	var out []cfgx.Edge
	for i, e := range phi.Edges {
		for {
			if ci, ok := e.(*ssa.ChangeInterface); ok {
				e = ci.X
				continue
			}
			break
		}
		nv := cfgx.ViaOf(phi.Block(), i)
		if via != "" {
			nv = nv + ";" + via
		}
		if e == leaf {
			for _, x := range es {
				x.Via = nv
				out = append(out, x)
			}
		} else if _, isPhi := e.(*ssa.Phi); isPhi {
			out = append(out, viaPhi(e, leaf, es, nv, depth+1)...)
		}
	}
	return out
}
