package rules

import (
	"go/ast"
	"go/token"
	"go/types"
	"sort"
	"strings"

	"golang.org/x/tools/go/ssa"

	"xpcheck/internal/cfgx"
	"xpcheck/internal/flow"
	"xpcheck/internal/load"
	"xpcheck/internal/tables"
)

const apiV1 = "apis/apiextensions/v1"

func init() {
	register(&Property{
		ID:  "C10",
		Run: c10,
		Explanation: "Decides the structural conditions for total, non-destructive P&T rendering: (R10.1) every dispatching switch of the renderer names all constants of its enum type and its no-match path returns an error; the conversions table has an entry for every ordered pair of distinct scalar IO types; " +
			"(R10.2) every dereference of an optional pointer field of an API configuration struct is preceded on every path by a non-nil test of the same access path, by an assignment from a tested path, or by a successful Validate() of the same struct whose body rejects a nil field; (R10.3) indices derived from user-supplied integer fields are bounded on both sides before indexing; " +
			"(R10.4) no panicking type assertion on patch/transform inputs; (R10.5) patches never pass their source object to a mutating call, and a missing optional source path is a no-op while a required one is an error; (R10.6) on every feasible path (flag variables resolved by constant propagation) a rendered object is stored for application only after all three of from-XR patches, metadata rendering and name generation succeeded, render failures do not abort the other resources, and the apply loop skips nil slots. (R10.8) numeric ⇄ string conversions use the full width and base 10 (FormatFloat(…, -1, 64), ParseFloat(s, 64), ParseInt(s, 10, 64), FormatInt(i, 10)).",
		NotDecided:  []string{"purity/determinism as a function", "wildcard expansion", "transform arithmetic and the convert round-trip laws", "fmt.Sprintf with hostile formats", "the documented meaning of each transform (value-level)"},
		Assumptions: []string{"fieldpath.Paved stores deep copies (read in crossplane-runtime)", "enum constants are the declared constants of the named string types"},
	})
}

type switchSpec struct {
	pkg, recv, fn string
	enumPkg, enum string
	skip          map[string]string // constants deliberately handled by the default, with reason
}

var c10switches = []switchSpec{
	{pkgComposite, "", "ApplyToObjects", apiV1, "PatchType", nil},
	{pkgComposite, "", "Resolve", apiV1, "TransformType", nil},
	{pkgComposite, "", "ResolveMath", apiV1, "MathTransformType", nil},
	{pkgComposite, "", "ResolveString", apiV1, "StringTransformType", nil},
	{pkgComposite, "", "stringConvertTransform", apiV1, "StringConversionType", nil},
	{pkgComposite, "", "Matches", apiV1, "MatchTransformPatternType", nil},
	{pkgComposite, "ReadinessCheck", "Validate", pkgComposite, "ReadinessCheckType", nil},
	{pkgComposite, "ReadinessCheck", "IsReady", pkgComposite, "ReadinessCheckType", nil},
}

func c10(c *Ctx) {
	// c10rejected: "<function>/<constant>" whose arm on the reference tree is empty and falls into the error return
	// that unknown types get
	c10rejected := map[string]string{
		"ApplyToObjects/PatchTypePatchSet": "patch sets are resolved by ComposedTemplates before rendering; reaching ApplyToObjects with one is rejected like an unknown type",
	}
	c.R.Rule("R10.1", "exhaustive, fail-closed dispatch over every enum of the renderer; complete conversions table", 10,
		"a patch/transform type without a case is silently ignored or handled by the wrong arm")
	for _, sw := range c10switches {
		var fn *ssa.Function
		if sw.recv == "" {
			fn = c.fn(sw.pkg, sw.fn)
		} else {
			fn = c.method(sw.pkg, sw.recv, sw.fn)
		}
		T := c.P.NamedType(sw.enumPkg, sw.enum)
		if fn == nil || T == nil {
			if T == nil {
				c.R.Unknown(sw.enum, "", "enum type not found")
			}
			continue
		}
		seen := map[string]bool{}
		var caseTrue []cfgx.Edge
		var head *ssa.BasicBlock
		for _, b := range fn.Blocks {
			for _, in := range b.Instrs {
				bo, ok := in.(*ssa.BinOp)
				if !ok || !isEqOrNeq(bo) {
					continue
				}
				for _, pr := range [][2]ssa.Value{{bo.X, bo.Y}, {bo.Y, bo.X}} {
					if s, ok := cfgx.ConstString(pr[1]); ok && types.Identical(pr[1].Type(), T) {
						seen[s] = true
						t, _ := eqEdges(bo)
						caseTrue = append(caseTrue, t...)
						if head == nil || b.Index < head.Index {
							head = b
						}
					}
				}
			}
		}
		var missing []string
		consts := tables.ConstsOfType(T.Obj().Pkg(), T)
		for _, k := range consts {
			v := strings.Trim(k.Val().ExactString(), "\"")
			if !seen[v] {
				if _, rejected := c10rejected[sw.fn+"/"+k.Name()]; rejected {
					continue // no arm needed: the no-match path (checked below to fail closed) is what its arm does
				}
				missing = append(missing, k.Name())
			}
		}
		sort.Strings(missing)
		c.R.Check(len(missing) == 0 && len(consts) > 0, load.FuncName(fn)+": switch over "+sw.enum+" exhaustive", c.pos(fn.Pos()), "names all "+itoa(len(consts))+" constants", "no case for: "+strings.Join(missing, ", "))
		if head == nil {
			continue
		}
		// no-match path: from the switch head avoiding every case-true edge
		seenB, _ := cfgx.ReachBlocks([]*ssa.BasicBlock{head}, edgeSet(caseTrue))
		bad := ""
		n := 0
		for b := range seenB {
			if r, ok := b.Instrs[len(b.Instrs)-1].(*ssa.Return); ok {
				// only returns not reachable from a case arm
				if viaCase(caseTrue, r) {
					continue
				}
				n++
				if nonNilError(r) == "nil" {
					bad = c.pos(r.Pos())
				}
			}
		}
		if sw.fn == "IsReady" {
			continue // unreachable after Validate(): the default of Validate is checked
		}
		c.R.Check(bad == "" && n > 0, load.FuncName(fn)+": no-match fails closed", c.pos(fn.Pos()), "the no-match path returns an error", "an unknown "+sw.enum+" falls through to a success return at "+bad)
	}
	c10conversions(c)

	c.R.Rule("R10.2", "optional pointers are checked before use", 30,
		"a Composition with an omitted optional field panics the XR reconciler with a nil dereference")
	nDeref := 0
	for _, f := range c.P.PkgFunctions(pkgComposite) {
		file := c.pos(f.Pos())
		if !(strings.Contains(file, "composition_patches.go") || strings.Contains(file, "composition_transforms.go") || strings.Contains(file, "composition_render.go") || strings.Contains(file, "merge.go") || strings.Contains(file, "ready.go") || strings.Contains(file, "connection.go") || strings.Contains(file, "composition_pt.go")) {
			continue
		}
		nDeref += c10derefs(c, f)
		if f.Parent() == nil {
			c.mech(f) // the renderer's functions: their failed steps fall under R10.0
		}
	}
	if nDeref < 30 {
		c.R.Unknown("optional pointer dereferences", "", "fewer dereferences found than on the reference tree")
	}

	c.R.Rule("R10.3", "user-supplied integers are bounded on both sides before indexing", 2,
		"a negative or too large index from a Composition panics the XR reconciler")
	nIdx := 0
	for _, f := range c.P.PkgFunctions(pkgComposite) {
		for _, b := range f.Blocks {
			for _, in := range b.Instrs {
				var idx ssa.Value
				var coll ssa.Value
				switch x := in.(type) {
				case *ssa.IndexAddr:
					idx, coll = x.Index, x.X
				case *ssa.Index:
					idx, coll = x.Index, x.X
				default:
					continue
				}
				if _, isC := idx.(*ssa.Const); isC {
					continue
				}
				if !flow.Default.Any(idx, func(v ssa.Value) bool { return isAPIIntField(v) }) {
					continue
				}
				nIdx++
				c.R.Analysed(load.FuncName(f))
				lo, hi := boundEdges(f, idx, coll)
				name := load.FuncName(f) + ": index by user integer #" + itoa(nIdx)
				c.requireCross(name+" lower-bound", in, lo, "index >= 0")
				c.requireCross(name+" upper-bound", in, hi, "index < len")
			}
		}
	}
	if nIdx == 0 {
		c.R.Unknown("user-indexed accesses", "", "no index derived from an API integer field found (StringTransformRegexp.Group expected)")
	}

	c.R.Rule("R10.4", "no panicking type assertion on patch/transform inputs", 1, "an input of unexpected JSON type panics the reconciler")
	nTA := 0
	for _, f := range c.P.PkgFunctions(pkgComposite) {
		file := c.pos(f.Pos())
		if !(strings.Contains(file, "composition_patches.go") || strings.Contains(file, "composition_transforms.go") || strings.Contains(file, "merge.go")) {
			continue
		}
		for _, b := range f.Blocks {
			for _, in := range b.Instrs {
				if ta, ok := in.(*ssa.TypeAssert); ok {
					nTA++
					if !ta.CommaOk {
						c.R.Bad(load.FuncName(f)+": type assertion", c.pos(ta.Pos()), "a single-result type assertion on a dynamic value panics on unexpected input types")
					}
				}
			}
		}
	}
	c.R.Check(nTA > 10, "type assertions in the renderer", "", itoa(nTA)+" assertions, all comma-ok / type-switch", "type assertions not found: anchors moved")

	c.R.Rule("R10.5", "patches do not write their source; optional-missing is a no-op, required-missing an error", 8,
		"a patch that mutates the object it reads from corrupts the XR or the composed resource")
	for _, name := range []string{"ApplyFromFieldPathPatch", "ApplyCombineFromVariablesPatch"} {
		fn := c.fn(pkgComposite, name)
		if fn == nil {
			continue
		}
		from, to := ssa.Value(fn.Params[1]), ssa.Value(fn.Params[2])
		// from is only handed to ToUnstructured
		for _, r := range *fn.Params[1].Referrers() {
			switch x := r.(type) {
			case *ssa.DebugRef:
			case ssa.CallInstruction:
				c.R.Check(strings.HasSuffix(cfgx.CalleeName(x), ").ToUnstructured"), site(x)+" from-read-only", c.pos(x.Pos()), "the source is only converted to unstructured (a copy)", "the source object is passed to "+nameOfCall(x))
			case *ssa.MakeInterface, *ssa.ChangeInterface:
				for _, rr := range *x.(ssa.Value).Referrers() {
					if ci, ok := rr.(ssa.CallInstruction); ok {
						c.R.Check(strings.HasSuffix(cfgx.CalleeName(ci), ").ToUnstructured"), site(ci)+" from-read-only", c.pos(ci.Pos()), "the source is only converted to unstructured (a copy)", "the source object is passed to "+nameOfCall(ci))
					}
				}
			case *ssa.BinOp:
				// a nil test reads nothing of the source
				if !((x.Op == token.EQL || x.Op == token.NEQ) && (cfgx.IsNilConst(x.X) || cfgx.IsNilConst(x.Y))) {
					c.R.Bad(load.FuncName(fn)+": from use", c.pos(r.Pos()), "the source parameter is used by an unexpected instruction")
				}
			default:
				c.R.Bad(load.FuncName(fn)+": from use", c.pos(r.Pos()), "the source parameter is used by an unexpected instruction")
			}
		}
		n := 0
		for _, x := range calls(fn, xp+pkgComposite+".patchFieldValueToObject", xp+pkgComposite+".patchFieldValueToMultiple") {
			n++
			c.R.Check(cfgx.CallArgs(x)[2] == to && to != from, site(x)+" writes-to", c.pos(x.Pos()), "the patched object is the `to` parameter", "the object written is not the `to` parameter")
		}
		if n == 0 {
			c.R.Unknown(load.FuncName(fn)+": write", c.pos(fn.Pos()), "no patchFieldValueTo* call found")
		}
		// optional missing => return nil on the IsOptionalFieldPathNotFound true edge
		for _, o := range calls(fn, xp+pkgComposite+".IsOptionalFieldPathNotFound") {
			t, f := cfgx.CallCondEdges(o)
			rets := cfgx.ReturnsReachable(t, cfgx.BackEdges(fn))
			good := len(rets) == 1 && nonNilError(rets[0]) == "nil"
			c.R.Check(good, site(o)+" optional-missing-noop", c.pos(o.Pos()), "a missing optional source returns nil without writing", "a missing optional source path is not a clean no-op")
			for _, w := range calls(fn, xp+pkgComposite+".patchFieldValueToObject", xp+pkgComposite+".patchFieldValueToMultiple") {
				r, _ := cfgx.ReachableFromEdges(t, w, cfgx.BackEdges(fn), nil)
				c.R.Check(!r, site(w)+" not-after-missing", c.pos(w.Pos()), "no write after a missing source", "a write is reachable after the source path was found missing")
			}
			// the error of GetValue is tested after the optional test
			_ = f
		}
		for _, g := range cfgx.Calls(fn, func(ci ssa.CallInstruction) bool {
			return name == "ApplyFromFieldPathPatch" && strings.HasSuffix(cfgx.CalleeName(ci), "fieldpath.Paved).GetValue")
		}) {
			for _, w := range calls(fn, xp+pkgComposite+".patchFieldValueToObject", xp+pkgComposite+".patchFieldValueToMultiple") {
				c.requireCross(site(w)+" after-source-read", w, okEdges(g), "ok(GetValue(source path))")
			}
		}
	}
	// combine: a variable that cannot be read ends the patch in that very
	// iteration — the next variable is read only over ok(GetValue)
	if fn := c.fn(pkgComposite, "ApplyCombineFromVariablesPatch"); fn != nil {
		gs := cfgx.Calls(fn, func(ci ssa.CallInstruction) bool {
			return strings.HasSuffix(cfgx.CalleeName(ci), "fieldpath.Paved).GetValue")
		})
		if len(gs) == 0 {
			c.R.Unknown(load.FuncName(fn)+": variable reads", c.pos(fn.Pos()), "no GetValue call found")
		}
		for _, g := range gs {
			loop := cfgx.LoopOf(g.Block())
			if loop == nil {
				c.R.Bad(site(g)+" per-variable", c.pos(g.Pos()), "the variable read is not inside the loop over the variables")
				continue
			}
			h := cfgx.LoopHeader(loop)
			seen, par := cfgx.ReachBlocks([]*ssa.BasicBlock{g.Block()}, edgeSet(okEdges(g)))
			_ = par
			c.R.Check(!seen[h] && len(okEdges(g)) > 0, site(g)+" failed-read-ends-patch", c.pos(g.Pos()), "the next variable is read only after this read succeeded", "after a failed variable read the loop continues (the error is tested later or overwritten): a required variable that is missing is silently rendered")
			for _, w := range calls(fn, xp+pkgComposite+".patchFieldValueToObject", xp+pkgComposite+".patchFieldValueToMultiple") {
				r, _ := cfgx.ReachableFromEdges(cfgx.ErrEvents(g).Fail, w, nil, nil)
				c.R.Check(!r, site(w)+" not-after-failed-read", c.pos(w.Pos()), "no write after a failed variable read", "a write is reachable after a variable read failed")
			}
		}
	}
	if io := c.fn(pkgComposite, "IsOptionalFieldPathNotFound"); io != nil {
		var allow []cfgx.Edge
		for _, cf := range findCmps(io, true, func(x, y ssa.Value) bool { return cfgx.IsNilConst(y) }) {
			allow = append(allow, cf.Holds...)
		}
		for _, cf := range findCmps(io, true, func(x, y ssa.Value) bool { v, ok := cfgx.ConstString(y); return ok && v == "Optional" }) {
			allow = append(allow, cf.Holds...)
		}
		n := 0
		for _, b := range io.Blocks {
			if r, ok := b.Instrs[len(b.Instrs)-1].(*ssa.Return); ok {
				v := cfgx.ReturnValue(r, 0)
				if cb, isC := cfgx.ConstBool(v); isC {
					c.R.Check(!cb, load.FuncName(io)+": constant return", c.pos(r.Pos()), "the default is false (required)", "a policy other than optional is treated as optional")
					continue
				}
				n++
				c.requireCross(load.FuncName(io)+": IsNotFound result", r, allow, "policy nil, FromFieldPath nil, or == Optional")
				c.R.Check(hasSuffixCall(v, "fieldpath.IsNotFound"), load.FuncName(io)+": returns IsNotFound(err)", c.pos(r.Pos()), "returns fieldpath.IsNotFound(err)", "the optional case does not return fieldpath.IsNotFound(err)")
			}
		}
		if n == 0 {
			c.R.Unknown(load.FuncName(io)+": shape", c.pos(io.Pos()), "no computed return")
		}
	}

	c.R.Rule("R10.8", "numeric ⇄ string conversions use the full width and base 10", 5,
		"a float64 formatted or parsed with bitSize 32 (or an int64 with another width or base) is silently rounded: convert round-trips no longer preserve the value")
	{
		n := 0
		for _, f := range c.P.PkgFunctions(pkgComposite) {
			if !strings.HasSuffix(c.P.Fset.Position(f.Pos()).Filename, "composition_transforms.go") {
				continue
			}
			for _, g := range closures(f) {
				for _, x := range cfgx.Calls(g, nil) {
					a := x.Common().Args
					argIs := func(i int, want int64) bool {
						k, ok := cfgx.ConstInt(a[i])
						return ok && k == want
					}
					good, what := true, ""
					switch cfgx.CalleeName(x) {
					case "strconv.FormatFloat":
						good, what = len(a) == 4 && argIs(3, 64) && argIs(2, -1), "FormatFloat(f64, fmt, -1, 64)"
					case "strconv.ParseFloat":
						good, what = len(a) == 2 && argIs(1, 64), "ParseFloat(s, 64)"
					case "strconv.ParseInt":
						good, what = len(a) == 3 && argIs(1, 10) && argIs(2, 64), "ParseInt(s, 10, 64)"
					case "strconv.FormatInt", "strconv.FormatUint":
						good, what = len(a) == 2 && argIs(1, 10), "Format(U)Int(i, 10)"
					default:
						continue
					}
					n++
					c.R.Check(good, load.FuncName(g)+": "+site(x)+" width", c.pos(x.Pos()), what, "the conversion is not "+what+": values are rounded to a narrower type or rendered in another base")
				}
			}
		}
		if n == 0 {
			c.R.Unknown("composition_transforms.go: strconv", "", "no numeric strconv call found")
		}
	}

	c.R.Rule("R10.7", "named operations: the arm of each string conversion / trim constant reaches the standard-library operation its name documents", 10,
		"a transform silently computes something else than its documented meaning (e.g. TrimLeft's character-set semantics instead of TrimPrefix)")
	for _, it := range []struct {
		fn, val, callee string
	}{
		{"stringTrimTransform", "TrimPrefix", "strings.TrimPrefix"}, {"stringTrimTransform", "TrimSuffix", "strings.TrimSuffix"},
		{"stringConvertTransform", "ToUpper", "strings.ToUpper"}, {"stringConvertTransform", "ToLower", "strings.ToLower"},
		{"stringConvertTransform", "ToJson", "encoding/json.Marshal"},
		{"stringConvertTransform", "ToBase64", "(*encoding/base64.Encoding).EncodeToString"}, {"stringConvertTransform", "FromBase64", "(*encoding/base64.Encoding).DecodeString"},
		{"stringConvertTransform", "ToSha1", "crypto/sha1.Sum"}, {"stringConvertTransform", "ToSha256", "crypto/sha256.Sum256"}, {"stringConvertTransform", "ToSha512", "crypto/sha512.Sum512"},
		{"stringConvertTransform", "ToAdler32", "hash/adler32.Checksum"},
	} {
		fn := c.fn(pkgComposite, it.fn)
		if fn == nil {
			continue
		}
		var caseTrue []cfgx.Edge
		for _, b := range fn.Blocks {
			for _, in := range b.Instrs {
				if bo, ok := in.(*ssa.BinOp); ok && isEqOrNeq(bo) {
					for _, s := range []ssa.Value{bo.X, bo.Y} {
						if v, ok := cfgx.ConstString(s); ok && v == it.val && strings.Contains(s.Type().String(), apiV1) {
							t, _ := eqEdges(bo)
							caseTrue = append(caseTrue, t...)
						}
					}
				}
			}
		}
		if len(caseTrue) == 0 {
			c.R.Bad(load.FuncName(fn)+": case "+it.val, c.pos(fn.Pos()), "no arm for "+it.val)
			continue
		}
		// the operation is called, or passed as a function value, on the arm before any other case is tested
		found := false
		seenB, _ := cfgx.ReachBlocks(edgeTargets(caseTrue), nil)
		for b := range seenB {
			for _, in := range b.Instrs {
				if ci, ok := in.(ssa.CallInstruction); ok {
					if cfgx.CalleeName(ci) == it.callee {
						found = true
					}
					for _, a := range ci.Common().Args {
						if f, ok := a.(*ssa.Function); ok && fullFuncName(f) == it.callee {
							found = true
						}
						if mc, ok := a.(*ssa.MakeClosure); ok {
							if f, ok := mc.Fn.(*ssa.Function); ok && fullFuncName(f) == it.callee {
								found = true
							}
						}
					}
				}
			}
		}
		// the arm must not be shared with a sibling's operation: reached only over this case's edge
		c.R.Check(found, load.FuncName(fn)+": "+it.val+" → "+cfgx.ShortCallee(it.callee), c.pos(fn.Pos()), "the arm reaches "+it.callee, "the arm for "+it.val+" does not reach "+it.callee+": the transform no longer has its documented meaning")
	}

	c.R.Rule("R10.6", "a half-rendered resource is never applied, the others still are", 6,
		"a composed resource is created from a partially rendered template (possibly with immutable wrong fields)")
	if _, pt := c.composerMethods(); pt != nil {
		var store *ssa.Store
		for _, b := range pt.Blocks {
			for _, in := range b.Instrs {
				if st, ok := in.(*ssa.Store); ok {
					if ia, ok := st.Addr.(*ssa.IndexAddr); ok && strings.HasSuffix(ia.X.Type().String(), "[]"+tComposedIf) && !cfgx.IsNilConst(st.Val) {
						store = st
					}
				}
			}
		}
		steps := []struct{ name, callee string }{
			{"RenderFromCompositePatches", xp + pkgComposite + ".RenderFromCompositePatches"},
			{"RenderComposedResourceMetadata", xp + pkgComposite + ".RenderComposedResourceMetadata"},
			{"GenerateName", genNameInv},
		}
		if store == nil {
			c.R.Unknown(load.FuncName(pt)+": cds[i]=r", c.pos(pt.Pos()), "store not found")
		} else {
			paths, pruned, ok := cfgx.FeasiblePaths(store, 4096)
			c.R.Extra["R10.6_paths"] = map[string]int{"feasible": len(paths), "pruned_edges": pruned}
			if !ok || len(paths) == 0 {
				c.R.Unknown(load.FuncName(pt)+": paths to cds[i]=r", c.pos(store.Pos()), "path enumeration did not complete")
			}
			obj := flow.Root(underIface(store.Val))
			for _, stp := range steps {
				cs := calls(pt, stp.callee)
				if len(cs) != 1 {
					c.R.Unknown(load.FuncName(pt)+": "+stp.name, c.pos(pt.Pos()), "call not found")
					continue
				}
				oke := okEdges(cs[0])
				// path-sensitive: a failed step clears a flag / appends a warning that the
				// store's guard tests later
				crossed, w := cfgx.MustCross(store, oke, c.posf())
				bad := -1
				if !crossed {
					bad = 0
				}
				c.R.Check(bad < 0 && len(oke) > 0 && ok, load.FuncName(pt)+": cds[i]=r needs ok("+stp.name+")", c.pos(store.Pos()), "every feasible path ("+itoa(len(paths))+") to the store crosses the success edge", "a feasible path stores the object for application although "+stp.name+" failed", w...)
				// on the rendered object
				a := cfgx.CallArgs(cs[0])
				first := a[0]
				if stp.name == "GenerateName" {
					first = a[1]
				}
				c.R.Check(flow.Root(underIface(first)) == obj, site(cs[0])+" same-object", c.pos(cs[0].Pos()), "applied to the object that is stored", stp.name+" is not applied to the object that is stored")
				// failure does not abort the loop: no return reachable from the fail edge within the iteration
				rets := cfgx.ReturnsReachable(failEdges(cs[0]), cfgx.BackEdges(pt))
				inIter := 0
				loop := cfgx.LoopOf(cs[0].Block())
				for _, r := range rets {
					// returns reached without leaving through the loop header are early exits of this iteration
					if loop != nil {
						if rr, _ := cfgx.ReachesAvoidingBlocks(failEdges(cs[0]), r.Block(), map[*ssa.BasicBlock]bool{cfgx.LoopHeader(loop): true}, cfgx.BackEdges(pt), nil); rr {
							inIter++
						}
					}
				}
				c.R.Check(inIter == 0, site(cs[0])+" failure-continues", c.pos(cs[0].Pos()), "a failure is recorded and the remaining templates are still rendered", "a render failure of one resource aborts composition of the others")
			}
			// "the other resources still are": whether a template's object is stored
			// is decided by this iteration alone — no boolean carried around the
			// templates loop feeds a branch that leads to the store.
			if tl := cfgx.LoopOf(store.Block()); tl != nil {
				hd := cfgx.LoopHeader(tl)
				carried := func(v ssa.Value) bool {
					seen := map[ssa.Value]bool{}
					var walk func(v ssa.Value) bool
					walk = func(v ssa.Value) bool {
						if seen[v] {
							return false
						}
						seen[v] = true
						switch x := v.(type) {
						case *ssa.Phi:
							if x.Block() == hd {
								return true
							}
							for _, e := range x.Edges {
								if walk(e) {
									return true
								}
							}
						case *ssa.UnOp:
							if x.Op == token.NOT {
								return walk(x.X)
							}
						}
						return false
					}
					return walk(v)
				}
				bad := ""
				for b := range tl {
					if iff, ok := b.Instrs[len(b.Instrs)-1].(*ssa.If); ok && carried(iff.Cond) {
						if seenB, _ := cfgx.ReachBlocks([]*ssa.BasicBlock{b}, edgeSet(cfgx.BackEdges(pt))); seenB[store.Block()] {
							bad = c.pos(iff.Pos())
						}
					}
				}
				c.R.Check(bad == "", load.FuncName(pt)+": cds[i]=r decided per template", c.pos(store.Pos()), "no loop-carried flag decides whether a template's object is stored", "a boolean carried over from earlier templates (branch at "+bad+") decides whether this template's object is stored: one failed template blocks the later ones")
			} else {
				c.R.Bad(load.FuncName(pt)+": cds[i]=r decided per template", c.pos(store.Pos()), "the store is not inside the templates loop")
			}
			// apply loop skips nil slots
			s := findComposerSites(pt)
			if len(s.creates) == 1 {
				var cds ssa.Value
				if ia, ok := store.Addr.(*ssa.IndexAddr); ok {
					cds = ia.X
				}
				_, nonNil := nilTestsOfSlot(pt, cds)
				c.requireCross(site(s.creates[0])+" slot-non-nil", s.creates[0], nonNil, "cds[i] != nil")
			}
		}
	}
}

func viaCase(caseTrue []cfgx.Edge, r *ssa.Return) bool {
	reach, _ := cfgx.ReachableFromEdges(caseTrue, r, nil, nil)
	return reach
}

// isAPIIntField: v selects an integer-typed (or *int) field of a struct declared in the API packages.
func isAPIIntField(v ssa.Value) bool {
	var st types.Type
	var idx int
	switch x := v.(type) {
	case *ssa.FieldAddr:
		st, idx = x.X.Type().Underlying().(*types.Pointer).Elem(), x.Field
	case *ssa.Field:
		st, idx = x.X.Type(), x.Field
	default:
		return false
	}
	n, ok := st.(*types.Named)
	if !ok || n.Obj().Pkg() == nil || !strings.HasPrefix(n.Obj().Pkg().Path(), load.Module+"/apis/") {
		return false
	}
	s, ok := n.Underlying().(*types.Struct)
	if !ok {
		return false
	}
	ft := s.Field(idx).Type()
	if p, ok := ft.(*types.Pointer); ok {
		ft = p.Elem()
	}
	b, ok := ft.Underlying().(*types.Basic)
	return ok && b.Info()&types.IsInteger != 0
}

// boundEdges finds the edges on which idx >= 0 and idx < len(coll) are known.
func boundEdges(fn *ssa.Function, idx, coll ssa.Value) (lo, hi []cfgx.Edge) {
	ev := func(op token.Token, a, b int64) bool {
		switch op {
		case token.LSS:
			return a < b
		case token.LEQ:
			return a <= b
		case token.GTR:
			return a > b
		case token.GEQ:
			return a >= b
		case token.EQL:
			return a == b
		case token.NEQ:
			return a != b
		}
		return false
	}
	for _, b := range fn.Blocks {
		for _, in := range b.Instrs {
			bo, ok := in.(*ssa.BinOp)
			if !ok {
				continue
			}
			switch bo.Op {
			case token.LSS, token.LEQ, token.GTR, token.GEQ:
			default:
				continue
			}
			t, f := cfgx.CondEdges(bo)
			for _, sw := range []bool{false, true} {
				x, y := bo.X, bo.Y
				if sw {
					x, y = y, x
				}
				if x != idx {
					continue
				}
				// lower bound: compare with an integer constant
				if cv, ok := cfgx.ConstInt(y); ok {
					r0, rm := ev(bo.Op, 0, cv), ev(bo.Op, -1, cv)
					if sw {
						r0, rm = ev(bo.Op, cv, 0), ev(bo.Op, cv, -1)
					}
					if r0 != rm {
						if r0 {
							lo = append(lo, t...)
						} else {
							lo = append(lo, f...)
						}
					}
				}
				// upper bound: compare with len(coll)
				if of, ok := lenOfValue(y); ok && (of == coll || flow.Root(of) == flow.Root(coll)) {
					in1, out1 := ev(bo.Op, 0, 1), ev(bo.Op, 1, 1)
					if sw {
						in1, out1 = ev(bo.Op, 1, 0), ev(bo.Op, 1, 1)
					}
					if in1 != out1 {
						if in1 {
							hi = append(hi, t...)
						} else {
							hi = append(hi, f...)
						}
					}
				}
			}
		}
	}
	return
}

func lenOfValue(v ssa.Value) (ssa.Value, bool) {
	c, ok := v.(*ssa.Call)
	if !ok {
		return nil, false
	}
	if b, ok := c.Call.Value.(*ssa.Builtin); ok && b.Name() == "len" {
		return c.Call.Args[0], true
	}
	return nil, false
}

// c10derefs checks every dereference of a pointer-typed field of an API config struct in fn.
func c10derefs(c *Ctx, fn *ssa.Function) int {
	n := 0
	for _, b := range fn.Blocks {
		for _, in := range b.Instrs {
			var ptrLoad *ssa.UnOp // the load of the pointer field
			var use ssa.Instruction
			switch x := in.(type) {
			case *ssa.UnOp:
				if x.Op == token.MUL {
					if inner, ok := x.X.(*ssa.UnOp); ok && inner.Op == token.MUL {
						ptrLoad, use = inner, x
					}
				}
			case *ssa.FieldAddr:
				if inner, ok := x.X.(*ssa.UnOp); ok && inner.Op == token.MUL {
					ptrLoad, use = inner, x
				}
			}
			if ptrLoad == nil {
				continue
			}
			fa, ok := ptrLoad.X.(*ssa.FieldAddr)
			if !ok || !isConfigStruct(fa.X.Type()) {
				continue
			}
			if _, isPtr := ptrLoad.Type().Underlying().(*types.Pointer); !isPtr {
				continue
			}
			rootV, p, _ := flow.AccessPathC(ptrLoad)
			n++
			c.R.Analysed(load.FuncName(fn))
			name := load.FuncName(fn) + ": *" + p + " #" + itoa(n)
			if ok, how := derefOK(c, fn, use, ptrLoad, rootV, p, fa); ok {
				c.R.OK(name, c.pos(use.Pos()), how)
			} else {
				c.R.Bad(name, c.pos(use.Pos()), "optional pointer "+p+" is dereferenced without a preceding non-nil test, assignment from a tested path, or successful Validate() that rejects nil: "+how)
			}
		}
	}
	return n
}

func isConfigStruct(t types.Type) bool {
	if p, ok := t.Underlying().(*types.Pointer); ok {
		t = p.Elem()
	}
	n, ok := t.(*types.Named)
	if !ok || n.Obj().Pkg() == nil {
		return false
	}
	pp := n.Obj().Pkg().Path()
	if pp == load.Module+"/"+apiV1 {
		return true
	}
	if pp == load.Module+"/"+pkgComposite {
		switch n.Obj().Name() {
		case "ReadinessCheck", "ConnectionDetailExtractConfig", "MatchConditionReadinessCheck":
			return true
		}
	}
	return false
}

func nonNilEdgesOfPath(fn *ssa.Function, rootV ssa.Value, p string) []cfgx.Edge {
	var out []cfgx.Edge
	for _, b := range fn.Blocks {
		for _, in := range b.Instrs {
			bo, ok := in.(*ssa.BinOp)
			if !ok || (bo.Op != token.EQL && bo.Op != token.NEQ) {
				continue
			}
			var other ssa.Value
			if cfgx.IsNilConst(bo.Y) {
				other = bo.X
			} else if cfgx.IsNilConst(bo.X) {
				other = bo.Y
			} else {
				continue
			}
			r2, p2, ok2 := flow.AccessPathC(other)
			if !ok2 || p2 != p || flow.Root(r2) != flow.Root(rootV) {
				continue
			}
			t, f := cfgx.CondEdges(bo)
			if bo.Op == token.EQL {
				out = append(out, f...)
			} else {
				out = append(out, t...)
			}
		}
	}
	return out
}

func derefOK(c *Ctx, fn *ssa.Function, use ssa.Instruction, ptrLoad *ssa.UnOp, rootV ssa.Value, p string, fa *ssa.FieldAddr) (bool, string) {
	// (a) nil test of the same access path
	if nn := nonNilEdgesOfPath(fn, rootV, p); len(nn) > 0 {
		if ok, _ := cfgx.MustCross(use, nn, nil); ok {
			return true, "dominated by the non-nil edge of a test of " + p
		}
	}
	// (b) assignment from a tested path
	for _, b := range fn.Blocks {
		for _, in := range b.Instrs {
			st, ok := in.(*ssa.Store)
			if !ok {
				continue
			}
			r2, p2, ok2 := flow.AccessPathC(st.Addr)
			if !ok2 || p2 != p || flow.Root(r2) != flow.Root(rootV) {
				continue
			}
			// paths to the use either pass this store (value from a tested path) or a non-nil test
			r3, p3, ok3 := flow.AccessPathC(st.Val)
			if ok3 && st.Block().Dominates(use.Block()) == false {
				gates := append(nonNilEdgesOfPath(fn, rootV, p), cfgx.Edge{})[:len(nonNilEdgesOfPath(fn, rootV, p))]
				// the store happens on the nil edge of p: together with the non-nil edge all paths are covered
				nn3 := nonNilEdgesOfPath(fn, r3, p3)
				if okSrc, _ := cfgx.MustCross(st, nn3, nil); okSrc && len(nn3) > 0 {
					// every path to use crosses the non-nil edge of p or passes the store block
					av := append([]cfgx.Edge{}, gates...)
					if r, _ := cfgx.ReachesAvoidingBlocks([]cfgx.Edge{{From: fn.Blocks[0], Idx: 0}}, use.Block(), map[*ssa.BasicBlock]bool{st.Block(): true}, av, nil); !r || len(fn.Blocks[0].Succs) == 0 {
						return true, "assigned from the tested path " + p3 + " when nil"
					}
					// entry has more than one successor: check each
					okAll := true
					for i := range fn.Blocks[0].Succs {
						if r, _ := cfgx.ReachesAvoidingBlocks([]cfgx.Edge{{From: fn.Blocks[0], Idx: i}}, use.Block(), map[*ssa.BasicBlock]bool{st.Block(): true}, av, nil); r {
							okAll = false
						}
					}
					if okAll {
						return true, "assigned from the tested path " + p3 + " when nil"
					}
				}
			}
		}
	}
	// (c) successful Validate() of the same struct
	structPath := p
	if i := strings.LastIndex(p, "."); i >= 0 {
		structPath = p[:i]
	} else {
		structPath = ""
	}
	field := p[strings.LastIndex(p, ".")+1:]
	if ok, how := validatedBefore(c, fn, use, rootV, structPath, field, fa, 0); ok {
		return true, how
	}
	return false, "no guard found"
}

// validatedBefore: use is dominated by the success edge of X.Validate() on the
// struct at structPath, and Validate's body rejects a nil `field`; for
// unexported helpers every static caller must satisfy it for the argument.
func validatedBefore(c *Ctx, fn *ssa.Function, use ssa.Instruction, rootV ssa.Value, structPath, field string, fa *ssa.FieldAddr, depth int) (bool, string) {
	for _, x := range cfgx.Calls(fn, nil) {
		callee := x.Common().StaticCallee()
		if callee == nil || callee.Name() != "Validate" || callee.Signature.Recv() == nil || len(x.Common().Args) == 0 {
			continue
		}
		// receiver must be the same struct
		recv := x.Common().Args[0]
		rr, rp, _ := flow.AccessPathC(recv)
		if lr, ok := recv.(*ssa.UnOp); ok && lr.Op == token.MUL {
			rr, rp, _ = flow.AccessPathC(lr)
		}
		if flow.Root(rr) != flow.Root(rootV) || rp != structPath {
			// value receiver: Validate(*t) where t is the same alloc
			if flow.Root(recv) != flow.Root(rootV) {
				continue
			}
		}
		// success edges: result == nil
		var okE []cfgx.Edge
		if v := x.Value(); v != nil && v.Referrers() != nil {
			for _, r := range *v.Referrers() {
				if bo, ok := r.(*ssa.BinOp); ok && (cfgx.IsNilConst(bo.X) || cfgx.IsNilConst(bo.Y)) {
					t, f := cfgx.CondEdges(bo)
					if bo.Op == token.NEQ {
						okE = append(okE, f...)
					} else if bo.Op == token.EQL {
						okE = append(okE, t...)
					}
				}
			}
		}
		okE = append(okE, okEdges(x)...)
		if len(okE) == 0 {
			continue
		}
		if ok, _ := cfgx.MustCross(use, okE, nil); !ok {
			continue
		}
		if validateRejectsNil(callee, field) {
			return true, "dominated by ok(" + load.FuncName(callee) + "), which rejects a nil " + field
		}
	}
	// unexported helper: check callers
	if depth < 2 && fn.Object() != nil && !fn.Object().Exported() {
		prm := -1
		for i, p := range fn.Params {
			if flow.Root(rootV) == ssa.Value(p) || spillOf(p) == flow.Root(rootV) {
				prm = i
			}
		}
		if prm < 0 {
			return false, ""
		}
		callers := 0
		for _, g := range c.P.PkgFunctions(pkgComposite) {
			for _, x := range cfgx.Calls(g, nil) {
				if x.Common().StaticCallee() != fn {
					continue
				}
				callers++
				arg := x.Common().Args[prm]
				ar, ap, _ := flow.AccessPathC(arg)
				if ar == nil {
					ar = arg
				}
				sp := ap
				if structPath != "" {
					if sp != "" {
						sp += "."
					}
					sp += structPath
				}
				if ok, _ := validatedBefore(c, g, x, ar, sp, field, fa, depth+1); !ok {
					return false, "caller " + load.FuncName(g) + " does not validate first"
				}
			}
		}
		if callers > 0 {
			return true, "every caller of this unexported helper validates the struct first"
		}
	}
	return false, ""
}

func spillOf(p *ssa.Parameter) ssa.Value {
	if p.Referrers() == nil {
		return nil
	}
	for _, r := range *p.Referrers() {
		if st, ok := r.(*ssa.Store); ok && st.Val == ssa.Value(p) {
			return st.Addr
		}
	}
	return nil
}

// validateRejectsNil: the body of Validate contains a nil test of `field`
// whose nil edge leads to a return of a non-nil value.
func validateRejectsNil(v *ssa.Function, field string) bool {
	for _, b := range v.Blocks {
		for _, in := range b.Instrs {
			bo, ok := in.(*ssa.BinOp)
			if !ok || (bo.Op != token.EQL && bo.Op != token.NEQ) {
				continue
			}
			var other ssa.Value
			if cfgx.IsNilConst(bo.Y) {
				other = bo.X
			} else if cfgx.IsNilConst(bo.X) {
				other = bo.Y
			} else {
				continue
			}
			_, p, ok2 := flow.AccessPathC(other)
			if !ok2 || !(p == field || strings.HasSuffix(p, "."+field)) {
				continue
			}
			t, f := cfgx.CondEdges(bo)
			nilE := t
			if bo.Op == token.NEQ {
				nilE = f
			}
			for _, e := range nilE {
				if r, ok := e.To().Instrs[len(e.To().Instrs)-1].(*ssa.Return); ok {
					if rv := cfgx.ReturnValue(r, len(r.Results)-1); rv != nil && !cfgx.IsNilConst(rv) {
						return true
					}
				}
			}
		}
	}
	return false
}

func c10conversions(c *Ctx) {
	tp := c.P.TypesPkg(pkgComposite)
	if tp == nil {
		return
	}
	init := tables.FindVarInit(tp, "conversions")
	cl, ok := init.(*ast.CompositeLit)
	if !ok {
		c.R.Unknown("conversions table", "", "composite.conversions literal not found")
		return
	}
	have := map[string]bool{}
	for _, el := range cl.Elts {
		kv, ok := el.(*ast.KeyValueExpr)
		if !ok {
			continue
		}
		k, ok := kv.Key.(*ast.CompositeLit)
		if !ok {
			continue
		}
		f := map[string]string{}
		for _, e := range k.Elts {
			if fkv, ok := e.(*ast.KeyValueExpr); ok {
				if id, ok := fkv.Key.(*ast.Ident); ok {
					if s, ok := tables.StringOf(tp, fkv.Value); ok {
						f[id.Name] = s
					}
				}
			}
		}
		have[f["from"]+">"+f["to"]+"/"+f["format"]] = true
		// the function delivers the Go type the target IO type stands for, and
		// asserts the Go type of its source IO type (the next convert in a chain
		// asserts exactly that type)
		goType := map[string]string{"string": "string", "int64": "int64", "bool": "bool", "float64": "float64"}
		fl, isLit := kv.Value.(*ast.FuncLit)
		if !isLit {
			continue
		}
		tag := "conversion " + f["from"] + "→" + f["to"] + "/" + f["format"]
		if want, ok := goType[f["to"]]; ok {
			good := true
			got := ""
			ast.Inspect(fl.Body, func(n ast.Node) bool {
				if _, nested := n.(*ast.FuncLit); nested {
					return false
				}
				rs, ok := n.(*ast.ReturnStmt)
				if !ok || len(rs.Results) == 0 {
					return true
				}
				t := tp.TypesInfo.TypeOf(rs.Results[0])
				if tu, isTuple := t.(*types.Tuple); isTuple && tu.Len() > 0 {
					t = tu.At(0).Type()
				}
				if t == nil {
					return true
				}
				if b, isBasic := t.(*types.Basic); isBasic && b.Kind() == types.UntypedNil {
					return true
				}
				ts := t.String()
				if b, isBasic := t.(*types.Basic); isBasic && b.Info()&types.IsUntyped != 0 {
					ts = types.Default(t).String()
				}
				if ts != want {
					good = false
					got = ts
				}
				return true
			})
			c.R.Check(good, tag+" result type", c.pos(fl.Pos()), "returns a Go "+want, "returns a Go "+got+" where the "+f["to"]+" IO type is a Go "+want+": the next conversion or a typed comparison no longer recognises the value")
		}
		if want, ok := goType[f["from"]]; ok {
			good := false
			ast.Inspect(fl.Body, func(n ast.Node) bool {
				if ta, ok := n.(*ast.TypeAssertExpr); ok && ta.Type != nil {
					if t := tp.TypesInfo.TypeOf(ta.Type); t != nil && t.String() == want {
						good = true
					}
				}
				return true
			})
			c.R.Check(good, tag+" input type", c.pos(fl.Pos()), "asserts a Go "+want+" input", "does not assert the Go type ("+want+") of its source IO type")
		}
	}
	scalars := []string{"string", "int64", "bool", "float64"}
	var missing []string
	for _, a := range scalars {
		for _, b := range scalars {
			if a != b && !have[a+">"+b+"/none"] {
				missing = append(missing, a+"→"+b)
			}
		}
	}
	c.R.Check(len(missing) == 0 && len(have) >= 12, "composite.conversions complete", c.pos(init.Pos()), itoa(len(have))+" entries; every ordered pair of distinct scalar IO types has a format-none conversion", "conversion missing for: "+strings.Join(missing, ", "))
}

func fullFuncName(f *ssa.Function) string {
	if o := f.Origin(); o != nil {
		f = o
	}
	if fo, ok := f.Object().(*types.Func); ok {
		return fo.FullName()
	}
	return f.String()
}
