// Package rules holds one file per property: discovery of obligations on the
// loaded tree and their decision.
package rules

import (
	"fmt"
	"go/token"
	"golang.org/x/tools/go/ssa/ssautil"
	"sort"
	"strings"

	"golang.org/x/tools/go/ssa"

	"xpcheck/internal/cfgx"
	"xpcheck/internal/flow"
	"xpcheck/internal/load"
	"xpcheck/internal/report"
)

// Ctx is what a property's rules get.
type Ctx struct {
	P    *load.Program
	R    *report.Report
	Tier string
	Mech []*ssa.Function // functions resolved as anchors of the property's mechanisms
}

// Property is a registered property check.
type Property struct {
	ID          string
	Run         func(*Ctx)
	Explanation string
	NotDecided  []string
	Assumptions []string
}

// Registry of all properties, filled by init functions.
var Registry = map[string]*Property{}

func register(p *Property) { Registry[p.ID] = p }

// IDs returns the sorted registered property ids.
func IDs() []string {
	var out []string
	for k := range Registry {
		out = append(out, k)
	}
	sort.Strings(out)
	return out
}

// Common import path prefixes.
const (
	xp      = "github.com/crossplane/crossplane/"
	xprt    = "github.com/crossplane/crossplane-runtime/pkg/"
	crc     = "sigs.k8s.io/controller-runtime/pkg/client"
	metav1p = "k8s.io/apimachinery/pkg/apis/meta/v1"
	kerr    = "k8s.io/apimachinery/pkg/api/errors"

	clientCreate       = "(" + crc + ".Writer).Create"
	clientUpdate       = "(" + crc + ".Writer).Update"
	clientPatch        = "(" + crc + ".Writer).Patch"
	clientDelete       = "(" + crc + ".Writer).Delete"
	clientDeleteAllOf  = "(" + crc + ".Writer).DeleteAllOf"
	clientGet          = "(" + crc + ".Reader).Get"
	clientList         = "(" + crc + ".Reader).List"
	statusUpdate       = "(" + crc + ".SubResourceWriter).Update"
	statusPatch        = "(" + crc + ".SubResourceWriter).Patch"
	applicatorApply    = "(" + xprt + "resource.Applicator).Apply"
	finalizerAdd       = "(" + xprt + "resource.Finalizer).AddFinalizer"
	finalizerRemove    = "(" + xprt + "resource.Finalizer).RemoveFinalizer"
	metaWasDeleted     = xprt + "meta.WasDeleted"
	metaWasCreated     = xprt + "meta.WasCreated"
	metaIsControlledBy = metav1p + ".IsControlledBy"
	metaGetController  = metav1p + ".GetControllerOf"
)

func (c *Ctx) pos(p token.Pos) string { return c.P.Pos(p) }

func (c *Ctx) posf() cfgx.Posf { return c.P.Pos }

// fn resolves a package-level function anchor; a missing anchor is undecided.
func (c *Ctx) fn(pkg, name string) *ssa.Function {
	f := c.P.Func(pkg, name)
	if f == nil || f.Blocks == nil {
		f = c.byName(pkg, name)
	}
	if f == nil || f.Blocks == nil {
		c.R.Unknown("anchor "+pkg+"."+name, "", "anchored function not found: the rule cannot be decided on this tree")
		return nil
	}
	c.R.Analysed(load.FuncName(f))
	c.mech(f)
	return f
}

// byName: an anchor that changed its kind (a function made a method of some
// type, a method made a function or moved to another receiver) is still the
// anchor when exactly one declared function of the package bears the name.
func (c *Ctx) byName(pkg, name string) *ssa.Function {
	var found *ssa.Function
	for _, f := range c.P.PkgFunctions(pkg) {
		if f.Parent() != nil || f.Name() != name {
			continue
		}
		if found != nil {
			return nil
		}
		found = f
	}
	return found
}

// mech records a function the property's mechanism lives in.
func (c *Ctx) mech(f *ssa.Function) {
	for _, g := range c.Mech {
		if g == f {
			return
		}
	}
	c.Mech = append(c.Mech, f)
}

// method resolves a method anchor.
func (c *Ctx) method(pkg, typ, name string) *ssa.Function {
	f := c.P.Method(pkg, typ, name)
	if f == nil || f.Blocks == nil {
		f = c.byName(pkg, name)
	}
	if f == nil || f.Blocks == nil {
		c.R.Unknown("anchor "+pkg+"."+typ+"."+name, "", "anchored method not found: the rule cannot be decided on this tree")
		return nil
	}
	c.R.Analysed(load.FuncName(f))
	c.mech(f)
	return f
}

// closures returns fn and all anonymous functions nested in it.
func closures(fn *ssa.Function) []*ssa.Function {
	out := []*ssa.Function{fn}
	for _, a := range fn.AnonFuncs {
		out = append(out, closures(a)...)
	}
	return out
}

// site names a call site by function, callee and ordinal among same-callee calls.
func site(call ssa.CallInstruction) string {
	fn := call.Parent()
	name := cfgx.CalleeName(call)
	ord := 0
	for _, c := range cfgx.Calls(fn, nil) {
		if c == call {
			break
		}
		if cfgx.CalleeName(c) == name {
			ord++
		}
	}
	return fmt.Sprintf("%s: %s#%d", load.FuncName(fn), cfgx.ShortCallee(name), ord)
}

// calls finds calls by callee name in fn, optionally filtered.
func calls(fn *ssa.Function, names ...string) []ssa.CallInstruction {
	out := cfgx.CallsNamed(fn, names...)
	if len(out) > 0 || fn == nil {
		return out
	}
	// a callee of this repository that no longer exists under that name but has
	// exactly one namesake in its package (it changed receiver): calls of the namesake
	var alt []string
	for _, n := range names {
		if !strings.Contains(n, xp) {
			continue
		}
		if m := movedTo(fn.Prog, n); m != "" {
			alt = append(alt, m)
		}
	}
	if len(alt) == 0 {
		return out
	}
	return cfgx.CallsNamed(fn, alt...)
}

var (
	fnIndexProg  *ssa.Program
	fnIndexNames map[string]bool
	fnIndexBare  map[string][]string
)

// movedTo: name ("pkg.f" or "(*pkg.T).m") is not a function of the program, and
// its package declares exactly one function or method with the same bare name.
func movedTo(prog *ssa.Program, name string) string {
	if fnIndexProg != prog {
		fnIndexProg, fnIndexNames, fnIndexBare = prog, map[string]bool{}, map[string][]string{}
		for f := range ssautil.AllFunctions(prog) {
			if f.Pkg == nil || f.Parent() != nil || f.Synthetic != "" || !strings.HasPrefix(f.Pkg.Pkg.Path(), strings.TrimSuffix(xp, "/")) {
				continue
			}
			full := f.String()
			fnIndexNames[full] = true
			k := f.Pkg.Pkg.Path() + "#" + f.Name()
			fnIndexBare[k] = append(fnIndexBare[k], full)
		}
	}
	if fnIndexNames[name] {
		return ""
	}
	// split "(*path.T).m" / "(path.T).m" / "path.f"
	core := strings.TrimPrefix(strings.TrimPrefix(name, "("), "*")
	i := strings.LastIndex(core, ".")
	if i < 0 {
		return ""
	}
	bare := core[i+1:]
	pkgPart := core[:i]
	if j := strings.Index(pkgPart, ")"); j >= 0 { // path.T)
		pkgPart = pkgPart[:j]
		if k := strings.LastIndex(pkgPart, "."); k >= 0 {
			pkgPart = pkgPart[:k]
		}
	}
	c := fnIndexBare[pkgPart+"#"+bare]
	if len(c) == 1 {
		return c[0]
	}
	return ""
}

// argType returns the short type string of the i-th non-receiver argument,
// looking through interface conversions.
func argType(call ssa.CallInstruction, i int) string {
	args := cfgx.CallArgs(call)
	if i >= len(args) {
		return ""
	}
	return cfgx.ShortCallee(underIface(args[i]).Type().String())
}

// underIface strips MakeInterface/ChangeInterface conversions.
func underIface(v ssa.Value) ssa.Value {
	for i := 0; i < 16; i++ {
		switch x := v.(type) {
		case *ssa.MakeInterface:
			v = x.X
		case *ssa.ChangeInterface:
			v = x.X
		case *ssa.Phi:
			// a result temporary of an inlined helper: the value or a zero constant
			if l := leaves(x); len(l) == 1 && l[0] != v {
				v = l[0]
				continue
			}
			return v
		default:
			return v
		}
	}
	return v
}

// okEdges returns the ok edges of a call's error result; when the error is
// returned directly (terminal) there is no continuation and ok is empty.
// okEdges: the edges on which call succeeded. An error passed through a filter
// (IgnoreNotFound, Ignore(pred), ...) before its nil test does not count as
// success unless the filter is named in allow (the rule then says "ok-or-X").
func okEdges(call ssa.CallInstruction, allow ...string) []cfgx.Edge {
	return cfgx.ErrEvents(call).StrictOK(allow...)
}

func failEdges(call ssa.CallInstruction) []cfgx.Edge { return cfgx.ErrEvents(call).Fail }

// requireCross records an obligation "target needs every path from entry to
// cross one of gates".
func (c *Ctx) requireCross(construct string, target ssa.Instruction, gates []cfgx.Edge, what string) bool {
	if len(gates) == 0 {
		c.R.Bad(construct, c.pos(target.Pos()), "no gate edge found for: "+what)
		return false
	}
	ok, w := cfgx.MustCross(target, gates, c.posf())
	c.R.Check(ok, construct, c.pos(target.Pos()), "every path from entry crosses "+what, "a path from entry reaches this site without crossing "+what, w...)
	return ok
}

// requireCrossOrKnow: like requireCross, but a path may also reach the site
// having learnt that v is false (want == false) / true on the way.
func (c *Ctx) requireCrossOrKnow(construct string, target ssa.Instruction, gates []cfgx.Edge, v ssa.Value, want bool, what string) bool {
	if v == nil {
		return c.requireCross(construct, target, gates, what)
	}
	ok, w := cfgx.MustCrossOrKnow(target, gates, v, want, c.posf())
	c.R.Check(ok, construct, c.pos(target.Pos()), "every path from entry crosses "+what, "a path from entry reaches this site without crossing "+what, w...)
	return ok
}

// fmtEdges prints edges.
func fmtEdges(es []cfgx.Edge) string {
	var s []string
	for _, e := range es {
		s = append(s, e.String())
	}
	return strings.Join(s, ",")
}

// one expects exactly n sites; otherwise reports undecided and returns false.
func (c *Ctx) expect(what string, got, want int, fn *ssa.Function) bool {
	if got != want {
		c.R.Unknown(load.FuncName(fn)+": "+what, c.pos(fn.Pos()), fmt.Sprintf("expected %d site(s) of %s, found %d: the construct this rule anchors on changed shape", want, what, got))
		return false
	}
	return true
}

func firstPos(b *ssa.BasicBlock) token.Pos {
	for _, in := range b.Instrs {
		if in.Pos().IsValid() {
			return in.Pos()
		}
	}
	return token.NoPos
}

// extractOf returns the Extract of tuple element idx of a tuple-typed value
// (comma-ok lookups, type asserts, calls), or nil.
func extractOf(v ssa.Value, idx int) ssa.Value {
	if v.Referrers() == nil {
		return nil
	}
	for _, r := range *v.Referrers() {
		if ex, ok := r.(*ssa.Extract); ok && ex.Index == idx {
			return ex
		}
	}
	return nil
}

// leaves resolves phis: the non-phi values v can stand for, leaving out the
// zero constants (nil, 0, "", false) that error paths put into the result
// temporaries of an inlined helper.
func leaves(v ssa.Value) []ssa.Value { return leavesUpTo(v, nil) }

// carries reports whether v is stop itself or a join of stop with the zero
// values of error paths: the value a result temporary hands on.
func carries(v, stop ssa.Value) bool {
	l := leavesUpTo(v, stop)
	return len(l) == 1 && l[0] == stop
}

// leavesUpTo is leaves that does not look inside the phi stop.
func leavesUpTo(v ssa.Value, stop ssa.Value) []ssa.Value {
	var out []ssa.Value
	seen := map[ssa.Value]bool{}
	var walk func(x ssa.Value)
	walk = func(x ssa.Value) {
		if x == nil || seen[x] {
			return
		}
		seen[x] = true
		if stop != nil && x == stop {
			out = append(out, x)
			return
		}
		switch y := x.(type) {
		case *ssa.Phi:
			for _, e := range y.Edges {
				walk(e)
			}
		case *ssa.Const:
			if y.Value == nil {
				return // nil / zero value
			}
			if z, ok := cfgx.ConstInt(y); ok && z == 0 {
				return
			}
			if s, ok := cfgx.ConstString(y); ok && s == "" {
				return
			}
			if b, ok := cfgx.ConstBool(y); ok && !b {
				return
			}
			out = append(out, x)
		default:
			if cfgx.ZeroRead(x) {
				return // the zero value, spelled (T{}).f by the normal form
			}
			out = append(out, x)
		}
	}
	walk(v)
	return out
}

// sole returns the single value v stands for (see leaves), or v itself when
// there is not exactly one.
func sole(v ssa.Value) ssa.Value {
	if l := leaves(v); len(l) == 1 {
		return l[0]
	}
	return v
}

// cmpForm is a comparison found in a function, normalised so that `holds` are
// the edges on which the relation the rule asked for is true and `fails` those
// on which it is false, whichever of == / != the source uses. Val is the SSA
// boolean that is true when the source comparison is true; Pos tells whether
// that boolean means "relation holds".
type cmpForm struct {
	Bin   *ssa.BinOp
	Holds []cfgx.Edge
	Fails []cfgx.Edge
	Pos   bool
}

// findCmps lists the ==/!= comparisons for which match(x, y) (operands in either
// order) is true; wantEq says whether the relation of interest is equality.
func findCmps(fn *ssa.Function, wantEq bool, match func(x, y ssa.Value) bool) []cmpForm {
	var out []cmpForm
	for _, b := range fn.Blocks {
		for _, in := range b.Instrs {
			bo, ok := in.(*ssa.BinOp)
			if !ok || (bo.Op != token.EQL && bo.Op != token.NEQ) {
				continue
			}
			x, y := cfgx.ResolveAt(bo.X, b), cfgx.ResolveAt(bo.Y, b)
			if !match(x, y) && !match(y, x) {
				continue
			}
			t, f := cfgx.CondEdges(bo)
			pos := (bo.Op == token.EQL) == wantEq
			if !pos {
				t, f = f, t
			}
			out = append(out, cmpForm{Bin: bo, Holds: t, Fails: f, Pos: pos})
		}
	}
	return out
}

// conjFalseEdges: edges on which the conjunction of the given relations is
// known false: a conjunct fails, or a boolean that is an and-combination of
// (positively used) conjuncts only — `m := a != nil && *a == X` — is false.
func conjFalseEdges(fn *ssa.Function, conj []cmpForm) []cfgx.Edge {
	var out []cfgx.Edge
	var pos, neg []ssa.Value
	for _, c := range conj {
		if c.Pos {
			pos = append(pos, c.Bin)
			// !bin, where the source wrote it
			if c.Bin.Referrers() != nil {
				for _, r := range *c.Bin.Referrers() {
					if u, ok := r.(*ssa.UnOp); ok && u.Op == token.NOT {
						neg = append(neg, u)
					}
				}
			}
		} else {
			out = append(out, c.Fails...)
			neg = append(neg, c.Bin)
		}
	}
	out = append(out, boolConjFalseEdges(fn, pos)...)
	// De Morgan: the conjunction is false where a boolean or-combining the
	// negated conjuncts (`free := ref == nil || pol == nil || *pol != Manual`) is true
	return append(out, boolDisjTrueEdges(fn, neg)...)
}

// boolConjFalseEdges: edges on which one of the boolean values is known false,
// or a boolean that and-combines only these values is false.
func boolConjFalseEdges(fn *ssa.Function, vals []ssa.Value) []cfgx.Edge {
	var out []cfgx.Edge
	in := map[ssa.Value]bool{}
	for _, v := range vals {
		_, f := cfgx.CondEdges(v)
		out = append(out, f...)
		in[v] = true
	}
	for changed := true; changed; {
		changed = false
		for _, b := range fn.Blocks {
			for _, ins := range b.Instrs {
				phi, ok := ins.(*ssa.Phi)
				if !ok || in[phi] {
					continue
				}
				ls := leaves(phi) // false constants are dropped
				all := len(ls) > 0
				for _, l := range ls {
					if !in[l] {
						all = false
					}
				}
				if all {
					in[phi] = true
					changed = true
					_, f := cfgx.CondEdges(phi)
					out = append(out, f...)
				}
			}
		}
	}
	return out
}

// entryEdges: the out-edges of fn's entry block (start of a whole-function search).
func entryEdges(fn *ssa.Function) []cfgx.Edge {
	var out []cfgx.Edge
	for i := range fn.Blocks[0].Succs {
		out = append(out, cfgx.Edge{From: fn.Blocks[0], Idx: i})
	}
	return out
}

// isEqOrNeq: an ==/!= comparison.
func isEqOrNeq(bo *ssa.BinOp) bool { return bo.Op == token.EQL || bo.Op == token.NEQ }

// eqEdges returns the edges on which the operands of an ==/!= comparison are
// known equal / known different, whichever operator the source uses.
func eqEdges(bo *ssa.BinOp) (eq, ne []cfgx.Edge) {
	t, f := cfgx.CondEdges(bo)
	if bo.Op == token.NEQ {
		return f, t
	}
	return t, f
}

// boolDisjTrueEdges: edges on which a boolean that or-combines only the given
// values (`auto := p == nil || *p == Automatic`) is true: then one of them holds.
func boolDisjTrueEdges(fn *ssa.Function, vals []ssa.Value) []cfgx.Edge {
	var out []cfgx.Edge
	in := map[ssa.Value]bool{}
	for _, v := range vals {
		in[v] = true
	}
	for changed := true; changed; {
		changed = false
		for _, b := range fn.Blocks {
			for _, ins := range b.Instrs {
				phi, ok := ins.(*ssa.Phi)
				if !ok || in[phi] {
					continue
				}
				all, n := true, 0
				for _, e := range phi.Edges {
					if k, isC := cfgx.ConstBool(e); isC {
						if !k {
							all = false // a false constant: not an or-combination
						}
						continue
					}
					n++
					if !in[e] {
						all = false
					}
				}
				if all && n > 0 {
					in[phi] = true
					changed = true
					t, _ := cfgx.DirectCondEdges(phi)
					out = append(out, t...)
				}
			}
		}
	}
	return out
}

// viaStruct sees through a small struct that merely bundles values:
// v = s.f where s is a struct literal (or a copy of one) whose field f was
// stored exactly once. Returns v itself otherwise.
func viaStruct(v ssa.Value) ssa.Value {
	for i := 0; i < 8; i++ {
		var base ssa.Value
		var field int
		switch x := v.(type) {
		case *ssa.Field:
			base, field = x.X, x.Field
		case *ssa.UnOp:
			fa, ok := x.X.(*ssa.FieldAddr)
			if !ok || x.Op != token.MUL {
				return v
			}
			// field of an addressable struct variable
			var only ssa.Value
			n := 0
			if al, ok := fa.X.(*ssa.Alloc); ok && al.Referrers() != nil {
				for _, r := range *al.Referrers() {
					// whole-struct store: continue through the stored value
					if st, ok := r.(*ssa.Store); ok && st.Addr == ssa.Value(al) {
						n++
						only = st.Val
					}
					if ofa, ok := r.(*ssa.FieldAddr); ok && ofa.Field == fa.Field && ofa != fa && ofa.Referrers() != nil {
						for _, rr := range *ofa.Referrers() {
							if st, ok := rr.(*ssa.Store); ok && st.Addr == ssa.Value(ofa) {
								return viaStruct(st.Val)
							}
						}
					}
				}
			}
			if n == 1 {
				base, field = only, fa.Field
			} else {
				return v
			}
		default:
			return v
		}
		// base is a struct value: a load of a literal's alloc
		base = sole(base)
		ld, ok := base.(*ssa.UnOp)
		if !ok || ld.Op != token.MUL {
			return v
		}
		al, ok := ld.X.(*ssa.Alloc)
		if !ok || al.Referrers() == nil {
			return v
		}
		var val ssa.Value
		n := 0
		for _, r := range *al.Referrers() {
			if fa, ok := r.(*ssa.FieldAddr); ok && fa.Field == field && fa.Referrers() != nil {
				for _, rr := range *fa.Referrers() {
					if st, ok := rr.(*ssa.Store); ok && st.Addr == ssa.Value(fa) {
						n++
						val = st.Val
					}
				}
			}
		}
		if n != 1 {
			return v
		}
		v = val
	}
	return v
}

// noSuccessBefore: no return of a literal nil error is reachable from fn's
// entry without passing one of the read calls, except across the allowed edges
// (the object is gone / being deleted). A decision that must rest on what was
// read in this very invocation cannot be taken from remembered state.
func (c *Ctx) noSuccessBefore(fn *ssa.Function, reads []ssa.CallInstruction, allowed []cfgx.Edge, construct, okMsg, badMsg string) {
	if len(reads) == 0 {
		c.R.Unknown(construct, c.pos(fn.Pos()), "the read this decision rests on was not found")
		return
	}
	through := map[*ssa.BasicBlock]bool{}
	for _, r := range reads {
		through[r.Block()] = true
	}
	var early *ssa.Return
	for b := range cfgx.ReachFromEntry(fn, through, allowed) {
		if r, ok := b.Instrs[len(b.Instrs)-1].(*ssa.Return); ok && !through[b] && nonNilError(r) == "nil" {
			if early == nil || r.Pos() < early.Pos() {
				early = r
			}
		}
	}
	p := reads[0].Pos()
	if early != nil {
		p = early.Pos()
	}
	c.R.Check(early == nil, construct, c.pos(p), okMsg, badMsg)
}

// loopVisitsAll: the loop is left before its range is exhausted only on the way
// to an error return (a `break` for `continue`, an early success, would skip
// the remaining elements).
func (c *Ctx) loopVisitsAll(fn *ssa.Function, loop map[*ssa.BasicBlock]bool, construct, okMsg, badMsg string) {
	if loop == nil {
		c.R.Unknown(construct, c.pos(fn.Pos()), "the loop was not found")
		return
	}
	_, early := cfgx.OnlyHeaderExits(loop)
	bad := ""
	for _, e := range early {
		for _, x := range cfgx.ErrorReturnsFrom([]cfgx.Edge{e}, nil) {
			r, isRet := x.At.(*ssa.Return)
			if !x.NonNil && !(isRet && nonNilError(r) == "nonnil") {
				bad = c.pos(firstPos(e.From))
			}
		}
	}
	h := cfgx.LoopHeader(loop)
	p := fn.Pos()
	if h != nil {
		p = firstPos(h)
	}
	if bad != "" {
		badMsg += " (left at " + bad + ")"
	}
	c.R.Check(bad == "", construct, c.pos(p), okMsg, badMsg)
}

// projectionComplete: fn turns a list into another list, one element per
// element: its (single) loop adds an element on every iteration and is not left
// early. A projection that filters hides elements from everything written
// against the interface.
func (c *Ctx) projectionComplete(fn *ssa.Function, what string) {
	if fn == nil || fn.Blocks == nil {
		c.R.Unknown(what, "", "function not found")
		return
	}
	c.mech(fn)
	loops := cfgx.Loops(fn)
	if len(loops) != 1 {
		c.R.Unknown(load.FuncName(fn)+": "+what, c.pos(fn.Pos()), "expected exactly one loop")
		return
	}
	for _, loop := range loops {
		through := map[*ssa.BasicBlock]bool{}
		for b := range loop {
			for _, in := range b.Instrs {
				switch x := in.(type) {
				case *ssa.Store:
					if _, ok := x.Addr.(*ssa.IndexAddr); ok {
						through[b] = true
					}
				case ssa.CallInstruction:
					if bi, ok := x.Common().Value.(*ssa.Builtin); ok && bi.Name() == "append" {
						through[b] = true
					}
				}
			}
		}
		by, w := cfgx.LoopBypass(loop, through, nil, c.posf())
		exits, _ := cfgx.OnlyHeaderExits(loop)
		c.R.Check(len(through) > 0 && !by && exits, load.FuncName(fn)+": "+what, c.pos(firstPos(cfgx.LoopHeader(loop))), "every element of the list yields an element of the result", "the projection can skip an element (or stop early): callers written against the interface never see it", w...)
	}
}

// anyCallThrough: v derives from a call of name - directly, or through a helper
// of the repository (not inlined: it sits in an argument list the inliner leaves
// alone) whose returned value derives from such a call.
func anyCallThrough(v ssa.Value, name string) bool {
	if flow.Default.AnyCall(v, name) {
		return true
	}
	for _, ci := range flow.Default.CallsIn(v) {
		f := ci.Common().StaticCallee()
		if f == nil || f.Blocks == nil || f.Pkg == nil || !strings.HasPrefix(f.Pkg.Pkg.Path(), "github.com/crossplane/crossplane/") {
			continue
		}
		for i := 0; i < f.Signature.Results().Len(); i++ {
			for _, rv := range cfgx.ReturnedValues(f, i) {
				if flow.Default.AnyCall(rv, name) {
					return true
				}
			}
		}
	}
	return false
}
