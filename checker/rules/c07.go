package rules

import (
	"go/token"
	"go/types"
	"sort"
	"strings"

	"golang.org/x/tools/go/ssa"

	"xpcheck/internal/cfgx"
	"xpcheck/internal/flow"
	"xpcheck/internal/load"
	"xpcheck/internal/tables"
)

const (
	rtClaim     = "github.com/crossplane/crossplane-runtime/pkg/resource/unstructured/claim"
	rtComposite = "github.com/crossplane/crossplane-runtime/pkg/resource/unstructured/composite"
)

func init() {
	register(&Property{
		ID:  "C07",
		Run: c07,
		Explanation: "Decides that the filter tables cover the machinery and that the syncers apply them: (R7.1) the field paths used by the claim/XR accessors that crossplane calls (extracted from the crossplane-runtime method bodies) have their top-level key in the corresponding xcrd table; PropagateSpecProps ⊆ both tables; claim-only keys are never propagated; the fields the statement names as claim-only / XR-owned lie outside PropagateSpecProps; " +
			"(R7.2) the XR spec written is withoutKeys(claim spec, keys of the claim table minus only PropagateSpecProps and, on the Manual edge, compositionRevisionRef), and withoutKeys filters top-level keys only, storing the original values; (R7.3) the status reaching the claim is filtered by the status table; (R7.4) claim labels/annotations reach the XR only through withoutReservedK8sEntries, which deletes on both reserved suffixes; " +
			"(R7.5) the XR's external name is read before claim metadata is copied onto the same object and restored afterwards; compositionRef flows XR→claim only when the claim has none, compositionRevisionRef only on the Automatic edge; (R7.6) no bulk flow from the XR's spec map into the claim's spec map. R7.5 also requires persistence: after an XR-owned value (external name, composition / revision reference) was put on the claim, no success return is reached without a successful client.Update of the claim. R7.5 also requires that under Automatic the XR's revision reaches the claim whether or not the claim already has one. R7.3 also requires that the options of merge() set their own field of the config only.",
		NotDecided:  []string{"equality of propagated values", "CRD pruning by the API server", "server-side-apply field ownership semantics"},
		Assumptions: []string{"fieldpath accessors of crossplane-runtime read/write exactly the constant path they are given"},
	})
}

// accessorPaths extracts the constant field paths used by the methods of
// pkg.Unstructured that are called from the repository.
func accessorPaths(c *Ctx, pkgPath string) (paths map[string][]string, called map[string]bool) {
	paths = map[string][]string{}
	called = map[string]bool{}
	sp := c.P.SSAPkgs[pkgPath]
	if sp == nil {
		return
	}
	T := sp.Type("Unstructured")
	if T == nil {
		return
	}
	ptr := types.NewPointer(T.Type())
	ms := c.P.SSA.MethodSets.MethodSet(ptr)
	methods := map[string]*ssa.Function{}
	for i := 0; i < ms.Len(); i++ {
		f := c.P.SSA.MethodValue(ms.At(i))
		if f == nil || f.Pkg != sp || f.Synthetic != "" {
			continue
		}
		methods[f.Name()] = f
		for _, b := range f.Blocks {
			for _, in := range b.Instrs {
				ci, ok := in.(ssa.CallInstruction)
				if !ok || !strings.Contains(cfgx.CalleeName(ci), "fieldpath.Paved)") {
					continue
				}
				for _, a := range ci.Common().Args {
					if s, ok := cfgx.ConstString(a); ok && (strings.HasPrefix(s, "spec.") || strings.HasPrefix(s, "status.") || s == "status") {
						paths[f.Name()] = append(paths[f.Name()], s)
					}
				}
			}
		}
	}
	// which of them does the repository call?
	for _, fn := range c.P.RepoFunctions() {
		for _, b := range fn.Blocks {
			for _, in := range b.Instrs {
				ci, ok := in.(ssa.CallInstruction)
				if !ok {
					continue
				}
				cc := ci.Common()
				if cc.IsInvoke() {
					if _, ok := methods[cc.Method.Name()]; ok {
						if it, ok := cc.Value.Type().Underlying().(*types.Interface); ok && types.Implements(ptr, it) {
							called[cc.Method.Name()] = true
						}
					}
				} else if f := cc.StaticCallee(); f != nil {
					if m, ok := methods[f.Name()]; ok && m == f {
						called[f.Name()] = true
					}
				}
			}
		}
	}
	return
}

func topKey(p string) (section, key string) {
	parts := strings.Split(p, ".")
	if len(parts) < 2 {
		return parts[0], ""
	}
	return parts[0], parts[1]
}

func c07(c *Ctx) {
	xc := c.P.TypesPkg("internal/xcrd")
	// The managed-fields upgrade is part of the server-side mechanism (an anchor of the
	// property): until it succeeded the legacy manager owns the claim-derived fields and a
	// field removed from the claim stays on the XR. Its failed steps fall under R7.0.
	c.method(pkgClaim, "PatchingManagedFieldsUpgrader", "Upgrade")
	c.R.Rule("R7.1", "the filter tables cover the machinery (derived from the accessors crossplane calls)", 20,
		"a machinery field missing from a table is copied across as if it were a user field (or a user field is dropped)")
	var claimKeys, xrKeys, statusKeys, propagate []string
	if xc == nil {
		c.R.Unknown("internal/xcrd", "", "package not loaded")
	} else {
		ok1, ok2, ok3 := false, false, false
		claimKeys, ok1 = tables.MapKeys(xc, tables.FindFunc(xc, "", "CompositeResourceClaimSpecProps"))
		xrKeys, ok2 = tables.MapKeys(xc, tables.FindFunc(xc, "", "CompositeResourceSpecProps"))
		statusKeys, ok3 = tables.MapKeys(xc, tables.FindFunc(xc, "", "CompositeResourceStatusProps"))
		var complete bool
		if init := tables.FindVarInit(xc, "PropagateSpecProps"); init != nil {
			propagate, complete = tables.Strings(xc, init, nil)
		}
		if !ok1 || !ok2 || !ok3 || !complete || len(propagate) == 0 {
			c.R.Unknown("xcrd tables", "", "could not extract CompositeResource{,Claim}SpecProps / StatusProps / PropagateSpecProps as constant tables")
		}
	}
	cs, xs, ss, ps := tables.Set(claimKeys), tables.Set(xrKeys), tables.Set(statusKeys), tables.Set(propagate)
	c.R.Extra["tables"] = map[string][]string{"claim": claimKeys, "xr": xrKeys, "status": statusKeys, "propagate": propagate}
	for _, side := range []struct {
		pkg, label string
		spec       map[string]bool
	}{{rtClaim, "claim", cs}, {rtComposite, "xr", xs}} {
		paths, called := accessorPaths(c, side.pkg)
		if len(paths) < 5 {
			c.R.Unknown(side.label+" accessors", "", "accessor paths of "+side.pkg+".Unstructured not found")
			continue
		}
		var names []string
		for n := range paths {
			names = append(names, n)
		}
		sort.Strings(names)
		for _, n := range names {
			if !called[n] {
				continue
			}
			for _, p := range paths[n] {
				sec, key := topKey(p)
				if key == "" {
					continue
				}
				tbl, tname := side.spec, side.label+" spec table"
				if sec == "status" {
					if side.label != "xr" {
						continue // claim status fields are the claim's own; only the XR→claim status filter matters
					}
					tbl, tname = ss, "status table"
				}
				c.R.Check(tbl[key], side.label+"."+n+" "+p, "", "top-level key "+key+" is in the "+tname, "accessor "+n+" uses "+p+" but "+key+" is missing from the "+tname+": the field would be treated as a user field by the syncers")
			}
		}
		// statement oracle
		var oracle []string
		if side.label == "claim" {
			oracle = []string{"GetResourceReference", "SetResourceReference", "GetWriteConnectionSecretToReference", "SetWriteConnectionSecretToReference", "GetPublishConnectionDetailsTo", "SetPublishConnectionDetailsTo", "GetCompositeDeletePolicy", "SetCompositeDeletePolicy"}
		} else {
			oracle = []string{"GetResourceReferences", "SetResourceReferences", "GetClaimReference", "SetClaimReference", "GetWriteConnectionSecretToReference", "SetWriteConnectionSecretToReference"}
		}
		for _, n := range oracle {
			for _, p := range paths[n] {
				_, key := topKey(p)
				c.R.Check(side.spec[key] && !ps[key] && key != "compositionRevisionRef", side.label+"."+n+" never-crosses", "", key+" is machinery of the "+side.label+" and is not propagated", key+" (named by the property as "+side.label+"-owned) is propagated or missing from the "+side.label+" table")
			}
			if len(paths[n]) == 0 {
				c.R.Unknown(side.label+"."+n, "", "accessor not found in crossplane-runtime")
			}
		}
	}
	for _, k := range propagate {
		c.R.Check(cs[k] && xs[k], "PropagateSpecProps "+k, "", "present in both the claim and the XR table", "propagated key "+k+" is missing from the claim or XR table")
	}
	c.R.Check(cs["compositionRevisionRef"] && xs["compositionRevisionRef"], "CompositionRevisionRef in both tables", "", "present in both", "compositionRevisionRef missing from a table")
	for _, k := range claimKeys {
		if !xs[k] {
			c.R.Check(!ps[k], "claim-only key "+k, "", "claim-only machinery is not propagated", "claim-only key "+k+" is in PropagateSpecProps")
		}
	}

	ssaS := c.method(pkgClaim, "ServerSideCompositeSyncer", "Sync")
	csaS := c.method(pkgClaim, "ClientSideCompositeSyncer", "Sync")
	wk := xp + pkgClaim + ".withoutKeys"
	gpf := xp + "internal/xcrd.GetPropFields"

	c.R.Rule("R7.2", "the filter is applied and only narrowed by the allowed keys; withoutKeys is top-level and value-preserving", 8,
		"claim-only machinery would reach the XR, or nested user fields named like machinery would be dropped")
	for _, fn := range []*ssa.Function{ssaS, csaS} {
		if fn == nil {
			continue
		}
		_, xrObj, _ := syncSites(fn)
		cm := ssa.Value(fn.Params[2])
		var specStore *ssa.MapUpdate
		for _, b := range fn.Blocks {
			for _, in := range b.Instrs {
				if mu, ok := in.(*ssa.MapUpdate); ok {
					if k, ok := cfgx.ConstString(underIface(mu.Key)); ok && k == "spec" && flow.Root(mu.Map) == xrObj {
						specStore = mu
					}
				}
			}
		}
		if specStore == nil {
			c.R.Bad(load.FuncName(fn)+": xr spec store", c.pos(fn.Pos()), "the XR's spec is not assigned from the filtered claim spec")
			continue
		}
		call, ok := underIface(specStore.Value).(*ssa.Call)
		if !ok || cfgx.CalleeName(call) != wk {
			c.R.Bad(load.FuncName(fn)+": xr spec = withoutKeys(...)", c.pos(specStore.Pos()), "the value stored as the XR's spec is not the result of withoutKeys")
			continue
		}
		a := call.Call.Args
		fromClaimSpec := flow.Default.Any(a[0], func(v ssa.Value) bool {
			lk, ok := v.(*ssa.Lookup)
			if !ok {
				return false
			}
			k, isC := cfgx.ConstString(underIface(lk.Index))
			return isC && k == "spec" && flow.Root(lk.X) == cm
		})
		c.R.Check(fromClaimSpec, load.FuncName(fn)+": filters the claim's spec", c.pos(call.Pos()), "withoutKeys is applied to cm.Object[\"spec\"]", "the filtered map is not the claim's spec")
		var tbl ssa.Value
		for _, ci := range flow.Strict.CallsIn(a[1]) {
			if cfgx.CalleeName(ci) == gpf {
				tbl = ci.Common().Args[0]
			}
		}
		tcall, isCall := tbl.(*ssa.Call)
		c.R.Check(isCall && cfgx.CalleeName(tcall) == xp+"internal/xcrd.CompositeResourceClaimSpecProps", load.FuncName(fn)+": filter table", c.pos(call.Pos()), "the keys filtered are GetPropFields(CompositeResourceClaimSpecProps())", "the filter keys do not come from the claim table")
		// deletes on the table
		for _, d := range calls(fn, "builtin.delete") {
			if d.Common().Args[0] != tbl {
				continue
			}
			k := d.Common().Args[1]
			if s, ok := cfgx.ConstString(k); ok {
				good := s == "compositionRevisionRef"
				var manual []cfgx.Edge
				for _, b := range fn.Blocks {
					for _, in := range b.Instrs {
						if bo, ok := in.(*ssa.BinOp); ok && bo.Op.String() == "==" {
							for _, side := range []ssa.Value{bo.X, bo.Y} {
								if cs, ok := cfgx.ConstString(side); ok && cs == "Manual" {
									t, _ := cfgx.CondEdges(bo)
									manual = append(manual, t...)
								}
							}
						}
					}
				}
				if good {
					c.requireCross(site(d)+" manual-only", d, manual, "compositionUpdatePolicy == Manual")
				} else {
					c.R.Bad(site(d)+" allowed-key", c.pos(d.Pos()), "key "+s+" is removed from the filter: it would be propagated to the XR")
				}
				continue
			}
			fromProp := flow.Strict.Any(k, func(v ssa.Value) bool { return isGlobalNamed(v, xp+"internal/xcrd", "PropagateSpecProps") })
			c.R.Check(fromProp, site(d)+" allowed-key", c.pos(d.Pos()), "only PropagateSpecProps are removed from the filter", "a key that is not from PropagateSpecProps is removed from the claim filter")
		}
	}
	if w := c.fn(pkgClaim, "withoutKeys"); w != nil {
		// the set of keys to drop is built from the keys parameter (any set-like map), the other map
		// written is the result
		var out *ssa.MapUpdate
		keysParam := ssa.Value(w.Params[len(w.Params)-1])
		fromKeys := func(v ssa.Value) bool {
			return flow.Strict.Any(v, func(x ssa.Value) bool {
				rg, ok := x.(*ssa.Range)
				return ok && flow.Root(rg.X) == keysParam || x == keysParam
			})
		}
		filterMaps := map[ssa.Value]bool{}
		for _, b := range w.Blocks {
			for _, in := range b.Instrs {
				if mu, ok := in.(*ssa.MapUpdate); ok && fromKeys(mu.Key) {
					filterMaps[sole(mu.Map)] = true
				}
			}
		}
		for _, b := range w.Blocks {
			for _, in := range b.Instrs {
				if mu, ok := in.(*ssa.MapUpdate); ok && !filterMaps[sole(mu.Map)] {
					out = mu
				}
			}
		}
		if out == nil {
			c.R.Unknown(load.FuncName(w)+": out store", c.pos(w.Pos()), "not found")
		} else {
			// "k is not one of the keys": a lookup in the set (its value, or its presence), or slices.Contains(keys, k)
			var keep []cfgx.Edge
			for _, b := range w.Blocks {
				for _, in := range b.Instrs {
					switch x := in.(type) {
					case *ssa.Lookup:
						if !filterMaps[sole(x.X)] {
							continue
						}
						if !x.CommaOk {
							if isBoolMap(x.X.Type()) {
								_, f := cfgx.CondEdges(x)
								keep = append(keep, f...)
							}
							continue
						}
						if x.Referrers() != nil {
							for _, r := range *x.Referrers() {
								if ex, ok := r.(*ssa.Extract); ok && ex.Index == 1 {
									_, f := cfgx.CondEdges(ex)
									keep = append(keep, f...)
								}
							}
						}
					case ssa.CallInstruction:
						nm := cfgx.CalleeName(x)
						if i := strings.Index(nm, "["); i > 0 {
							nm = nm[:i]
						}
						if nm == "slices.Contains" && len(x.Common().Args) == 2 && flow.Root(x.Common().Args[0]) == keysParam {
							_, f := cfgx.CallCondEdges(x)
							keep = append(keep, f...)
						}
					}
				}
			}
			// membership by a search loop over the keys (what slices.Contains stands for): found := …; if elem == k { found = true }
			{
				var hit []cfgx.Edge
				for _, b := range w.Blocks {
					for _, in := range b.Instrs {
						bo, ok := in.(*ssa.BinOp)
						if !ok || bo.Op != token.EQL {
							continue
						}
						fromKeys := func(v ssa.Value) bool {
							return flow.Default.Any(v, func(x ssa.Value) bool {
								switch y := x.(type) {
								case *ssa.IndexAddr:
									return flow.Root(y.X) == keysParam
								case *ssa.Index:
									return flow.Root(y.X) == keysParam
								case *ssa.Range:
									return flow.Root(y.X) == keysParam
								}
								return false
							})
						}
						if fromKeys(bo.X) != fromKeys(bo.Y) {
							t, _ := cfgx.CondEdges(bo)
							hit = append(hit, t...)
						}
					}
				}
				for _, phi := range cfgx.FlagPhis(w, hit) {
					_, f := cfgx.CondEdges(phi)
					keep = append(keep, f...)
				}
				// … or by an index search (slices.Index / slices.Contains as the library defines it): idx < 0 means absent
				if len(hit) > 0 {
					for _, b := range w.Blocks {
						for _, in := range b.Instrs {
							bo, ok := in.(*ssa.BinOp)
							if !ok {
								continue
							}
							k, isC := cfgx.ConstInt(bo.Y)
							if !isC {
								continue
							}
							miss := false
							for _, l := range leavesUpTo(bo.X, nil) {
								if z, ok := cfgx.ConstInt(l); ok && z == -1 {
									miss = true
								}
							}
							if !miss {
								continue
							}
							t, f := cfgx.CondEdges(bo)
							switch {
							case bo.Op == token.GEQ && k == 0, bo.Op == token.NEQ && k == -1, bo.Op == token.GTR && k == -1:
								keep = append(keep, f...)
							case bo.Op == token.LSS && k == 0, bo.Op == token.EQL && k == -1, bo.Op == token.LEQ && k == -1:
								keep = append(keep, t...)
							}
						}
					}
				}
			}
			c.requireCross(load.FuncName(w)+": out[k]= only if not filtered", out, keep, "filter[k]==false")
			_, isEx := out.Value.(*ssa.Extract)
			c.R.Check(isEx && sameRange(out.Key, out.Value), load.FuncName(w)+": value-preserving", c.pos(out.Pos()), "stores the original value of the same entry (no recursion into nested maps)", "withoutKeys transforms nested values: user fields below the top level that share a machinery name would be dropped")
			for _, x := range cfgx.Calls(w, nil) {
				if f := x.Common().StaticCallee(); f != nil && load.InRepo(f) {
					c.R.Bad(site(x)+" top-level-only", c.pos(x.Pos()), "withoutKeys calls "+load.FuncName(f)+": filtering is no longer confined to top-level keys")
				}
			}
		}
	}

	c.R.Rule("R7.3", "status direction: XR status reaches the claim only through the status-table filter", 2,
		"XR conditions and connection-detail bookkeeping would be copied into the claim's status")
	stp := xp + "internal/xcrd.CompositeResourceStatusProps"
	if ssaS != nil {
		found := false
		cm := ssa.Value(ssaS.Params[2])
		for _, b := range ssaS.Blocks {
			for _, in := range b.Instrs {
				mu, ok := in.(*ssa.MapUpdate)
				if !ok || flow.Root(mu.Map) != cm {
					continue
				}
				if k, ok := cfgx.ConstString(underIface(mu.Key)); ok && k == "status" {
					found = true
					call, ok := underIface(mu.Value).(*ssa.Call)
					good := ok && cfgx.CalleeName(call) == wk && flow.Default.AnyCall(call.Call.Args[1], stp)
					c.R.Check(good, load.FuncName(ssaS)+": claim status = withoutKeys(xr status, status table)", c.pos(mu.Pos()), "filtered by GetPropFields(CompositeResourceStatusProps())", "the XR status is copied to the claim without the status-table filter")
				}
			}
		}
		if !found {
			c.R.Unknown(load.FuncName(ssaS)+": claim status store", c.pos(ssaS.Pos()), "not found")
		}
	}
	// the options of merge() compose: each one sets its own field of the config and leaves the others
	// (an option that resets the config discards the override the status merge is called with)
	for _, on := range []string{"withSrcFilter", "withMergeOptions"} {
		of := c.fn(pkgClaim, on)
		if of == nil {
			continue
		}
		for _, g := range closures(of) {
			if g == of || len(g.Params) != 1 {
				continue
			}
			fields, whole := 0, false
			for _, b := range g.Blocks {
				for _, in := range b.Instrs {
					st, ok := in.(*ssa.Store)
					if !ok {
						continue
					}
					if _, isField := st.Addr.(*ssa.FieldAddr); isField && flow.Root(st.Addr) == ssa.Value(g.Params[0]) {
						fields++
					} else if st.Addr == ssa.Value(g.Params[0]) {
						whole = true
					}
				}
			}
			c.R.Check(fields == 1 && !whole, load.FuncName(of)+": sets its own field only", c.pos(g.Pos()), "the option stores one field of the merge config", "the option overwrites the merge config (or more than its own field): options given before it are lost")
		}
	}
	if csaS != nil {
		found := false
		for _, m := range calls(csaS, xp+pkgClaim+".merge") {
			a := m.Common().Args
			if !lookupOf(a[0], "status") {
				continue
			}
			found = true
			good := lookupOf(a[1], "status") && anyCallThrough(a[2], stp) && flow.Default.AnyCall(a[2], xp+pkgClaim+".withSrcFilter")
			c.R.Check(good, site(m)+" status-filter", c.pos(m.Pos()), "merge(claim status, xr status, withSrcFilter(status table))", "the XR status is merged into the claim without the status-table filter")
		}
		if !found {
			c.R.Unknown(load.FuncName(csaS)+": status merge", c.pos(csaS.Pos()), "not found")
		}
	}

	c.R.Rule("R7.4", "reserved metadata: claim labels/annotations reach the XR only through withoutReservedK8sEntries", 5,
		"kubectl.kubernetes.io/last-applied-configuration and friends would be copied to the XR")
	wr := xp + pkgClaim + ".withoutReservedK8sEntries"
	for _, fn := range []*ssa.Function{ssaS, csaS} {
		if fn == nil {
			continue
		}
		_, xrObj, _ := syncSites(fn)
		n := 0
		for _, x := range calls(fn, xprt+"meta.AddAnnotations", xprt+"meta.AddLabels") {
			a := cfgx.CallArgs(x)
			if flow.Root(underIface(a[0])) != xrObj {
				continue
			}
			fromClaimMeta := flow.Default.Any(a[1], func(v ssa.Value) bool {
				return hasSuffixCall(v, "Unstructured).GetAnnotations") || hasSuffixCall(v, "Unstructured).GetLabels")
			})
			if !fromClaimMeta {
				continue
			}
			n++
			call, ok := a[1].(*ssa.Call)
			c.R.Check(ok && cfgx.CalleeName(call) == wr, site(x)+" filtered", c.pos(x.Pos()), "passes through withoutReservedK8sEntries", "claim metadata is copied to the XR without removing reserved kubernetes.io / k8s.io keys")
		}
		if n < 2 {
			c.R.Unknown(load.FuncName(fn)+": metadata copies", c.pos(fn.Pos()), "expected AddAnnotations and AddLabels from the claim")
		}
	}
	if w := c.fn(pkgClaim, "withoutReservedK8sEntries"); w != nil {
		del := calls(w, "builtin.delete")
		// the copying shape: entries are stored into a fresh map that is returned
		var puts []*ssa.MapUpdate
		for _, b := range w.Blocks {
			for _, in := range b.Instrs {
				if mu, ok := in.(*ssa.MapUpdate); ok {
					puts = append(puts, mu)
				}
			}
		}
		seen := map[string]bool{}
		for _, hs := range calls(w, "strings.HasSuffix") {
			if s, ok := cfgx.ConstString(hs.Common().Args[1]); ok {
				t, _ := cfgx.CallCondEdges(hs)
				for _, d := range del {
					if r, _ := cfgx.ReachableFromEdges(t, d, cfgx.BackEdges(w), nil); r {
						seen[s] = true
					}
				}
				if len(del) == 0 && len(puts) > 0 {
					kept := false
					for _, mu := range puts {
						if r, _ := cfgx.ReachableFromEdges(t, mu, cfgx.BackEdges(w), nil); r {
							kept = true
						}
					}
					if !kept {
						seen[s] = true
					}
				}
			}
		}
		if len(del) == 0 && len(puts) > 0 {
			// count the copy as the removal site
			del = append(del, nil)
		}
		c.R.Check(seen["kubernetes.io"] && seen["k8s.io"] && len(del) > 0, load.FuncName(w)+": both suffixes", c.pos(w.Pos()), "deletes keys whose prefix ends in kubernetes.io or k8s.io", "not both reserved suffixes (kubernetes.io, k8s.io) lead to deletion")
	}

	c.R.Rule("R7.5", "XR-owned values win: external name read before claim metadata is copied and restored; compositionRef / compositionRevisionRef flow back only on their edges", 6,
		"an existing XR would be renamed to the claim's external name, or the claim's composition choice would be overwritten")
	for _, fn := range []*ssa.Function{ssaS, csaS} {
		if fn == nil {
			continue
		}
		_, xrObj, _ := syncSites(fn)
		xrParam := ssa.Value(fn.Params[3])
		var getEN ssa.CallInstruction
		for _, g := range calls(fn, xprt+"meta.GetExternalName") {
			if flow.Root(underIface(cfgx.CallArgs(g)[0])) == xrParam {
				if getEN == nil || g.Pos() < getEN.Pos() {
					getEN = g
				}
			}
		}
		var setEN ssa.CallInstruction
		for _, s := range calls(fn, xprt+"meta.SetExternalName") {
			if flow.Root(underIface(cfgx.CallArgs(s)[0])) == xrObj {
				setEN = s
			}
		}
		if getEN == nil || setEN == nil {
			c.R.Bad(load.FuncName(fn)+": external name", c.pos(fn.Pos()), "the XR's existing external name is not read and restored")
			continue
		}
		c.R.Check(cfgx.CallArgs(setEN)[1] == getEN.Value(), site(setEN)+" restores-xr-name", c.pos(setEN.Pos()), "restores the name read from the XR", "the external name written to the XR is not the one read from the XR")
		for _, x := range calls(fn, xprt+"meta.AddAnnotations") {
			tgt := flow.Root(underIface(cfgx.CallArgs(x)[0]))
			if tgt != xrObj {
				continue
			}
			if tgt == xrParam {
				c.R.Check(cfgx.InstrReaches(getEN, x, nil) && !cfgx.InstrReaches(x, getEN, nil), site(x)+" after-read", c.pos(x.Pos()), "the XR's external name is read before claim annotations are copied onto it", "claim annotations are copied onto the XR before its own external name is read: the claim's name wins")
			}
			c.R.Check(cfgx.InstrReaches(x, setEN, nil), site(x)+" before-restore", c.pos(x.Pos()), "the restore happens after the copy", "the external name is restored before the claim annotations are copied (and then overwritten)")
		}
		// XR -> claim composition ref / revision ref
		cm := ssa.Value(fn.Params[2])
		for _, s := range methodCallOn(fn, "claim.Unstructured).SetCompositionReference", cm) {
			var none []cfgx.Edge
			for _, b := range fn.Blocks {
				for _, in := range b.Instrs {
					if bo, ok := in.(*ssa.BinOp); ok && hasSuffixCall(bo.X, "claim.Unstructured).GetCompositionReference") && cfgx.IsNilConst(bo.Y) {
						t, f := cfgx.CondEdges(bo)
						if bo.Op.String() == "==" {
							none = append(none, t...)
						} else {
							none = append(none, f...)
						}
					}
				}
			}
			c.requireCross(site(s)+" claim-has-none", s, none, "cm.GetCompositionReference()==nil")
		}
		for _, s := range methodCallOn(fn, "claim.Unstructured).SetCompositionRevisionReference", cm) {
			var auto []cfgx.Edge
			for _, b := range fn.Blocks {
				for _, in := range b.Instrs {
					if bo, ok := in.(*ssa.BinOp); ok && bo.Op.String() == "==" {
						for _, side := range []ssa.Value{bo.X, bo.Y} {
							if cs, ok := cfgx.ConstString(side); ok && cs == "Automatic" {
								t, _ := cfgx.CondEdges(bo)
								auto = append(auto, t...)
							}
						}
					}
				}
			}
			c.requireCross(site(s)+" automatic-only", s, auto, "compositionUpdatePolicy == Automatic")
		}
		// ... and it does flow: under Automatic the claim's revision reference is
		// overwritten with the XR's, explicitly (a non-overriding merge would only
		// ever deliver the first revision)
		flows := false
		for _, s := range methodCallOn(fn, "claim.Unstructured).SetCompositionRevisionReference", cm) {
			if flow.Default.Any(cfgx.CallArgs(s)[0], func(v ssa.Value) bool {
				return hasSuffixCall(v, "composite.Unstructured).GetCompositionRevisionReference")
			}) {
				flows = true
			}
		}
		// … whether or not the claim already has one: the copy is not reserved for a claim without a revision
		for _, st := range methodCallOn(fn, "claim.Unstructured).SetCompositionRevisionReference", cm) {
			if !flow.Default.Any(cfgx.CallArgs(st)[0], func(v ssa.Value) bool {
				return hasSuffixCall(v, "composite.Unstructured).GetCompositionRevisionReference")
			}) {
				continue
			}
			var hasOne []cfgx.Edge
			for _, b := range fn.Blocks {
				for _, in := range b.Instrs {
					bo, ok := in.(*ssa.BinOp)
					if !ok || !isEqOrNeq(bo) {
						continue
					}
					for _, pr := range [][2]ssa.Value{{bo.X, bo.Y}, {bo.Y, bo.X}} {
						ci, isCall := pr[0].(*ssa.Call)
						if isCall && cfgx.IsNilConst(pr[1]) && strings.HasSuffix(cfgx.CalleeName(ci), "claim.Unstructured).GetCompositionRevisionReference") && flow.Root(underIface(cfgx.Receiver(ci))) == cm {
							eq, ne := eqEdges(bo)
							_ = eq
							hasOne = append(hasOne, ne...)
						}
					}
				}
			}
			if len(hasOne) == 0 {
				continue
			}
			reach, _ := cfgx.ReachableFromEdges(hasOne, st, cfgx.BackEdges(fn), nil)
			c.R.Check(reach, site(st)+" also when the claim has a revision", c.pos(st.Pos()), "the XR's revision is written to the claim also when the claim already has one", "the XR's revision reaches the claim only when the claim has none: under Automatic the claim keeps the first revision it saw")
		}
		c.R.Check(flows, load.FuncName(fn)+": revision follows the XR under Automatic", c.pos(fn.Pos()), "cm.SetCompositionRevisionReference(xr.GetCompositionRevisionReference())", "the XR's composition revision is never written to the claim: under the Automatic policy the claim keeps the first revision it saw")
		// what flows back is written: after an XR-owned value was put on the claim, no
		// success return is reached without a client.Update of the claim
		{
			var muts, upds []ssa.CallInstruction
			for _, x := range calls(fn, xprt+"meta.SetExternalName") {
				if flow.Root(underIface(cfgx.CallArgs(x)[0])) == cm {
					muts = append(muts, x)
				}
			}
			muts = append(muts, methodCallOn(fn, "claim.Unstructured).SetCompositionReference", cm)...)
			muts = append(muts, methodCallOn(fn, "claim.Unstructured).SetCompositionRevisionReference", cm)...)
			for _, u := range calls(fn, clientUpdate) {
				if a := cfgx.CallArgs(u); len(a) > 1 && flow.Root(underIface(a[1])) == cm {
					upds = append(upds, u)
				}
			}
			for _, m := range muts {
				var gates []cfgx.Edge
				var thru []ssa.CallInstruction
				for _, u := range upds {
					if cfgx.InstrReaches(m, u, nil) {
						gates = append(gates, okEdges(u)...)
						thru = append(thru, u)
					}
				}
				bad := ""
				for _, b := range fn.Blocks {
					r, ok := b.Instrs[len(b.Instrs)-1].(*ssa.Return)
					if !ok || !cfgx.InstrReaches(m, r, nil) {
						continue
					}
					e := cfgx.ReturnValue(r, len(r.Results)-1)
					if isWrapOfCall(e) {
						// `return Wrap(client.Update(cm))`: the return is the outcome of the write
						inner := e.(*ssa.Call).Call.Args[0]
						direct := false
						for _, u := range thru {
							if uv, ok := u.(ssa.Value); ok && uv == inner {
								direct = true
							}
						}
						if direct {
							continue
						}
						if ic, ok := inner.(ssa.CallInstruction); ok {
							if onFail, _ := cfgx.MustCross(r, failEdges(ic), nil); onFail && len(failEdges(ic)) > 0 {
								continue // `if err := step(); err != nil { return Wrap(err) }`
							}
						}
					} else if nonNilError(r) == "nonnil" {
						continue
					}
					if !cfgx.CrossesAfter(m, r, gates) {
						// plain reachability sees the error temporaries of inlined stages as open paths: ask path-sensitively
						if okp, _ := cfgx.MustCross(r, gates, nil); !okp || len(gates) == 0 {
							// … and whether the paths around the write hand back an error (the result temporary of a failed stage)
							for _, x := range cfgx.ErrorReturnsFrom(entryEdges(fn), gates) {
								if x.At == r && !x.NonNil {
									bad = c.pos(r.Pos())
								}
							}
							if len(gates) == 0 {
								bad = c.pos(r.Pos())
							}
						}
					}
				}
				c.R.Check(bad == "", site(m)+" persisted", c.pos(m.Pos()), "after this XR-owned value was put on the claim every success return lies behind a successful client.Update of the claim", "the value put on the claim here can be dropped: the return at "+bad+" is reachable without a client.Update of the claim (status updates do not persist metadata or spec)")
			}
		}
		// the XR-owned key table is only ever narrowed for the Manual direction:
		// no entry is deleted from a GetPropFields/field table on an Automatic edge
		for _, d := range calls(fn, "builtin.delete") {
			var auto []cfgx.Edge
			for _, cf := range findCmps(fn, true, func(x, y ssa.Value) bool { cs, ok := cfgx.ConstString(y); return ok && cs == "Automatic" }) {
				auto = append(auto, cf.Holds...)
			}
			if len(auto) == 0 {
				continue
			}
			r, w := cfgx.ReachableFromEdges(auto, d, nil, c.posf())
			onlyAuto, _ := cfgx.MustCross(d, auto, nil)
			c.R.Check(!(r && onlyAuto), site(d)+" no-table-narrowing-under-automatic", c.pos(d.Pos()), "no filter-table entry is removed specifically under the Automatic policy", "under Automatic a key is removed from a filter table: the XR's value then reaches the claim only through the non-overriding merge", w...)
		}
	}

	c.R.Rule("R7.6", "no bulk XR-spec → claim-spec flow", 1,
		"user-defined XR spec fields would appear on the claim, contradicting 'in the other direction only ...'")
	for _, fn := range []*ssa.Function{ssaS, csaS} {
		if fn == nil {
			continue
		}
		short := strings.TrimPrefix(load.FuncName(fn), "(*internal/controller/apiextensions/claim.")
		short = strings.Replace(short, ")", "", 1)
		bad := false
		for _, m := range calls(fn, xp+pkgClaim+".merge") {
			a := m.Common().Args
			if lookupOf(a[0], "spec") && lookupOf(a[1], "spec") {
				bad = true
				c.R.Bad(short+" merge(spec)", c.pos(m.Pos()), "the XR's spec map is merged into the claim's spec map (late initialisation): every user-defined XR spec field missing on the claim is copied back")
			}
		}
		for _, b := range fn.Blocks {
			for _, in := range b.Instrs {
				if mu, ok := in.(*ssa.MapUpdate); ok && flow.Root(mu.Map) == ssa.Value(fn.Params[2]) {
					if k, ok := cfgx.ConstString(underIface(mu.Key)); ok && k == "spec" {
						bad = true
						c.R.Bad(short+" claim spec store", c.pos(mu.Pos()), "the claim's spec map is overwritten")
					}
				}
			}
		}
		if !bad {
			c.R.OK(short+" no spec back-flow", c.pos(fn.Pos()), "XR spec reaches the claim only through named accessors")
		}
	}
}

// lookupOf: v is (an interface conversion of) obj.Object[key].
func lookupOf(v ssa.Value, key string) bool {
	return flow.Strict.Any(v, func(x ssa.Value) bool {
		lk, ok := x.(*ssa.Lookup)
		if !ok {
			return false
		}
		k, isC := cfgx.ConstString(underIface(lk.Index))
		return isC && k == key
	})
}
