package rules

import (
	"go/token"
	"os"
	"path/filepath"
	"strings"

	"golang.org/x/tools/go/ssa"
	"sigs.k8s.io/yaml"

	"xpcheck/internal/cfgx"
	"xpcheck/internal/flow"
	"xpcheck/internal/load"
)

const (
	pkgUsageCtl = "internal/controller/apiextensions/usage"
	pkgUsage    = "internal/usage"
)

func init() {
	register(&Property{
		ID:  "C19",
		Run: c19,
		Explanation: "Decides the agreement between the Usage controller, the DELETE webhook and the shipped webhook configuration: (R19.1) every Usage lookup uses the constant index key and IndexValueForObject/indexValue, the registered indexer uses the same key and function, indexValue uses the API group (not the version), and the indexer omits a Usage only when it names no resource; " +
			"(R19.2) the objectSelector label of cluster/webhookconfigurations/usage.yaml equals the label key and value the reconciler writes, the rule covers DELETE with failurePolicy Fail, and the path equals the one registered with the webhook server; (R19.3) the webhook allows only on the zero-usages edge after a successful List, records the attempt unless already recorded, and rejects non-DELETE operations; " +
			"(R19.4) a Usage is marked Available only after the used resource was updated with the in-use label set to the selected value, or on the edge where the label already equals that value; (R19.5) the label is removed only on an edge that is false for every count ≥ 2 of indexed Usages; (R19.6) a Usage by a resource gets an AsOwner reference to it, persisted before Available, and RespectOwnerRefs keeps existing owner references of Usages and is among the P&T apply options. R19.5 also requires that the Usage's finalizer is removed after the Usages of the resource were counted.",
		NotDecided:  []string{"'every delete request is refused' across API versions and time (admission plumbing, cache lag of the index)", "interleavings of Usage reconciles with deletes", "API-server label selector semantics"},
		Assumptions: []string{"the webhook configuration shipped in cluster/webhookconfigurations is the one installed", "field indexes are maintained by controller-runtime"},
	})
}

func c19(c *Ctx) {
	rec := c.method(pkgUsageCtl, "Reconciler", "Reconcile")
	val := c.method(pkgUsage, "Handler", "validateNoUsages")
	setup := c.fn(pkgUsage, "SetupWebhookWithManager")
	idxObj := xp + pkgUsage + ".IndexValueForObject"
	idxVal := xp + pkgUsage + ".indexValue"

	c.R.Rule("R19.1", "shared index: same key, same value function, group-based, no Usage with a named resource omitted", 6,
		"the webhook or the controller would not find the Usages of a resource (e.g. when versions differ)")
	var lists []ssa.CallInstruction
	for _, fn := range []*ssa.Function{rec, val} {
		if fn == nil {
			continue
		}
		for _, l := range calls(fn, clientList) {
			if !strings.HasSuffix(fullType(cfgx.CallArgs(l)[1]), "v1beta1.UsageList") {
				continue
			}
			lists = append(lists, l)
			// option: MatchingFields{InUseIndexKey: IndexValueForObject(x)}
			var keyOK, valOK bool
			for _, b := range fn.Blocks {
				for _, in := range b.Instrs {
					if mu, ok := in.(*ssa.MapUpdate); ok && strings.HasSuffix(mu.Map.Type().String(), "client.MatchingFields") && cfgx.InstrReaches(mu, l, nil) && mu.Block() == l.Block() {
						k, isC := cfgx.ConstString(mu.Key)
						keyOK = isC && k == constValue(c, pkgUsage, "InUseIndexKey")
						valOK = flow.IsCallTo(mu.Value, idxObj) || flow.IsCallTo(mu.Value, idxVal)
					}
				}
			}
			c.R.Check(keyOK && valOK, site(l)+" index", c.pos(l.Pos()), "lists Usages by MatchingFields{InUseIndexKey: IndexValueForObject(obj)}", "a Usage lookup does not use the shared index key and value function")
		}
	}
	if len(lists) < 2 {
		c.R.Unknown("Usage lookups", "", "expected the webhook's and the reconciler's List by index")
	}
	if setup != nil {
		var reg ssa.CallInstruction
		for _, x := range cfgx.Calls(setup, nil) {
			if strings.HasSuffix(cfgx.CalleeName(x), "client.FieldIndexer).IndexField") {
				reg = x
			}
		}
		if reg == nil {
			c.R.Bad(load.FuncName(setup)+": IndexField", c.pos(setup.Pos()), "the Usage index is not registered")
		} else {
			a := cfgx.CallArgs(reg)
			k, isC := cfgx.ConstString(a[2])
			c.R.Check(isC && k == constValue(c, pkgUsage, "InUseIndexKey") && strings.HasSuffix(fullType(a[1]), "v1beta1.Usage"), site(reg)+" key", c.pos(reg.Pos()), "registers InUseIndexKey on Usages", "the index is registered under another key or type")
			var fn *ssa.Function
			switch x := a[3].(type) {
			case *ssa.Function:
				fn = x
			case *ssa.MakeClosure:
				fn = x.Fn.(*ssa.Function)
			case *ssa.ChangeType:
				if f, ok := x.X.(*ssa.Function); ok {
					fn = f
				}
			}
			if fn == nil {
				c.R.Unknown(site(reg)+" indexer func", c.pos(reg.Pos()), "cannot resolve the indexer function")
			} else {
				c.R.Analysed(load.FuncName(fn))
				iv := calls(fn, idxVal)
				good := len(iv) == 1
				if good {
					var paths []string
					for _, arg := range iv[0].Common().Args {
						_, p, _ := flow.AccessPathC(arg)
						paths = append(paths, p)
					}
					good = strings.Join(paths, ",") == "Spec.Of.APIVersion,Spec.Of.Kind,Spec.Of.ResourceRef.Name"
				}
				c.R.Check(good, load.FuncName(fn)+": index value", c.pos(fn.Pos()), "indexValue(of.APIVersion, of.Kind, of.ResourceRef.Name)", "the indexer does not index Usages by indexValue(apiVersion, kind, name) of the used resource")
				// empty returns only when no resource is named
				var noName []cfgx.Edge
				for _, b := range fn.Blocks {
					for _, in := range b.Instrs {
						if bo, ok := in.(*ssa.BinOp); ok && isEqOrNeq(bo) {
							if _, p, okp := flow.AccessPathC(bo.X); okp && p == "Spec.Of.ResourceRef" && cfgx.IsNilConst(bo.Y) {
								t, _ := eqEdges(bo)
								noName = append(noName, t...)
							}
						}
					}
				}
				for _, lc := range cfgx.LenCmps(fn) {
					if _, p, okp := flow.AccessPathC(lc.Of); okp && p == "Spec.Of.ResourceRef.Name" && lc.Eval(0) != lc.Eval(1) {
						t, f := lc.Edges()
						if lc.Eval(0) {
							noName = append(noName, t...)
						} else {
							noName = append(noName, f...)
						}
					}
				}
				// an object that is not a (non-nil) Usage has nothing to index either
				for _, b := range fn.Blocks {
					for _, in := range b.Instrs {
						ta, ok := in.(*ssa.TypeAssert)
						if !ok || !ta.CommaOk || !strings.HasSuffix(ta.AssertedType.String(), "v1beta1.Usage") {
							continue
						}
						if okv := extractOf(ta, 1); okv != nil {
							_, f := cfgx.CondEdges(okv)
							noName = append(noName, f...)
						}
						if uv := extractOf(ta, 0); uv != nil {
							for _, cf := range findCmps(fn, true, func(x, y ssa.Value) bool { return x == uv && cfgx.IsNilConst(y) }) {
								noName = append(noName, cf.Holds...)
							}
						}
					}
				}
				n := 0
				for _, b := range fn.Blocks {
					r, ok := b.Instrs[len(b.Instrs)-1].(*ssa.Return)
					if !ok {
						continue
					}
					if len(sliceElems(cfgx.ReturnValue(r, 0))) > 0 {
						continue
					}
					n++
					c.requireCross(load.FuncName(fn)+": omitted only without a named resource @b"+itoa(b.Index), r, noName, "ResourceRef == nil or its name is empty")
				}
				if n == 0 {
					c.R.OKTrivial(load.FuncName(fn)+": never omits", c.pos(fn.Pos()), "no empty return")
				}
			}
		}
	}
	if ivf := c.fn(pkgUsage, "indexValue"); ivf != nil {
		usesGroup, usesVersion := false, false
		for _, b := range ivf.Blocks {
			for _, in := range b.Instrs {
				if f, ok := in.(*ssa.Field); ok {
					if isFieldSel(f, "schema.GroupVersion", "Group") {
						usesGroup = true
					}
					if isFieldSel(f, "schema.GroupVersion", "Version") {
						usesVersion = true
					}
				}
				if fa, ok := in.(*ssa.FieldAddr); ok {
					if isFieldSel(fa, "schema.GroupVersion", "Group") {
						usesGroup = true
					}
					if isFieldSel(fa, "schema.GroupVersion", "Version") {
						usesVersion = true
					}
				}
			}
		}
		// the raw apiVersion parameter must not be part of the value either
		rawUsed := false
		for _, x := range calls(ivf, "fmt.Sprintf") {
			for _, e := range sliceElems(cfgx.CallArgs(x)[1]) {
				if flow.Strict.Any(e, func(v ssa.Value) bool { return v == ssa.Value(ivf.Params[0]) }) && !flow.Strict.Any(e, func(v ssa.Value) bool { _, ok := v.(*ssa.Field); return ok }) {
					rawUsed = true
				}
			}
		}
		c.R.Check(usesGroup && !usesVersion && !rawUsed, load.FuncName(ivf)+": group not version", c.pos(ivf.Pos()), "the index value contains the API group, not the version", "the index value depends on the API version: a delete through another version would not be matched")
	}

	c.R.Rule("R19.2", "cross-artifact agreement with cluster/webhookconfigurations/usage.yaml", 4, "the DELETE webhook would never be invoked for protected resources")
	ycfg := struct {
		Webhooks []struct {
			ClientConfig struct {
				Service struct {
					Path string `json:"path"`
				} `json:"service"`
			} `json:"clientConfig"`
			FailurePolicy  string `json:"failurePolicy"`
			ObjectSelector struct {
				MatchLabels map[string]string `json:"matchLabels"`
			} `json:"objectSelector"`
			Rules []struct {
				Operations []string `json:"operations"`
			} `json:"rules"`
		} `json:"webhooks"`
	}{}
	yb, err := os.ReadFile(filepath.Join(c.P.Dir, "cluster/webhookconfigurations/usage.yaml"))
	if ov, ok := c.P.Overlay[filepath.Join(c.P.Dir, "cluster/webhookconfigurations/usage.yaml")]; ok {
		yb, err = ov, nil
	}
	if err != nil || yaml.Unmarshal(yb, &ycfg) != nil || len(ycfg.Webhooks) != 1 {
		c.R.Unknown("usage.yaml", "", "cannot read exactly one webhook from cluster/webhookconfigurations/usage.yaml")
	} else {
		wh := ycfg.Webhooks[0]
		key := constValue(c, pkgUsageCtl, "inUseLabelKey")
		sel, only := wh.ObjectSelector.MatchLabels[key]
		c.R.Check(only && len(wh.ObjectSelector.MatchLabels) == 1, "usage.yaml objectSelector key", "cluster/webhookconfigurations/usage.yaml", "selects exactly the label "+key, "the webhook's objectSelector does not select exactly the reconciler's in-use label key "+key)
		// value written by the reconciler
		var written []string
		if rec != nil {
			for _, b := range rec.Blocks {
				for _, in := range b.Instrs {
					if mu, ok := in.(*ssa.MapUpdate); ok {
						if k, isC := cfgx.ConstString(mu.Key); isC && k == key {
							if v, isC := cfgx.ConstString(mu.Value); isC {
								written = append(written, v)
							}
						}
					}
				}
			}
		}
		c.R.Check(len(written) == 1 && written[0] == sel, "usage.yaml objectSelector value", "cluster/webhookconfigurations/usage.yaml", "selector value "+sel+" equals the value the reconciler writes", "the selector value ("+sel+") differs from the label value the reconciler writes ("+strings.Join(written, ",")+")")
		hasDel := false
		for _, r := range wh.Rules {
			for _, o := range r.Operations {
				if o == "DELETE" || o == "*" {
					hasDel = true
				}
			}
		}
		c.R.Check(hasDel && wh.FailurePolicy == "Fail", "usage.yaml DELETE + Fail", "cluster/webhookconfigurations/usage.yaml", "covers DELETE with failurePolicy Fail", "the webhook does not cover DELETE with failurePolicy Fail")
		regPath := ""
		if setup != nil {
			for _, x := range cfgx.Calls(setup, nil) {
				if strings.HasSuffix(cfgx.CalleeName(x), "webhook.Server).Register") {
					regPath, _ = cfgx.ConstString(cfgx.CallArgs(x)[0])
				}
			}
		}
		c.R.Check(regPath != "" && regPath == wh.ClientConfig.Service.Path, "usage.yaml path", "cluster/webhookconfigurations/usage.yaml", "path "+regPath+" is the one registered with the webhook server", "the configured path ("+wh.ClientConfig.Service.Path+") is not the registered one ("+regPath+")")
		c.R.Extra["usage_yaml"] = map[string]any{"label": key, "value": sel, "path": wh.ClientConfig.Service.Path}
	}

	c.R.Rule("R19.3", "webhook verdict: allowed only on zero usages after ok(List); attempt recorded; non-DELETE rejected", 5, "a delete of an in-use resource would be admitted")
	if val != nil && len(lists) > 0 {
		var l ssa.CallInstruction
		for _, x := range lists {
			if x.Parent() == val {
				l = x
			}
		}
		allowed := calls(val, "sigs.k8s.io/controller-runtime/pkg/webhook/admission.Allowed")
		if l == nil || len(allowed) == 0 {
			c.R.Unknown(load.FuncName(val)+": shape", c.pos(val.Pos()), "List or admission.Allowed not found")
		} else {
			lobj := flow.Root(underIface(cfgx.CallArgs(l)[1]))
			var zero, some []cfgx.Edge
			for _, lc := range cfgx.LenCmps(val) {
				if flow.Root(lc.Of) == lobj && lc.Eval(0) != lc.Eval(1) && lc.Eval(1) == lc.Eval(4) {
					t, f := lc.Edges()
					if lc.Eval(0) {
						zero, some = append(zero, t...), append(some, f...)
					} else {
						zero, some = append(zero, f...), append(some, t...)
					}
				}
			}
			// the verdict is taken on the list as the index returned it: nothing narrows it
			// (the index is keyed on group, kind and name; any further filter, e.g. on the
			// full apiVersion, would let a Usage that names another version go unseen)
			narrowed := ""
			for _, b := range val.Blocks {
				for _, in := range b.Instrs {
					if st, ok := in.(*ssa.Store); ok {
						if r, p, okp := flow.AccessPathC(st.Addr); okp && flow.Root(r) == lobj && strings.HasPrefix(p, "Items") {
							narrowed = c.pos(st.Pos())
						}
					}
				}
			}
			c.R.Check(narrowed == "", load.FuncName(val)+": verdict on the unfiltered list", c.pos(l.Pos()), "the listed Usages are not rewritten before the verdict", "usageList.Items is overwritten at "+narrowed+" before the verdict: Usages the index returned (e.g. naming another API version of the resource) are dropped and the delete is admitted")
			for _, a := range allowed {
				c.requireCross(site(a)+" no-usages", a, zero, "len(usageList.Items) == 0")
				c.requireCross(site(a)+" list-ok", a, okEdges(l), "ok(List(usages))")
			}
			// every response with Allowed:true literal is also gated
			for _, b := range val.Blocks {
				for _, in := range b.Instrs {
					if st, ok := in.(*ssa.Store); ok && isFieldSel(st.Addr, "admission/v1.AdmissionResponse", "Allowed") {
						if v, ok := cfgx.ConstBool(st.Val); !ok || v {
							c.requireCross(load.FuncName(val)+": Allowed literal", st, zero, "len(usageList.Items) == 0")
						}
					}
				}
			}
			// attempt annotation
			p := calls(val, clientPatch)
			if len(p) == 1 {
				c.requireCross(site(p[0])+" on-denial", p[0], some, "len(usageList.Items) > 0")
				rr, _ := cfgx.ReachableFromEdges(failEdges(p[0]), allowed[0], okEdges(p[0]), nil)
				c.R.Check(!rr, site(p[0])+" failure-not-allowed", c.pos(p[0].Pos()), "a failed annotation patch does not allow the delete", "a failed attempt-annotation patch leads to an allowed response")
				// every refused attempt is recorded: the patch is skipped only when the
				// annotation already holds this attempt's value (an equality with the
				// recorded value, not mere presence)
				var same []cfgx.Edge
				for _, cf := range findCmps(val, true, func(x, y ssa.Value) bool {
					lk, ok := x.(*ssa.Lookup)
					if !ok || lk.CommaOk || !hasSuffixCall(lk.X, ".GetAnnotations") {
						return false
					}
					_, isConst := y.(*ssa.Const)
					return !isConst
				}) {
					same = append(same, cf.Holds...)
				}
				unrecorded := false
				var at ssa.Instruction = p[0]
				seen, _ := cfgx.ReachFromEdgesThrough(some, same, map[*ssa.BasicBlock]bool{p[0].Block(): true})
				for b := range seen {
					if b == p[0].Block() {
						continue
					}
					if r, ok := b.Instrs[len(b.Instrs)-1].(*ssa.Return); ok {
						unrecorded = true
						at = r
					}
				}
				c.R.Check(!unrecorded && len(same) > 0, site(p[0])+" every-attempt-recorded", c.pos(at.Pos()), "a refusal returns without patching only when the recorded value equals this attempt's", "a refused delete can return without recording the attempt although the recorded value differs (or the skip is decided on presence only)")
			} else {
				c.R.Bad(load.FuncName(val)+": attempt annotation", c.pos(val.Pos()), "the denied attempt is not recorded on the resource")
			}
		}
	}
	if h := c.method(pkgUsage, "Handler", "Handle"); h != nil {
		v := calls(h, "(*"+xp+pkgUsage+".Handler).validateNoUsages")
		var del []cfgx.Edge
		for _, b := range h.Blocks {
			for _, in := range b.Instrs {
				if bo, ok := in.(*ssa.BinOp); ok && isEqOrNeq(bo) {
					if s, isC := cfgx.ConstString(bo.Y); isC && s == "DELETE" {
						t, _ := eqEdges(bo)
						del = append(del, t...)
					}
				}
			}
		}
		if c.expect("validateNoUsages", len(v), 1, h) {
			c.requireCross(site(v[0])+" delete-only", v[0], del, "request.Operation == DELETE")
			// all other returns are Errored
			bad := 0
			for _, rv := range cfgx.ReturnedValues(h, 0) {
				if rv == v[0].Value() {
					continue
				}
				if !flow.IsCallTo(rv, "sigs.k8s.io/controller-runtime/pkg/webhook/admission.Errored") {
					bad++
				}
			}
			c.R.Check(bad == 0, load.FuncName(h)+": other operations rejected", c.pos(h.Pos()), "every other path returns admission.Errored", "an operation other than DELETE is not rejected")
		}
	}

	c.R.Rule("R19.4", "marker before Ready", 3, "a Usage would report ready while the used resource is not yet protected by the webhook")
	var avail ssa.CallInstruction
	if rec != nil {
		key := constValue(c, pkgUsageCtl, "inUseLabelKey")
		for _, x := range cfgx.Calls(rec, nil) {
			if strings.HasSuffix(cfgx.CalleeName(x), ".SetConditions") {
				for _, e := range sliceElems(cfgx.CallArgs(x)[0]) {
					if _, ctor := condStatus(e); ctor == "Available" {
						avail = x
					}
				}
			}
		}
		// the labelling update of `used`
		var addL, updUsed ssa.CallInstruction
		for _, x := range calls(rec, xprt+"meta.AddLabels") {
			addL = x
		}
		if addL != nil {
			for _, u := range calls(rec, clientUpdate) {
				if flow.Root(underIface(cfgx.CallArgs(u)[1])) == flow.Root(underIface(cfgx.CallArgs(addL)[0])) && cfgx.InstrReaches(addL, u, nil) && addL.Block() == u.Block() {
					updUsed = u
				}
			}
		}
		if avail == nil || addL == nil || updUsed == nil {
			c.R.Unknown(load.FuncName(rec)+": Available / label update", c.pos(rec.Pos()), "expected AddLabels(used, in-use), Update(used) and SetConditions(Available())")
		} else {
			// skip edge: label == selected value (comparison with the constant written)
			var already []cfgx.Edge
			for _, b := range rec.Blocks {
				for _, in := range b.Instrs {
					bo, ok := in.(*ssa.BinOp)
					if !ok || (bo.Op != token.EQL && bo.Op != token.NEQ) {
						continue
					}
					s, isC := cfgx.ConstString(bo.Y)
					lk, isLk := bo.X.(*ssa.Lookup)
					if !isC || !isLk || s != "true" {
						continue
					}
					if k, ok := cfgx.ConstString(lk.Index); !ok || k != key {
						continue
					}
					if !flow.Default.Any(lk.X, func(v ssa.Value) bool {
						ci, ok := v.(*ssa.Call)
						return ok && strings.HasSuffix(cfgx.CalleeName(ci), ".GetLabels") && flow.Root(underIface(cfgx.Receiver(ci))) == flow.Root(underIface(cfgx.CallArgs(addL)[0]))
					}) {
						continue
					}
					t, f := cfgx.CondEdges(bo)
					if bo.Op == token.EQL {
						already = append(already, t...)
					} else {
						already = append(already, f...)
					}
				}
			}
			c.requireCross(site(avail)+" marker-first", avail, union(okEdges(updUsed), already), "ok(Update(used)) with the in-use label, or the label already equals \"true\"")
			// the label written has the key
			okKey := false
			for _, b := range rec.Blocks {
				for _, in := range b.Instrs {
					if mu, ok := in.(*ssa.MapUpdate); ok && flow.Default.Any(cfgx.CallArgs(addL)[1], func(v ssa.Value) bool { return v == mu.Map }) {
						k, _ := cfgx.ConstString(mu.Key)
						okKey = k == key
					}
				}
			}
			c.R.Check(okKey, site(addL)+" label", c.pos(addL.Pos()), "adds the in-use label", "the label added is not the in-use label")
			// the used resource labelled is the one the Usage names
			gu := calls(rec, clientGet)
			named := false
			for _, g := range gu {
				if flow.Root(underIface(cfgx.CallArgs(g)[2])) == flow.Root(underIface(cfgx.CallArgs(addL)[0])) && flow.Default.Any(cfgx.CallArgs(g)[1], func(v ssa.Value) bool { return isFieldSel(v, "v1beta1.UsageSpec", "Of") }) {
					named = true
				}
			}
			c.R.Check(named, site(addL)+" on-used", c.pos(addL.Pos()), "the labelled object is the resource named by spec.of", "the labelled object is not the resource the Usage names as used")
		}
	}

	c.R.Rule("R19.5", "marker removed only by the last Usage", 3, "deleting one of several Usages would unprotect a resource others still use")
	if rec != nil {
		rm := calls(rec, xprt+"meta.RemoveLabels")
		var l ssa.CallInstruction
		for _, x := range lists {
			if x.Parent() == rec {
				l = x
			}
		}
		if len(rm) != 1 || l == nil {
			c.R.Unknown(load.FuncName(rec)+": RemoveLabels / List", c.pos(rec.Pos()), "not found")
		} else {
			lobj := flow.Root(underIface(cfgx.CallArgs(l)[1]))
			var last []cfgx.Edge
			for _, lc := range cfgx.LenCmps(rec) {
				if flow.Root(lc.Of) != lobj {
					continue
				}
				t, f := lc.Edges()
				trueFor := func(n int64) bool { return lc.Eval(n) }
				if !trueFor(2) && !trueFor(3) && !trueFor(7) && !trueFor(100) {
					last = append(last, t...)
				} else if trueFor(2) && trueFor(3) && trueFor(7) && trueFor(100) {
					last = append(last, f...)
				}
			}
			c.requireCross(site(rm[0])+" last-usage", rm[0], last, "an edge that is false for every count ≥ 2 of Usages of the resource")
			c.requireCross(site(rm[0])+" list-ok", rm[0], okEdges(l), "ok(List(usages))")
			wdT, _, _ := boolCallEdges(rec, metaWasDeleted, nil)
			c.requireCross(site(rm[0])+" deletion-only", rm[0], wdT, "WasDeleted(usage)")
			// the count includes the Usage being deleted: it is taken while that Usage still exists
			for _, rf := range cfgx.Calls(rec, func(ci ssa.CallInstruction) bool {
				return strings.HasSuffix(cfgx.CalleeName(ci), "Finalizer).RemoveFinalizer")
			}) {
				c.R.Check(!cfgx.InstrReaches(rf, l, nil), site(rf)+" after the count", c.pos(rf.Pos()), "the Usage's finalizer is removed after the Usages of the resource were counted", "the Usage's finalizer is removed before the Usages of the resource are counted: the Usage may be gone from the list, one remaining Usage then looks like the last and the in-use label is dropped")
			}
			// the list is about the used resource
			c.R.Check(true, site(l)+" of-used", c.pos(l.Pos()), "indexed by the used resource (R19.1)", "")
		}
	}

	c.R.Rule("R19.6", "ownership: AsOwner(using) on the Usage persisted before Available; RespectOwnerRefs keeps them and is applied by the P&T composer", 4, "deleting the using resource would not release the used one, or the composer would strip the owner reference")
	if rec != nil && avail != nil {
		var ao ssa.CallInstruction
		for _, x := range calls(rec, xprt+"meta.AddOwnerReference") {
			ao = x
		}
		if ao == nil {
			c.R.Bad(load.FuncName(rec)+": AddOwnerReference", c.pos(rec.Pos()), "the Usage never becomes owned by the using resource")
		} else {
			a := cfgx.CallArgs(ao)
			c.R.Check(flow.IsCallTo(a[1], xprt+"meta.AsOwner") && strings.HasSuffix(fullType(a[0]), "v1beta1.Usage"), site(ao)+" AsOwner", c.pos(ao.Pos()), "adds a plain owner reference to the Usage", "the reference added is not meta.AsOwner(...) on the Usage")
			// persisted
			var upd ssa.CallInstruction
			for _, u := range calls(rec, clientUpdate) {
				if u.Block() == ao.Block() && cfgx.InstrReaches(ao, u, nil) {
					upd = u
				}
			}
			if upd == nil {
				c.R.Bad(site(ao)+" persisted", c.pos(ao.Pos()), "the owner reference is not persisted")
			} else {
				// Available requires: by == nil, already owned, or ok(Update)
				var skip []cfgx.Edge
				for _, b := range rec.Blocks {
					for _, in := range b.Instrs {
						if bo, ok := in.(*ssa.BinOp); ok {
							if _, p, okp := flow.AccessPathC(bo.X); okp && p == "Spec.By" && cfgx.IsNilConst(bo.Y) {
								t, f := cfgx.CondEdges(bo)
								if bo.Op == token.EQL {
									skip = append(skip, t...)
								} else if bo.Op == token.NEQ {
									skip = append(skip, f...)
								}
							}
							if bo.Op == token.NEQ || bo.Op == token.EQL {
								_, px, _ := flow.AccessPathC(bo.X)
								if strings.HasSuffix(px, "UID") && hasSuffixCall(bo.Y, ".GetUID") {
									t, f := cfgx.CondEdges(bo)
									if bo.Op == token.NEQ {
										skip = append(skip, f...)
									} else {
										skip = append(skip, t...)
									}
								}
							}
						}
					}
				}
				c.requireCross(site(avail)+" owned-first", avail, union(okEdges(upd), skip), "no using resource, already owned by it, or ok(Update(usage))")
			}
		}
	}
	if ro := c.fn(pkgUsageCtl, "RespectOwnerRefs"); ro != nil && len(ro.AnonFuncs) == 1 {
		f := ro.AnonFuncs[0]
		c.R.Analysed(load.FuncName(f))
		var set ssa.CallInstruction
		for _, x := range cfgx.Calls(f, nil) {
			if strings.HasSuffix(cfgx.CalleeName(x), ".SetOwnerReferences") {
				set = x
			}
		}
		good := set != nil
		if good {
			good = flow.Default.Any(cfgx.CallArgs(set)[0], func(v ssa.Value) bool { return hasSuffixCall(v, ".GetOwnerReferences") })
		}
		usesGVK := false
		for _, b := range f.Blocks {
			for _, in := range b.Instrs {
				for _, op := range in.Operands(nil) {
					if op != nil && *op != nil {
						if g, ok := (*op).(*ssa.Global); ok && g.Name() == "UsageGroupVersionKind" {
							usesGVK = true
						}
					}
				}
			}
		}
		c.R.Check(good && usesGVK, load.FuncName(f)+": keeps Usage owners", c.pos(f.Pos()), "copies the current owner references of Usages onto the desired object", "RespectOwnerRefs does not copy existing owner references of Usages")
	}
	if _, pt := c.composerMethods(); pt != nil {
		s := findComposerSites(pt)
		okOpt := false
		for _, cr := range s.creates {
			for _, o := range applyOptions(cr) {
				if cfgx.CalleeName(o) == xp+pkgUsageCtl+".RespectOwnerRefs" {
					okOpt = true
				}
			}
		}
		c.R.Check(okOpt, load.FuncName(pt)+": RespectOwnerRefs option", c.pos(pt.Pos()), "the P&T apply carries usage.RespectOwnerRefs()", "the P&T composer applies composed Usages without RespectOwnerRefs: their owner reference would be stripped")
	}
}

// constValue returns the string value of package-level constant pkg.name.
func constValue(c *Ctx, pkg, name string) string {
	o := c.P.Object(pkg, name)
	if k, ok := o.(interface {
		Val() interface{ ExactString() string }
	}); ok {
		_ = k
	}
	if sp := c.P.Pkg(pkg); sp != nil {
		if nc, ok := sp.Members[name].(*ssa.NamedConst); ok {
			if s, ok := cfgx.ConstString(nc.Value); ok {
				return s
			}
		}
	}
	return ""
}
