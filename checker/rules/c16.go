package rules

import (
	"go/token"
	"go/types"
	"strings"

	"golang.org/x/tools/go/ssa"

	"xpcheck/internal/cfgx"
	"xpcheck/internal/flow"
	"xpcheck/internal/load"
)

func init() {
	register(&Property{
		ID:  "C16",
		Run: c16,
		Explanation: "Decides the structure that makes establishing all-or-nothing and role-respecting: (R16.1) establish is reached only over the success edge of validate, every write validate can make goes through e.create/e.update carrying client.DryRunAll, the writes of establish never carry it; " +
			"(R16.2) every call of e.create is control-dependent on control==true and on the not-found / !Exists edge, and APIEstablisher.create is the only function of the establisher that calls client.Create; " +
			"(R16.3) on control==false update only adds an AsOwner reference and no AsController/AddControllerReference is reachable; (R16.4) ReleaseObjects only ever stores ptr.To(false) into Controller, never shrinks the owner slice, appends an AsOwner reference when absent; " +
			"(R16.5) create and update add the package owner reference with Controller=false; (R16.6) the reconciler passes DesiredState==Active as control. R16.5 also pins the lookup key: the parent-package label the manager writes on a revision is the package's GetName() itself. R16.1 also requires that every write inside create()/update() passes on the options they were called with (DryRunAll in the validate phase). R16.5 also requires that every write of update() comes after the package owner reference was looked up.",
		NotDecided:  []string{"atomicity across the API calls of the second phase (a failing real write after successful dry runs)", "history of owner references across upgrade/rollback sequences", "that a dry-run accepted by the API server implies the real write is accepted"},
		Assumptions: []string{"client.DryRunAll makes a write side-effect free", "errgroup.Wait returns the first closure error"},
	})
}

// boolParamEdges returns the true/false edges of every test of parent's single
// bool parameter inside fn (fn may be the function itself or a closure that
// captured the parameter).
// ctlParamOf: the one bool parameter of the function fn is (nested in).
func ctlParamOf(fn *ssa.Function) ssa.Value {
	root := fn
	for root.Parent() != nil {
		root = root.Parent()
	}
	var param *ssa.Parameter
	for _, p := range root.Params {
		if b, ok := p.Type().Underlying().(*types.Basic); ok && b.Kind() == types.Bool {
			if param != nil {
				return nil
			}
			param = p
		}
	}
	if param == nil {
		return nil
	}
	return param
}

func boolParamEdges(fn *ssa.Function) (tr, fa []cfgx.Edge, found bool) {
	root := fn
	for root.Parent() != nil {
		root = root.Parent()
	}
	var param *ssa.Parameter
	for _, p := range root.Params {
		if b, ok := p.Type().Underlying().(*types.Basic); ok && b.Kind() == types.Bool {
			if param != nil {
				return nil, nil, false
			}
			param = p
		}
	}
	if param == nil {
		return nil, nil, false
	}
	vals := []ssa.Value{}
	if fn == root {
		vals = append(vals, param)
	}
	// spilled param captured by closures
	var spill *ssa.Alloc
	if param.Referrers() != nil {
		for _, r := range *param.Referrers() {
			if st, ok := r.(*ssa.Store); ok && st.Val == param {
				if a, ok := st.Addr.(*ssa.Alloc); ok {
					spill = a
				}
			}
		}
	}
	if spill != nil {
		if fn == root {
			for _, r := range *spill.Referrers() {
				if ld, ok := r.(*ssa.UnOp); ok && ld.Op == token.MUL {
					vals = append(vals, ld)
				}
			}
		} else {
			for _, fv := range fn.FreeVars {
				if flow.Strict.Any(fv, func(v ssa.Value) bool { return v == spill }) && fv.Referrers() != nil {
					for _, r := range *fv.Referrers() {
						if ld, ok := r.(*ssa.UnOp); ok && ld.Op == token.MUL {
							vals = append(vals, ld)
						}
					}
				}
			}
		}
	}
	for _, v := range vals {
		t, f := cfgx.CondEdges(v)
		tr, fa = append(tr, t...), append(fa, f...)
	}
	return tr, fa, len(tr) > 0
}

func isGlobalNamed(v ssa.Value, pkgPath, name string) bool {
	g, ok := v.(*ssa.Global)
	return ok && g.Name() == name && g.Pkg != nil && g.Pkg.Pkg.Path() == pkgPath
}

func hasDryRun(call ssa.CallInstruction) bool {
	for _, a := range call.Common().Args {
		if flow.Default.Any(a, func(v ssa.Value) bool { return isGlobalNamed(v, crc, "DryRunAll") }) {
			return true
		}
	}
	return false
}

// directWrites lists client.Writer / StatusWriter / Applicator calls in fn.
func directWrites(fn *ssa.Function) []ssa.CallInstruction {
	return calls(fn, clientCreate, clientUpdate, clientPatch, clientDelete, clientDeleteAllOf, statusUpdate, statusPatch, applicatorApply)
}

func c16(c *Ctx) {
	pkg := "internal/controller/pkg/revision"
	est := "(*" + xp + pkg + ".APIEstablisher)."
	c.R.Rule("R16.1", "validate-then-establish; validate writes only via e.create/e.update with DryRunAll; establish never dry-runs", 6,
		"without the dry-run phase (or with a real write inside it) a package whose third object is rejected leaves the first two created/taken over")
	top := c.method(pkg, "APIEstablisher", "Establish")
	if top != nil {
		v := calls(top, est+"validate")
		e := calls(top, est+"establish")
		if c.expect("validate", len(v), 1, top) && c.expect("establish", len(e), 1, top) {
			c.requireCross(site(e[0])+" after-validate", e[0], okEdges(v[0]), "the success edge of e.validate")
			// establish consumes validate's result
			c.R.Check(flow.Strict.Any(cfgx.CallArgs(e[0])[1], func(x ssa.Value) bool { return x == v[0].Value() }), site(e[0])+" consumes-validated", c.pos(e[0].Pos()),
				"establish works on the object list validate returned", "establish does not work on the list validate produced")
		}
	}
	// the dry-run option validate hands to e.create / e.update reaches every write they make
	for _, name := range []string{"create", "update"} {
		f := c.method(pkg, "APIEstablisher", name)
		if f == nil || len(f.Params) == 0 {
			continue
		}
		optsP := f.Params[len(f.Params)-1]
		ws := directWrites(f)
		for _, w := range ws {
			a := w.Common().Args
			good := len(a) > 0 && flow.Root(a[len(a)-1]) == ssa.Value(optsP)
			c.R.Check(good, site(w)+" carries the caller's options", c.pos(w.Pos()), "the write passes the options it was called with (DryRunAll in the validate phase)", "this write does not pass on the options "+name+"() was called with: in the validate phase it is a real write, and a later rejection leaves the package half-established")
		}
		if len(ws) == 0 {
			c.R.Unknown(load.FuncName(f)+": writes", c.pos(f.Pos()), "no client write found")
		}
	}
	val := c.method(pkg, "APIEstablisher", "validate")
	estab := c.method(pkg, "APIEstablisher", "establish")
	if val != nil {
		n := 0
		for _, f := range closures(val) {
			for _, w := range directWrites(f) {
				c.R.Bad(site(w)+" direct-write", c.pos(w.Pos()), "validate performs an API write that is not routed through e.create/e.update")
			}
			for _, x := range calls(f, est+"create", est+"update") {
				n++
				c.R.Check(hasDryRun(x), site(x)+" dry-run", c.pos(x.Pos()), "carries client.DryRunAll", "a create/update in the validate phase does not carry client.DryRunAll: the validate phase mutates the cluster")
			}
		}
		if n < 2 {
			c.R.Unknown(load.FuncName(val)+": create/update calls", c.pos(val.Pos()), "expected the dry-run create and update calls in validate")
		}
	}
	if estab != nil {
		n := 0
		for _, f := range closures(estab) {
			for _, w := range directWrites(f) {
				c.R.Bad(site(w)+" direct-write", c.pos(w.Pos()), "establish performs an API write that is not routed through e.create/e.update")
			}
			for _, x := range calls(f, est+"create", est+"update") {
				n++
				c.R.Check(!hasDryRun(x), site(x)+" real", c.pos(x.Pos()), "is a real write (no dry-run option)", "a create/update in the establish phase carries client.DryRunAll: nothing would be established")
			}
		}
		if n < 2 {
			c.R.Unknown(load.FuncName(estab)+": create/update calls", c.pos(estab.Pos()), "expected the create and update calls in establish")
		}
	}

	// every object handed to the establish phase was dry-run first
	if val != nil {
		n := 0
		for _, f := range closures(val) {
			var updDry, creDry []cfgx.Edge
			for _, x := range calls(f, est+"update") {
				updDry = append(updDry, okEdges(x)...)
			}
			for _, x := range calls(f, est+"create") {
				creDry = append(creDry, okEdges(x)...)
			}
			_, ctlFalse, _ := boolParamEdges(f)
			for _, b := range f.Blocks {
				for _, in := range b.Instrs {
					st, ok := in.(*ssa.Store)
					if !ok || !isFieldSel(st.Addr, "revision.currentDesired", "Exists") {
						continue
					}
					n++
					if v, ok := cfgx.ConstBool(st.Val); ok && v {
						c.requireCross(load.FuncName(f)+": existing object validated", st, updDry, "ok(e.update(..., DryRunAll))")
					} else if ok {
						c.requireCrossOrKnow(load.FuncName(f)+": missing object validated", st, union(creDry, ctlFalse), ctlParamOf(f), false, "ok(e.create(..., DryRunAll)) or control==false")
					} else if phi, isPhi := st.Val.(*ssa.Phi); isPhi {
						// one record whose Exists is set per branch: each value is judged on the edge it arrives over
						for i, e := range phi.Edges {
							pred := phi.Block().Preds[i]
							term := pred.Instrs[len(pred.Instrs)-1]
							kv, isConst := cfgx.ConstBool(e)
							// the arriving edge may itself be the gate (`if !control { break }`)
							onGate := func(gs []cfgx.Edge) bool {
								for _, g := range gs {
									if g.From == pred && g.To() == phi.Block() {
										return true
									}
								}
								return false
							}
							switch {
							case isConst && kv && onGate(updDry), isConst && !kv && onGate(union(creDry, ctlFalse)):
								c.R.OK(load.FuncName(f)+": object validated (arriving edge)", c.pos(st.Pos()), "the value arrives over the gate edge itself")
							case !isConst:
								c.R.Unknown(load.FuncName(f)+": Exists literal", c.pos(st.Pos()), "Exists is not a constant on every path")
							case kv:
								c.requireCross(load.FuncName(f)+": existing object validated", term, updDry, "ok(e.update(..., DryRunAll))")
							default:
								c.requireCrossOrKnow(load.FuncName(f)+": missing object validated", term, union(creDry, ctlFalse), ctlParamOf(f), false, "ok(e.create(..., DryRunAll)) or control==false")
							}
						}
					} else {
						c.R.Unknown(load.FuncName(f)+": Exists literal", c.pos(st.Pos()), "Exists is not a constant")
					}
				}
			}
		}
		// whatever is handed to the establish phase crossed a dry run (or is a
		// missing object the revision will not create because it has no control)
		sends := 0
		for _, f := range closures(val) {
			var gates []cfgx.Edge
			for _, x := range calls(f, est+"update", est+"create") {
				gates = append(gates, okEdges(x)...)
			}
			_, ctlFalse, _ := boolParamEdges(f)
			gates = append(gates, ctlFalse...)
			for _, b := range f.Blocks {
				for _, in := range b.Instrs {
					var sent ssa.Value
					switch x := in.(type) {
					case *ssa.Send:
						sent = x.X
					case *ssa.Select:
						for _, st := range x.States {
							if st.Dir == types.SendOnly {
								sent = st.Send
							}
						}
					}
					if sent == nil || !strings.HasSuffix(sent.Type().String(), "revision.currentDesired") {
						continue
					}
					sends++
					c.requireCrossOrKnow(load.FuncName(f)+": object handed over only after its dry run #"+itoa(sends), in, gates, ctlParamOf(f), false, "ok(e.update/e.create(..., DryRunAll)) or control==false")
				}
			}
		}
		if sends == 0 || n < 1 {
			c.R.Unknown(load.FuncName(val)+": validated objects", c.pos(val.Pos()), "expected the validated objects to be sent to the establish phase")
		}
	}

	c.R.Rule("R16.2", "only a controller creates: e.create needs control==true and the not-found/!Exists edge; client.Create only inside APIEstablisher.create", 5,
		"an inactive revision that creates objects races the active revision and becomes controller of objects it must not control")
	for _, host := range []*ssa.Function{val, estab} {
		if host == nil {
			continue
		}
		for _, f := range closures(host) {
			cr := calls(f, est+"create")
			if len(cr) == 0 {
				continue
			}
			tr, _, ok := boolParamEdges(f)
			if !ok {
				c.R.Unknown(load.FuncName(f)+": control", c.pos(f.Pos()), "the control parameter is not tested in this function")
				continue
			}
			for _, x := range cr {
				c.requireCross(site(x)+" control", x, tr, "control==true")
				// absent-object edge
				var absent []cfgx.Edge
				for _, nf := range calls(f, kerr+".IsNotFound") {
					t, _ := cfgx.CallCondEdges(nf)
					absent = append(absent, t...)
				}
				for _, b := range f.Blocks {
					for _, in := range b.Instrs {
						if fa, ok := in.(*ssa.FieldAddr); ok && isFieldSel(fa, "revision.currentDesired", "Exists") && fa.Referrers() != nil {
							for _, r := range *fa.Referrers() {
								if ld, ok := r.(*ssa.UnOp); ok && ld.Op == token.MUL {
									_, fe := cfgx.CondEdges(ld)
									absent = append(absent, fe...)
								}
							}
						}
						if fv, ok := in.(*ssa.Field); ok && isFieldSel(fv, "revision.currentDesired", "Exists") {
							_, fe := cfgx.CondEdges(fv)
							absent = append(absent, fe...)
						}
					}
				}
				c.requireCross(site(x)+" absent", x, absent, "the IsNotFound(err)==true / cd.Exists==false edge")
			}
		}
	}
	// who may call client.Create in the package file set of the establisher
	nCreate := 0
	for _, f := range c.P.PkgFunctions(pkg) {
		if !strings.Contains(c.pos(f.Pos()), "establisher.go") {
			continue
		}
		for _, x := range calls(f, clientCreate) {
			nCreate++
			c.R.Check(load.FuncName(f) == "(*internal/controller/pkg/revision.APIEstablisher).create", site(x)+" who-may-create", c.pos(x.Pos()),
				"client.Create is called by APIEstablisher.create only", "a second client.Create site exists in the establisher outside APIEstablisher.create")
		}
	}
	if nCreate == 0 {
		c.R.Unknown("establisher.go: client.Create", "", "no client.Create found in the establisher")
	}

	c.R.Rule("R16.3", "inactive = plain owner: on control==false update adds meta.AsOwner(parent) and cannot reach AsController/AddControllerReference", 3,
		"an inactive revision that takes the controller reference steals objects from the active revision")
	upd := c.method(pkg, "APIEstablisher", "update")
	if upd != nil {
		tr, fa, ok := boolParamEdges(upd)
		if !ok {
			c.R.Unknown(load.FuncName(upd)+": control", c.pos(upd.Pos()), "the control parameter is not tested")
		} else {
			ctl := calls(upd, xprt+"meta.AddControllerReference", xprt+"meta.AsController")
			if len(ctl) < 2 {
				c.R.Unknown(load.FuncName(upd)+": controller calls", c.pos(upd.Pos()), "expected AddControllerReference(desired, AsController(parent))")
			}
			for _, x := range ctl {
				c.requireCross(site(x)+" control", x, tr, "control==true")
			}
			// the update reachable from the control==false edge writes `current` with an AsOwner ref
			okOwner := false
			for _, x := range calls(upd, xprt+"meta.AddOwnerReference") {
				if r, _ := cfgx.ReachableFromEdges(fa, x, tr, nil); r && flow.Default.AnyCall(cfgx.CallArgs(x)[1], xprt+"meta.AsOwner") {
					okOwner = true
				}
			}
			c.R.Check(okOwner, load.FuncName(upd)+": inactive adds AsOwner", c.pos(upd.Pos()), "the control==false path adds meta.AsOwner(parent) to current", "the control==false path does not add a plain owner reference to the parent revision")
			for _, x := range calls(upd, clientUpdate) {
				if r, _ := cfgx.ReachableFromEdges(fa, x, tr, nil); r {
					// the demotion is unconditional: AddOwnerReference(AsOwner) replaces an entry of the
					// same UID, so it is what turns a left-over controller entry into a plain owner
					through := map[*ssa.BasicBlock]bool{}
					for _, ao := range calls(upd, xprt+"meta.AddOwnerReference") {
						if flow.Default.AnyCall(cfgx.CallArgs(ao)[1], xprt+"meta.AsOwner") {
							through[ao.Block()] = true
						}
					}
					skip, w := cfgx.ReachesAvoidingBlocks(fa, x.Block(), through, tr, c.posf())
					if through[x.Block()] {
						skip = false
					}
					c.R.Check(!skip, site(x)+" inactive-always-plain-owner", c.pos(x.Pos()), "every control==false path to the update passes AddOwnerReference(AsOwner(parent))", "a control==false path reaches the update without (re)writing the parent's entry as a plain owner: a left-over controller entry of an inactive revision survives", w...)
					isCur := flow.Root(underIface(cfgx.CallArgs(x)[1])) == ssa.Value(upd.Params[2])
					c.R.Check(isCur, site(x)+" inactive-writes-current", c.pos(x.Pos()), "the inactive path updates the current object (keeps its spec)", "the inactive path does not update `current`: an inactive revision would overwrite the object's content")
				}
			}
		}
	}

	c.R.Rule("R16.4", "ReleaseObjects: Controller only ever set to ptr.To(false); owner slice never shrinks; AsOwner appended when absent", 3,
		"dropping the owner entry on deactivation lets Kubernetes garbage collect CRDs (and all their instances) during an upgrade")
	rel := c.method(pkg, "APIEstablisher", "ReleaseObjects")
	if rel != nil {
		nStore, nSet := 0, 0
		for _, f := range closures(rel) {
			for _, b := range f.Blocks {
				for _, in := range b.Instrs {
					switch x := in.(type) {
					case *ssa.Store:
						if isFieldSel(x.Addr, "meta/v1.OwnerReference", "Controller") {
							nStore++
							c.R.Check(isPtrToBool(x.Val, false), load.FuncName(f)+": Controller store", c.pos(x.Pos()), "stores ptr.To(false)", "stores something other than ptr.To(false) into an owner reference's Controller")
						}
					case *ssa.Slice:
						if isOwnerRefSlice(x.X.Type()) && (x.Low != nil || x.High != nil) {
							c.R.Bad(load.FuncName(f)+": owner slice re-slice", c.pos(x.Pos()), "the owner reference slice is re-sliced: an owner entry may be removed")
						}
					}
				}
			}
			// a failed release write is an error (only "the object is gone" may be shrugged off)
			for _, x := range calls(f, clientUpdate) {
				ev := cfgx.ErrEvents(x)
				avoid := append([]cfgx.Edge{}, ev.OK...)
				for _, nf := range cfgx.Calls(f, func(ci ssa.CallInstruction) bool { return strings.HasSuffix(cfgx.CalleeName(ci), "errors.IsNotFound") }) {
					if flow.Strict.Any(nf.Common().Args[0], func(v ssa.Value) bool { return v == ev.Err }) {
						t, _ := cfgx.CallCondEdges(nf)
						avoid = append(avoid, t...)
					}
				}
				good := len(ev.Fail) > 0 && len(ev.Filtered) == 0
				for _, r := range cfgx.ReturnsReachable(ev.Fail, avoid) {
					if nonNilError(r) == "nil" {
						good = false
					}
				}
				c.R.Check(good, site(x)+" failed-release-is-error", c.pos(x.Pos()), "a failed demotion write (other than NotFound) is returned", "a failure of the write that gives up control (e.g. a conflict) is treated as success: the revision counts as deactivated while it still controls the object")
			}
			for _, x := range cfgx.Calls(f, func(ci ssa.CallInstruction) bool {
				return strings.HasSuffix(cfgx.CalleeName(ci), ".SetOwnerReferences")
			}) {
				nSet++
				arg := cfgx.CallArgs(x)[0]
				fromGet := flow.Default.Any(arg, func(v ssa.Value) bool {
					ci, ok := v.(ssa.CallInstruction)
					return ok && strings.HasSuffix(cfgx.CalleeName(ci), ".GetOwnerReferences")
				})
				c.R.Check(fromGet, site(x)+" derives-from-existing", c.pos(x.Pos()), "the written owner references derive from the object's existing ones", "the written owner references do not derive from GetOwnerReferences(): existing owners are dropped")
			}
			for _, x := range cfgx.Calls(f, func(ci ssa.CallInstruction) bool { return cfgx.CalleeName(ci) == "builtin.append" }) {
				if !isOwnerRefSlice(x.Common().Args[0].Type()) {
					continue
				}
				c.R.Check(flow.Default.AnyCall(x.Common().Args[1], xprt+"meta.AsOwner") && !flow.Default.AnyCall(x.Common().Args[1], xprt+"meta.AsController"), site(x)+" appends-AsOwner", c.pos(x.Pos()),
					"the appended reference is meta.AsOwner(parent)", "the reference appended on release is not a plain owner reference")
			}
		}
		if nStore == 0 || nSet == 0 {
			c.R.Unknown(load.FuncName(rel)+": shape", c.pos(rel.Pos()), "expected a Controller store and a SetOwnerReferences call")
		}
	}

	c.R.Rule("R16.5", "create/update add the package owner reference with Controller=false on the found edge", 4,
		"without the package as plain owner an object dropped by a new revision is garbage collected together with its user data")
	// the package reference is found by name == the revision's parent-package label: the label
	// the package manager writes must be the package's name itself, not something derived from it
	if mr := c.method("internal/controller/pkg/manager", "Reconciler", "Reconcile"); mr != nil {
		n := 0
		for _, b := range mr.Blocks {
			for _, in := range b.Instrs {
				mu, ok := in.(*ssa.MapUpdate)
				if !ok {
					continue
				}
				if k, isC := cfgx.ConstString(mu.Key); !isC || k != "pkg.crossplane.io/package" {
					continue
				}
				n++
				v := mu.Value
				if mi, ok := v.(*ssa.MakeInterface); ok {
					v = mi.X
				}
				ci, isCall := v.(*ssa.Call)
				c.R.Check(isCall && strings.HasSuffix(cfgx.CalleeName(ci), ".GetName"), load.FuncName(mr)+": parent label #"+itoa(n), c.pos(mu.Pos()), "the parent-package label is the package's name as it stands", "the parent-package label is not the package's GetName() itself: GetPackageOwnerReference compares it with the owner reference's full name, so a derived (truncated, normalised) value finds no package reference")
			}
		}
		if n == 0 {
			c.R.Unknown(load.FuncName(mr)+": parent label", c.pos(mr.Pos()), "no write of the pkg.crossplane.io/package label found")
		}
	}
	cre := c.method(pkg, "APIEstablisher", "create")
	for _, f := range []*ssa.Function{cre, upd} {
		if f == nil {
			continue
		}
		gp := calls(f, xp+pkg+".GetPackageOwnerReference")
		if !c.expect("GetPackageOwnerReference", len(gp), 1, f) {
			continue
		}
		okv := cfgx.TupleResult(gp[0], 1)
		var found []cfgx.Edge
		if okv != nil {
			found, _ = cfgx.CondEdges(okv)
		}
		n := 0
		for _, b := range f.Blocks {
			for _, in := range b.Instrs {
				if st, ok := in.(*ssa.Store); ok && isFieldSel(st.Addr, "meta/v1.OwnerReference", "Controller") {
					n++
					c.R.Check(isPtrToBool(st.Val, false), load.FuncName(f)+": pkgRef.Controller", c.pos(st.Pos()), "the package reference is forced to Controller=false", "the package owner reference is not forced to a non-controlling reference")
				}
			}
		}
		if n == 0 {
			c.R.Bad(load.FuncName(f)+": pkgRef.Controller", c.pos(f.Pos()), "the package owner reference's Controller flag is never cleared")
		}
		// the reference reaches the written object
		var sink []ssa.CallInstruction
		if f == cre {
			sink = cfgx.Calls(f, func(ci ssa.CallInstruction) bool {
				return strings.HasSuffix(cfgx.CalleeName(ci), ".SetOwnerReferences")
			})
		} else {
			for _, x := range calls(f, xprt+"meta.AddOwnerReference") {
				if ok, _ := cfgx.MustCross(x, found, nil); ok && len(found) > 0 {
					sink = append(sink, x)
				}
			}
		}
		reaches := false
		for _, s := range sink {
			for _, a := range cfgx.CallArgs(s) {
				if flow.Default.Any(a, func(v ssa.Value) bool { return v == gp[0].Value() }) {
					reaches = true
				}
			}
		}
		c.R.Check(reaches, load.FuncName(f)+": pkgRef added", c.pos(gp[0].Pos()), "the package owner reference flows into the owner references that are written", "the package owner reference never reaches the written object")
		if f == upd {
			// … and the object it is added to is what every Update writes: that object itself, or
			// one whose owner references are first taken over from it (desired.SetOwnerReferences(current.GetOwnerReferences()))
			var holder ssa.Value
			for _, sk := range sink {
				if a := cfgx.CallArgs(sk); len(a) == 2 && flow.Default.Any(a[1], func(v ssa.Value) bool { return v == gp[0].Value() }) {
					holder = flow.Root(underIface(a[0]))
				}
			}
			for _, w := range calls(f, clientUpdate) {
				a := cfgx.CallArgs(w)
				if holder == nil || len(a) < 2 {
					continue
				}
				written := flow.Root(underIface(a[1]))
				okW := written == holder
				if !okW {
					for _, so := range cfgx.Calls(f, func(ci ssa.CallInstruction) bool {
						return strings.HasSuffix(cfgx.CalleeName(ci), ".SetOwnerReferences")
					}) {
						if flow.Root(underIface(cfgx.Receiver(so))) != written || !cfgx.MustPass(so.Block(), w.Block()) {
							continue
						}
						for _, arg := range cfgx.CallArgs(so) {
							if flow.Default.Any(arg, func(v ssa.Value) bool {
								ci, ok := v.(ssa.CallInstruction)
								return ok && strings.HasSuffix(cfgx.CalleeName(ci), ".GetOwnerReferences") && flow.Root(underIface(cfgx.Receiver(ci))) == holder
							}) {
								okW = true
							}
						}
					}
				}
				if len(gp) == 1 {
					c.R.Check(cfgx.MustPass(gp[0].Block(), w.Block()), site(w)+" after the package reference was looked up", c.pos(w.Pos()), "the write comes after the package owner reference was looked up (and added when found)", "this write happens before the package owner reference is looked up and added: the object is written without the package as owner")
				}
				c.R.Check(okW, site(w)+" writes the object holding the package reference", c.pos(w.Pos()), "the object written carries the package owner reference (itself, or through the owner references taken over from it)", "the package owner reference is added to an object this Update does not write: the established object loses the package as owner")
			}
		}
	}

	c.R.Rule("R16.6", "the revision reconciler passes DesiredState==Active as control", 1, "an inactive revision run with control=true takes over every object of the active one")
	rec := c.method(pkg, "Reconciler", "Reconcile")
	if rec != nil {
		es := calls(rec, "("+xp+pkg+".Establisher).Establish")
		if c.expect("Establish", len(es), 1, rec) {
			ctrl := cfgx.CallArgs(es[0])[3]
			bo, ok := ctrl.(*ssa.BinOp)
			good := false
			if ok && bo.Op == token.EQL {
				for _, pair := range [][2]ssa.Value{{bo.X, bo.Y}, {bo.Y, bo.X}} {
					if s, ok := cfgx.ConstString(pair[1]); ok && s == "Active" {
						if ci, ok := pair[0].(ssa.CallInstruction); ok && strings.HasSuffix(cfgx.CalleeName(ci), ".GetDesiredState") {
							good = true
						}
					}
				}
			}
			c.R.Check(good, site(es[0])+" control-arg", c.pos(es[0].Pos()), "control = pr.GetDesiredState() == Active", "the control argument of Establish is not `GetDesiredState() == PackageRevisionActive`")
			// objects established derive from the parsed package
			c.R.Check(flow.Default.Any(cfgx.CallArgs(es[0])[1], func(v ssa.Value) bool {
				ci, ok := v.(ssa.CallInstruction)
				return ok && strings.HasSuffix(cfgx.CalleeName(ci), "parser.Package).GetObjects")
			}), site(es[0])+" objects-from-package", c.pos(es[0].Pos()), "the objects established are pkg.GetObjects()", "the objects passed to Establish do not come from the parsed package")
		}
	}
}

func isOwnerRefSlice(t types.Type) bool {
	s, ok := t.Underlying().(*types.Slice)
	return ok && strings.HasSuffix(s.Elem().String(), "meta/v1.OwnerReference")
}

// isPtrToBool: v is ptr.To[bool](const b).
func isPtrToBool(v ssa.Value, b bool) bool {
	ci, ok := v.(*ssa.Call)
	if !ok {
		return false
	}
	f := ci.Call.StaticCallee()
	if f == nil {
		return false
	}
	o := f.Origin()
	if o == nil {
		o = f
	}
	if o.Pkg == nil || o.Pkg.Pkg.Path() != "k8s.io/utils/ptr" || o.Name() != "To" || len(ci.Call.Args) != 1 {
		return false
	}
	cv, ok := cfgx.ConstBool(ci.Call.Args[0])
	return ok && cv == b
}
