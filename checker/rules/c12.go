package rules

import (
	"go/token"
	"strings"

	"golang.org/x/tools/go/ssa"

	"xpcheck/internal/cfgx"
	"xpcheck/internal/flow"
	"xpcheck/internal/load"
)

const pkgComposition = "internal/controller/apiextensions/composition"

func init() {
	register(&Property{
		ID:  "C12",
		Run: c12,
		Explanation: "Decides the shapes that keep composition revisions a faithful, monotonic history: (R12.1) the reconciler writes only Spec.Revision and owner references of listed revisions, creates only NewCompositionRevision(comp, n), whose spec is the converted Composition spec with the number overwritten; (R12.2) the hash label written and the hash compared derive from Composition.Hash() with the same constant truncation; " +
			"(R12.3) the latest revision number is computed from controller-filtered revisions only after every orphaned revision was re-adopted in place (no adoption of elements of that list is reachable after LatestRevision, and adoption acts on the list's own elements, not copies); (R12.4) every number stored or created is latestRev+1, creation needs the no-existing-revision edge, and a failed renumbering write is never turned into a plain success; " +
			"(R12.5) LatestRevision skips uncontrolled revisions; the Manual policy returns the pinned revision without any write; revision selectors apply only under Automatic; the XR's revision reference is rewritten only when it differs. (R12.6) every success return of the composition reconciler lies behind the List of the stored revisions (or the Composition is being deleted): nothing is decided from remembered state. R12.5 also requires that the labels narrowing the revisions are those of the XR's compositionRevisionSelector.",
		NotDecided:  []string{"histories as values (A-B-A numbering over several reconciles)", "crash points between the adoption writes and the renumbering", "hash collisions (Hash() concatenates labels, annotations and spec YAML without separators)", "that Composition labels cannot overwrite the hash label of a new revision (observation, outside the statement)"},
		Assumptions: []string{"metav1.IsControlledBy compares owner UID"},
	})
}

func c12(c *Ctx) {
	rec := c.method(pkgComposition, "Reconciler", "Reconcile")
	var listObj ssa.Value
	var latest ssa.CallInstruction
	latestName := xp + "apis/apiextensions/v1.LatestRevision"
	if rec != nil {
		for _, l := range calls(rec, clientList) {
			listObj = flow.Root(underIface(cfgx.CallArgs(l)[1]))
		}
		if ls := calls(rec, latestName); len(ls) == 1 {
			latest = ls[0]
		}
	}

	c.R.Rule("R12.6", "every reconcile of a live Composition looks at the stored history", 1,
		"a reconcile that reports success from remembered state (a memo of the last content, a cache) skips the renumbering or creation a rejected or lost write still owes: the current content's revision stays below a newer number")
	if rec != nil {
		var gone []cfgx.Edge
		for _, w := range calls(rec, xprt+"meta.WasDeleted") {
			t, _ := cfgx.CallCondEdges(w)
			gone = append(gone, t...)
		}
		c.noSuccessBefore(rec, calls(rec, clientList), gone, load.FuncName(rec)+": success only after List", "every success return lies behind the List of the Composition's revisions (or the Composition is being deleted)", "Reconcile can return success without listing the Composition's revisions: the history is not examined")
	}

	c.R.Rule("R12.8", "the content hash covers the whole spec, the labels and the annotations", 3,
		"two different contents with one hash are taken for the same revision: an edit is never cut into a new revision (or a revert is not recognised)")
	if hf := c.P.Method("apis/apiextensions/v1", "Composition", "Hash"); hf != nil {
		c.mech(hf)
		var written []ssa.Value
		for _, x := range cfgx.Calls(hf, nil) {
			if n := cfgx.CalleeName(x); strings.HasSuffix(n, ".Write") || strings.HasSuffix(n, "sha256.Sum256") {
				written = append(written, cfgx.CallArgs(x)...)
			}
		}
		for _, want := range []string{"Spec", "Labels", "Annotations"} {
			got := false
			for _, wv := range written {
				flow.Default.Any(wv, func(v ssa.Value) bool {
					ci, ok := v.(*ssa.Call)
					if !ok || !strings.HasSuffix(cfgx.CalleeName(ci), "yaml.Marshal") {
						return false
					}
					// the argument is the whole field <want> of the receiver
					a := ci.Call.Args[0]
					if mi, ok := a.(*ssa.MakeInterface); ok {
						a = mi.X
					}
					if ld, ok := a.(*ssa.UnOp); ok {
						if fa, ok := ld.X.(*ssa.FieldAddr); ok && fieldName(fa.X.Type(), fa.Field) == want && flow.Root(fa.X) == ssa.Value(hf.Params[0]) {
							got = true
						}
					}
					return false
				})
			}
			c.R.Check(got, load.FuncName(hf)+": hashes "+want, c.pos(hf.Pos()), "the marshalled "+want+" of the Composition is written to the hash, whole", "the Composition's "+want+" is not (wholly) part of the hashed content")
		}
	}

	c.R.Rule("R12.7", "the generated Composition ⇄ revision spec converters carry every shared field", 20,
		"a revision would not be a faithful copy of the Composition content it was cut from (or a Composition rebuilt from a revision would differ)")
	convertersComplete(c, "that part of the Composition never reaches its revisions", "apis/apiextensions/v1")

	c.R.Rule("R12.1", "revisions are append-only except the number", 5, "an existing revision's content would be edited, or a revision created with content other than the Composition's")
	if rec != nil && listObj != nil {
		n := 0
		for _, b := range rec.Blocks {
			for _, in := range b.Instrs {
				st, ok := in.(*ssa.Store)
				if !ok {
					continue
				}
				r, p, okp := flow.AccessPathC(st.Addr)
				if !okp || flow.Root(r) != listObj || !strings.HasPrefix(p, "Items") {
					continue
				}
				n++
				c.R.Check(p == "Items[].Spec.Revision", load.FuncName(rec)+": store to listed revision "+p, c.pos(st.Pos()), "only the revision number of a listed revision is stored", "a field other than Spec.Revision of an existing revision is modified: "+p)
			}
		}
		if n == 0 {
			c.R.Unknown(load.FuncName(rec)+": revision stores", c.pos(rec.Pos()), "no store to a listed revision found")
		}
		// calls that receive a listed revision
		for _, x := range cfgx.Calls(rec, nil) {
			for i, a := range x.Common().Args {
				if _, isPtr := a.Type().Underlying().(interface{ Elem() interface{} }); isPtr {
					_ = i
				}
				ua := underIface(a)
				if ia, ok := ua.(*ssa.IndexAddr); ok && flow.Root(ia) == listObj {
					nm := cfgx.CalleeName(x)
					allowed := nm == xprt+"meta.AddControllerReference" || nm == clientUpdate || nm == metaIsControlledBy || strings.HasSuffix(nm, ".GetLabels")
					c.R.Check(allowed, site(x)+" on-listed-revision", c.pos(x.Pos()), "a listed revision is only adopted, read or updated", "a listed revision is passed to "+cfgx.ShortCallee(nm)+", which may edit it")
				}
			}
		}
		cr := calls(rec, clientCreate)
		if c.expect("Create", len(cr), 1, rec) {
			ci, ok := underIface(cfgx.CallArgs(cr[0])[1]).(*ssa.Call)
			c.R.Check(ok && cfgx.CalleeName(ci) == xp+pkgComposition+".NewCompositionRevision", site(cr[0])+" new-revision", c.pos(cr[0].Pos()), "creates NewCompositionRevision(comp, n)", "the object created is not NewCompositionRevision(comp, n)")
		}
	}
	if ns := c.fn(pkgComposition, "NewCompositionRevisionSpec"); ns != nil {
		conv := cfgx.Calls(ns, func(ci ssa.CallInstruction) bool {
			return strings.HasSuffix(cfgx.CalleeName(ci), "RevisionSpecConverter).ToRevisionSpec")
		})
		good := len(conv) == 1
		nStores := 0
		for _, b := range ns.Blocks {
			for _, in := range b.Instrs {
				if st, ok := in.(*ssa.Store); ok {
					if _, p, okp := flow.AccessPathC(st.Addr); okp && p != "" {
						nStores++
						if p != "Revision" || st.Val != ssa.Value(ns.Params[1]) {
							good = false
						}
					}
				}
			}
		}
		c.R.Check(good && nStores == 1, load.FuncName(ns)+": converted spec + number", c.pos(ns.Pos()), "the revision spec is the converted Composition spec with only Revision overwritten", "the revision spec is not exactly ToRevisionSpec(cs) with Revision overwritten")
	}
	if nr := c.fn(pkgComposition, "NewCompositionRevision"); nr != nil {
		okSpec := false
		for _, b := range nr.Blocks {
			for _, in := range b.Instrs {
				if st, ok := in.(*ssa.Store); ok && isFieldSel(st.Addr, "v1.CompositionRevision", "Spec") {
					if ci, ok := st.Val.(*ssa.Call); ok && cfgx.CalleeName(ci) == xp+pkgComposition+".NewCompositionRevisionSpec" {
						_, p, _ := flow.AccessPathC(ci.Call.Args[0])
						okSpec = p == "Spec" && ci.Call.Args[1] == ssa.Value(nr.Params[1])
					}
				}
			}
		}
		c.R.Check(okSpec, load.FuncName(nr)+": spec", c.pos(nr.Pos()), "Spec = NewCompositionRevisionSpec(c.Spec, revision)", "the new revision's spec is not built from c.Spec and the revision argument")
	}

	c.R.Rule("R12.2", "hash agreement between the label written and the value compared", 2, "the revision of the current content would never be recognised (a new revision on every reconcile) or a wrong one matched")
	hashName := "(*" + xp + "apis/apiextensions/v1.Composition).Hash"
	bound := func(fn *ssa.Function) (int64, bool) {
		for _, b := range fn.Blocks {
			for _, in := range b.Instrs {
				if sl, ok := in.(*ssa.Slice); ok && sl.High != nil {
					if n, ok := cfgx.ConstInt(sl.High); ok && flow.Default.AnyCall(sl.X, hashName) && n > 8 {
						return n, true
					}
				}
			}
		}
		return 0, false
	}
	if rec != nil {
		if nr := c.fn(pkgComposition, "NewCompositionRevision"); nr != nil {
			b1, ok1 := bound(rec)
			b2, ok2 := bound(nr)
			c.R.Check(ok1 && ok2 && b1 == b2, "hash truncation Reconcile/NewCompositionRevision", c.pos(rec.Pos()), "both truncate Composition.Hash() to "+itoa(int(b1))+" characters", "the hash label is written and compared with different truncations")
			// the label written under LabelCompositionHash derives from Hash()
			okLbl := false
			for _, b := range nr.Blocks {
				for _, in := range b.Instrs {
					if mu, ok := in.(*ssa.MapUpdate); ok {
						if k, ok := cfgx.ConstString(mu.Key); ok && k == "crossplane.io/composition-hash" {
							okLbl = flow.Default.AnyCall(mu.Value, hashName)
						}
					}
				}
			}
			c.R.Check(okLbl, load.FuncName(nr)+": hash label", c.pos(nr.Pos()), "the hash label is Composition.Hash() (truncated)", "the hash label does not derive from Composition.Hash()")
			// compared value
			okCmp := false
			for _, b := range rec.Blocks {
				for _, in := range b.Instrs {
					if bo, ok := in.(*ssa.BinOp); ok && (bo.Op == token.NEQ || bo.Op == token.EQL) {
						l, r := bo.X, bo.Y
						isLbl := func(v ssa.Value) bool {
							return flow.Default.Any(v, func(x ssa.Value) bool {
								lk, ok := x.(*ssa.Lookup)
								if !ok {
									return false
								}
								k, isC := cfgx.ConstString(lk.Index)
								return isC && k == "crossplane.io/composition-hash"
							})
						}
						if (isLbl(l) && flow.Default.AnyCall(r, hashName)) || (isLbl(r) && flow.Default.AnyCall(l, hashName)) {
							okCmp = true
							// the value compared is this reconcile's Hash() itself: no remembered
							// hash (map/field read) and no other call may supply it
							side := r
							if isLbl(r) {
								side = l
							}
							fresh := true
							why := ""
							for x := range flow.Strict.Back(side) {
								switch y := x.(type) {
								case *ssa.Call:
									if cfgx.CalleeName(y) != hashName {
										fresh, why = false, "a call to "+cfgx.ShortCallee(cfgx.CalleeName(y))
									}
								case *ssa.Lookup:
									fresh, why = false, "a map read"
								case *ssa.FieldAddr, *ssa.Field:
									fresh, why = false, "a field read"
								}
							}
							c.R.Check(fresh, load.FuncName(rec)+": current hash is computed, not remembered", c.pos(bo.Pos()), "the hash compared is Composition.Hash() of the object read in this reconcile", "the hash compared can come from "+why+": content that changes without the remembered key changing (labels, annotations) is never captured by a revision")
						}
					}
				}
			}
			c.R.Check(okCmp, load.FuncName(rec)+": compares hash label", c.pos(rec.Pos()), "the revision's hash label is compared with the Composition's current hash", "no comparison of the revision's hash label with Composition.Hash() found")
		}
	}

	if lrf := c.fn("apis/apiextensions/v1", "LatestRevision"); lrf != nil {
		// the helper's contract — highest-numbered controlled revision — is what
		// the numbering and the Automatic selection rely on: nothing else decides
		var loop map[*ssa.BasicBlock]bool
		for _, x := range calls(lrf, metaIsControlledBy) {
			loop = cfgx.LoopOf(x.Block())
		}
		early := 0
		if loop != nil {
			early = len(cfgx.ReturnsFromLoop(loop))
		}
		other := ""
		for _, x := range cfgx.Calls(lrf, nil) {
			n := cfgx.CalleeName(x)
			if n != metaIsControlledBy && !strings.HasPrefix(n, "builtin.") {
				other = cfgx.ShortCallee(n)
			}
		}
		c.R.Check(loop != nil && early == 0 && other == "", load.FuncName(lrf)+": highest controlled revision, nothing else", c.pos(lrf.Pos()), "scans every revision; only IsControlledBy and the revision number decide", "LatestRevision returns from inside its scan or consults "+other+": it no longer is the highest-numbered controlled revision its callers assume")
	}

	c.R.Rule("R12.3", "no stale controller-filtered aggregate: adoption completes, in place, before LatestRevision", 3,
		"after a backup/restore the current content's revision is renumbered below existing revisions")
	if rec != nil && latest != nil && listObj != nil {
		adds := calls(rec, xprt+"meta.AddControllerReference")
		if len(adds) == 0 {
			c.R.Unknown(load.FuncName(rec)+": adoption", c.pos(rec.Pos()), "no AddControllerReference found")
		}
		for _, a := range adds {
			r := cfgx.InstrReaches(latest, a, nil)
			c.R.Check(!r, site(a)+" before-latest", c.pos(a.Pos()), "no adoption is reachable after the latest revision was computed", "a revision can be adopted after LatestRevision() was computed from the controller-filtered list: the number is stale")
			obj := underIface(cfgx.CallArgs(a)[0])
			_, isElem := obj.(*ssa.IndexAddr)
			c.R.Check(isElem && flow.Root(obj) == listObj, site(a)+" in-place", c.pos(a.Pos()), "adoption modifies the listed element itself", "adoption acts on a copy of the listed revision: LatestRevision() on the list does not see it")
		}
		c.R.Check(flow.Root(cfgx.CallArgs(latest)[1]) == listObj, site(latest)+" same-list", c.pos(latest.Pos()), "computed over the list that was adopted", "LatestRevision is computed over a different list")
		// the adoption loop covers every element (no early exit except error returns)
		if len(adds) > 0 {
			if l := cfgx.LoopOf(adds[0].Block()); l != nil {
				for _, r := range cfgx.ReturnsFromLoop(l) {
					c.R.Check(nonNilError(r) != "nil", load.FuncName(rec)+": adoption loop early exit @b"+itoa(r.Block().Index), c.pos(r.Pos()), "leaves the adoption loop only with an error", "the adoption loop can be left early with success")
				}
				okx := true
				for _, e := range cfgx.ExitEdgesOf(l) {
					if e.From != cfgx.LoopHeader(l) {
						if rets := cfgx.ReturnsReachable([]cfgx.Edge{e}, nil); len(rets) == 0 {
							okx = false
						}
					}
				}
				c.R.Check(okx, load.FuncName(rec)+": adoption loop complete", c.pos(adds[0].Pos()), "every listed revision is considered for adoption", "the adoption loop can break early")
			}
		}
	}

	c.R.Rule("R12.4", "numbering: latestRev+1 everywhere; Create needs existingRev==0; a failed renumbering is not a success", 5,
		"revision numbers would shrink or repeat, or the current content would silently keep a lower number")
	if rec != nil && latest != nil {
		isLatestPlus1 := func(v ssa.Value) bool {
			bo, ok := v.(*ssa.BinOp)
			if !ok || bo.Op != token.ADD {
				return false
			}
			one, isC := cfgx.ConstInt(bo.Y)
			if !isC || one != 1 {
				return false
			}
			for _, leaf := range append(phiLeaves(bo.X), bo.X) {
				if cv, ok := cfgx.ConstInt(leaf); ok && cv == 0 {
					continue
				}
				if _, isPhi := leaf.(*ssa.Phi); isPhi {
					continue
				}
				r, p, okp := flow.AccessPathC(leaf)
				if !(okp && p == "Spec.Revision" && r == latest.Value()) {
					return false
				}
			}
			return true
		}
		var revStore *ssa.Store
		for _, b := range rec.Blocks {
			for _, in := range b.Instrs {
				if st, ok := in.(*ssa.Store); ok {
					if _, p, okp := flow.AccessPathC(st.Addr); okp && strings.HasSuffix(p, "Spec.Revision") {
						revStore = st
						c.R.Check(isLatestPlus1(st.Val), load.FuncName(rec)+": renumber = latestRev+1", c.pos(st.Pos()), "the number stored is LatestRevision().Spec.Revision + 1", "the revision number stored is not latest+1")
					}
				}
			}
		}
		for _, x := range calls(rec, xp+pkgComposition+".NewCompositionRevision") {
			c.R.Check(isLatestPlus1(x.Common().Args[1]), site(x)+" number", c.pos(x.Pos()), "created with latestRev+1", "the new revision is not numbered latest+1")
		}
		if cr := calls(rec, clientCreate); len(cr) == 1 {
			// existingRev > 0 false edge
			var none []cfgx.Edge
			for _, b := range rec.Blocks {
				for _, in := range b.Instrs {
					if bo, ok := in.(*ssa.BinOp); ok {
						if cv, isC := cfgx.ConstInt(bo.Y); isC && cv == 0 {
							if phi, isPhi := bo.X.(*ssa.Phi); isPhi {
								fromRev := false
								for _, leaf := range phiLeaves(phi) {
									if _, p, okp := flow.AccessPathC(leaf); okp && strings.HasSuffix(p, "Spec.Revision") {
										fromRev = true
									}
								}
								if !fromRev {
									continue
								}
								t, f := cfgx.CondEdges(bo)
								switch bo.Op {
								case token.GTR, token.NEQ:
									none = append(none, f...)
								case token.EQL, token.LEQ:
									none = append(none, t...)
								}
							}
						}
					}
				}
			}
			c.requireCross(site(cr[0])+" only-if-no-revision-matches", cr[0], none, "existingRev == 0 (no revision has the current hash)")
		}
		if revStore != nil {
			// the Update that persists the renumbering
			for _, u := range calls(rec, clientUpdate) {
				if !cfgx.ReachesInIteration(revStore, u) {
					continue
				}
				ev := cfgx.ErrEvents(u)
				c.R.Check(len(ev.Filtered) == 0 && len(ev.Fail) > 0, site(u)+" error-not-filtered", c.pos(u.Pos()), "every failure of the renumbering write is handled", "a class of failures of the renumbering write is ignored ("+strings.Join(ev.Filtered, ",")+"): the reconcile reports success while the current content keeps a lower number")
				for _, r := range cfgx.ReturnsReachable(ev.Fail, append(ev.OK, cfgx.BackEdges(rec)...)) {
					good := nonNilError(r) != "nil" || requeueTrue(r)
					c.R.Check(good, site(u)+" failure-retries @b"+itoa(r.Block().Index), c.pos(r.Pos()), "a failed renumbering returns an error or requeues", "a failed renumbering ends the reconcile as a plain success")
				}
				// and the loop does not continue after a failure
				if l := cfgx.LoopOf(u.Block()); l != nil {
					rr, w := cfgx.ReachesAvoidingBlocks(ev.Fail, cfgx.LoopHeader(l), nil, ev.OK, c.posf())
					c.R.Check(!rr, site(u)+" failure-leaves-loop", c.pos(u.Pos()), "a failed renumbering leaves the loop", "the loop continues after a failed renumbering", w...)
				}
			}
		}
	}

	c.R.Rule("R12.5", "selection: LatestRevision skips uncontrolled revisions; Manual pins without writing; selectors only under Automatic; reference rewritten only when different", 6,
		"an XR would follow a revision of another Composition, or a Manual XR would be moved")
	if lr := c.fn("apis/apiextensions/v1", "LatestRevision"); lr != nil {
		ic := calls(lr, metaIsControlledBy)
		if c.expect("IsControlledBy", len(ic), 1, lr) {
			t, _ := cfgx.CallCondEdges(ic[0])
			n := 0
			for _, b := range lr.Blocks {
				for _, in := range b.Instrs {
					if st, ok := in.(*ssa.Store); ok {
						if a, ok := st.Addr.(*ssa.Alloc); ok && strings.HasSuffix(a.Type().String(), "CompositionRevision") {
							if _, isElem := flow.Root(st.Val).(*ssa.Parameter); isElem || flow.Strict.Any(st.Val, func(v ssa.Value) bool { return v == ssa.Value(lr.Params[1]) }) {
								n++
								if cfgx.LoopOf(st.Block()) == nil {
									// the best candidate is tracked by index and copied after the scan:
									// every update of the tracked index happens past the controlled edge
									good, found := true, false
									// the phis that carry the tracked index (phi-to-phi edges only)
									chain := map[*ssa.Phi]bool{}
									var walk func(v ssa.Value)
									walk = func(v ssa.Value) {
										if p, ok := v.(*ssa.Phi); ok && !chain[p] {
											chain[p] = true
											for _, e := range p.Edges {
												walk(e)
											}
										}
									}
									for x := range flow.Strict.Back(st.Val) {
										if ia, ok := x.(*ssa.IndexAddr); ok {
											walk(ia.Index)
										}
									}
									for phi := range chain {
										if cfgx.LoopOf(phi.Block()) == nil {
											continue
										}
										for i, e := range phi.Edges {
											if _, isP := e.(*ssa.Phi); isP {
												continue
											}
											if _, isC := e.(*ssa.Const); isC {
												continue
											}
											found = true
											pred := phi.Block().Preds[i]
											if ok, _ := cfgx.MustCross(pred.Instrs[len(pred.Instrs)-1], t, nil); !ok {
												good = false
											}
										}
									}
									c.R.Check(good && found, load.FuncName(lr)+": candidate controlled", c.pos(st.Pos()), "the tracked candidate index is only updated for controlled revisions", "the candidate index can be updated for a revision the Composition does not control")
									continue
								}
								c.requireCross(load.FuncName(lr)+": candidate controlled", st, t, "IsControlledBy(rev, c)")
							}
						}
					}
				}
			}
			if n == 0 {
				c.R.Unknown(load.FuncName(lr)+": candidate store", c.pos(lr.Pos()), "not found")
			}
			a := cfgx.CallArgs(ic[0])
			c.R.Check(flow.Root(underIface(a[1])) == ssa.Value(lr.Params[0]), site(ic[0])+" against-composition", c.pos(ic[0].Pos()), "controlled by the Composition argument", "IsControlledBy is not tested against the Composition")
		}
	}
	if ft := c.method(pkgComposite, "APIRevisionFetcher", "Fetch"); ft != nil {
		var manual []cfgx.Edge
		for _, b := range ft.Blocks {
			for _, in := range b.Instrs {
				if bo, ok := in.(*ssa.BinOp); ok && isEqOrNeq(bo) {
					for _, s := range []ssa.Value{bo.X, bo.Y} {
						if v, ok := cfgx.ConstString(s); ok && v == "Manual" {
							t, _ := eqEdges(bo)
							manual = append(manual, t...)
						}
					}
				}
			}
		}
		if len(manual) == 0 {
			c.R.Bad(load.FuncName(ft)+": manual policy", c.pos(ft.Pos()), "the Manual update policy is never tested")
		} else {
			// Manual ∧ referenced ⇒ pinned, with no further condition: every write
			// lies beyond "no reference yet", "no policy" or "policy != Manual"
			isRefOrPol := func(x, y ssa.Value) bool {
				return cfgx.IsNilConst(y) && (hasSuffixCall(x, ".GetCompositionRevisionReference") || hasSuffixCall(x, ".GetCompositionUpdatePolicy"))
			}
			isManual := func(x, y ssa.Value) bool { v, ok := cfgx.ConstString(y); return ok && v == "Manual" }
			conj := append(findCmps(ft, false, isRefOrPol), findCmps(ft, true, isManual)...)
			notPinned := conjFalseEdges(ft, conj)
			rets := cfgx.ReturnsReachable(manual, notPinned)
			for _, w := range directWrites(ft) {
				r, _ := cfgx.ReachableFromEdges(manual, w, notPinned, nil)
				c.R.Check(!r, site(w)+" not-under-manual", c.pos(w.Pos()), "no write is reachable under the Manual policy with a selected revision", "a Manual XR's revision reference can be rewritten")
			}
			for _, w := range directWrites(ft) {
				c.requireCross(site(w)+" only-when-not-pinned", w, notPinned, "no revision reference yet, no update policy, or policy != Manual (no other way past the pin)")
			}
			c.R.Check(len(rets) == 1, load.FuncName(ft)+": manual returns pinned", c.pos(ft.Pos()), "the Manual edge returns directly", "the Manual edge does not return the pinned revision directly")
			if len(rets) == 1 {
				// the revision returned was read by the pinned name
				okName := false
				for _, g := range calls(ft, clientGet) {
					if r, _ := cfgx.ReachableFromEdges(manual, g, notPinned, nil); r {
						okName = flow.Default.Any(cfgx.CallArgs(g)[1], func(v ssa.Value) bool { return hasSuffixCall(v, ".GetCompositionRevisionReference") })
					}
				}
				c.R.Check(okName, load.FuncName(ft)+": pinned by name", c.pos(ft.Pos()), "reads the revision named by the XR's reference", "the revision read under Manual is not the one the XR references")
			}
		}
		ap := calls(ft, applicatorApply)
		if c.expect("Apply", len(ap), 1, ft) {
			var differs []cfgx.Edge
			for _, cf := range findCmps(ft, true, func(x, y ssa.Value) bool {
				return cfgx.IsNilConst(y) && hasSuffixCall(x, ".GetCompositionRevisionReference")
			}) {
				differs = append(differs, cf.Holds...)
			}
			for _, cf := range findCmps(ft, false, func(x, y ssa.Value) bool {
				_, px, _ := flow.AccessPathC(x)
				return px == "Name" && hasSuffixCall(y, ".GetName")
			}) {
				differs = append(differs, cf.Holds...)
			}
			c.requireCross(site(ap[0])+" only-when-different", ap[0], differs, "no reference yet, or its name differs from the latest revision's")
		}
	}
	if gl := c.method(pkgComposite, "APIRevisionFetcher", "getCompositionRevisionList"); gl != nil {
		var auto []cfgx.Edge
		for _, b := range gl.Blocks {
			for _, in := range b.Instrs {
				if bo, ok := in.(*ssa.BinOp); ok && isEqOrNeq(bo) {
					for _, s := range []ssa.Value{bo.X, bo.Y} {
						if v, ok := cfgx.ConstString(s); ok && v == "Automatic" {
							t, _ := eqEdges(bo)
							auto = append(auto, t...)
						}
					}
				}
			}
		}
		n := 0
		for _, b := range gl.Blocks {
			for _, in := range b.Instrs {
				if f, ok := in.(*ssa.FieldAddr); ok {
					if _, p, _ := flow.AccessPathC(f); strings.HasSuffix(p, "MatchLabels") {
						n++
						c.requireCross(load.FuncName(gl)+": selector labels", f, auto, "compositionUpdatePolicy == Automatic")
						c.R.Check(flow.Default.Any(f.X, func(v ssa.Value) bool { return hasSuffixCall(v, ".GetCompositionRevisionSelector") }), load.FuncName(gl)+": the revision selector's labels #"+itoa(n), c.pos(f.Pos()), "the labels are those of the XR's compositionRevisionSelector", "the labels that narrow the revisions are not those of the XR's compositionRevisionSelector (the composition selector selects Compositions, not revisions)")
					}
				}
			}
		}
		if n == 0 {
			c.R.Unknown(load.FuncName(gl)+": selector", c.pos(gl.Pos()), "MatchLabels of the revision selector not used")
		}
		// the selector restricts the listing itself: its labels are part of the List
		// call's label options (the API server's exact-match selection), directly or
		// copied entry by entry; a hand-written filter over the listed items is not
		// the same relation
		isSel := func(v ssa.Value) bool {
			_, p, _ := flow.AccessPathC(v)
			return strings.HasSuffix(p, "MatchLabels")
		}
		reaches := false
		for _, lc := range calls(gl, clientList) {
			for _, opt := range lc.Common().Args[2:] {
				if flow.Default.Any(opt, isSel) {
					reaches = true
				}
				// copied into the options map
				for dst := range flow.Default.Back(opt) {
					for _, x := range cfgx.Calls(gl, nil) {
						nm := cfgx.CalleeName(x)
						if i := strings.Index(nm, "["); i > 0 {
							nm = nm[:i]
						}
						if nm == "maps.Copy" && len(x.Common().Args) == 2 && sole(x.Common().Args[0]) == sole(dst) && flow.Default.Any(x.Common().Args[1], isSel) {
							reaches = true
						}
					}
					for _, b := range gl.Blocks {
						for _, in := range b.Instrs {
							if mu, ok := in.(*ssa.MapUpdate); ok && sole(mu.Map) == sole(dst) && sameRange(mu.Key, mu.Value) {
								if flow.Strict.Any(mu.Value, func(v ssa.Value) bool { rg, ok := v.(*ssa.Range); return ok && isSel(rg.X) }) {
									reaches = true
								}
							}
						}
					}
				}
			}
		}
		c.R.Check(reaches, load.FuncName(gl)+": selector applied by the List", c.pos(gl.Pos()), "the selector's matchLabels are label options of the List call", "the revision selector's labels do not reach the List call's options: revisions are narrowed by other means than the API server's label selection")
		// the composition-name label is always set
		okName := false
		for _, b := range gl.Blocks {
			for _, in := range b.Instrs {
				if mu, ok := in.(*ssa.MapUpdate); ok {
					if k, ok := cfgx.ConstString(mu.Key); ok && k == "crossplane.io/composition-name" {
						okName = cfgx.MustPass(mu.Block(), lastCallBlock(gl, clientList))
					}
				}
			}
		}
		c.R.Check(okName, load.FuncName(gl)+": by composition name", c.pos(gl.Pos()), "revisions are always listed by the composition-name label", "the list is not always restricted to the Composition's revisions")
	}
}

func lastCallBlock(fn *ssa.Function, name string) *ssa.BasicBlock {
	cs := calls(fn, name)
	if len(cs) == 0 {
		return fn.Blocks[0]
	}
	return cs[len(cs)-1].Block()
}

// requeueTrue: the reconcile.Result returned has Requeue: true.
func requeueTrue(r *ssa.Return) bool {
	v := cfgx.ReturnValue(r, 0)
	ld, ok := v.(*ssa.UnOp)
	if !ok {
		return false
	}
	al, ok := ld.X.(*ssa.Alloc)
	if !ok {
		return false
	}
	for _, ref := range *al.Referrers() {
		if fa, ok := ref.(*ssa.FieldAddr); ok && isFieldSel(fa, "reconcile.Result", "Requeue") {
			for _, rr := range *fa.Referrers() {
				if st, ok := rr.(*ssa.Store); ok {
					if b, ok := cfgx.ConstBool(st.Val); ok && b {
						return true
					}
				}
			}
		}
	}
	return false
}
