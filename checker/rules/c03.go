package rules

import (
	"go/token"
	"go/types"
	"strings"

	"golang.org/x/tools/go/ssa"

	"xpcheck/internal/cfgx"
	"xpcheck/internal/flow"
	"xpcheck/internal/load"
	"xpcheck/internal/tables"
)

func init() {
	register(&Property{
		ID:  "C03",
		Run: c03,
		Explanation: "Decides that a failing pipeline cannot be destructive and that garbage collection is exact, as shapes of the code: (R3.1) in FunctionComposer.Compose no API effect (write, GC, field-manager upgrade) can precede a RunFunction call on any path and none sits inside the pipeline loop, so every return taken from the loop happens with zero writes; " +
			"(R3.2) the severity switch names every fnv1.Severity constant and its FATAL arm returns a non-nil error; (R3.3) the requirements loop is bounded by a constant, returns a response only on the requirements-equal or fatal edge, and the fall-through returns (nil, error); " +
			"(R3.4) the pipeline GC deletes only observed entries whose name is absent from desired, refuses foreign controllers, and no non-error return or skip exists inside its delete loop; (R3.5) the P&T associator deletes only references whose annotation names no template; " +
			"(R3.6) these two are the only delete sites on composed resources in the package; (R3.7) observation fails closed (shared with R1.7). R3.4 also requires that no success return precedes the scan of observed unless observed is empty. R3.0 extends over the function runners behind the FunctionRunner interface: a response is used only where the call's error is known to be nil. (R3.9) the stamp rules of R1.8 also hold here: a still-desired resource never keeps a stale composition-resource-name. R3.8 also requires that the P&T composer stamps an anonymous template with the empty name.",
		NotDecided:  []string{"that `observed` equals 'previously composed by this XR' (depends on API contents)", "transient deletes caused by the API server", "behaviour of functions", "effects of connection-details fetchers and secret reads before the pipeline (reads only)"},
		Assumptions: []string{"FunctionRunner.RunFunction implementations do not write composed resources", "client.Reader calls have no effect"},
	})
}

// effectSites lists every call in fn that can write to the API: direct client
// writes plus role-table invokes that may write.
func effectSites(fn *ssa.Function) []ssa.CallInstruction {
	out := directWrites(fn)
	out = append(out, calls(fn, gcInvoke, upgradeInv, assocInvoke, finalizerAdd, finalizerRemove)...)
	return out
}

func c03(c *Ctx) {
	fc, _ := c.composerMethods()

	c.R.Rule("R3.1", "no effect before the pipeline has finished: no path from any API effect to a RunFunction call, none inside the pipeline loop", 5,
		"a write or delete issued before a later step fails makes a failing pipeline destructive")
	if fc != nil {
		run := calls(fc, runFnInv)
		eff := effectSites(fc)
		if len(run) != 1 || len(eff) < 5 {
			c.R.Unknown(load.FuncName(fc)+": pipeline", c.pos(fc.Pos()), "expected one RunFunction call and at least five effect sites")
		} else {
			loop := cfgx.LoopOf(run[0].Block())
			for _, w := range eff {
				reach := cfgx.InstrReaches(w, run[0], nil)
				in := loop != nil && loop[w.Block()]
				c.R.Check(!reach && !in && loop != nil, site(w)+" after-pipeline", c.pos(w.Pos()), "cannot precede any RunFunction call and is outside the pipeline loop", "an API effect can happen before a pipeline step runs: a later failure would not be side-effect free")
			}
			// every effect is dominated by the loop's normal exit
			c.R.Check(loop != nil, load.FuncName(fc)+": pipeline loop", c.pos(run[0].Pos()), "RunFunction is called in a loop over the pipeline", "RunFunction is not inside a loop")
			// the observe error returns before the pipeline
			if ob := calls(fc, observeInv); len(ob) == 1 {
				c.requireCross(site(run[0])+" after-observe", run[0], okEdges(ob[0]), "ok(ObserveComposedResources)")
			} else {
				c.R.Unknown(load.FuncName(fc)+": observe", c.pos(fc.Pos()), "ObserveComposedResources call not found")
			}
		}
	}

	c.R.Rule("R3.2", "fatal means return: the severity switch covers all fnv1.Severity constants and the FATAL arm returns a non-nil error", 2,
		"a fatal result that does not abort lets composition apply the half-built desired state")
	sevT := c.P.NamedType("apis/apiextensions/fn/proto/v1", "Severity")
	if fc != nil && sevT != nil {
		want := map[int64]string{}
		for _, k := range tables.ConstsOfType(sevT.Obj().Pkg(), sevT) {
			if v, ok := constInt64(k); ok {
				want[v] = k.Name()
			}
		}
		seen := map[int64]bool{}
		var fatalTrue []cfgx.Edge
		for _, b := range fc.Blocks {
			for _, in := range b.Instrs {
				bo, ok := in.(*ssa.BinOp)
				if !ok || !isEqOrNeq(bo) || !types.Identical(bo.X.Type(), sevT) {
					continue
				}
				if v, ok := cfgx.ConstInt(bo.Y); ok && hasSuffixCall(bo.X, ".GetSeverity") {
					seen[v] = true
					if want[v] == "Severity_SEVERITY_FATAL" {
						t, _ := eqEdges(bo)
						fatalTrue = append(fatalTrue, t...)
					}
				}
			}
		}
		var missing []string
		for v, n := range want {
			if !seen[v] {
				missing = append(missing, n)
			}
		}
		c.R.Check(len(missing) == 0 && len(want) >= 4, load.FuncName(fc)+": severity switch exhaustive", c.pos(fc.Pos()), "all "+itoa(len(want))+" Severity constants have a case", "the severity switch has no case for: "+strings.Join(missing, ","))
		if len(fatalTrue) == 0 {
			c.R.Bad(load.FuncName(fc)+": fatal arm", c.pos(fc.Pos()), "no SEVERITY_FATAL case found")
		} else {
			// from the FATAL arm every way out of Compose returns a non-nil error, and
			// no further pipeline step runs (path-sensitive: the arm may first leave a
			// helper's result in a variable that the caller tests)
			rets := cfgx.ErrorReturnsFrom(fatalTrue, nil)
			good := len(rets) > 0
			p := fc.Pos()
			for _, r := range rets {
				if !r.NonNil && classifyErr(r.Val) != "nonnil" {
					good = false
					p = r.At.Pos()
				}
			}
			for _, rf := range calls(fc, runFnInv) {
				if reach, _ := cfgx.ReachableFromEdges(fatalTrue, rf, nil, nil); reach {
					good = false
					p = rf.Pos()
				}
			}
			c.R.Check(good, load.FuncName(fc)+": fatal arm returns error", c.pos(p), "from the FATAL arm every return carries a non-nil error and no further step runs", "the FATAL arm does not return a non-nil error immediately")
		}
	}

	c.R.Rule("R3.3", "requirements loop is bounded and fails closed", 4,
		"proceeding with a response whose requirements never stabilised composes from incomplete inputs")
	if rf := c.method(pkgComposite, "FetchingFunctionRunner", "RunFunction"); rf != nil {
		inner := calls(rf, runFnInv)
		if c.expect("wrapped RunFunction", len(inner), 1, rf) {
			loop := cfgx.LoopOf(inner[0].Block())
			if loop == nil {
				c.R.Bad(load.FuncName(rf)+": loop", c.pos(rf.Pos()), "the wrapped RunFunction call is not in a loop")
			} else {
				h := cfgx.LoopHeader(loop)
				boundBlock := loopConstBounded(loop, h)
				bounded := boundBlock != nil
				c.R.Check(bounded, load.FuncName(rf)+": bounded", c.pos(inner[0].Pos()), "the loop condition compares an induction variable with a constant bound", "the requirements loop has no constant bound")
				// equality and fatal edges
				var okEdgesSet []cfgx.Edge
				eqOK := false
				for _, x := range cfgx.Calls(rf, nil) {
					switch cfgx.CalleeName(x) {
					case "reflect.DeepEqual", "google.golang.org/protobuf/proto.Equal", "github.com/google/go-cmp/cmp.Equal":
						a := x.Common().Args
						fromRsp := func(v ssa.Value) bool {
							return flow.Default.Any(v, func(y ssa.Value) bool { return hasSuffixCall(y, "RunFunctionResponse).GetRequirements") })
						}
						carried := func(v ssa.Value) bool {
							return flow.Strict.Any(v, func(y ssa.Value) bool { p, ok := y.(*ssa.Phi); return ok && p.Block() == h })
						}
						if (fromRsp(a[0]) && carried(a[1])) || (fromRsp(a[1]) && carried(a[0])) {
							eqOK = true
							t, _ := cfgx.CallCondEdges(x)
							okEdgesSet = append(okEdgesSet, t...)
						}
					}
				}
				c.R.Check(eqOK, load.FuncName(rf)+": stability test", c.pos(inner[0].Pos()), "compares this round's requirements with the previous round's using a whole-value equality", "no whole-value equality (reflect.DeepEqual/proto.Equal/cmp.Equal) between this round's and the previous round's requirements was found")
				fatalT, fatalCmp, fatalByLib := fatalResultEdges(rf)
				okEdgesSet = append(okEdgesSet, fatalT...)
				// a response bearing a fatal result is handed back at once: it is
				// never re-run, and every round examines all results before it
				// may fetch and iterate.
				if len(fatalT) == 0 {
					c.R.Bad(load.FuncName(rf)+": fatal result ends the rounds", c.pos(inner[0].Pos()), "no test of the response's results for SEVERITY_FATAL: a fatal response whose requirements changed is discarded and the function is run again")
				} else {
					again, w := cfgx.ReachableFromEdges(fatalT, inner[0], nil, c.posf())
					c.R.Check(!again, load.FuncName(rf)+": fatal result ends the rounds", c.pos(fatalCmp.Pos()), "the function is not run again after a fatal result", "the function can be run again after it returned a fatal result (the fatal response is lost)", w...)
					rl := cfgx.LoopOf(fatalCmp.Block())
					if fatalByLib {
						c.R.OK(load.FuncName(rf)+": all results examined", c.pos(fatalCmp.Pos()), "slices.ContainsFunc examines every result")
					} else if rl == nil || rl[inner[0].Block()] {
						c.R.Bad(load.FuncName(rf)+": all results examined", c.pos(fatalCmp.Pos()), "the fatal test is not inside a loop over the response's results")
					} else {
						h2 := cfgx.LoopHeader(rl)
						skip, w2 := cfgx.ReachesAvoidingBlocks(okEdges(inner[0]), h, map[*ssa.BasicBlock]bool{h2: true}, nil, c.posf())
						early := false
						for _, e := range cfgx.ExitEdgesOf(rl) {
							if e.From == h2 {
								continue
							}
							isFatal := false
							for _, f := range fatalT {
								if f == e {
									isFatal = true
								}
							}
							if !isFatal {
								early = true
							}
						}
						c.R.Check(!skip && !early, load.FuncName(rf)+": all results examined", c.pos(fatalCmp.Pos()), "every round passes the complete results loop before it iterates", "a round can iterate without examining every result for SEVERITY_FATAL", w2...)
					}
				}
				nSucc := 0
				for _, b := range rf.Blocks {
					r, ok := b.Instrs[len(b.Instrs)-1].(*ssa.Return)
					if !ok {
						continue
					}
					kind := nonNilError(r)
					if kind == "nil" && !cfgx.IsNilConst(cfgx.ReturnValue(r, 0)) {
						nSucc++
						c.requireCross(load.FuncName(rf)+": success return @b"+itoa(b.Index), r, okEdgesSet, "the requirements-equal edge or a fatal result")
					}
					if !loop[b] {
						// reachable from the loop's normal exit
						exits := []cfgx.Edge{}
						for _, e := range cfgx.ExitEdgesOf(loop) {
							if (boundBlock == nil && e.From == h) || e.From == boundBlock {
								exits = append(exits, e)
							}
						}
						if reach, _ := cfgx.ReachableFromEdges(exits, r, nil, nil); reach {
							c.R.Check(kind == "nonnil" && cfgx.IsNilConst(cfgx.ReturnValue(r, 0)), load.FuncName(rf)+": exhaustion returns error", c.pos(r.Pos()), "after the bound is exhausted the function returns (nil, error)", "after the bound is exhausted the function does not return (nil, non-nil error)")
						}
					}
				}
				if nSucc == 0 {
					c.R.Unknown(load.FuncName(rf)+": success returns", c.pos(rf.Pos()), "no success return found")
				}
				// the carried requirements are updated from this round's
				// a fetch error returns
				for _, f := range calls(rf, "("+xp+pkgComposite+".ExtraResourcesFetcher).Fetch") {
					ev := cfgx.ErrEvents(f)
					rets := cfgx.ReturnsReachable(ev.Fail, ev.OK)
					good := len(ev.Fail) > 0
					for _, r := range rets {
						if nonNilError(r) == "nil" {
							good = false
						}
					}
					h2 := cfgx.LoopHeader(cfgx.LoopOf(f.Block()))
					seen, _ := cfgx.ReachBlocks(edgeTargets(ev.Fail), edgeSet(ev.OK))
					if h2 != nil && seen[h2] {
						good = false
					}
					c.R.Check(good, site(f)+" error-returns", c.pos(f.Pos()), "a fetch error aborts the step", "a failed extra-resource fetch does not abort the step")
				}
			}
		}
	}

	c.R.Rule("R3.4", "pipeline GC = observed ∖ desired, owner-checked, no early success and no skip inside the delete loop", 6,
		"deleting a still-desired resource, or reporting success after deleting only some, loses or leaks resources")
	if gc := c.method(pkgComposite, "DeletingComposedResourceGarbageCollector", "GarbageCollectComposedResources"); gc != nil {
		observed, desired := gc.Params[3], gc.Params[4]
		// del[name]=cd on the !ok edge of desired[name], ranging over observed
		var delStore *ssa.MapUpdate
		for _, b := range gc.Blocks {
			for _, in := range b.Instrs {
				if mu, ok := in.(*ssa.MapUpdate); ok {
					delStore = mu
				}
			}
		}
		// desired[name] lookups keyed by the observed entry's name
		var absent, present []cfgx.Edge
		for _, b := range gc.Blocks {
			for _, in := range b.Instrs {
				if lk, ok := in.(*ssa.Lookup); ok && lk.CommaOk && lk.X == ssa.Value(desired) {
					for _, r := range *lk.Referrers() {
						if ex, ok := r.(*ssa.Extract); ok && ex.Index == 1 {
							t, f := cfgx.CondEdges(ex)
							absent = append(absent, f...)
							present = append(present, t...)
						}
					}
					// key must be the range key over observed (or over a copy of it)
					c.R.Check(flow.Strict.Any(lk.Index, func(v ssa.Value) bool {
						rg, ok := v.(*ssa.Range)
						return ok && (rg.X == ssa.Value(observed) || flow.Default.Any(rg.X, func(x ssa.Value) bool { return x == ssa.Value(observed) }))
					}), load.FuncName(gc)+": lookup key", c.pos(lk.Pos()), "desired is looked up by the observed entry's name", "desired is not looked up by the name of the observed entry")
				}
			}
		}
		fromObserved := func(v ssa.Value) bool {
			return flow.Default.Any(v, func(x ssa.Value) bool { rg, ok := x.(*ssa.Range); return ok && rg.X == ssa.Value(observed) })
		}
		dels := calls(gc, clientDelete)
		upds := calls(gc, clientUpdate)
		// two shapes: a delete set filled from observed∖desired and then ranged over,
		// or the delete inside the range over observed, behind the absent edge
		fused := delStore == nil && len(dels) == 1 && fromObserved(cfgx.CallArgs(dels[0])[1])
		// third shape: the delete set is a copy of observed from which every still-desired
		// entry is removed (maps.Clone + maps.DeleteFunc, or the loops they stand for)
		pruned := false
		if delStore == nil && !fused && len(dels) == 1 {
			var set ssa.Value
			if flow.Default.Any(cfgx.CallArgs(dels[0])[1], func(v ssa.Value) bool {
				rg, ok := v.(*ssa.Range)
				if ok && rg.X != ssa.Value(observed) && flow.Default.Any(rg.X, func(x ssa.Value) bool { return x == ssa.Value(observed) }) {
					set = rg.X
				}
				return set != nil
			}) {
				// delete(set, k) for every present k, before the API deletes
				for _, x := range calls(gc, "builtin.delete") {
					a := x.Common().Args
					if len(a) != 2 || sole(a[0]) != sole(set) {
						continue
					}
					okPresent, _ := cfgx.MustCross(x, present, nil)
					loop := cfgx.LoopOf(x.Block())
					complete := false
					if loop != nil {
						by, _ := cfgx.LoopBypass(loop, map[*ssa.BasicBlock]bool{x.Block(): true}, absent, nil)
						exits, _ := cfgx.OnlyHeaderExits(loop)
						complete = !by && exits
					}
					before := cfgx.InstrReaches(x, dels[0], nil) && !cfgx.InstrReaches(dels[0], x, nil)
					c.R.Check(okPresent && complete && before && len(present) > 0, load.FuncName(gc)+": still-desired entries leave the delete set", c.pos(x.Pos()), "every entry of the copy of observed that desired contains is removed before anything is deleted", "the delete set (a copy of observed) is not pruned of exactly the still-desired entries before the deletes")
					pruned = okPresent && complete && before
				}
			}
		}
		if pruned {
			c.R.OK(load.FuncName(gc)+": del from observed", c.pos(dels[0].Pos()), "the delete set is a copy of observed")
		} else if delStore == nil && !fused {
			c.R.Unknown(load.FuncName(gc)+": delete set", c.pos(gc.Pos()), "neither a delete set filled from observed nor a delete inside the range over observed was found")
		} else if !fused {
			c.requireCross(load.FuncName(gc)+": del[name]= only when absent from desired", delStore, absent, "desired[name] lookup !ok")
			c.R.Check(flow.Strict.Any(delStore.Value, func(v ssa.Value) bool { rg, ok := v.(*ssa.Range); return ok && rg.X == ssa.Value(observed) }), load.FuncName(gc)+": del from observed", c.pos(delStore.Pos()), "entries of the delete set come from observed", "the delete set is not filled from observed")
		} else {
			for _, w := range append(append([]ssa.CallInstruction{}, upds...), dels...) {
				c.requireCross(site(w)+" only when absent from desired", w, absent, "desired[name] lookup !ok")
			}
			c.R.OK(load.FuncName(gc)+": del from observed", c.pos(dels[0].Pos()), "the object deleted is the observed entry of this iteration")
		}
		if c.expect("Delete", len(dels), 1, gc) {
			if fused {
				c.R.OK(site(dels[0])+" from-delete-set", c.pos(dels[0].Pos()), "the object deleted is the observed entry that is absent from desired")
			} else if pruned {
				c.R.OK(site(dels[0])+" from-delete-set", c.pos(dels[0].Pos()), "the object deleted ranges over the pruned copy of observed")
			} else {
				c.R.Check(delStore != nil && flow.Default.Any(cfgx.CallArgs(dels[0])[1], func(v ssa.Value) bool { rg, ok := v.(*ssa.Range); return ok && rg.X == delStore.Map }), site(dels[0])+" from-delete-set", c.pos(dels[0].Pos()), "the object deleted ranges over the delete set", "the object deleted does not come from the delete set")
			}
			loop := cfgx.LoopOf(dels[0].Block())
			if loop != nil {
				var allowedSkip []cfgx.Edge
				if fused {
					allowedSkip = present // still desired: nothing to delete
				}
				by, w := cfgx.LoopBypass(loop, map[*ssa.BasicBlock]bool{dels[0].Block(): true}, allowedSkip, c.posf())
				c.R.Check(!by, load.FuncName(gc)+": no skip in delete loop", c.pos(dels[0].Pos()), "every iteration reaches the Delete or returns an error", "an iteration of the delete loop can skip the Delete", w...)
				for _, r := range cfgx.ReturnsFromLoop(loop) {
					c.R.Check(nonNilError(r) != "nil", load.FuncName(gc)+": early exit of delete loop @b"+itoa(r.Block().Index), c.pos(r.Pos()), "returns an error", "a success return inside the delete loop ends garbage collection after a subset of the deletes")
				}
			}
			// the label-cleanup Update precedes Delete and its failure (other than NotFound) returns
			for _, u := range upds {
				c.requireCross(site(dels[0])+" after-label-cleanup", dels[0], okEdges(u, "IgnoreNotFound"), "ok-or-NotFound(Update)")
			}
		}
		// no success before observed was scanned, unless observed is empty
		{
			scans := map[*ssa.BasicBlock]bool{}
			for _, b := range gc.Blocks {
				for _, in := range b.Instrs {
					if rg, ok := in.(*ssa.Range); ok && (rg.X == ssa.Value(observed) || flow.Default.Any(rg.X, func(x ssa.Value) bool { return x == ssa.Value(observed) })) {
						scans[b] = true
					}
				}
			}
			var empty []cfgx.Edge
			for _, lc := range cfgx.LenCmps(gc) {
				if lc.Of != ssa.Value(observed) {
					continue
				}
				tr, fa := lc.Edges()
				op, k := lc.Op, lc.Const
				if lc.Swap {
					op = map[token.Token]token.Token{token.LSS: token.GTR, token.GTR: token.LSS, token.LEQ: token.GEQ, token.GEQ: token.LEQ, token.EQL: token.EQL, token.NEQ: token.NEQ}[op]
				}
				switch {
				case op == token.EQL && k == 0, op == token.LSS && k == 1, op == token.LEQ && k == 0:
					empty = append(empty, tr...)
				case op == token.NEQ && k == 0, op == token.GTR && k == 0, op == token.GEQ && k == 1:
					empty = append(empty, fa...)
				}
			}
			var early *ssa.Return
			for b := range cfgx.ReachFromEntry(gc, scans, empty) {
				if r, ok := b.Instrs[len(b.Instrs)-1].(*ssa.Return); ok && !scans[b] && nonNilError(r) == "nil" {
					early = r
				}
			}
			p := gc.Pos()
			if early != nil {
				p = early.Pos()
			}
			c.R.Check(len(scans) > 0 && early == nil, load.FuncName(gc)+": no success before the scan", c.pos(p), "every success return lies behind the scan of observed (or observed is empty)", "garbage collection can report success without looking at the observed resources at all, although observed is not empty")
		}
		// owner check
		fcs := foreignControllerTests(gc)
		if len(fcs) != 1 {
			c.R.Unknown(load.FuncName(gc)+": controller check", c.pos(gc.Pos()), "expected one GetControllerOf test")
		} else {
			for _, w := range append(append([]ssa.CallInstruction{}, upds...), dels...) {
				reach, wit := cfgx.ReachableFromEdges(fcs[0].Foreign, w, cfgx.BackEdges(gc), c.posf())
				c.R.Check(!reach && len(fcs[0].Foreign) > 0, site(w)+" not-foreign", c.pos(w.Pos()), "unreachable in the iteration where the controller is foreign", "a composed resource controlled by another owner can be updated/deleted", wit...)
				c.requireCross(site(w)+" owner-checked", w, fcs[0].Ours, "no controller, or controller UID == owner UID")
			}
			c.R.Check(fcs[0].Owner == ssa.Value(gc.Params[2]), load.FuncName(gc)+": compares with owner", c.pos(fcs[0].Get.Pos()), "the controller UID is compared with owner.GetUID()", "the controller UID is not compared with the owner parameter's UID")
		}
	}

	c.R.Rule("R3.9", "the annotation observation and garbage collection key on is (re)stamped with the desired name on every render", 3,
		"a still-desired resource that keeps a stale composition-resource-name is observed under another name: it matches no desired resource, is garbage collected and re-created on every reconcile")
	stampRules(c)

	c.R.Rule("R3.8", "P&T: the annotation the associator keys on is rendered after the from-XR patches", 1,
		"a patch that overwrites crossplane.io/composition-resource-name makes the associator take a still-desired resource for one whose template is gone: it is deleted and re-created on every reconcile")
	{
		_, ptc := c.composerMethods()
		ptRenderOrder(c, ptc)
	}

	c.R.Rule("R3.5", "P&T GC only for references whose annotation names no template", 3,
		"deleting a resource whose template still exists destroys a desired resource")
	if as := c.method(pkgComposite, "GarbageCollectingAssociator", "AssociateTemplates"); as != nil {
		var hit, miss []cfgx.Edge
		var tmpl ssa.Value
		for _, b := range as.Blocks {
			for _, in := range b.Instrs {
				if lk, ok := in.(*ssa.Lookup); ok && lk.CommaOk && strings.HasSuffix(lk.X.Type().String(), "map["+xp+pkgComposite+".ResourceName]int") {
					tmpl = lk.X
					c.R.Check(flow.Default.AnyCall(lk.Index, xp+pkgComposite+".GetCompositionResourceName"), load.FuncName(as)+": template lookup key", c.pos(lk.Pos()), "templates are looked up by the resource's composition-resource-name annotation", "the template lookup key is not GetCompositionResourceName(cd)")
					for _, r := range *lk.Referrers() {
						if ex, ok := r.(*ssa.Extract); ok && ex.Index == 1 {
							t, f := cfgx.CondEdges(ex)
							hit, miss = append(hit, t...), append(miss, f...)
						}
					}
				}
			}
		}
		if tmpl == nil {
			c.R.Unknown(load.FuncName(as)+": templates map", c.pos(as.Pos()), "lookup in the template-name map not found")
		} else {
			for _, w := range append(calls(as, clientUpdate), calls(as, clientDelete)...) {
				c.requireCross(site(w)+" template-gone", w, miss, "templates[name] lookup !ok")
			}
			// the map holds every template name
			good := false
			for _, b := range as.Blocks {
				for _, in := range b.Instrs {
					if mu, ok := in.(*ssa.MapUpdate); ok && sole(mu.Map) == sole(tmpl) {
						if flow.Default.Any(mu.Key, func(v ssa.Value) bool { return isFieldSel(v, "v1.ComposedTemplate", "Name") }) {
							l := cfgx.LoopOf(mu.Block())
							if l != nil {
								by, _ := cfgx.LoopBypass(l, map[*ssa.BasicBlock]bool{mu.Block(): true}, nil, nil)
								good = !by
							}
						}
					}
				}
			}
			c.R.Check(good, load.FuncName(as)+": map of all template names", c.pos(as.Pos()), "every named template is entered into the map", "not every template name is entered into the lookup map")
		}
		fcs := foreignControllerTests(as)
		if len(fcs) == 1 {
			for _, w := range append(calls(as, clientUpdate), calls(as, clientDelete)...) {
				c.requireCross(site(w)+" owner-checked", w, fcs[0].Ours, "no controller, or controller UID == XR UID")
			}
		} else {
			c.R.Unknown(load.FuncName(as)+": controller check", c.pos(as.Pos()), "expected one GetControllerOf test")
		}
		for _, d := range calls(as, clientDelete) {
			for _, u := range calls(as, clientUpdate) {
				c.requireCross(site(d)+" after-label-cleanup", d, okEdges(u, "IgnoreNotFound"), "ok-or-NotFound(Update)")
			}
			// a failed delete returns an error (keeps the reference)
			ev := cfgx.ErrEvents(d)
			rets := cfgx.ReturnsReachable(ev.Fail, ev.OK)
			good := len(rets) > 0
			for _, r := range rets {
				if nonNilError(r) == "nil" {
					good = false
				}
			}
			c.R.Check(good, site(d)+" failure-returns", c.pos(d.Pos()), "a failed delete returns an error", "a failed delete does not abort association: the reference would be dropped")
		}
	}

	c.R.Rule("R3.7", "observation fails closed: a referenced resource is skipped only for the three stated reasons and every other read error aborts before the pipeline", 4,
		"composing from an incomplete observation re-creates resources under new names and rewrites spec.resourceRefs without the unobserved ones")
	if ob := c.method(pkgComposite, "ExistingComposedResourceObserver", "ObserveComposedResources"); ob != nil {
		var mu ssa.Instruction
		for _, b := range ob.Blocks {
			for _, in := range b.Instrs {
				if m, ok := in.(*ssa.MapUpdate); ok {
					mu = m
				}
			}
		}
		c01skipWhitelist(c, ob, mu, true)
		// the result map is returned only on the path that finished the loop; error returns return nil
		if mu != nil {
			if l := cfgx.LoopOf(mu.Block()); l != nil {
				for _, r := range cfgx.ReturnsFromLoop(l) {
					c.R.Check(nonNilError(r) != "nil", load.FuncName(ob)+": early exit of observe loop @b"+itoa(r.Block().Index), c.pos(r.Pos()), "returns an error", "observation returns success from inside the loop with a partial result")
				}
			}
		}
	}

	c.R.Rule("R3.6", "who may delete composed resources in package composite", 2, "a new delete site bypasses the exactness rules")
	allowed := map[string]bool{
		"(*internal/controller/apiextensions/composite.DeletingComposedResourceGarbageCollector).GarbageCollectComposedResources": true,
		"(*internal/controller/apiextensions/composite.GarbageCollectingAssociator).AssociateTemplates":                           true,
	}
	n := 0
	for _, p := range []string{pkgComposite, pkgComposite + "/watch"} {
		for _, f := range c.P.PkgFunctions(p) {
			for _, d := range calls(f, clientDelete, clientDeleteAllOf) {
				n++
				c.R.Check(allowed[load.FuncName(f)], site(d)+" who-may-delete", c.pos(d.Pos()), "delete site inside a garbage collector", "a delete of API objects outside the two garbage collectors")
			}
		}
	}
	if n == 0 {
		c.R.Unknown(pkgComposite+": delete sites", "", "no delete site found at all")
	}
}

func constInt64(k *types.Const) (int64, bool) {
	v := k.Val()
	if v.Kind().String() != "Int" {
		return 0, false
	}
	s := v.ExactString()
	var n int64
	neg := false
	for i, ch := range s {
		if i == 0 && ch == '-' {
			neg = true
			continue
		}
		if ch < '0' || ch > '9' {
			return 0, false
		}
		n = n*10 + int64(ch-'0')
	}
	if neg {
		n = -n
	}
	return n, true
}

// nonNilError classifies the last (error) result of a return: "nil" for the
// nil constant, "nonnil" for a call to an error constructor or a value known
// non-nil on this path, "unknown" otherwise.
func nonNilError(r *ssa.Return) string {
	if len(r.Results) == 0 {
		return "unknown"
	}
	e := cfgx.ReturnValue(r, len(r.Results)-1)
	return classifyErr(e)
}

func classifyErr(e ssa.Value) string {
	if cfgx.IsNilConst(e) {
		return "nil"
	}
	if ci, ok := e.(ssa.CallInstruction); ok {
		n := cfgx.CalleeName(ci)
		switch {
		case strings.HasSuffix(n, "errors.New"), strings.HasSuffix(n, "errors.Errorf"), strings.HasSuffix(n, "fmt.Errorf"):
			return "nonnil"
		case strings.HasSuffix(n, "errors.Wrap"), strings.HasSuffix(n, "errors.Wrapf"):
			return "nonnil" // callers use it on the failure arm; polarity is checked by the edge rules
		}
		return "unknown"
	}
	if _, ok := e.(*ssa.MakeInterface); ok {
		return "nonnil"
	}
	return "nonnil-maybe"
}

// loopConstBounded: some test inside the loop compares an induction variable
// (a phi of the loop that is stepped by a constant) with a constant, leaves the
// loop on one side, and lies on every cycle of the loop (it is the header or
// dominates every latch).
func loopConstBounded(loop map[*ssa.BasicBlock]bool, h *ssa.BasicBlock) *ssa.BasicBlock {
	if h == nil {
		return nil
	}
	isInduction := func(v ssa.Value) bool {
		for i := 0; i < 2; i++ {
			if bo, ok := v.(*ssa.BinOp); ok && (bo.Op == token.ADD || bo.Op == token.SUB) {
				if _, isC := cfgx.ConstInt(bo.Y); isC {
					v = bo.X
					continue
				}
			}
			break
		}
		phi, ok := v.(*ssa.Phi)
		if !ok || !loop[phi.Block()] {
			return false
		}
		for _, e := range phi.Edges {
			if bo, ok := e.(*ssa.BinOp); ok && (bo.Op == token.ADD || bo.Op == token.SUB) && bo.X == ssa.Value(phi) {
				if _, isC := cfgx.ConstInt(bo.Y); isC {
					return true
				}
			}
		}
		return false
	}
	for b := range loop {
		iff, ok := b.Instrs[len(b.Instrs)-1].(*ssa.If)
		if !ok {
			continue
		}
		bo, ok := iff.Cond.(*ssa.BinOp)
		if !ok {
			continue
		}
		switch bo.Op {
		case token.LSS, token.LEQ, token.GTR, token.GEQ, token.NEQ:
		default:
			continue
		}
		_, cy := cfgx.ConstInt(bo.Y)
		_, cx := cfgx.ConstInt(bo.X)
		if !((cy && isInduction(bo.X)) || (cx && isInduction(bo.Y))) {
			continue
		}
		exits := false
		for _, s := range b.Succs {
			if !loop[s] {
				exits = true
			}
		}
		if !exits {
			continue
		}
		onEveryCycle := b == h
		if !onEveryCycle {
			onEveryCycle = true
			for _, p := range h.Preds {
				if loop[p] && !b.Dominates(p) {
					onEveryCycle = false
				}
			}
		}
		if onEveryCycle {
			return b
		}
	}
	return nil
}

// fatalResultEdges finds where fn learns that the response carries a result of
// SEVERITY_FATAL: the FATAL edge of a comparison of rs.GetSeverity() (rs taken
// from rsp.GetResults()) with the constant, in either polarity, or the true edge
// of slices.ContainsFunc(rsp.GetResults(), pred) where pred returns exactly such
// a comparison (byLib: the library, not a loop of fn, walks the results).
func fatalResultEdges(fn *ssa.Function) (edges []cfgx.Edge, at ssa.Instruction, byLib bool) {
	isSevFatal := func(bo *ssa.BinOp) bool {
		if bo.Op != token.EQL && bo.Op != token.NEQ {
			return false
		}
		v, ok := cfgx.ConstInt(bo.Y)
		return ok && v == 1 && hasSuffixCall(bo.X, ".GetSeverity")
	}
	for _, b := range fn.Blocks {
		for _, in := range b.Instrs {
			switch x := in.(type) {
			case *ssa.BinOp:
				if isSevFatal(x) && flow.Default.Any(x.X, func(y ssa.Value) bool { return hasSuffixCall(y, "RunFunctionResponse).GetResults") }) {
					t, f := cfgx.CondEdges(x)
					if x.Op == token.NEQ {
						t = f
					}
					edges = append(edges, t...)
					at = x
				}
			case *ssa.Call:
				n := cfgx.CalleeName(x)
				if i := strings.Index(n, "["); i > 0 {
					n = n[:i]
				}
				if n != "slices.ContainsFunc" || len(x.Call.Args) != 2 || !hasSuffixCall(x.Call.Args[0], "RunFunctionResponse).GetResults") {
					continue
				}
				var pred *ssa.Function
				switch p := x.Call.Args[1].(type) {
				case *ssa.Function:
					pred = p
				case *ssa.MakeClosure:
					pred, _ = p.Fn.(*ssa.Function)
				}
				if pred == nil || pred.Blocks == nil {
					continue
				}
				good := true
				n2 := 0
				for _, pb := range pred.Blocks {
					if r, ok := pb.Instrs[len(pb.Instrs)-1].(*ssa.Return); ok {
						n2++
						bo, ok := r.Results[0].(*ssa.BinOp)
						if !ok || bo.Op != token.EQL || !isSevFatal(bo) || flow.Root(underIface(cfgx.Receiver(bo.X.(ssa.CallInstruction)))) != ssa.Value(pred.Params[0]) {
							good = false
						}
					}
				}
				if good && n2 > 0 {
					t, _ := cfgx.CallCondEdges(x)
					edges = append(edges, t...)
					at = x
					byLib = true
				}
			}
		}
	}
	return
}
