package rules

import (
	"fmt"
	"go/ast"
	"go/token"
	"go/types"
	"os"
	"sort"
	"strings"

	"golang.org/x/tools/go/ssa"

	"xpcheck/internal/cfgx"
	"xpcheck/internal/flow"
	"xpcheck/internal/load"
)

// Error discipline of the mechanism's functions (rule Rn.0 of every property).
//
// Every clause of the form "… only if … succeeded", "… fails when …", "never
// reports success although …" rests on the steps inside the mechanism's
// functions reporting their failures: once the error of a step was found to be
// non-nil, the function does not return a nil error — unless the path also
// established that the error is one of the benign kinds the code names with a
// predicate (a conflict is retried, a missing object is the expected state, …).
// The accepted idioms were enumerated from the tree: of the 59 places where a
// nil error is returned after a failed test, 58 sit behind such a predicate
// and one is a fallback (see errFallbacks).

// benign error predicates: nil may be returned on an edge where one holds
var benignPreds = []string{"composite.IsOptionalFieldPathNotFound", "errors.IsConflict", "errors.IsNotFound", "errors.IsAlreadyExists", "errors.IsInvalid", "resource.IsNotAllowed", "meta.IsNoMatchError", "errors.IsGone"}

// benignIn: "<function>|<predicate>" benign in that function only
var benignIn = map[string]string{
	"Delete|os.IsNotExist": "FsPackageCache.Delete: removing an entry that is not there is the requested end state",
}

// errFallbacks: "<function>|<callee>" whose failure selects another strategy instead of failing the function
var errFallbacks = map[string]string{
	"findDependencyVersionToInstall|v1.NewHash":                "a constraint that does not parse as a digest is a version range: the failed parse selects the tag search",
	"findDependencyVersionToUpdate|v1.NewHash":                 "a constraint that does not parse as a digest is a version range: the failed parse selects the tag search",
	"RunFunction|(v1.FunctionRunnerServiceClient).RunFunction": "BetaFallBackFunctionRunnerServiceClient: a v1 call that fails with Unimplemented (any other failure returns at once) selects the v1beta1 service",
}

// errFloors: half of the tested errors counted on the reference tree per property
var errFloors = map[string]int{"C01": 19, "C02": 42, "C03": 21, "C04": 16, "C05": 25, "C06": 10, "C07": 5, "C08": 47, "C09": 21, "C10": 20,
	"C11": 22, "C12": 5, "C13": 4, "C14": 6, "C15": 31, "C16": 17, "C17": 22, "C18": 6, "C19": 24, "C20": 16}

// ErrFloor is the instance floor of the error-discipline rule of a property.
func ErrFloor(prop string) int { return errFloors[prop] }

// ErrorDiscipline checks the functions resolved as anchors while the
// property's own rules ran; floor is the number of tested errors below which
// the rule would be vacuous.
func ErrorDiscipline(c *Ctx, id string, floor int) {
	c.R.Rule(id, "a failed step of the mechanism is not turned into success", floor,
		"an error swallowed inside the mechanism's functions lets the reconcile go on (or report success) as if the step had succeeded")
	var fns []*ssa.Function
	isRoot := map[*ssa.Function]bool{}
	for _, f := range c.Mech {
		isRoot[f] = true
	}
	for _, f := range reachable(c, c.Mech, 4) {
		fns = append(fns, closures(f)...)
		if os.Getenv("XPCHECK_LIST_REACH") != "" && !isRoot[f] {
			n := 0
			for _, b := range f.Blocks {
				n += len(b.Instrs)
			}
			fmt.Fprintf(os.Stderr, "REACH %s %s %d\n", id, load.FuncName(f), n)
		}
	}
	sort.Slice(fns, func(i, j int) bool { return fns[i].Pos() < fns[j].Pos() })
	statelessness(c, fns)
	conflictsNotFiltered(c, fns)
	assignedErrorsRead(c, fns)
	canFail(c, fns)
	for _, fn := range fns {
		nres := fn.Signature.Results().Len()
		if nres == 0 || fn.Signature.Results().At(nres-1).Type().String() != "error" {
			for _, call := range cfgx.Calls(fn, nil) {
				if ev := cfgx.ErrEvents(call); ev != nil {
					guardedUse(c, fn, call, ev)
				}
			}
			continue
		}
		for _, call := range cfgx.Calls(fn, nil) {
			ev := cfgx.ErrEvents(call)
			if ev != nil {
				guardedUse(c, fn, call, ev)
				testedOnly(c, fn, call, ev)
				notOverwritten(c, fn, call, ev)
			}
			if ev == nil || (len(ev.Fail) == 0 && len(ev.PredTrue) == 0) {
				continue
			}
			var benign []cfgx.Edge
			for _, p := range benignPreds {
				benign = append(benign, ev.PredTrue[p]...)
			}
			short := cfgx.ShortCallee(cfgx.CalleeName(call))
			key := fn.Name() + "|" + short
			if i := strings.LastIndex(fn.Name(), "$"); i > 0 {
				key = fn.Name()[:i] + "|" + short
			}
			bad := ""
			var w []string
			// a predicate of the error that holds also says the step failed: the same discipline
			// applies behind predicates that are not in the benign list (`if IsNotFound(err) { return nil }`
			// written before the nil test)
			fail := append([]cfgx.Edge{}, ev.Fail...)
			for name, es := range ev.PredTrue {
				isBenign := false
				for _, p := range benignPreds {
					if p == name {
						isBenign = true
					}
				}
				if _, here := benignIn[fn.Name()+"|"+name]; here {
					isBenign = true
					benign = append(benign, es...)
				}
				if !isBenign {
					fail = append(fail, es...)
				}
			}
			for _, r := range cfgx.ErrorReturnsFrom(fail, nil) {
				if !r.Nil {
					continue
				}
				if okc, _ := cfgx.MustCross(r.At, fail, nil); !okc {
					continue // also reachable without the failure: not the failure's own outcome
				}
				if len(benign) > 0 {
					if okb, _ := cfgx.MustCross(r.At, benign, nil); okb {
						continue
					}
				}
				if _, isFallback := errFallbacks[key]; isFallback {
					continue
				}
				bad = c.pos(r.At.Pos())
				_, w = cfgx.MustCross(r.At, benign, c.posf())
			}
			c.R.Check(bad == "", load.FuncName(fn)+": "+site(call)+" failure not swallowed", c.pos(call.Pos()),
				"after this step failed the function never returns a nil error (except behind a benign-error predicate)",
				"after this step failed the function returns a nil error at "+bad+": the failure is turned into success", w...)
		}
	}
}

// unguardedOK: "<function>|<callee>" whose other results are meaningful although the error is set
var unguardedOK = map[string]string{
	"handleCommonCompositionResult|composite.getClaimFromXR": "best effort: a claim that cannot be read gets no events or conditions; the error is logged and the claim is nil-checked",
}

// returnedWithErr: every consumer of u's value is a return that also hands back
// the step's error (possibly wrapped): `return string(raw), errors.Wrap(err, …)`.
func returnedWithErr(u ssa.Instruction, errV ssa.Value) bool {
	errRelated := func(x ssa.Value) bool {
		seen := map[ssa.Value]bool{}
		var rec func(x ssa.Value, d int) bool
		rec = func(x ssa.Value, d int) bool {
			if x == errV {
				return true
			}
			if d > 6 || seen[x] {
				return false
			}
			seen[x] = true
			switch x := x.(type) {
			case *ssa.Call:
				for _, a := range x.Call.Args {
					if rec(a, d+1) {
						return true
					}
				}
			case *ssa.Phi:
				for _, e := range x.Edges {
					if rec(e, d+1) {
						return true
					}
				}
			case *ssa.MakeInterface:
				return rec(x.X, d+1)
			case *ssa.ChangeInterface:
				return rec(x.X, d+1)
			}
			return false
		}
		return rec(x, 0)
	}
	seen := map[ssa.Instruction]bool{}
	var rec func(in ssa.Instruction, d int) bool
	rec = func(in ssa.Instruction, d int) bool {
		if seen[in] {
			return true
		}
		seen[in] = true
		if r, ok := in.(*ssa.Return); ok {
			return len(r.Results) > 0 && errRelated(r.Results[len(r.Results)-1])
		}
		if ci, ok := in.(ssa.CallInstruction); ok {
			if n := cfgx.CalleeName(ci); strings.Contains(n, "logging.Logger).") || strings.Contains(n, "event.Recorder).") {
				return true // reported, not acted upon
			}
		}
		if st, ok := in.(*ssa.Store); ok {
			// an element of a variadic argument list: follow the list to the call it is passed to
			if ia, ok := st.Addr.(*ssa.IndexAddr); ok {
				if a, ok := ia.X.(*ssa.Alloc); ok && a.Referrers() != nil {
					for _, r := range *a.Referrers() {
						if sl, ok := r.(*ssa.Slice); ok && !rec(sl, d+1) {
							return false
						}
					}
					return true
				}
			}
			return false
		}
		if _, ok := in.(*ssa.DebugRef); ok {
			return true
		}
		v, ok := in.(ssa.Value)
		if !ok || d > 8 || v.Referrers() == nil || len(*v.Referrers()) == 0 {
			return false
		}
		switch in.(type) {
		case *ssa.Phi, *ssa.Convert, *ssa.ChangeType, *ssa.MakeInterface, *ssa.ChangeInterface, *ssa.Slice, *ssa.Call, *ssa.Extract, *ssa.UnOp, *ssa.BinOp, *ssa.IndexAddr, *ssa.FieldAddr, *ssa.Field, *ssa.SliceToArrayPointer:
		default:
			return false
		}
		for _, r := range *v.Referrers() {
			if !rec(r, d+1) {
				return false
			}
		}
		return true
	}
	return rec(u, 0)
}

// guardedUse: the other results of a step are used only where its error is
// known to be nil (or are handed back together with it). A step whose error is
// examined for one particular kind only (status.Code(err) == X) and whose
// result is then used as if it had succeeded turns every other failure into an
// empty success.
func guardedUse(c *Ctx, fn *ssa.Function, call ssa.CallInstruction, ev *cfgx.ErrEv) {
	cv, ok := call.(*ssa.Call)
	if !ok || ev.Err == nil || ev.Dropped {
		return
	}
	res := call.Common().Signature().Results()
	if res.Len() < 2 || cv.Referrers() == nil {
		return
	}
	short := cfgx.ShortCallee(cfgx.CalleeName(call))
	name := fn.Name()
	if i := strings.LastIndex(name, "$"); i > 0 {
		name = name[:i]
	}
	if _, ok := unguardedOK[name+"|"+short]; ok {
		return
	}
	var bad ssa.Instruction
	var w []string
	uses := 0
	for _, r := range *cv.Referrers() {
		ex, ok := r.(*ssa.Extract)
		if !ok || ex.Index == res.Len()-1 || ex.Referrers() == nil {
			continue
		}
		if _, basic := ex.Type().Underlying().(*types.Basic); basic {
			continue // counts and flags (n of a Read, "propagated") are meaningful together with an error
		}
		for _, u := range *ex.Referrers() {
			switch u := u.(type) {
			case *ssa.DebugRef, *ssa.Return:
				continue
			case *ssa.Store:
				continue // `x.f, err = step()`: parked, not used; loads are not followed
			case *ssa.BinOp:
				if cfgx.IsNilConst(u.X) || cfgx.IsNilConst(u.Y) {
					continue
				}
			}
			if returnedWithErr(u, ev.Err) {
				continue
			}
			if _, isPhi := u.(*ssa.Phi); isPhi {
				continue
			}
			uses++
			if len(ev.OK) == 0 {
				bad = u
				continue
			}
			gates := append([]cfgx.Edge{}, ev.OK...)
			for _, es := range ev.PredTrue {
				gates = append(gates, es...) // `if err != nil && !IsNotFound(err) { return }`: the use after a named kind of error is deliberate
			}
			if okc, wit := cfgx.MustCross(u, gates, c.posf()); !okc {
				bad, w = u, wit
			}
		}
	}
	if uses == 0 {
		return
	}
	at := ""
	if bad != nil {
		at = c.pos(bad.Pos())
	}
	c.R.Check(bad == nil, load.FuncName(fn)+": "+site(call)+" result used only on success", c.pos(call.Pos()),
		"the other results of this step are used only where its error is known to be nil",
		"a result of this step is used at "+at+" on a path where its error was not found to be nil: a failure is taken for an (empty) success", w...)
}

// reachable: the mechanism's functions and what they call inside crossplane
// (static callees, and the crossplane implementations of the interface methods
// they invoke), depth levels down. The steps a mechanism delegates to - a
// function runner behind an interface, a fetcher, a name generator - are part
// of it: a failure they swallow is a failure the mechanism never sees.
func reachable(c *Ctx, roots []*ssa.Function, depth int) []*ssa.Function {
	const mod = "github.com/crossplane/crossplane/"
	inMod := func(f *ssa.Function) bool {
		return f != nil && f.Blocks != nil && f.Synthetic == "" && f.Pkg != nil && strings.HasPrefix(f.Pkg.Pkg.Path(), mod) && !strings.HasPrefix(f.Name(), "zz_") &&
			!strings.HasSuffix(c.P.Fset.Position(f.Pos()).Filename, "_test.go") && !strings.Contains(c.P.Fset.Position(f.Pos()).Filename, "zz_generated")
	}
	var impls func(iface *types.Interface, m *types.Func) []*ssa.Function
	var named []types.Type
	impls = func(iface *types.Interface, m *types.Func) []*ssa.Function {
		if named == nil {
			var paths []string
			for p := range c.P.SSAPkgs {
				if strings.HasPrefix(p, mod) {
					paths = append(paths, p)
				}
			}
			sort.Strings(paths)
			for _, p := range paths {
				var names []string
				for n, mem := range c.P.SSAPkgs[p].Members {
					if _, ok := mem.(*ssa.Type); ok {
						names = append(names, n)
					}
				}
				sort.Strings(names)
				for _, n := range names {
					t := c.P.SSAPkgs[p].Members[n].(*ssa.Type).Type()
					if _, isIface := t.Underlying().(*types.Interface); isIface {
						continue
					}
					if nt, ok := t.(*types.Named); ok && nt.TypeParams().Len() > 0 {
						continue
					}
					named = append(named, t)
				}
			}
		}
		var out []*ssa.Function
		for _, t := range named {
			for _, typ := range []types.Type{t, types.NewPointer(t)} {
				if !types.Implements(typ, iface) {
					continue
				}
				sel := c.P.SSA.MethodSets.MethodSet(typ).Lookup(m.Pkg(), m.Name())
				if sel == nil {
					continue
				}
				if f := c.P.SSA.MethodValue(sel); inMod(f) {
					out = append(out, f)
				}
				break
			}
		}
		return out
	}
	seen := map[*ssa.Function]bool{}
	var order []*ssa.Function
	level := roots
	for _, f := range roots {
		if !seen[f] {
			seen[f] = true
			order = append(order, f)
		}
	}
	for d := 0; d < depth; d++ {
		var next []*ssa.Function
		for _, f := range level {
			for _, g := range closures(f) {
				for _, call := range cfgx.Calls(g, nil) {
					var cs []*ssa.Function
					if sc := call.Common().StaticCallee(); sc != nil {
						if inMod(sc) {
							cs = append(cs, sc)
						}
					} else if call.Common().IsInvoke() {
						if iface, ok := call.Common().Value.Type().Underlying().(*types.Interface); ok {
							cs = impls(iface, call.Common().Method)
						}
					}
					for _, x := range cs {
						if !seen[x] {
							seen[x] = true
							order = append(order, x)
							next = append(next, x)
						}
					}
				}
			}
		}
		level = next
	}
	return order
}

// probes: "<function>|<callee>" called to find out *whether* something parses / exists; its error is the answer, not a failure
var probes = map[string]string{
	"findDependencyVersionToInstall|semver.NewVersion": "does this tag of the repository parse as a semantic version (other tags are skipped)",
	"findDependencyVersionToUpdate|semver.NewVersion":  "does this tag of the repository parse as a semantic version (other tags are skipped)",
}

// probeCallees: pure parsers and lookups the tree uses as questions ("is this a
// digest?", "does this tag parse as a version?", "is the field set?"): their
// failure selects the other branch and is not an event to report.
var probeCallees = map[string]string{
	"v1.NewHash":                   "is the constraint / identifier a digest",
	"name.ParseReference":          "does the package string parse as an image reference",
	"(*fieldpath.Paved).GetString": "is the field set",
	"(*fieldpath.Paved).GetValue":  "is the field set",
	"composite.fromFieldPath":      "is the optional connection-detail field set",
}

// testedOnly: an error that is compared with nil and used for nothing else -
// not returned, not wrapped, not logged, not recorded - in a function that
// reports errors: the failure arm only skips the success arm, and whatever the
// function returns afterwards no longer knows about it.
func testedOnly(c *Ctx, fn *ssa.Function, call ssa.CallInstruction, ev *cfgx.ErrEv) {
	if ev.Err == nil || ev.Dropped || len(ev.Fail) == 0 || ev.Err.Referrers() == nil {
		return
	}
	// does the error value - itself or wrapped - get anywhere (returned, stored, logged, passed on)?
	seen := map[ssa.Value]bool{}
	var sinks func(v ssa.Value, d int) bool
	sinks = func(v ssa.Value, d int) bool {
		if v.Referrers() == nil || seen[v] || d > 6 {
			return false
		}
		seen[v] = true
		for _, r := range *v.Referrers() {
			switch r := r.(type) {
			case *ssa.DebugRef:
			case *ssa.BinOp:
				if !(cfgx.IsNilConst(r.X) || cfgx.IsNilConst(r.Y)) {
					return true
				}
			case *ssa.Call:
				if n := cfgx.CalleeName(r); strings.HasSuffix(n, "errors.Wrap") || strings.HasSuffix(n, "errors.Wrapf") || strings.HasSuffix(n, "errors.WithMessage") || strings.HasSuffix(n, "fmt.Errorf") || strings.HasSuffix(n, "errors.Errorf") {
					if sinks(r, d+1) {
						return true
					}
					continue
				}
				return true
			case *ssa.MakeInterface:
				if sinks(r, d+1) {
					return true
				}
			case *ssa.Phi:
				if sinks(r, d+1) {
					return true
				}
			case *ssa.Store:
				// a variadic argument slot of a wrapping call, or a real store
				if ia, ok := r.Addr.(*ssa.IndexAddr); ok {
					if a, ok := ia.X.(*ssa.Alloc); ok && a.Referrers() != nil {
						hit := false
						for _, ar := range *a.Referrers() {
							if sl, ok := ar.(*ssa.Slice); ok && sinks(sl, d+1) {
								hit = true
							}
						}
						if hit {
							return true
						}
						continue
					}
				}
				return true
			case *ssa.Slice:
				if sinks(r, d+1) {
					return true
				}
			default:
				return true
			}
		}
		return false
	}
	if sinks(ev.Err, 0) {
		return
	}
	name := fn.Name()
	if i := strings.LastIndex(name, "$"); i > 0 {
		name = name[:i]
	}
	short := cfgx.ShortCallee(cfgx.CalleeName(call))
	if _, ok := probes[name+"|"+short]; ok {
		return
	}
	if _, ok := probeCallees[short]; ok {
		return
	}
	// only where the failure arm can end in a success return
	bad := ""
	for _, r := range cfgx.ErrorReturnsFrom(ev.Fail, nil) {
		if r.Nil {
			bad = c.pos(r.At.Pos())
		}
	}
	c.R.Check(bad == "", load.FuncName(fn)+": "+site(call)+" failure visible", c.pos(call.Pos()),
		"the error of this step is used for more than a nil test, or no success return follows its failure",
		"the error of this step is only compared with nil - never returned, wrapped or logged - and the function can then return success at "+bad+": the failure is dropped")
}

// keptState: "<type>.<field>" (or "<package>.<var>") the mechanism legitimately keeps between invocations
var keptState = map[string]string{
	"internal/dag.MapDag.nodes":                             "the graph object is built for one resolution; filling it is what its methods are for",
	"internal/dag.MapUpgradingDag.nodes":                    "the graph object is built for one resolution; filling it is what its methods are for",
	"internal/controller/rbac/provider/roles.node.allowed":  "the allow tree is built per validation (R18.6 requires a fresh one)",
	"internal/controller/rbac/provider/roles.node.children": "the allow tree is built per validation (R18.6 requires a fresh one)",
	"internal/engine.ControllerEngine.controllers":          "the engine's bookkeeping of running controllers: the subject of C13's lock and bookkeeping rules",
	"internal/engine.InformerTrackingCache.active":          "the engine's bookkeeping of active informers: the subject of C13's rules",
	"internal/engine.StoppableSource.reg":                   "the handler registration a source must remember to be able to remove it (R13.9)",
	"internal/xfn.PackagedFunctionRunner.conns":             "the gRPC connection cache, governed by R4.6 (target compared with the active revision's endpoint on every use)",
	"internal/xpkg.teeReadCloser.*":                         "the read error of one package stream, handed to the cache writer (R15.7); the tee lives as long as one stream",
}

// statelessness: the functions of the mechanism do not write state that outlives
// the invocation - a field of their receiver, a package-level variable - other
// than what is tabled in keptState. A decision taken from such state (a memo of
// the last content reconciled, a cache of a listing) rests on an earlier read.
func statelessness(c *Ctx, fns []*ssa.Function) {
	found := map[string]string{}
	note := func(key string, at ssa.Instruction) {
		if _, ok := found[key]; !ok {
			found[key] = c.pos(at.Pos())
		}
	}
	// the long-lived objects: receivers of the functions the property's rules anchor on
	longLived := map[string]bool{}
	for _, f := range c.Mech {
		if f.Signature.Recv() != nil {
			longLived[strings.TrimPrefix(f.Signature.Recv().Type().String(), "*")] = true
		}
	}
	for _, fn := range fns {
		root := fn
		for root.Parent() != nil {
			root = root.Parent()
		}
		if root.Signature.Recv() == nil && len(root.Params) == 0 {
			continue
		}
		if root.Signature.Recv() != nil && !longLived[strings.TrimPrefix(root.Signature.Recv().Type().String(), "*")] {
			// a helper object made for one invocation (a counting reader, a builder) is not state of the mechanism;
			// package-level variables are still looked at below
			hasGlobal := false
			for _, b := range fn.Blocks {
				for _, in := range b.Instrs {
					if st, ok := in.(*ssa.Store); ok {
						if _, g := st.Addr.(*ssa.Global); g {
							hasGlobal = true
						}
					}
				}
			}
			if !hasGlobal {
				continue
			}
		}
		var recv ssa.Value
		if root.Signature.Recv() != nil && len(root.Params) > 0 {
			recv = root.Params[0]
		}
		fieldOf := func(addr ssa.Value) string {
			// addr (or the value loaded from it) is a field of the receiver, possibly nested
			for i := 0; i < 6; i++ {
				switch a := addr.(type) {
				case *ssa.UnOp:
					addr = a.X
					continue
				case *ssa.FieldAddr:
					r := flow.Root(a.X)
					if fv, ok := r.(*ssa.FreeVar); ok && recv != nil && fv.Name() == recv.Name() {
						r = recv
					}
					if recv != nil && r == recv {
						tn := strings.TrimPrefix(recv.Type().String(), "*")
						if strings.Contains(tn, "/apis/") {
							return "" // API objects are data: their setters write the object at hand
						}
						return tn + "." + fieldName(a.X.Type(), a.Field)
					}
					addr = a.X
					continue
				case *ssa.Global:
					return a.Pkg.Pkg.Path() + "." + a.Name()
				}
				break
			}
			return ""
		}
		for _, b := range fn.Blocks {
			for _, in := range b.Instrs {
				switch in := in.(type) {
				case *ssa.Store:
					if k := fieldOf(in.Addr); k != "" {
						if p, isParam := flow.Root(in.Val).(*ssa.Parameter); isParam && p != recv && p.Parent() == fn {
							continue // a setter / functional option: the value is handed in, not remembered from a computation
						}
						note(k, in)
					}
				case *ssa.MapUpdate:
					if k := fieldOf(in.Map); k != "" {
						note(k, in)
					}
				case ssa.CallInstruction:
					n := cfgx.CalleeName(in)
					if strings.HasPrefix(n, "(*sync.Map).") && (strings.HasSuffix(n, ".Store") || strings.HasSuffix(n, ".LoadOrStore") || strings.HasSuffix(n, ".Swap") || strings.HasSuffix(n, ".CompareAndSwap")) {
						if k := fieldOf(cfgx.Receiver(in)); k != "" {
							note(k, in)
						}
					}
					if b, ok := in.Common().Value.(*ssa.Builtin); ok && b.Name() == "delete" && len(in.Common().Args) > 0 {
						if k := fieldOf(in.Common().Args[0]); k != "" {
							note(k, in)
						}
					}
				}
			}
		}
	}
	var keys []string
	for k := range found {
		keys = append(keys, k)
	}
	sort.Strings(keys)
	for _, k := range keys {
		short := strings.TrimPrefix(k, "github.com/crossplane/crossplane/")
		_, ok := keptState[short]
		if i := strings.LastIndex(short, "."); !ok && i > 0 {
			_, ok = keptState[short[:i]+".*"] // every field of a per-stream / per-call object
		}
		c.R.Check(ok, "state kept by the mechanism: "+short, found[k], "tabled: "+keptState[short], "a function of the mechanism writes "+short+", which outlives the invocation and is not among the state the mechanism is known to keep: a later decision can rest on what an earlier invocation saw (memo, cache) instead of on what is read now")
	}
}

// conflictsNotFiltered: an optimistic-concurrency conflict says the copy the
// mechanism decided on was stale. The tree reacts to it explicitly (requeue,
// return) and never passes IsConflict to an error filter (resource.Ignore /
// IgnoreAny), which would carry on with the stale copy as if the write had succeeded.
func conflictsNotFiltered(c *Ctx, fns []*ssa.Function) {
	for _, fn := range fns {
		for _, x := range cfgx.Calls(fn, nil) {
			n := cfgx.CalleeName(x)
			if !strings.HasSuffix(n, "resource.Ignore") && !strings.HasSuffix(n, "resource.IgnoreAny") {
				continue
			}
			filtersConflict := false
			var visit func(v ssa.Value, d int)
			seen := map[ssa.Value]bool{}
			visit = func(v ssa.Value, d int) {
				if v == nil || d > 8 || seen[v] {
					return
				}
				seen[v] = true
				switch v := v.(type) {
				case *ssa.Function:
					if v.Name() == "IsConflict" {
						filtersConflict = true
					}
					// a local predicate (closure or helper of this module) that itself asks IsConflict
					if v.Blocks != nil && d < 3 {
						for _, y := range cfgx.Calls(v, nil) {
							if strings.HasSuffix(cfgx.CalleeName(y), "errors.IsConflict") {
								filtersConflict = true
							}
						}
					}
				case *ssa.ChangeType:
					visit(v.X, d+1)
				case *ssa.MakeInterface:
					visit(v.X, d+1)
				case *ssa.MakeClosure:
					visit(v.Fn, d+1)
				case *ssa.Slice:
					visit(v.X, d+1)
				case *ssa.Alloc:
					if v.Referrers() != nil {
						for _, r := range *v.Referrers() {
							if ia, ok := r.(*ssa.IndexAddr); ok && ia.Referrers() != nil {
								for _, u := range *ia.Referrers() {
									if st, ok := u.(*ssa.Store); ok {
										visit(st.Val, d+1)
									}
								}
							}
						}
					}
				case *ssa.Phi:
					for _, e := range v.Edges {
						visit(e, d+1)
					}
				}
			}
			for _, a := range x.Common().Args {
				visit(a, 0)
			}
			c.R.Check(!filtersConflict, load.FuncName(fn)+": "+site(x)+" keeps conflicts", c.pos(x.Pos()), "this error filter does not swallow conflicts", "IsConflict is passed to an error filter: after a rejected write the function carries on with the copy the API server just called stale")
		}
	}
}

// alwaysNil: "<function>" that report success whatever their steps return, by design
var alwaysNil = map[string]string{}

// canFail: a function that returns an error and contains steps whose failure
// it tests does hand back something other than a literal nil on at least one
// path. (A named or declared error result that a shadowing `err :=` never
// assigns makes every return nil: the function cannot fail any more.)
func canFail(c *Ctx, fns []*ssa.Function) {
	for _, fn := range fns {
		res := fn.Signature.Results()
		if res.Len() == 0 || res.At(res.Len()-1).Type().String() != "error" || fn.Blocks == nil {
			continue
		}
		tested := 0
		for _, call := range cfgx.Calls(fn, nil) {
			if ev := cfgx.ErrEvents(call); ev != nil && len(ev.Fail) > 0 {
				tested++
			}
		}
		if tested == 0 {
			continue
		}
		nonNil := false
		for _, v := range cfgx.ReturnedValues(fn, res.Len()-1) {
			if !cfgx.IsNilConst(v) {
				nonNil = true
			}
		}
		if _, ok := alwaysNil[fn.Name()]; ok {
			continue
		}
		c.R.Check(nonNil, load.FuncName(fn)+": can report failure", c.pos(fn.Pos()), "some return hands back an error value", "every return of this function is a nil error although it tests the failure of its steps: no failure can reach the caller")
	}
}

// notOverwritten: the error of a step made in a loop is looked at in that
// iteration. An error that is only carried round the loop (to be returned after
// it) is overwritten by the next iteration's: a failure is forgotten as soon
// as a later element succeeds.
func notOverwritten(c *Ctx, fn *ssa.Function, call ssa.CallInstruction, ev *cfgx.ErrEv) {
	if ev.Err == nil || ev.Dropped || ev.Err.Referrers() == nil {
		return
	}
	loop := cfgx.LoopOf(call.Block())
	if loop == nil {
		return
	}
	h := cfgx.LoopHeader(loop)
	carried := false
	var walk func(v ssa.Value, d int)
	seen := map[ssa.Value]bool{}
	walk = func(v ssa.Value, d int) {
		if v.Referrers() == nil || seen[v] || d > 4 {
			return
		}
		seen[v] = true
		for _, r := range *v.Referrers() {
			if p, ok := r.(*ssa.Phi); ok {
				if p.Block() == h {
					carried = true
				} else if loop[p.Block()] {
					walk(p, d+1)
				}
			}
		}
	}
	walk(ev.Err, 0)
	if !carried {
		return
	}
	// tested (or returned) inside the loop?
	inLoop := false
	for _, e := range append(append([]cfgx.Edge{}, ev.Fail...), ev.OK...) {
		if loop[e.From] {
			inLoop = true
		}
	}
	for _, r := range cfgx.ReturnsFromLoop(loop) {
		if len(r.Results) > 0 && flow.Default.Any(r.Results[len(r.Results)-1], func(v ssa.Value) bool { return v == ev.Err }) {
			inLoop = true
		}
	}
	c.R.Check(inLoop, load.FuncName(fn)+": "+site(call)+" failure looked at in its iteration", c.pos(call.Pos()), "the error of this step is tested or returned inside the loop", "the error of this step is only carried to the next iteration, which overwrites it: the failure of one element is forgotten when a later one succeeds")
}

// assignedErrorsRead: an error the source assigns to a named variable is read
// before that variable is assigned again. `_, err = step1(); if err = step2();
// err != nil` compiles (err is used somewhere) but step1's failure can never be
// seen: in the SSA form its error value has no use at all. An error discarded on
// purpose is written `_ = f()` or as a bare call and is not this rule's business.
func assignedErrorsRead(c *Ctx, fns []*ssa.Function) {
	for _, fn := range fns {
		syn := fn.Syntax()
		if syn == nil || fn.Blocks == nil {
			continue
		}
		var assigns map[token.Pos]*ast.AssignStmt
		var bad []string
		pos := ""
		n := 0
		for _, call := range cfgx.Calls(fn, nil) {
			res := call.Common().Signature().Results()
			if res.Len() == 0 || res.At(res.Len()-1).Type().String() != "error" {
				continue
			}
			n++
			ev := cfgx.ErrEvents(call)
			if ev == nil || !ev.Dropped {
				continue
			}
			if ev.Err != nil && ev.Err.Referrers() != nil && len(*ev.Err.Referrers()) > 0 {
				continue
			}
			if assigns == nil {
				assigns = map[token.Pos]*ast.AssignStmt{}
				ast.Inspect(syn, func(nd ast.Node) bool {
					if as, ok := nd.(*ast.AssignStmt); ok && len(as.Rhs) == 1 {
						if ce, ok := as.Rhs[0].(*ast.CallExpr); ok {
							assigns[ce.Lparen] = as
						}
					}
					return true
				})
			}
			as := assigns[call.Pos()]
			if as == nil || len(as.Lhs) != res.Len() {
				continue
			}
			id, ok := as.Lhs[len(as.Lhs)-1].(*ast.Ident)
			if !ok || id.Name == "_" {
				continue
			}
			bad = append(bad, site(call)+" assigned to "+id.Name)
			if pos == "" {
				pos = c.pos(call.Pos())
			}
		}
		if n == 0 {
			continue
		}
		if pos == "" {
			pos = c.pos(fn.Pos())
		}
		c.R.Check(len(bad) == 0, load.FuncName(fn)+": assigned errors are read", pos,
			"every error this function assigns to a variable is read before the variable is assigned again",
			"the error of "+strings.Join(bad, ", ")+" is assigned to a variable and never read (the variable is overwritten first): the step's failure cannot be seen")
	}
}
