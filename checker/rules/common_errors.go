package rules

import (
	"sort"
	"strings"

	"golang.org/x/tools/go/ssa"

	"xpcheck/internal/cfgx"
	"xpcheck/internal/load"
)

// Error discipline of the mechanism's functions (rule Rn.0 of every property).
//
// Every clause of the form "… only if … succeeded", "… fails when …", "never
// reports success although …" rests on the steps inside the mechanism's
// functions reporting their failures: once the error of a step was found to be
// non-nil, the function does not return a nil error — unless the path also
// established that the error is one of the benign kinds the code names with a
// predicate (a conflict is retried, a missing object is the expected state, …).
// The accepted idioms were enumerated from the tree: of the 59 places where a
// nil error is returned after a failed test, 58 sit behind such a predicate
// and one is a fallback (see errFallbacks).

// benign error predicates: nil may be returned on an edge where one holds
var benignPreds = []string{"composite.IsOptionalFieldPathNotFound", "errors.IsConflict", "errors.IsNotFound", "errors.IsAlreadyExists", "errors.IsInvalid", "resource.IsNotAllowed", "meta.IsNoMatchError", "errors.IsGone"}

// benignIn: "<function>|<predicate>" benign in that function only
var benignIn = map[string]string{
	"Delete|os.IsNotExist": "FsPackageCache.Delete: removing an entry that is not there is the requested end state",
}

// errFallbacks: "<function>|<callee>" whose failure selects another strategy instead of failing the function
var errFallbacks = map[string]string{
	"findDependencyVersionToInstall|v1.NewHash": "a constraint that does not parse as a digest is a version range: the failed parse selects the tag search",
	"findDependencyVersionToUpdate|v1.NewHash":  "a constraint that does not parse as a digest is a version range: the failed parse selects the tag search",
}

// errFloors: half of the tested errors counted on the reference tree per property
var errFloors = map[string]int{"C01": 19, "C02": 42, "C03": 21, "C04": 16, "C05": 25, "C06": 10, "C07": 5, "C08": 47, "C09": 21, "C10": 20,
	"C11": 22, "C12": 5, "C13": 4, "C14": 6, "C15": 31, "C16": 17, "C17": 22, "C18": 6, "C19": 24, "C20": 16}

// ErrFloor is the instance floor of the error-discipline rule of a property.
func ErrFloor(prop string) int { return errFloors[prop] }

// ErrorDiscipline checks the functions resolved as anchors while the
// property's own rules ran; floor is the number of tested errors below which
// the rule would be vacuous.
func ErrorDiscipline(c *Ctx, id string, floor int) {
	c.R.Rule(id, "a failed step of the mechanism is not turned into success", floor,
		"an error swallowed inside the mechanism's functions lets the reconcile go on (or report success) as if the step had succeeded")
	var fns []*ssa.Function
	for _, f := range c.Mech {
		fns = append(fns, closures(f)...)
	}
	sort.Slice(fns, func(i, j int) bool { return fns[i].Pos() < fns[j].Pos() })
	for _, fn := range fns {
		nres := fn.Signature.Results().Len()
		if nres == 0 || fn.Signature.Results().At(nres-1).Type().String() != "error" {
			continue
		}
		for _, call := range cfgx.Calls(fn, nil) {
			ev := cfgx.ErrEvents(call)
			if ev == nil || (len(ev.Fail) == 0 && len(ev.PredTrue) == 0) {
				continue
			}
			var benign []cfgx.Edge
			for _, p := range benignPreds {
				benign = append(benign, ev.PredTrue[p]...)
			}
			short := cfgx.ShortCallee(cfgx.CalleeName(call))
			key := fn.Name() + "|" + short
			if i := strings.LastIndex(fn.Name(), "$"); i > 0 {
				key = fn.Name()[:i] + "|" + short
			}
			bad := ""
			var w []string
			// a predicate of the error that holds also says the step failed: the same discipline
			// applies behind predicates that are not in the benign list (`if IsNotFound(err) { return nil }`
			// written before the nil test)
			fail := append([]cfgx.Edge{}, ev.Fail...)
			for name, es := range ev.PredTrue {
				isBenign := false
				for _, p := range benignPreds {
					if p == name {
						isBenign = true
					}
				}
				if _, here := benignIn[fn.Name()+"|"+name]; here {
					isBenign = true
					benign = append(benign, es...)
				}
				if !isBenign {
					fail = append(fail, es...)
				}
			}
			for _, r := range cfgx.ErrorReturnsFrom(fail, nil) {
				if !r.Nil {
					continue
				}
				if okc, _ := cfgx.MustCross(r.At, fail, nil); !okc {
					continue // also reachable without the failure: not the failure's own outcome
				}
				if len(benign) > 0 {
					if okb, _ := cfgx.MustCross(r.At, benign, nil); okb {
						continue
					}
				}
				if _, isFallback := errFallbacks[key]; isFallback {
					continue
				}
				bad = c.pos(r.At.Pos())
				_, w = cfgx.MustCross(r.At, benign, c.posf())
			}
			c.R.Check(bad == "", load.FuncName(fn)+": "+site(call)+" failure not swallowed", c.pos(call.Pos()),
				"after this step failed the function never returns a nil error (except behind a benign-error predicate)",
				"after this step failed the function returns a nil error at "+bad+": the failure is turned into success", w...)
		}
	}
}
