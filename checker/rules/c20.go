package rules

import (
	"go/types"
	"strings"

	"golang.org/x/tools/go/ssa"

	"xpcheck/internal/cfgx"
	"xpcheck/internal/flow"
	"xpcheck/internal/load"
)

const pkgInit = "internal/initializer"

func init() {
	register(&Property{
		ID:  "C20",
		Run: c20,
		Explanation: "Decides the shapes that make initialisation idempotent: (R20.1) the maps of installed packages are filled and looked up with the same key function applied to references parsed with the same options, and on a hit the existing object's name is used; (R20.2) certificate.Generate and the secret writes are unreachable from the edge on which the fetched secret already holds material (complete CA: both keys; leaf secrets: any key), the complete-CA edge returns the parsed existing signer; the CA write's error is handled unfiltered and the new signer is returned only after it was acknowledged; " +
			"(R20.3) both leaf certificates are signed by the signer returned by loadOrGenerateCA in the same Run, ca.crt is that signer's certificate, DNS names come from the configured names, and init wires DNSNamesForService for the webhook server certificate; (R20.4) the default StoreConfig and DeploymentRuntimeConfig are created with AlreadyExists ignored and no other write, the Lock is applied with only its name populated; " +
			"(R20.5) every core CRD with webhook conversion and every webhook entry gets caBundle from the TLS secret before the Apply, and an empty tls.crt is an error before anything is applied. (R20.6) the index key is derived from the parsed reference's own Identifier()/Context(), not from delimiters searched in the string. R20.1 also requires that the loops indexing the existing packages are left early only with an error. R20.6 also requires that the identifier is removed as a suffix; (R20.7) certificates are created with the signer's certificate as parent and the signer's key. R20.5 also requires that the injection loop runs for webhook configurations of any name.",
		NotDecided:  []string{"equality of cluster state after n runs", "x509 validity of issued certificates (value-level)", "recovery from partially written secrets", "concurrent initialisers beyond the unfiltered-error condition"},
		Assumptions: []string{"APIPatchingApplicator.Apply is itself idempotent", "certificate.Generate signs with the signer it is given"},
	})
}

func c20(c *Ctx) {
	c.R.Rule("R20.1", "map-key agreement between the installed-package index and its lookup", 5,
		"a package already installed under a custom name is installed a second time")
	run := c.method(pkgInit, "PackageInstaller", "Run")
	bp := c.fn(pkgInit, "buildPack")
	parseRef := "github.com/google/go-containerregistry/pkg/name.ParseReference"
	refKey := func(fn *ssa.Function, key ssa.Value) (callee string, opt string, ok bool) {
		ci, isCall := key.(*ssa.Call)
		if !isCall || len(ci.Call.Args) != 1 {
			return "", "", false
		}
		callee = cfgx.CalleeName(ci)
		// the argument derives from name.ParseReference(..., WithDefaultRegistry(const))
		for _, pr := range flow.Default.CallsIn(ci.Call.Args[0]) {
			if cfgx.CalleeName(pr) == parseRef {
				for _, o := range flow.Default.CallsIn(pr.Common().Args[1]) {
					if strings.HasSuffix(cfgx.CalleeName(o), "name.WithDefaultRegistry") {
						s, _ := cfgx.ConstString(o.Common().Args[0])
						opt = "WithDefaultRegistry(" + s + ")"
					}
				}
				return callee, opt, true
			}
		}
		return callee, "", false
	}
	// the listings that fill the index tolerate at most "the kind is not served" (NotFound): any other
	// failure of a listing, taken for an empty list, makes the run install a second copy
	if run != nil {
		for _, l := range calls(run, clientList) {
			ev := cfgx.ErrEvents(l)
			if ev == nil {
				continue
			}
			var wide []string
			for _, f := range ev.Filtered {
				if f != "IgnoreNotFound" && f != "Ignore(IsNotFound)" {
					wide = append(wide, f)
				}
			}
			for _, pr := range ev.Preds {
				if !strings.HasSuffix(pr, "IsNotFound") {
					wide = append(wide, pr)
				}
			}
			c.R.Check(len(wide) == 0 && len(ev.Fail) > 0, load.FuncName(run)+": "+site(l)+" tolerates NotFound only", c.pos(l.Pos()),
				"a failed listing of installed packages ends the run unless the kind is not served", "the listing's failure is tolerated beyond NotFound ("+strings.Join(wide, ", ")+") or never tested: an unreadable list is taken for an empty one and installed packages are installed again")
		}
	}
	var storeKeyFn, storeOpt string
	if run != nil {
		n := 0
		for _, b := range run.Blocks {
			for _, in := range b.Instrs {
				mu, ok := in.(*ssa.MapUpdate)
				if !ok || !strings.HasSuffix(mu.Map.Type().String(), "map[string]string") {
					continue
				}
				n++
				c.loopVisitsAll(run, cfgx.LoopOf(mu.Block()), load.FuncName(run)+": index loop #"+itoa(n+1)+" visits every package", "the loop that indexes the existing packages ends early only with an error", "the loop that indexes the existing packages can be left early without an error: packages listed after that one are not indexed and are installed a second time")
				callee, opt, okk := refKey(run, mu.Key)
				c.R.Check(okk && (storeKeyFn == "" || (callee == storeKeyFn && opt == storeOpt)) && hasSuffixCall(mu.Value, ".GetName"), load.FuncName(run)+": index store #"+itoa(n), c.pos(mu.Pos()), "existing packages are indexed by "+cfgx.ShortCallee(callee)+"(parsed source) → object name", "the installed-package index is not filled consistently (key function / parse options differ between package types)")
				if storeKeyFn == "" {
					storeKeyFn, storeOpt = callee, opt
				}
			}
		}
		if n < 3 {
			c.R.Unknown(load.FuncName(run)+": index stores", c.pos(run.Pos()), "expected the Provider, Configuration and Function indexes")
		}
		// each buildPack call gets the index of its own kind
		for _, x := range calls(run, xp+pkgInit+".buildPack") {
			a := x.Common().Args
			c.R.Check(sameKindIndex(run, a[0], a[2]), site(x)+" own-index", c.pos(x.Pos()), "the package is looked up in the index of its own kind", "a package is looked up in the index of another package kind")
		}
	}
	if bp != nil {
		var lk *ssa.Lookup
		for _, b := range bp.Blocks {
			for _, in := range b.Instrs {
				if l, ok := in.(*ssa.Lookup); ok && l.X == ssa.Value(bp.Params[2]) {
					lk = l
				}
			}
		}
		if lk == nil {
			c.R.Bad(load.FuncName(bp)+": lookup", c.pos(bp.Pos()), "the installed-package index is never consulted")
		} else {
			callee, opt, okk := refKey(bp, lk.Index)
			c.R.Check(okk && callee == storeKeyFn && opt == storeOpt && storeKeyFn != "", "internal/initializer.buildPack: pkgMap lookup key", c.pos(lk.Pos()),
				"looked up with the key function the index was built with: "+cfgx.ShortCallee(storeKeyFn)+", "+storeOpt,
				"the index is built with "+cfgx.ShortCallee(storeKeyFn)+"("+storeOpt+") but looked up with "+describeKey(lk.Index)+": with a registry host the installed package is not found")
			// on a hit the existing name is used
			var sn ssa.CallInstruction
			for _, x := range cfgx.Calls(bp, nil) {
				if strings.HasSuffix(cfgx.CalleeName(x), ".SetName") {
					sn = x
				}
			}
			good := sn != nil
			if good {
				good = flow.Strict.Any(cfgx.CallArgs(sn)[0], func(v ssa.Value) bool { return v == ssa.Value(lk) })
			}
			c.R.Check(good, load.FuncName(bp)+": reuses the existing name", c.pos(bp.Pos()), "on a hit the existing object's name is set", "the existing object's name is not used on a hit")
		}
	}

	c.R.Rule("R20.6", "the index key is the reference minus the identifier the parsed reference itself reports", 1,
		"a key cut out of the string by looking for ':' or '@' takes a registry port for a tag: digest-pinned and tagged references of one repository (or different repositories of one registry) get different (or the same) keys, and a package is installed twice or overwrites another")
	if ps := c.fn("internal/xpkg", "ParsePackageSourceFromReference"); ps != nil && len(ps.Params) == 1 {
		structured := false
		for _, x := range cfgx.Calls(ps, nil) {
			if n := cfgx.CalleeName(x); (strings.HasSuffix(n, "name.Reference).Identifier") || strings.HasSuffix(n, "name.Reference).Context")) && flow.Root(underIface(cfgx.Receiver(x))) == ssa.Value(ps.Params[0]) {
				structured = true
			}
		}
		var rets []ssa.Value
		for _, v := range cfgx.ReturnedValues(ps, 0) {
			rets = append(rets, v)
		}
		fromRef := len(rets) > 0
		for _, v := range rets {
			if !flow.Default.Any(v, func(x ssa.Value) bool {
				ci, ok := x.(*ssa.Call)
				return ok && ci.Call.IsInvoke() && flow.Root(underIface(ci.Call.Value)) == ssa.Value(ps.Params[0])
			}) {
				fromRef = false
			}
		}
		// the identifier is removed as a suffix, not used as a character set
		for _, x := range cfgx.Calls(ps, nil) {
			usesID := false
			for _, a := range cfgx.CallArgs(x) {
				if hasSuffixCall(a, "name.Reference).Identifier") {
					usesID = true
				}
			}
			if !usesID {
				continue
			}
			n := cfgx.CalleeName(x)
			c.R.Check(n == "strings.TrimSuffix" || n == "strings.CutSuffix" || n == "strings.HasSuffix", load.FuncName(ps)+": "+site(x)+" identifier as suffix", c.pos(x.Pos()), "the identifier is cut off as a suffix", "the identifier is handed to "+n+", which does not remove it as a suffix (TrimRight treats it as a set of characters and eats into the repository name)")
		}
		c.R.Check(structured && fromRef, load.FuncName(ps)+": structured", c.pos(ps.Pos()), "the source is the reference's own string without the identifier (or its repository context) as the parsed reference reports them", "the package source is not derived from the parsed reference's Identifier()/Context(): delimiters found in the string are not necessarily the tag or digest separator (registry ports)")
	}

	c.R.Rule("R20.2", "existing CA and certificates are kept: no Generate / write from the has-material edge; CA write acknowledged before use", 9,
		"re-running init would rotate the CA or certificates under running components")
	gen := "(" + xp + pkgInit + ".CertificateGenerator).Generate"
	for _, it := range []struct {
		name string
		ca   bool
	}{{"loadOrGenerateCA", true}, {"ensureServerCertificate", false}, {"ensureClientCertificate", false}} {
		fn := c.method(pkgInit, "TLSCertificateGenerator", it.name)
		if fn == nil {
			continue
		}
		gs := calls(fn, gen)
		get := calls(fn, clientGet)
		ws := append(calls(fn, clientCreate), calls(fn, clientUpdate)...)
		if len(gs) != 1 || len(get) != 1 || len(ws) != 2 {
			c.R.Unknown(load.FuncName(fn)+": shape", c.pos(fn.Pos()), "expected Get, Generate, Create and Update")
			continue
		}
		sec := flow.Root(underIface(cfgx.CallArgs(get[0])[2]))
		var nonEmpty []cfgx.Edge
		var nonEmptyByCmp [][]cfgx.Edge
		var cmpBlocks []ssa.Instruction
		for _, lc := range cfgx.LenCmps(fn) {
			if !flow.Default.Any(lc.Of, func(v ssa.Value) bool {
				lk, ok := v.(*ssa.Lookup)
				if !ok {
					return false
				}
				_, p, okp := flow.AccessPathC(lk.X)
				return okp && p == "Data" && flow.Root(lk.X) == sec
			}) {
				continue
			}
			if lc.Eval(0) == lc.Eval(1) {
				continue
			}
			t, f := lc.Edges()
			ne := t
			if lc.Eval(0) {
				ne = f
			}
			nonEmpty = append(nonEmpty, ne...)
			nonEmptyByCmp = append(nonEmptyByCmp, ne)
			cmpBlocks = append(cmpBlocks, lc.Bin)
		}
		if len(nonEmptyByCmp) < 2 {
			c.R.Unknown(load.FuncName(fn)+": material tests", c.pos(fn.Pos()), "expected emptiness tests of the fetched secret's data keys")
			continue
		}
		targets := append([]ssa.CallInstruction{gs[0]}, ws...)
		// "the secret exists and holds material": paths on which the Get is known
		// to have failed (NotFound: nothing was read) are not in question
		getFailed := cfgx.ErrEvents(get[0]).Fail
		if it.ca {
			// complete = every tested key non-empty: the edge of the last test in the chain
			// the last test of the chain is the one after which no other key is tested
			last := nonEmptyByCmp[len(nonEmptyByCmp)-1]
			for i, ne := range nonEmptyByCmp {
				final := true
				for j, other := range cmpBlocks {
					if i != j {
						if r, _ := cfgx.ReachableFromEdges(ne, other, nil, nil); r {
							final = false
						}
					}
				}
				if final {
					last = ne
				}
			}
			for _, tg := range targets {
				r, w := cfgx.ReachableFromEdges(last, tg, getFailed, c.posf())
				c.R.Check(!r, site(tg)+" not-when-complete", c.pos(tg.Pos()), "unreachable when the CA secret already holds key and certificate", "a complete CA secret is regenerated/overwritten", w...)
			}
			rets := cfgx.ReturnsReachable(last, getFailed)
			good := len(rets) == 1
			if good {
				good = flow.IsCallTo(unTuple(cfgx.ReturnValue(rets[0], 0)), xp+pkgInit+".parseCertificateSigner") && flow.Default.Any(cfgx.ReturnValue(rets[0], 0), func(v ssa.Value) bool {
					lk, ok := v.(*ssa.Lookup)
					return ok && flow.Root(lk.X) == sec
				})
			}
			c.R.Check(good, load.FuncName(fn)+": complete CA is loaded", c.pos(fn.Pos()), "the complete-CA edge returns parseCertificateSigner(existing key, existing cert)", "the existing CA is not returned as the signer")
			// every data key tested before concluding completeness: both TLS keys
			c.R.Check(len(nonEmptyByCmp) == 2, load.FuncName(fn)+": both keys required", c.pos(fn.Pos()), "completeness requires both tls.key and tls.crt", "completeness is not decided on both TLS keys")
		} else {
			for _, tg := range targets {
				r, w := cfgx.ReachableFromEdges(nonEmpty, tg, getFailed, c.posf())
				c.R.Check(!r, site(tg)+" not-when-material", c.pos(tg.Pos()), "unreachable when the secret already holds any certificate material", "an existing certificate secret is regenerated/overwritten", w...)
			}
			c.R.Check(len(nonEmptyByCmp) == 3, load.FuncName(fn)+": all three keys tested", c.pos(fn.Pos()), "tls.crt, tls.key and ca.crt are all consulted", "not all three certificate keys are consulted before regenerating")
		}
		// read failure other than NotFound returns before Generate
		c.requireCross(site(gs[0])+" after-read", gs[0], okEdges(get[0], "IgnoreNotFound"), "ok-or-NotFound(Get(secret))")
		// Create only when not found, Update only when found: create flag
		ev := cfgx.ErrEvents(get[0])
		var crt, upd ssa.CallInstruction
		for _, w := range ws {
			if cfgx.CalleeName(w) == clientCreate {
				crt = w
			} else {
				upd = w
			}
		}
		if len(ev.RawOK) > 0 && crt != nil && upd != nil {
			pathsC, _, okC := cfgx.FeasiblePaths(crt, 5000)
			badC := 0
			for _, p := range pathsC {
				if p.CrossesAny(ev.RawOK) {
					badC++
				}
			}
			c.R.Check(okC && badC == 0 && len(pathsC) > 0, site(crt)+" only-if-absent", c.pos(crt.Pos()), "Create is reached only on flag-consistent paths where the secret was not found", "Create is reachable although the secret exists (would fail with AlreadyExists forever)")
			pathsU, _, okU := cfgx.FeasiblePaths(upd, 5000)
			badU := 0
			for _, p := range pathsU {
				if !p.CrossesAny(ev.RawOK) {
					badU++
				}
			}
			c.R.Check(okU && badU == 0 && len(pathsU) > 0, site(upd)+" only-if-present", c.pos(upd.Pos()), "Update is reached only on flag-consistent paths where the secret was read", "Update is reachable although the secret was not found")
		} else {
			c.R.Unknown(load.FuncName(fn)+": create/update flag", c.pos(fn.Pos()), "the unfiltered test of the read error was not found")
		}
		// write errors are not filtered and are returned
		for _, w := range ws {
			wev := cfgx.ErrEvents(w)
			c.R.Check(len(wev.Filtered) == 0, site(w)+" error-unfiltered", c.pos(w.Pos()), "every failure of the secret write is reported", "a class of failures of the secret write is ignored ("+strings.Join(wev.Filtered, ",")+"): material that was never stored would be used")
		}
		if it.ca {
			// the new signer is returned only after the write was acknowledged, and is built from the generated bytes
			for _, b := range fn.Blocks {
				r, ok := b.Instrs[len(b.Instrs)-1].(*ssa.Return)
				if !ok || !flow.IsCallTo(unTuple(cfgx.ReturnValue(r, 0)), xp+pkgInit+".parseCertificateSigner") {
					continue
				}
				pc := unTuple(cfgx.ReturnValue(r, 0)).(*ssa.Call)
				fromGen := false
				for _, a := range pc.Call.Args {
					if ex, ok := a.(*ssa.Extract); ok && ex.Tuple == gs[0].Value() {
						fromGen = true
					}
				}
				if fromGen {
					var okW []cfgx.Edge
					for _, w := range ws {
						okW = append(okW, cfgx.ErrEvents(w).OK...)
					}
					c.requireCross(load.FuncName(fn)+": new signer after acknowledged write", r, okW, "ok(Create/Update(CA secret))")
				}
			}
		}
	}

	c.R.Rule("R20.7", "a certificate is issued with the signer's certificate as parent and the signer's key", 1,
		"a leaf issued with itself as parent carries the wrong issuer: it does not chain to the stored CA unless the CA happens to have the same subject")
	if gen := c.P.Method(pkgInit, "CertGenerator", "Generate"); gen != nil {
		c.mech(gen)
		cs := calls(gen, "crypto/x509.CreateCertificate")
		if c.expect("CreateCertificate", len(cs), 1, gen) {
			a := cfgx.CallArgs(cs[0])
			fieldOfSigner := func(v ssa.Value, field string) bool {
				return flow.Default.Any(v, func(x ssa.Value) bool {
					fa, ok := x.(*ssa.FieldAddr)
					return ok && fieldName(fa.X.Type(), fa.Field) == field && strings.HasSuffix(fa.X.Type().String(), "CertificateSigner")
				})
			}
			tmpl := flow.Root(underIface(a[1])) == ssa.Value(gen.Params[len(gen.Params)-2])
			c.R.Check(len(a) == 5 && tmpl && fieldOfSigner(a[2], "certificate") && fieldOfSigner(a[4], "key"), site(cs[0])+" parent and key", c.pos(cs[0].Pos()), "CreateCertificate(template=cert, parent=signer.certificate, …, priv=signer.key)", "the certificate is not created with the signer's certificate as parent and the signer's key")
		}
	}

	c.R.Rule("R20.3", "chain and names: leaf certificates signed by this run's CA; ca.crt is the signer's certificate; DNS names from configuration", 7,
		"issued certificates would not chain to the stored CA or not cover the service's DNS names")
	if tr := c.method(pkgInit, "TLSCertificateGenerator", "Run"); tr != nil {
		ca := calls(tr, "(*"+xp+pkgInit+".TLSCertificateGenerator).loadOrGenerateCA")
		if c.expect("loadOrGenerateCA", len(ca), 1, tr) {
			signer := cfgx.TupleResult(ca[0], 0)
			n := 0
			for _, x := range calls(tr, "(*"+xp+pkgInit+".TLSCertificateGenerator).ensureServerCertificate", "(*"+xp+pkgInit+".TLSCertificateGenerator).ensureClientCertificate") {
				n++
				c.R.Check(x.Common().Args[4] == signer, site(x)+" signer", c.pos(x.Pos()), "signed by the CA loaded/generated in this run", "the certificate is not signed by this run's CA")
				c.requireCross(site(x)+" after-ca", x, okEdges(ca[0]), "ok(loadOrGenerateCA)")
			}
			if n != 2 {
				c.R.Unknown(load.FuncName(tr)+": ensure calls", c.pos(tr.Pos()), "expected server and client certificate steps")
			}
		}
	}
	for _, it := range []struct{ name, dns string }{{"ensureServerCertificate", "tlsServerDNSNames"}, {"ensureClientCertificate", "tlsClientDNSNames"}} {
		fn := c.method(pkgInit, "TLSCertificateGenerator", it.name)
		if fn == nil {
			continue
		}
		gs := calls(fn, gen)
		if len(gs) != 1 {
			continue
		}
		signer := ssa.Value(fn.Params[4])
		c.R.Check(cfgx.CallArgs(gs[0])[1] == signer, site(gs[0])+" signer-param", c.pos(gs[0].Pos()), "Generate is given the signer parameter", "the certificate is generated with another signer than the one passed in")
		okCA, okDNS := false, false
		for _, b := range fn.Blocks {
			for _, in := range b.Instrs {
				if mu, ok := in.(*ssa.MapUpdate); ok {
					if k, isC := cfgx.ConstString(mu.Key); isC && k == "ca.crt" {
						r, p, okp := flow.AccessPathC(mu.Value)
						okCA = okp && p == "certificatePEM" && r == signer
					}
				}
				if st, ok := in.(*ssa.Store); ok && isFieldSel(st.Addr, "x509.Certificate", "DNSNames") {
					_, p, okp := flow.AccessPathC(st.Val)
					okDNS = okp && p == it.dns
				}
			}
		}
		c.R.Check(okCA, load.FuncName(fn)+": ca.crt", c.pos(fn.Pos()), "ca.crt stored is the signer's certificate", "the ca.crt stored with the certificate is not the signer's certificate")
		c.R.Check(okDNS, load.FuncName(fn)+": DNS names", c.pos(fn.Pos()), "DNSNames = e."+it.dns, "the certificate's DNS names are not the configured "+it.dns)
	}
	if ini := c.P.Pkg("cmd/crossplane/core"); ini != nil {
		found := false
		for _, f := range c.P.PkgFunctions("cmd/crossplane/core") {
			for _, x := range calls(f, xp+pkgInit+".TLSCertificateGeneratorWithServerSecretName") {
				a := x.Common().Args
				if ci, ok := a[1].(*ssa.Call); ok && cfgx.CalleeName(ci) == xp+pkgInit+".DNSNamesForService" {
					_, p0, _ := flow.AccessPathC(ci.Call.Args[0])
					_, p1, _ := flow.AccessPathC(ci.Call.Args[1])
					_, ps, _ := flow.AccessPathC(a[0])
					if p0 == "WebhookServiceName" && p1 == "WebhookServiceNamespace" && ps == "TLSServerSecretName" {
						found = true
						c.R.Analysed(load.FuncName(f))
					}
				}
			}
		}
		c.R.Check(found, "cmd/crossplane/core: webhook server certificate names", "", "the TLS server secret gets DNSNamesForService(webhook service, namespace)", "init does not issue the webhook server certificate for the webhook service's DNS names")
	}

	c.R.Rule("R20.4", "create-if-absent for default objects; Lock applied with only its name", 3, "existing default objects would be overwritten, or init would fail on the second run")
	for _, fn := range []*ssa.Function{c.method(pkgInit, "StoreConfigObject", "Run"), c.fn(pkgInit, "DefaultDeploymentRuntimeConfig")} {
		if fn == nil {
			continue
		}
		ws := directWrites(fn)
		good := len(ws) == 1 && cfgx.CalleeName(ws[0]) == clientCreate
		if good {
			ev := cfgx.ErrEvents(ws[0])
			good = ev.Returned && len(ev.Filtered) == 1 && ev.Filtered[0] == "Ignore(IsAlreadyExists)"
			// the predicate ignored is IsAlreadyExists
			okPred := false
			for _, x := range calls(fn, xprt+"resource.Ignore") {
				if f, ok := stripConv(x.Common().Args[0]).(*ssa.Function); ok && f.Name() == "IsAlreadyExists" {
					okPred = true
				}
			}
			good = good && okPred
			if !good {
				// the same written out: `if IsAlreadyExists(err) { return nil }; if err != nil { return wrapped }`
				exists := ev.PredTrue["errors.IsAlreadyExists"]
				if len(exists) > 0 && len(ev.Filtered) == 0 {
					spelled := true
					for _, r := range cfgx.ErrorReturnsFrom(ev.Fail, exists) {
						if !r.NonNil {
							spelled = false // some other failure of the Create ends in success
						}
					}
					for name := range ev.PredTrue {
						if name != "errors.IsAlreadyExists" {
							spelled = false
						}
					}
					good = spelled
				}
			}
		}
		c.R.Check(good, load.FuncName(fn)+": create-if-absent", c.pos(fn.Pos()), "a single Create whose AlreadyExists error is ignored", "the default object is not created with create-if-absent semantics (single Create, AlreadyExists ignored)")
	}
	if lo := c.method(pkgInit, "LockObject", "Run"); lo != nil {
		ap := calls(lo, applicatorApply, "(*"+xprt+"resource.APIPatchingApplicator).Apply")
		good := len(ap) == 1 && len(directWrites(lo)) <= 1
		nStores := 0
		for _, b := range lo.Blocks {
			for _, in := range b.Instrs {
				if st, ok := in.(*ssa.Store); ok && len(ap) == 1 {
					if r, p, okp := flow.AccessPathC(st.Addr); okp && p != "" && r == flow.Root(underIface(cfgx.CallArgs(ap[0])[1])) {
						nStores++
						if !strings.HasSuffix(p, "Name") {
							good = false
						}
					}
				}
			}
		}
		c.R.Check(good && nStores == 1, load.FuncName(lo)+": name only", c.pos(lo.Pos()), "the Lock applied has only its name populated (a patch that never clears packages)", "the Lock object applied carries more than its name: existing lock contents could be overwritten")
	}

	c.R.Rule("R20.5", "CA injection before apply; empty tls.crt is an error first", 6, "core CRDs / webhook configurations would be applied with a stale or empty CA bundle")
	for _, it := range []struct {
		typ    string
		fields int
	}{{"CoreCRDs", 1}, {"WebhookConfigurations", 2}} {
		fn := c.method(pkgInit, it.typ, "Run")
		if fn == nil {
			continue
		}
		get := calls(fn, clientGet)
		ap := calls(fn, applicatorApply, "(*"+xprt+"resource.APIPatchingApplicator).Apply")
		if len(get) != 1 || len(ap) != 1 {
			c.R.Unknown(load.FuncName(fn)+": shape", c.pos(fn.Pos()), "expected Get(tls secret) and one Apply")
			continue
		}
		sec := flow.Root(underIface(cfgx.CallArgs(get[0])[2]))
		n := 0
		for _, b := range fn.Blocks {
			for _, in := range b.Instrs {
				st, ok := in.(*ssa.Store)
				if !ok {
					continue
				}
				if _, p, okp := flow.AccessPathC(st.Addr); !okp || !strings.HasSuffix(p, "CABundle") {
					continue
				}
				n++
				fromSecret := flow.Default.Any(st.Val, func(v ssa.Value) bool {
					lk, ok := v.(*ssa.Lookup)
					if !ok {
						return false
					}
					k, isC := cfgx.ConstString(lk.Index)
					return isC && k == "tls.crt" && flow.Root(lk.X) == sec
				})
				c.R.Check(fromSecret, load.FuncName(fn)+": CABundle #"+itoa(n), c.pos(st.Pos()), "caBundle = tls.crt of the TLS secret read in this run", "a CA bundle is injected that does not come from the TLS secret")
				var outerBack []cfgx.Edge
				if ol := cfgx.LoopOf(ap[0].Block()); ol != nil {
					oh := cfgx.LoopHeader(ol)
					for _, e := range cfgx.BackEdges(fn) {
						if e.To() == oh {
							outerBack = append(outerBack, e)
						}
					}
				}
				c.R.Check(cfgx.InstrReaches(st, ap[0], outerBack), load.FuncName(fn)+": CABundle #"+itoa(n)+" before apply", c.pos(st.Pos()), "injected before the object is applied", "the CA bundle is set after the object was applied")
			}
		}
		if it.typ == "WebhookConfigurations" {
			// every webhook entry of every configuration gets the bundle: no iteration of the
			// per-webhook loops skips the store
			for _, b := range fn.Blocks {
				for _, in := range b.Instrs {
					st, ok := in.(*ssa.Store)
					if !ok {
						continue
					}
					if _, p, okp := flow.AccessPathC(st.Addr); !okp || !strings.HasSuffix(p, "CABundle") {
						continue
					}
					l := cfgx.LoopOf(st.Block())
					if l == nil || l[ap[0].Block()] {
						c.R.Bad(load.FuncName(fn)+": CABundle per webhook", c.pos(st.Pos()), "the CA bundle store is not inside a loop over the configuration's webhooks")
						continue
					}
					// … of every configuration: the loop is not reserved for configurations of one particular name
					var named []cfgx.Edge
					for _, cf := range findCmps(fn, true, func(x, y ssa.Value) bool {
						_, isC := cfgx.ConstString(y)
						return isC && (hasSuffixCall(x, ".GetName") || strings.HasSuffix(x.Type().String(), "string"))
					}) {
						named = append(named, cf.Holds...)
					}
					if h := cfgx.LoopHeader(l); h != nil && len(named) > 0 {
						only, _ := cfgx.MustCross(h.Instrs[len(h.Instrs)-1], named, nil)
						c.R.Check(!only, load.FuncName(fn)+": CABundle for every configuration ("+strings.TrimPrefix(fullType(flow.Root(st.Addr)), "*k8s.io/api/admissionregistration/v1.")+")", c.pos(st.Pos()), "the injection loop runs for configurations of any name", "the injection loop runs only for a configuration of one particular name: every other configuration is applied with the CA bundle and service as read from disk")
					}
					by, w := cfgx.LoopBypass(l, map[*ssa.BasicBlock]bool{st.Block(): true}, nil, c.posf())
					c.R.Check(!by, load.FuncName(fn)+": CABundle for every webhook ("+strings.TrimSuffix(strings.TrimPrefix(fullType(flow.Root(st.Addr)), "*k8s.io/api/admissionregistration/v1."), "")+")", c.pos(st.Pos()), "every webhook entry gets the bundle", "a webhook entry can be skipped when the CA bundle is injected", w...)
				}
			}
		}
		if n < it.fields {
			c.R.Bad(load.FuncName(fn)+": CABundle stores", c.pos(fn.Pos()), "expected "+itoa(it.fields)+" CA bundle injection site(s), found "+itoa(n))
		}
		// empty tls.crt => error before any apply
		var empty []cfgx.Edge
		for _, lc := range cfgx.LenCmps(fn) {
			if flow.Default.Any(lc.Of, func(v ssa.Value) bool {
				lk, ok := v.(*ssa.Lookup)
				if !ok {
					return false
				}
				k, isC := cfgx.ConstString(lk.Index)
				return isC && k == "tls.crt" && flow.Root(lk.X) == sec
			}) && lc.Eval(0) != lc.Eval(1) {
				t, f := lc.Edges()
				if lc.Eval(0) {
					empty = append(empty, t...)
				} else {
					empty = append(empty, f...)
				}
			}
		}
		r, _ := cfgx.ReachableFromEdges(empty, ap[0], nil, nil)
		c.R.Check(!r && len(empty) > 0, load.FuncName(fn)+": empty tls.crt refused", c.pos(fn.Pos()), "nothing is applied when tls.crt is empty", "objects are applied although the TLS secret has no certificate")
		if it.typ == "WebhookConfigurations" {
			c.requireCross(site(ap[0])+" after-secret", ap[0], okEdges(get[0]), "ok(Get(tls secret))")
		} else {
			// CRDs with webhook conversion need a non-empty bundle
			var conv []cfgx.Edge
			for _, b := range fn.Blocks {
				for _, in := range b.Instrs {
					if bo, ok := in.(*ssa.BinOp); ok && isEqOrNeq(bo) {
						if s, isC := cfgx.ConstString(bo.Y); isC && s == "Webhook" {
							t, _ := eqEdges(bo)
							conv = append(conv, t...)
						}
					}
				}
			}
			okConv := len(conv) > 0
			for _, lc := range cfgx.LenCmps(fn) {
				if _, isPhi := lc.Of.(*ssa.Phi); isPhi && lc.Eval(0) != lc.Eval(1) {
					t, f := lc.Edges()
					e := t
					if !lc.Eval(0) {
						e = f
					}
					if rr, _ := cfgx.ReachableFromEdges(e, ap[0], cfgx.BackEdges(fn), nil); rr {
						okConv = false
					}
				}
			}
			c.R.Check(okConv, load.FuncName(fn)+": conversion CRD needs a bundle", c.pos(fn.Pos()), "a CRD with webhook conversion is not applied without a CA bundle", "a CRD with webhook conversion can be applied without a CA bundle")
			// ... and always gets the current one: every path from "conversion strategy is Webhook"
			// to the Apply passes a CABundle store (also when the manifest already has a clientConfig)
			through := map[*ssa.BasicBlock]bool{}
			for _, b := range fn.Blocks {
				for _, in := range b.Instrs {
					if st, ok := in.(*ssa.Store); ok {
						if _, p, okp := flow.AccessPathC(st.Addr); okp && strings.HasSuffix(p, "CABundle") {
							through[b] = true
						}
					}
				}
			}
			skip, w := cfgx.ReachesAvoidingBlocks(conv, ap[0].Block(), through, cfgx.BackEdges(fn), c.posf())
			c.R.Check(!skip && len(conv) > 0 && len(through) > 0, load.FuncName(fn)+": conversion CRD always gets the bundle", c.pos(ap[0].Pos()), "every webhook-conversion CRD is applied with the bundle of this run", "a CRD with webhook conversion can reach Apply without the current CA bundle being stored (e.g. when its manifest already carries a clientConfig)", w...)
		}
	}
}

func describeKey(v ssa.Value) string {
	if ci, ok := v.(*ssa.Call); ok {
		return cfgx.ShortCallee(cfgx.CalleeName(ci)) + "(...)"
	}
	return v.String()
}

// sameKindIndex: the package object (new T) and the index passed to buildPack belong together:
// the index is the map filled in the loop over the list of T.
func sameKindIndex(fn *ssa.Function, pack, idx ssa.Value) bool {
	pt := strings.TrimPrefix(fullType(pack), "*")
	idx = sole(idx)
	for _, b := range fn.Blocks {
		for _, in := range b.Instrs {
			if mu, ok := in.(*ssa.MapUpdate); ok && (sole(mu.Map) == idx || sameVar(mu.Map, idx) || fieldCarries(idx, sole(mu.Map))) {
				// value = x.GetName() where x is element of a list of the same kind
				for _, ci := range flow.Strict.CallsIn(mu.Value) {
					if r := cfgx.Receiver(ci); r != nil {
						rv, _, _ := flow.AccessPathC(underIface(r))
						for _, cand := range []ssa.Value{flow.Root(underIface(r)), rv} {
							rt := strings.TrimPrefix(cand.Type().String(), "*")
							// the element itself, or the list it is taken from
							if rt == pt || rt == pt+"List" {
								return true
							}
						}
					}
				}
			}
		}
	}
	return false
}

func unTuple(v ssa.Value) ssa.Value {
	if ex, ok := v.(*ssa.Extract); ok {
		return ex.Tuple
	}
	return v
}

// sameVar: both values read the same variable / field (through copies).
func sameVar(a, b ssa.Value) bool {
	ra, pa, oka := flow.AccessPathC(a)
	rb, pb, okb := flow.AccessPathC(b)
	return oka && okb && ra == rb && pa == pb
}

// fieldCarries: idx reads a struct field into which m was stored (a small
// struct bundling the per-kind indexes). The field itself is matched by name.
func fieldCarries(idx, m ssa.Value) bool {
	var fieldName string
	switch x := idx.(type) {
	case *ssa.Field:
		st, ok := x.X.Type().Underlying().(*types.Struct)
		if !ok {
			return false
		}
		fieldName = st.Field(x.Field).Name()
	case *ssa.UnOp:
		fa, ok := x.X.(*ssa.FieldAddr)
		if !ok {
			return false
		}
		st := fa.X.Type().Underlying().(*types.Pointer).Elem().Underlying().(*types.Struct)
		fieldName = st.Field(fa.Field).Name()
	default:
		return false
	}
	if m.Referrers() == nil {
		return false
	}
	for _, r := range *m.Referrers() {
		if st, ok := r.(*ssa.Store); ok && st.Val == m {
			if fa, ok := st.Addr.(*ssa.FieldAddr); ok {
				s := fa.X.Type().Underlying().(*types.Pointer).Elem().Underlying().(*types.Struct)
				if s.Field(fa.Field).Name() == fieldName {
					return true
				}
			}
		}
	}
	return false
}
