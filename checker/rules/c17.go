package rules

import (
	"go/token"
	"strings"

	"golang.org/x/tools/go/ssa"

	"xpcheck/internal/cfgx"
	"xpcheck/internal/flow"
	"xpcheck/internal/load"
)

const (
	pkgResolver = "internal/controller/pkg/resolver"
	pkgDag      = "internal/dag"
	semverCheck = "(github.com/Masterminds/semver.Constraints).Check"
)

func init() {
	register(&Property{
		ID:  "C17",
		Run: c17,
		Explanation: "Decides the gates and selection idioms of dependency resolution: (R17.1) every package Create/Update in the resolver needs ok(dag.Init) then ok(dag.Sort) (cycle gate); (R17.2) nothing is created on the empty-version edge; (R17.3) a version string is returned or remembered only on the true edge of a constraint Check of that version (install), resp. only while the all-parents-valid flag — cleared on any failing Check — is set (update), or it is the pinned digest; " +
			"(R17.4) the version lists are sorted ascending before the scan, the install scan keeps overwriting without early exit (highest satisfying), the update scan returns the first not-older match and remembers older ones only when downgrades are enabled; (R17.5) Resolve returns a nil error only past the no-missing and no-invalid edges after ranging over all dependencies; " +
			"(R17.6, sibling rule) both DAG implementations mark the DFS stack, fail on a back edge, visit every unvisited node in Sort and fail on a missing node in traceNode; (R17.7) the upgrading DAG reads a dependency's parent constraints only after the edge was added. R17.4 also requires that the versions scanned are the result of fetcher.Tags made in the same call. R17.4 also requires that no version is appended after the sort; R17.5 also requires that the loop over the direct dependencies is left early only with an error. (R17.10) LockPackage.Neighbors yields every dependency (complete projection).",
		NotDecided:  []string{"semver semantics (what Check means)", "graph algorithms as functions of arbitrary graphs", "registry tag listings"},
		Assumptions: []string{"sort.Sort(semver.Collection) sorts ascending", "semver.Constraints.Check is the constraint oracle"},
	})
}

func c17(c *Ctx) {
	rec := c.method(pkgResolver, "Reconciler", "Reconcile")
	c.R.Rule("R17.1", "cycle gate: package Create/Update needs ok(dag.Init) then ok(dag.Sort)", 4, "packages would be installed although the dependency graph has a cycle")
	if rec != nil {
		ini := calls(rec, "("+xp+pkgDag+".DAG).Init")
		srt := calls(rec, "("+xp+pkgDag+".DAG).Sort")
		var ws []ssa.CallInstruction
		for _, w := range calls(rec, clientCreate, clientUpdate) {
			if fullType(cfgx.CallArgs(w)[1]) == tKUnstr {
				ws = append(ws, w)
			}
		}
		if len(ini) != 1 || len(srt) != 1 || len(ws) < 2 {
			c.R.Unknown(load.FuncName(rec)+": Init/Sort/writes", c.pos(rec.Pos()), "expected dag.Init, dag.Sort and the package Create and Update")
		} else {
			for _, w := range ws {
				c.requireCross(site(w)+" after-init", w, okEdges(ini[0]), "ok(dag.Init)")
				c.requireCross(site(w)+" after-sort", w, okEdges(srt[0]), "ok(dag.Sort)")
			}
			c.requireCross(site(srt[0])+" after-init", srt[0], okEdges(ini[0]), "ok(dag.Init)")
			c.R.Check(cfgx.Receiver(srt[0]) == cfgx.Receiver(ini[0]), site(srt[0])+" same-dag", c.pos(srt[0].Pos()), "Sort runs on the DAG that was initialised from the lock", "the DAG sorted is not the one initialised from the lock")
			c.R.Check(flow.Default.Any(cfgx.CallArgs(ini[0])[0], func(v ssa.Value) bool { _, p, _ := flow.AccessPathC(v); return p == "Packages" }), site(ini[0])+" from-lock", c.pos(ini[0].Pos()), "the DAG is built from lock.Packages", "the DAG is not built from the lock's packages")
		}
	}

	c.R.Rule("R17.2", "nothing is installed without a version", 2, "a package with an empty/unsatisfying version would be created")
	if rec != nil {
		fv := calls(rec, "(*"+xp+pkgResolver+".Reconciler).findDependencyVersionToInstall")
		cr := calls(rec, clientCreate)
		if len(fv) == 1 && len(cr) == 1 {
			ver := cfgx.TupleResult(fv[0], 0)
			var nonEmpty []cfgx.Edge
			for _, b := range rec.Blocks {
				for _, in := range b.Instrs {
					if bo, ok := in.(*ssa.BinOp); ok && (bo.Op == token.EQL || bo.Op == token.NEQ) {
						if s, isC := cfgx.ConstString(bo.Y); isC && s == "" && flow.Strict.Any(bo.X, func(v ssa.Value) bool { return v == ver }) {
							t, f := cfgx.CondEdges(bo)
							if bo.Op == token.EQL {
								nonEmpty = append(nonEmpty, f...)
							} else {
								nonEmpty = append(nonEmpty, t...)
							}
						}
					}
				}
			}
			c.requireCross(site(cr[0])+" version-non-empty", cr[0], nonEmpty, "addVer != \"\"")
			c.requireCross(site(cr[0])+" version-found", cr[0], okEdges(fv[0]), "ok(findDependencyVersionToInstall)")
			np := calls(rec, xp+pkgResolver+".NewPackage")
			c.R.Check(len(np) == 1 && flow.Strict.Any(np[0].Common().Args[1], func(v ssa.Value) bool { return v == ver }) && flow.Default.Any(cfgx.CallArgs(cr[0])[1], func(v ssa.Value) bool { return v == np[0].Value() }), site(cr[0])+" creates-found-version", c.pos(cr[0].Pos()), "the package created carries the version that was found", "the package created does not carry the version found")
		} else {
			c.R.Unknown(load.FuncName(rec)+": install path", c.pos(rec.Pos()), "findDependencyVersionToInstall / Create not found")
		}
	}

	c.R.Rule("R17.3", "only checked versions are chosen", 5, "a version that violates the declared constraint (or a parent's) would be installed")
	inst := c.method(pkgResolver, "Reconciler", "findDependencyVersionToInstall")
	upd := c.method(pkgResolver, "Reconciler", "findDependencyVersionToUpdate")
	if inst != nil {
		chk := calls(inst, semverCheck)
		nc := calls(inst, "github.com/Masterminds/semver.NewConstraint")
		if len(chk) != 1 || len(nc) != 1 {
			c.R.Unknown(load.FuncName(inst)+": Check", c.pos(inst.Pos()), "expected one Check and one NewConstraint")
		} else {
			t, _ := cfgx.CallCondEdges(chk[0])
			_, p, _ := flow.AccessPathC(nc[0].Common().Args[0])
			c.R.Check(p == "Constraints" && flow.Default.Any(cfgx.Receiver(chk[0]), func(v ssa.Value) bool { return v == cfgx.TupleResult(nc[0], 0) }), site(chk[0])+" declared-constraint", c.pos(chk[0].Pos()), "checks against the dependency's declared constraint", "the constraint checked is not the dependency's declared constraint")
			// every return value: "" | digest.String() | phi whose non-empty leaves are v.Original() assigned on the Check-true edge
			for _, b := range inst.Blocks {
				r, ok := b.Instrs[len(b.Instrs)-1].(*ssa.Return)
				if !ok || nonNilError(r) != "nil" {
					continue
				}
				for _, leaf := range append(phiLeaves(cfgx.ReturnValue(r, 0)), cfgx.ReturnValue(r, 0)) {
					switch {
					case isPhiVal(leaf):
					case isEmptyStringConst(leaf):
					case hasSuffixCall(leaf, "v1.Hash).String"):
						nh := calls(inst, "github.com/google/go-containerregistry/pkg/v1.NewHash")
						if len(nh) == 1 {
							c.requireCross(load.FuncName(inst)+": digest return", r, okEdges(nh[0]), "ok(NewHash(constraints)): the pinned digest")
						}
					case hasSuffixCall(leaf, "semver.Version).Original"):
						ci := leaf.(*ssa.Call)
						c.requireCross(load.FuncName(inst)+": version chosen only if it satisfies", ci, t, "c.Check(v) == true")
						c.R.Check(ci.Call.Args[0] == cfgx.CallArgs(chk[0])[0], load.FuncName(inst)+": same version", c.pos(ci.Pos()), "the version remembered is the version checked", "the version remembered is not the one that was checked")
					default:
						c.R.Bad(load.FuncName(inst)+": returned version source", c.pos(r.Pos()), "a returned version is neither the pinned digest nor a checked version")
					}
				}
			}
		}
	}
	if upd != nil {
		chk := calls(upd, semverCheck)
		if len(chk) != 1 {
			c.R.Unknown(load.FuncName(upd)+": Check", c.pos(upd.Pos()), "expected one Check")
		} else {
			_, f := cfgx.CallCondEdges(chk[0])
			var validT []cfgx.Edge
			for _, phi := range cfgx.FlagPhisConst(upd, f, false) {
				t, _ := cfgx.CondEdges(phi)
				validT = append(validT, t...)
			}
			if len(validT) == 0 {
				c.R.Bad(load.FuncName(upd)+": valid flag", c.pos(chk[0].Pos()), "no flag that is cleared whenever a parent constraint fails guards the selection")
			}
			// where does the checked version v become (part of) the chosen one? Directly
			// (v.Original() is what is returned) or by being carried into a variable whose
			// Original() is returned later. Each such adoption needs: every parent
			// constraint accepted v, and v is not older than the current version or
			// downgrades are enabled.
			v := cfgx.CallArgs(chk[0])[0]
			var dgT, notOlder []cfgx.Edge
			for _, b := range upd.Blocks {
				for _, in := range b.Instrs {
					if ld, ok := in.(*ssa.UnOp); ok && ld.Op == token.MUL {
						if _, p, okp := flow.AccessPathC(ld); okp && p == "downgradesEnabled" {
							t, _ := cfgx.CondEdges(ld)
							dgT = append(dgT, t...)
						}
					}
				}
			}
			for _, x := range cfgx.Calls(upd, func(ci ssa.CallInstruction) bool {
				n := cfgx.CalleeName(ci)
				return (strings.HasSuffix(n, "semver.Version).GreaterThan") || strings.HasSuffix(n, "semver.Version).Equal")) && ci.Common().Args[0] == v
			}) {
				t, _ := cfgx.CallCondEdges(x)
				notOlder = append(notOlder, t...)
			}
			type adoption struct {
				at   ssa.Instruction
				what string
			}
			var adopt []adoption
			seenPhi := map[*ssa.Phi]bool{}
			var carried func(recv ssa.Value, use ssa.Instruction)
			carried = func(recv ssa.Value, use ssa.Instruction) {
				switch {
				case recv == v:
					adopt = append(adopt, adoption{use, "used"})
				case cfgx.IsNilConst(recv):
				default:
					phi, isPhi := recv.(*ssa.Phi)
					if !isPhi {
						c.R.Bad(site(use.(ssa.CallInstruction))+" remembered-is-checked", c.pos(use.Pos()), "the chosen version is not one that was checked")
						return
					}
					if seenPhi[phi] {
						return
					}
					seenPhi[phi] = true
					for i, e := range phi.Edges {
						pred := phi.Block().Preds[i]
						if e == v {
							adopt = append(adopt, adoption{pred.Instrs[len(pred.Instrs)-1], "remembered"})
						} else if q, ok := e.(*ssa.Phi); ok {
							carried(q, use)
						} else if !cfgx.IsNilConst(e) {
							c.R.Bad(site(use.(ssa.CallInstruction))+" remembered-is-checked", c.pos(use.Pos()), "a remembered version is not one that was checked")
						}
					}
				}
			}
			for _, x := range cfgx.Calls(upd, func(ci ssa.CallInstruction) bool {
				return strings.HasSuffix(cfgx.CalleeName(ci), "semver.Version).Original")
			}) {
				carried(x.Common().Args[0], x)
			}
			// "not older" includes the installed version itself: v == current must be one of the ways into the upgrade choice
			var eqEdgesIn []cfgx.Edge
			for _, x := range cfgx.Calls(upd, func(ci ssa.CallInstruction) bool {
				n := cfgx.CalleeName(ci)
				return (strings.HasSuffix(n, "semver.Version).Equal") || strings.HasSuffix(n, "semver.Version).LessThan") || strings.HasSuffix(n, "semver.Version).Compare")) && ci.Common().Args[0] == v
			}) {
				t, f := cfgx.CallCondEdges(x)
				switch {
				case strings.HasSuffix(cfgx.CalleeName(x), ".Equal"):
					eqEdgesIn = append(eqEdgesIn, t...)
				case strings.HasSuffix(cfgx.CalleeName(x), ".LessThan"):
					eqEdgesIn = append(eqEdgesIn, f...)
					notOlder = append(notOlder, f...)
				default:
					eqEdgesIn = append(eqEdgesIn, t...) // a Compare: left to the comparison rules
				}
			}
			up, down := 0, 0
			outer := outermostLoopOf(upd, chk[0].Block())
			for i, a := range adopt {
				okV, wV := cfgx.MustCross(a.at, validT, c.posf())
				c.R.Check(okV, load.FuncName(upd)+": version "+a.what+" #"+itoa(i)+" valid", c.pos(a.at.Pos()), "every parent constraint accepted the version", "a version can be chosen although a parent constraint rejected it", wV...)
				okU, _ := cfgx.MustCross(a.at, notOlder, nil)
				okD, _ := cfgx.MustCross(a.at, dgT, nil)
				okE, wE := cfgx.MustCross(a.at, union(notOlder, dgT), c.posf())
				c.R.Check(okE && (len(dgT) > 0 || okU), load.FuncName(upd)+": downgrade candidate only if valid ∧ downgradesEnabled #"+itoa(i), c.pos(a.at.Pos()), "an older version is chosen only when downgrades are enabled", "a downgrade candidate is remembered although it is invalid or downgrades are disabled", wE...)
				switch {
				case okU:
					up++
					rE, _ := cfgx.ReachableFromEdges(eqEdgesIn, a.at, nil, nil)
					c.R.Check(rE && len(eqEdgesIn) > 0, load.FuncName(upd)+": the installed version itself counts as not older #"+itoa(i), c.pos(a.at.Pos()), "a version equal to the current one is accepted by the upgrade choice", "the upgrade choice is not reachable for a version equal to the current one: a satisfying installed version is replaced by a higher one")
					// the first not-older version wins: the scan does not go on
					if outer != nil {
						var out []cfgx.Edge
						for k := range a.at.Block().Succs {
							out = append(out, cfgx.Edge{From: a.at.Block(), Idx: k})
						}
						reach, _ := cfgx.ReachFromEdges(out, nil)
						goesOn := reach[cfgx.LoopHeader(outer)]
						if _, isCall := a.at.(ssa.CallInstruction); isCall {
							goesOn = cfgx.InstrReaches(a.at, cfgx.LoopHeader(outer).Instrs[0], nil)
						}
						c.R.Check(!goesOn, load.FuncName(upd)+": first not-older version wins #"+itoa(i), c.pos(a.at.Pos()), "the scan stops at the first valid not-older version", "the scan goes on after a valid not-older version: a higher one than the lowest would be chosen")
					}
				case okD:
					down++
				}
			}
			if up == 0 || down == 0 {
				c.R.Unknown(load.FuncName(upd)+": selection sites", c.pos(upd.Pos()), "expected the upgrade return and the downgrade candidate")
			}
			// all parent constraints are parsed (loop without skip; failure returns error)
			ncs := calls(upd, "github.com/Masterminds/semver.NewConstraint")
			if len(ncs) == 1 {
				c.R.Check(flow.Default.Any(ncs[0].Common().Args[0], func(x ssa.Value) bool { return hasSuffixCall(x, ".GetParentConstraints") }), site(ncs[0])+" parents", c.pos(ncs[0].Pos()), "constraints come from dep.GetParentConstraints()", "the constraints checked are not the node's parent constraints")
				if l := cfgx.LoopOf(ncs[0].Block()); l != nil {
					var app ssa.CallInstruction
					for _, ap := range calls(upd, "builtin.append") {
						if l[ap.Block()] {
							app = ap
						}
					}
					good := app != nil
					if good {
						by, _ := cfgx.LoopBypass(l, map[*ssa.BasicBlock]bool{app.Block(): true}, nil, nil)
						good = !by
						for _, r := range cfgx.ReturnsFromLoop(l) {
							if nonNilError(r) == "nil" {
								good = false
							}
						}
					}
					c.R.Check(good, load.FuncName(upd)+": every parent constraint is used", c.pos(ncs[0].Pos()), "every parent constraint is parsed and kept (or the search fails)", "a parent constraint can be dropped from the search")
				}
			}
			// Check ranges over all parsed constraints: inner loop exits only by header or the failing-check break
			if l := cfgx.LoopOf(chk[0].Block()); l != nil {
				_, early := cfgx.OnlyHeaderExits(l)
				okE := true
				for _, e := range early {
					if !edgeIn(e, f) && !reachesOnlyVia(e, f) {
						okE = false
					}
				}
				c.R.Check(okE, load.FuncName(upd)+": all parents consulted", c.pos(chk[0].Pos()), "the constraint loop ends early only after a failing Check", "the loop over parent constraints can end early without a failing Check")
			}
		}
	}

	c.R.Rule("R17.4", "selection idiom: ascending sort, highest satisfying for install, first not-older for update", 4, "a lower (or older) version than required by the statement would be chosen")
	for _, fn := range []*ssa.Function{inst, upd} {
		if fn == nil {
			continue
		}
		// the candidates are the tags the registry lists now, in this call: not remembered ones
		for _, nv := range cfgx.Calls(fn, func(ci ssa.CallInstruction) bool { return strings.HasSuffix(cfgx.CalleeName(ci), "semver.NewVersion") }) {
			var lists []ssa.Value
			flow.Default.Any(cfgx.CallArgs(nv)[0], func(v ssa.Value) bool {
				switch v := v.(type) {
				case *ssa.IndexAddr:
					lists = append(lists, v.X)
				case *ssa.Index:
					lists = append(lists, v.X)
				case *ssa.Range:
					lists = append(lists, v.X)
				}
				return false
			})
			if len(lists) == 0 {
				continue // not an element of a list: the installed version, a constraint bound, …
			}
			fresh := true
			for _, l := range lists {
				for _, leaf := range leaves(l) {
					ex, ok := leaf.(*ssa.Extract)
					if !ok {
						fresh = false
						continue
					}
					ci, ok := ex.Tuple.(ssa.CallInstruction)
					if !ok || !strings.HasSuffix(cfgx.CalleeName(ci), "Fetcher).Tags") {
						fresh = false
					}
				}
			}
			c.R.Check(fresh, site(nv)+" candidates are the listed tags", c.pos(nv.Pos()), "the versions parsed are the result of fetcher.Tags for this dependency in this call", "the tag list scanned does not (only) come from a fetcher.Tags call made here: tags remembered from another call (another repository, another time) can decide the version")
		}
		chk := calls(fn, semverCheck)
		srt := calls(fn, "sort.Sort")
		if len(chk) != 1 || len(srt) != 1 {
			c.R.Unknown(load.FuncName(fn)+": sort", c.pos(fn.Pos()), "expected sort.Sort before the scan")
			continue
		}
		// … and sorted when complete: no version is added to the list after the sort
		for _, ap := range calls(fn, "builtin.append") {
			if strings.HasSuffix(ap.Common().Args[0].Type().String(), "[]*github.com/Masterminds/semver.Version") {
				c.R.Check(cfgx.InstrReaches(ap, srt[0], nil) && !cfgx.InstrReaches(srt[0], ap, nil), site(ap)+" before the sort", c.pos(ap.Pos()), "versions are collected before the list is sorted", "a version is appended after the list was sorted: the scan runs over tags in registry order, and the last (or first) match is not the highest (or lowest)")
			}
		}
		outer := outermostLoopOf(fn, chk[0].Block())
		c.R.Check(outer != nil && !outer[srt[0].Block()] && cfgx.MustPass(srt[0].Block(), cfgx.LoopHeader(outer)) && strings.HasSuffix(fullType(cfgx.CallArgs(srt[0])[0]), "semver.Collection"), site(srt[0])+" ascending-before-scan", c.pos(srt[0].Pos()), "versions are sorted (semver.Collection, ascending) before the scan", "the version list is not sorted ascending before the scan")
		if fn == inst && outer != nil {
			okx, _ := cfgx.OnlyHeaderExits(outer)
			c.R.Check(okx, load.FuncName(fn)+": scan without early exit", c.pos(chk[0].Pos()), "the scan visits every version: the last satisfying one (the highest) wins", "the install scan can stop early: a lower satisfying version would be chosen")
		}
		if fn == upd && outer != nil {
			// the early return needs GreaterThan||Equal true edge
			var notOlder []cfgx.Edge
			for _, x := range cfgx.Calls(fn, func(ci ssa.CallInstruction) bool {
				n := cfgx.CalleeName(ci)
				return strings.HasSuffix(n, "semver.Version).GreaterThan") || strings.HasSuffix(n, "semver.Version).Equal")
			}) {
				t, _ := cfgx.CallCondEdges(x)
				notOlder = append(notOlder, t...)
			}
			// the scan over the versions ends early (a return or a break out of it) only for a not-older version
			_, early := cfgx.OnlyHeaderExits(outer)
			for i, e := range early {
				fails := !edgeIn(e, notOlder)
				for _, r := range cfgx.ReturnsReachable([]cfgx.Edge{e}, nil) {
					if nonNilError(r) != "nonnil" {
						fails = false
					}
				}
				if fails {
					continue // the search is given up with an error
				}
				okx, w := cfgx.MustCross(e.From.Instrs[len(e.From.Instrs)-1], notOlder, c.posf())
				okx = okx || edgeIn(e, notOlder)
				c.R.Check(okx, load.FuncName(fn)+": early return only for a not-older version #"+itoa(i), c.pos(firstPos(e.From)), "the scan is left early only with v >= current", "the scan over the versions can stop early at a version that is older than the current one", w...)
			}
		}
	}

	c.R.Rule("R17.10", "a lock package's neighbours are all of its dependencies", 1,
		"a dependency that Neighbors() leaves out is not an edge of the graph: a cycle through it (a package depending on itself) is not detected, a missing one is not installed")
	c.projectionComplete(c.P.Method("apis/pkg/v1beta1", "LockPackage", "Neighbors"), "LockPackage.Neighbors is complete")

	c.R.Rule("R17.5", "Resolve reports success only when complete", 4, "a revision would report its dependencies satisfied while some are missing or invalid")
	if rs := c.method(pkgRevision, "PackageDependencyManager", "Resolve"); rs != nil {
		// every direct dependency is looked at: the loop that checks versions is left early only with an error
		for _, x := range cfgx.Calls(rs, func(ci ssa.CallInstruction) bool {
			return strings.HasSuffix(cfgx.CalleeName(ci), "semver.NewConstraint")
		}) {
			c.loopVisitsAll(rs, outermostLoopOf(rs, x.Block()), load.FuncName(rs)+": every dependency is checked", "the loop over the direct dependencies ends early only with an error", "the loop over the direct dependencies can be left early without an error: dependencies declared after that one are never checked")
		}
		var success []*ssa.Return
		for _, b := range rs.Blocks {
			if r, ok := b.Instrs[len(b.Instrs)-1].(*ssa.Return); ok && nonNilError(r) == "nil" {
				success = append(success, r)
			}
		}
		// the final success (not the inactive shortcut)
		var inactive []cfgx.Edge
		for _, b := range rs.Blocks {
			for _, in := range b.Instrs {
				if bo, ok := in.(*ssa.BinOp); ok && isEqOrNeq(bo) {
					if s, isC := cfgx.ConstString(bo.Y); isC && s == "Inactive" {
						t, _ := eqEdges(bo)
						inactive = append(inactive, t...)
					}
				}
			}
		}
		var noMissing, noInvalid []cfgx.Edge
		// the "missing" slice: appended on the hit edge of the lookup in the traced tree
		isMissingSlice := func(of ssa.Value) bool {
			apps, _ := growthAppends(of)
			for _, ap := range apps {
				for _, b := range rs.Blocks {
					for _, in := range b.Instrs {
						if lk, ok := in.(*ssa.Lookup); ok && lk.CommaOk && hasSuffixCall(flow.Root(lk.X), ".TraceNode") || ok && lk.CommaOk && flow.Default.Any(lk.X, func(v ssa.Value) bool { return hasSuffixCall(v, ".TraceNode") }) {
							for _, r := range *lk.Referrers() {
								if ex, ok := r.(*ssa.Extract); ok && ex.Index == 1 {
									t, _ := cfgx.CondEdges(ex)
									if rr, _ := cfgx.ReachableFromEdges(t, ap, cfgx.BackEdges(rs), nil); rr {
										return true
									}
								}
							}
						}
					}
				}
			}
			return false
		}
		for _, lc := range cfgx.LenCmps(rs) {
			if strings.HasSuffix(lc.Of.Type().String(), "[]string") && lc.Eval(0) != lc.Eval(1) && isMissingSlice(lc.Of) {
				t, f := lc.Edges()
				if lc.Eval(0) {
					noMissing = append(noMissing, t...)
				} else {
					noMissing = append(noMissing, f...)
				}
			}
		}
		for _, b := range rs.Blocks {
			for _, in := range b.Instrs {
				if bo, ok := in.(*ssa.BinOp); ok && bo.Op == token.GTR {
					if z, isC := cfgx.ConstInt(bo.Y); isC && z == 0 {
						if _, isLen := lenOfValue(bo.X); isLen {
							_, f := cfgx.CondEdges(bo)
							noInvalid = append(noInvalid, f...)
						}
					}
				}
			}
		}
		n := 0
		for _, r := range success {
			if ok, _ := cfgx.MustCross(r, inactive, nil); ok && len(inactive) > 0 {
				continue // inactive revisions do not resolve
			}
			n++
			c.requireCross(load.FuncName(rs)+": success past no-missing @b"+itoa(r.Block().Index), r, noMissing, "len(missing) == 0")
			c.requireCross(load.FuncName(rs)+": success past no-invalid @b"+itoa(r.Block().Index), r, noInvalid, "invalid == 0")
		}
		if n != 1 {
			c.R.Unknown(load.FuncName(rs)+": success returns", c.pos(rs.Pos()), "expected exactly one success return besides the inactive shortcut")
		}
		// the version loop: a failing Check is recorded (no skip)
		chk := calls(rs, semverCheck)
		if len(chk) == 1 {
			_, f := cfgx.CallCondEdges(chk[0])
			l := cfgx.LoopOf(chk[0].Block())
			var rec2 ssa.CallInstruction
			for _, ap := range calls(rs, "builtin.append") {
				if r, _ := cfgx.ReachableFromEdges(f, ap, cfgx.BackEdges(rs), nil); r && l != nil && l[ap.Block()] {
					rec2 = ap
				}
			}
			good := rec2 != nil && l != nil
			if good {
				r, _ := cfgx.ReachesAvoidingBlocks(f, cfgx.LoopHeader(l), map[*ssa.BasicBlock]bool{rec2.Block(): true}, nil, nil)
				good = !r
			}
			c.R.Check(good, load.FuncName(rs)+": failing constraint recorded", c.pos(chk[0].Pos()), "a dependency whose installed version fails its constraint is recorded as invalid", "a failing constraint check is not recorded")
			// digest constraint compared directly; mismatch returns error
			c.R.Check(len(calls(rs, "github.com/google/go-containerregistry/pkg/v1.NewHash")) == 1, load.FuncName(rs)+": digest constraints", c.pos(rs.Pos()), "digest constraints are recognised", "digest constraints are not handled")
		} else {
			c.R.Unknown(load.FuncName(rs)+": Check", c.pos(rs.Pos()), "expected one constraint Check")
		}
	}

	c.R.Rule("R17.8", "AddOrUpdateNodes replaces a known node: the full node (with its neighbours) overwrites the placeholder a parent implied", 2,
		"a revision whose node was first implied by a parent would trace no neighbours of its own: Resolve reports its dependencies satisfied although a transitive dependency is missing from the lock")
	for _, typ := range []string{"MapDag", "MapUpgradingDag"} {
		au := c.method(pkgDag, typ, "AddOrUpdateNodes")
		if au == nil {
			continue
		}
		var store *ssa.MapUpdate
		for _, b := range au.Blocks {
			for _, in := range b.Instrs {
				if mu, ok := in.(*ssa.MapUpdate); ok && flow.Default.Any(mu.Map, func(v ssa.Value) bool { return isFieldSel(v, "dag."+typ, "nodes") }) {
					store = mu
				}
			}
		}
		if store == nil {
			c.R.Bad(load.FuncName(au)+": overwrites", c.pos(au.Pos()), "AddOrUpdateNodes never stores the supplied node over an existing one")
			continue
		}
		l := cfgx.LoopOf(store.Block())
		by := true
		var w []string
		if l != nil {
			by, w = cfgx.LoopBypass(l, map[*ssa.BasicBlock]bool{store.Block(): true}, nil, c.posf())
		}
		isRanged := flow.Strict.Any(store.Value, func(v ssa.Value) bool { _, ok := v.(*ssa.Range); return ok }) || flow.Strict.Any(store.Value, func(v ssa.Value) bool {
			ia, ok := v.(*ssa.IndexAddr)
			return ok && flow.Root(ia.X) == ssa.Value(au.Params[1])
		})
		c.R.Check(!by && isRanged, load.FuncName(au)+": every supplied node is stored", c.pos(store.Pos()), "each supplied node is written to the graph, known or not", "a supplied node can be left out (an existing entry is kept)", w...)
	}

	c.R.Rule("R17.6", "sibling DAGs: DFS stack marking, back-edge error, full Sort, missing-node error", 8, "a dependency cycle would go undetected by one of the two DAG implementations")
	for _, typ := range []string{"MapDag", "MapUpgradingDag"} {
		vis := c.method(pkgDag, typ, "visit")
		srt := c.method(pkgDag, typ, "Sort")
		trc := c.method(pkgDag, typ, "traceNode")
		if vis != nil {
			stack := ssa.Value(vis.Params[3])
			setT, setF := false, false
			for _, b := range vis.Blocks {
				for _, in := range b.Instrs {
					if mu, ok := in.(*ssa.MapUpdate); ok && mu.Map == stack {
						if v, ok := cfgx.ConstBool(mu.Value); ok {
							if v && mu.Key == ssa.Value(vis.Params[1]) && b == vis.Blocks[0] {
								setT = true
							}
							if !v {
								setF = true
							}
						}
					}
				}
			}
			c.R.Check(setT && setF, load.FuncName(vis)+": marks the stack", c.pos(vis.Pos()), "stack[name] is set on entry and cleared on exit", "the DFS stack is not marked on entry / cleared on exit")
			okBack := false
			for _, b := range vis.Blocks {
				for _, in := range b.Instrs {
					if lk, ok := in.(*ssa.Lookup); ok && lk.X == stack && !lk.CommaOk {
						t, _ := cfgx.CondEdges(lk)
						rets := cfgx.ReturnsReachable(t, cfgx.BackEdges(vis))
						if len(rets) >= 1 {
							okBack = true
							for _, r := range rets {
								if nonNilError(r) == "nil" {
									okBack = false
								}
							}
						}
						// only consulted for already visited nodes, i.e. on the else branch of !visited
					}
				}
			}
			c.R.Check(okBack, load.FuncName(vis)+": back edge is an error", c.pos(vis.Pos()), "a neighbour that is on the DFS stack returns an error", "a neighbour on the DFS stack does not produce an error: cycles go undetected")
			// recursion error propagates
			for _, x := range calls(vis, "(*"+xp+pkgDag+"."+typ+").visit") {
				ev := cfgx.ErrEvents(x)
				rets := cfgx.ReturnsReachable(ev.Fail, append(ev.OK, cfgx.BackEdges(vis)...))
				good := len(rets) > 0
				for _, r := range rets {
					if nonNilError(r) == "nil" {
						good = false
					}
				}
				c.R.Check(good, site(x)+" propagates", c.pos(x.Pos()), "an error from a deeper visit is returned", "a cycle found deeper in the DFS is swallowed")
				// the loop over neighbours has no other early exit
			}
			if l := anyLoop(vis); l != nil {
				by, _ := cfgx.LoopBypass(l, nil, nil, nil)
				_ = by
			}
		}
		if srt != nil {
			vc := calls(srt, "(*"+xp+pkgDag+"."+typ+").visit")
			if c.expect("visit", len(vc), 1, srt) {
				l := cfgx.LoopOf(vc[0].Block())
				good := l != nil
				if good {
					// skipped only for visited nodes
					var visited []cfgx.Edge
					for _, b := range srt.Blocks {
						for _, in := range b.Instrs {
							// the map consulted is the one visit() marks (its visited argument)
							if lk, ok := in.(*ssa.Lookup); ok && isBoolMap(lk.X.Type()) && len(cfgx.CallArgs(vc[0])) >= 4 && lk.X == cfgx.CallArgs(vc[0])[3] {
								t, _ := cfgx.CondEdges(lk)
								visited = append(visited, t...)
							}
						}
					}
					by, _ := cfgx.LoopBypass(l, map[*ssa.BasicBlock]bool{vc[0].Block(): true}, visited, nil)
					good = !by
					for _, r := range cfgx.ReturnsFromLoop(l) {
						if nonNilError(r) == "nil" {
							good = false
						}
					}
				}
				c.R.Check(good, load.FuncName(srt)+": visits every unvisited node", c.pos(vc[0].Pos()), "every node not yet visited is visited; errors abort", "Sort can skip an unvisited node or swallow a cycle error")
			}
		}
		if trc != nil {
			// nil node => error
			good := false
			for _, b := range trc.Blocks {
				for _, in := range b.Instrs {
					if bo, ok := in.(*ssa.BinOp); ok && isEqOrNeq(bo) && cfgx.IsNilConst(bo.Y) {
						t, _ := eqEdges(bo)
						rets := cfgx.ReturnsReachable(t, nil)
						if len(rets) == 1 && nonNilError(rets[0]) != "nil" {
							good = true
						}
					}
				}
			}
			// every neighbour is traced: the only skip is "already in the tree", no early success
			rc := calls(trc, "(*"+xp+pkgDag+"."+typ+").traceNode")
			if len(rc) == 1 && cfgx.LoopOf(rc[0].Block()) != nil {
				l := cfgx.LoopOf(rc[0].Block())
				var inTree []cfgx.Edge
				for _, b := range trc.Blocks {
					for _, in := range b.Instrs {
						if lk, ok := in.(*ssa.Lookup); ok && lk.CommaOk && lk.X == ssa.Value(trc.Params[2]) {
							if okv := extractOf(lk, 1); okv != nil {
								t, _ := cfgx.CondEdges(okv)
								inTree = append(inTree, t...)
							}
						}
					}
				}
				by, w := cfgx.LoopBypass(l, map[*ssa.BasicBlock]bool{rc[0].Block(): true}, inTree, c.posf())
				early := false
				for _, r := range cfgx.ReturnsFromLoop(l) {
					if nonNilError(r) == "nil" {
						early = true
					}
				}
				c.R.Check(!by && !early && len(inTree) > 0, load.FuncName(trc)+": traces every neighbour", c.pos(rc[0].Pos()), "every neighbour not yet in the tree is traced; no early success", "tracing can stop (or skip a neighbour) before every neighbour was followed: a missing transitive dependency goes unnoticed", w...)
				ev := cfgx.ErrEvents(rc[0])
				good2 := len(ev.Fail) > 0
				for _, r := range cfgx.ReturnsReachable(ev.Fail, append(ev.OK, cfgx.BackEdges(trc)...)) {
					if nonNilError(r) == "nil" {
						good2 = false
					}
				}
				c.R.Check(good2, site(rc[0])+" propagates", c.pos(rc[0].Pos()), "an error from a deeper trace is returned", "an error found deeper in the trace is swallowed")
			} else {
				c.R.Unknown(load.FuncName(trc)+": recursion", c.pos(trc.Pos()), "expected one recursive traceNode call inside the neighbours loop")
			}
			c.R.Check(good, load.FuncName(trc)+": missing node is an error", c.pos(trc.Pos()), "tracing through a node that is not in the graph fails", "a missing node is silently ignored when tracing transitive dependencies")
		}
	}

	c.R.Rule("R17.7", "upgrading DAG: parent constraints are read after the edge was added", 1, "an already satisfied parent's constraint is dropped and an upgrade violating it is chosen")
	if ae := c.method(pkgDag, "MapUpgradingDag", "AddEdge"); ae != nil {
		to := ssa.Value(ae.Params[2])
		var addN, gpc []ssa.CallInstruction
		for _, x := range cfgx.Calls(ae, nil) {
			n := cfgx.CalleeName(x)
			if strings.HasSuffix(n, ".AddNeighbors") && len(cfgx.CallArgs(x)) > 0 {
				addN = append(addN, x)
			}
			if strings.HasSuffix(n, ".GetParentConstraints") && cfgx.Receiver(x) == to {
				gpc = append(gpc, x)
			}
		}
		if len(gpc) == 0 || len(addN) == 0 {
			c.R.Unknown(load.FuncName(ae)+": shape", c.pos(ae.Pos()), "expected AddNeighbors(to) and to.GetParentConstraints()")
		}
		for _, g := range gpc {
			good := false
			through := map[*ssa.BasicBlock]bool{}
			for _, a := range addN {
				if a.Block() == g.Block() {
					if cfgx.Before(a, g) {
						good = true
					}
				} else {
					through[a.Block()] = true
				}
			}
			if !good {
				var starts []cfgx.Edge
				for i := range ae.Blocks[0].Succs {
					starts = append(starts, cfgx.Edge{From: ae.Blocks[0], Idx: i})
				}
				r, _ := cfgx.ReachesAvoidingBlocks(starts, g.Block(), through, nil, nil)
				good = !r && len(through) > 0 && g.Block() != ae.Blocks[0]
			}
			c.R.Check(good, site(g)+" after-AddNeighbors", c.pos(g.Pos()), "the parent constraints are read after from.AddNeighbors(to) recorded this parent", "to.GetParentConstraints() is read before the edge (and with it this parent's constraint) was added")
		}
	}
	c.R.Rule("R17.9", "upgrading DAG: an edge never goes in without the parent's constraints reaching the node", 2,
		"the constraints of a parent that is satisfied today never reach the dependency: a later upgrade picks a version that violates them")
	if ae := c.method("internal/dag", "MapUpgradingDag", "AddEdge"); ae != nil {
		to := ssa.Value(ae.Params[2])
		through := map[*ssa.BasicBlock]bool{}
		for _, x := range cfgx.Calls(ae, func(ci ssa.CallInstruction) bool {
			return strings.HasSuffix(cfgx.CalleeName(ci), ".AddParentConstraints")
		}) {
			fromTo := false
			for _, a := range cfgx.CallArgs(x) {
				if flow.Default.Any(a, func(v ssa.Value) bool {
					ci, ok := v.(ssa.CallInstruction)
					return ok && strings.HasSuffix(cfgx.CalleeName(ci), ".GetParentConstraints") && flow.Root(underIface(cfgx.Receiver(ci))) == to
				}) {
					fromTo = true
				}
			}
			c.R.Check(fromTo, site(x)+" parent constraints of the edge", c.pos(x.Pos()), "the constraints handed on are those of the edge's target as declared by this parent", "AddParentConstraints is not given to.GetParentConstraints()")
			if fromTo {
				through[x.Block()] = true
			}
		}
		n := 0
		for _, x := range cfgx.Calls(ae, func(ci ssa.CallInstruction) bool { return strings.HasSuffix(cfgx.CalleeName(ci), ".AddNeighbors") }) {
			n++
			if through[x.Block()] {
				c.R.OK(site(x)+" with constraints", c.pos(x.Pos()), "the constraints are handed on in the same block")
				continue
			}
			// a way in without them, and a way out without them
			in, _ := cfgx.ReachesAvoidingBlocks(entryEdges(ae), x.Block(), through, nil, nil)
			var outE []cfgx.Edge
			for k := range x.Block().Succs {
				outE = append(outE, cfgx.Edge{From: x.Block(), Idx: k})
			}
			out := false
			var w []string
			for _, b := range ae.Blocks {
				if r, ok := b.Instrs[len(b.Instrs)-1].(*ssa.Return); ok {
					if len(outE) == 0 && b == x.Block() {
						out = true
					}
					if rr, ww := cfgx.ReachesAvoidingBlocks(outE, r.Block(), through, nil, c.posf()); rr {
						out, w = true, ww
					}
				}
			}
			c.R.Check(!(in && out), site(x)+" with constraints", c.pos(x.Pos()), "every path that records the edge also hands the parent's constraints to the node", "an edge can be recorded without the parent's constraints reaching the node", w...)
		}
		if n == 0 {
			c.R.Unknown(load.FuncName(ae)+": AddNeighbors", c.pos(ae.Pos()), "no AddNeighbors call found")
		}
	}

}

func isEmptyStringConst(v ssa.Value) bool {
	s, ok := cfgx.ConstString(v)
	return ok && s == ""
}

func edgeIn(e cfgx.Edge, es []cfgx.Edge) bool {
	for _, x := range es {
		if x == e {
			return true
		}
	}
	return false
}

// reachesOnlyVia: the source block of e is reached (within its function) only across one of es.
func reachesOnlyVia(e cfgx.Edge, es []cfgx.Edge) bool {
	if len(e.From.Instrs) == 0 {
		return false
	}
	ok, _ := cfgx.MustCross(e.From.Instrs[0], es, nil)
	// MustCross from entry is too strong inside loops; accept when e.From is the direct target of one of es
	for _, x := range es {
		if x.To() == e.From {
			return true
		}
	}
	return ok
}

func outermostLoopOf(fn *ssa.Function, b *ssa.BasicBlock) map[*ssa.BasicBlock]bool {
	var best map[*ssa.BasicBlock]bool
	for _, l := range cfgx.Loops(fn) {
		if l[b] && (best == nil || len(l) > len(best)) {
			best = l
		}
	}
	return best
}

func anyLoop(fn *ssa.Function) map[*ssa.BasicBlock]bool {
	for _, l := range cfgx.Loops(fn) {
		return l
	}
	return nil
}
