package rules

import (
	"go/token"
	"strings"

	"golang.org/x/tools/go/ssa"

	"xpcheck/internal/cfgx"
	"xpcheck/internal/flow"
	"xpcheck/internal/load"
	"xpcheck/internal/tables"
)

func init() {
	register(&Property{
		ID:  "C09",
		Run: c09,
		Explanation: "Decides filtering, gating and provenance of connection secrets: (R9.1) both publishers store a key only on the 'filter empty or key allowed' edge, with the filter map built from every element of the configured filter; (R9.2) nothing is written unless the owner asks for a secret; (R9.3) the XR secret Apply carries ConnectionSecretMustBeControllableBy(owner UID) and an AllowUpdateIf whose comparison is on .Data with empty/nil treated equal; " +
			"(R9.4) every publisher built by the XRD controller gets d.GetConnectionSecretKeys(); (R9.5) the details published are res.ConnectionDetails of this reconcile's Compose; (R9.6) the claim secret is written only on the edge where the fetched source secret's controller UID equals the XR's, its data is exactly the source's, guarded and no-op-suppressed, and nothing happens when either side has no secret reference; " +
			"(R9.7) extraction dispatches on every ConnectionDetailType and dereferences its optional pointers only after their nil test. R9.3 also requires that the no-op comparison has the current object on one side and the desired one on the other; R9.8 also requires that ExtractConnection reads the composed resource whose secret was fetched in the same iteration. (R9.9) fromFieldPath returns a value with a nil error only behind the unfiltered success edge of a field read. R9.1 also requires that the allow map is filled before it is consulted.",
		NotDecided:  []string{"value-level correctness of extraction", "contents of pre-existing secrets", "API-side apply semantics"},
		Assumptions: []string{"the runtime Applicator honours its options", "cmp.Equal with cmpopts.EquateEmpty compares nil and empty maps as equal"},
	})
}

// c09filter checks a publisher's filter loop: the store of a key into the
// published data needs the edge "the filter is empty" or "the filter lists the
// key". Membership idioms: a lookup in a map[string]bool filled from every
// element of the filter, or slices.Contains(filter, key).
func c09filter(c *Ctx, fn *ssa.Function, dataType string) {
	var store *ssa.MapUpdate
	var mset *ssa.MapUpdate
	for _, b := range fn.Blocks {
		for _, in := range b.Instrs {
			if mu, ok := in.(*ssa.MapUpdate); ok {
				if isBoolMap(mu.Map.Type()) {
					mset = mu
				} else if strings.HasSuffix(mu.Map.Type().String(), dataType) {
					store = mu
				}
			}
		}
	}
	// a two-stage form: the details are first filtered into a local map, which is then published
	// (copied entry by entry, or handed on whole): the filter condition belongs to the first store
	var others []*ssa.MapUpdate
	for _, b := range fn.Blocks {
		for _, in := range b.Instrs {
			if mu, ok := in.(*ssa.MapUpdate); ok && !isBoolMap(mu.Map.Type()) && mu != store {
				others = append(others, mu)
			}
		}
	}
	if store == nil && len(others) == 1 {
		store, others = others[0], nil
	}
	for hop := 0; hop < 2 && store != nil; hop++ {
		var src ssa.Value
		if rg := nearRange(store.Key); rg != nil {
			src = rg.X
		}
		if src == nil {
			break
		}
		moved := false
		for _, mu := range others {
			if sole(mu.Map) == sole(src) || flow.Root(mu.Map) == flow.Root(src) {
				if r1, r2 := nearRange(store.Key), nearRange(store.Value); r1 != nil && r1 == r2 { // the copy keeps key and value together
					store, moved = mu, true
				}
			}
		}
		if !moved {
			break
		}
	}
	isFilter := func(v ssa.Value) bool {
		return flow.Default.Any(v, func(x ssa.Value) bool {
			return isFieldSel(x, "composite.APIFilteredSecretPublisher", "filter") || isFieldSel(x, "composite.SecretStoreConnectionPublisher", "filter")
		})
	}
	var contains, setHas []ssa.CallInstruction
	for _, x := range cfgx.Calls(fn, nil) {
		n := cfgx.CalleeName(x)
		if i := strings.Index(n, "["); i > 0 {
			n = n[:i]
		}
		if n == "slices.Contains" && len(cfgx.CallArgs(x)) == 2 && isFilter(cfgx.CallArgs(x)[0]) {
			contains = append(contains, x)
		}
		// sets.New(filter...).Has(key)
		if full := cfgx.CalleeName(x); strings.Contains(full, "util/sets.Set") && strings.HasSuffix(full, ").Has") {
			if r := cfgx.Receiver(x); r != nil && flow.Default.Any(r, func(v ssa.Value) bool {
				ci, ok := v.(*ssa.Call)
				if !ok {
					return false
				}
				cn := cfgx.CalleeName(ci)
				if i := strings.Index(cn, "["); i > 0 {
					cn = cn[:i]
				}
				return strings.HasSuffix(cn, "sets.New") && len(ci.Call.Args) == 1 && isFilter(ci.Call.Args[0])
			}) {
				setHas = append(setHas, x)
			}
		}
	}
	if store == nil || (mset == nil && len(contains) == 0 && len(setHas) == 0) {
		c.R.Unknown(load.FuncName(fn)+": filter shape", c.pos(fn.Pos()), "expected the data store and a membership test of the configured filter (allow map or slices.Contains)")
		return
	}
	var allow []cfgx.Edge
	for _, lc := range cfgx.LenCmps(fn) {
		ofAllowMap := mset != nil && (flow.Root(lc.Of) == flow.Root(mset.Map) || lc.Of == mset.Map)
		if ofAllowMap || isFilter(lc.Of) {
			t, f := lc.Edges()
			if lc.Eval(0) && !lc.Eval(1) {
				allow = append(allow, t...)
			} else if !lc.Eval(0) && lc.Eval(1) {
				allow = append(allow, f...)
			}
		}
	}
	if mset != nil {
		for _, b := range fn.Blocks {
			for _, in := range b.Instrs {
				if lk, ok := in.(*ssa.Lookup); ok && !lk.CommaOk && sole(lk.X) == sole(mset.Map) {
					t, _ := cfgx.CondEdges(lk)
					allow = append(allow, t...)
					c.R.Check(sameRange(lk.Index, store.Key), load.FuncName(fn)+": allow lookup key", c.pos(lk.Pos()), "the key looked up is the key stored", "the allow-list is consulted with a different key than the one stored")
				}
			}
		}
	}
	for _, x := range setHas {
		t, _ := cfgx.CallCondEdges(x)
		allow = append(allow, t...)
		c.R.Check(sameRange(cfgx.CallArgs(x)[0], store.Key), load.FuncName(fn)+": allow lookup key", c.pos(x.Pos()), "the key tested is the key stored", "the filter is consulted with a different key than the one stored")
		// len(set)==0 / set.Len()==0 edges
		for _, cf := range findCmps(fn, true, func(a, b ssa.Value) bool {
			z, ok := cfgx.ConstInt(b)
			if !ok || z != 0 {
				return false
			}
			if ci, ok := a.(*ssa.Call); ok {
				if bn, isB := ci.Call.Value.(*ssa.Builtin); isB && bn.Name() == "len" {
					return true
				}
				return strings.Contains(cfgx.CalleeName(ci), "util/sets.Set") && strings.HasSuffix(cfgx.CalleeName(ci), ").Len")
			}
			return false
		}) {
			allow = append(allow, cf.Holds...)
		}
	}
	for _, x := range contains {
		t, _ := cfgx.CallCondEdges(x)
		allow = append(allow, t...)
		c.R.Check(sameRange(cfgx.CallArgs(x)[1], store.Key), load.FuncName(fn)+": allow lookup key", c.pos(x.Pos()), "the key tested is the key stored", "the filter is consulted with a different key than the one stored")
	}
	c.requireCross(load.FuncName(fn)+": data[key]= only if allowed", store, allow, "len(filter)==0 or the filter lists the key")
	c.R.Check(sameRange(store.Key, store.Value), load.FuncName(fn)+": stores the detail's own value", c.pos(store.Pos()), "key and value come from the same connection detail", "the value stored does not belong to the key")
	if mset == nil {
		c.R.OK(load.FuncName(fn)+": allow map = the configured filter", c.pos(store.Pos()), "membership is tested on the configured filter itself")
		return
	}
	// … before it is consulted
	c.R.Check(cfgx.InstrReaches(mset, store, nil) && !cfgx.InstrReaches(store, mset, nil), load.FuncName(fn)+": allow map complete before it is consulted", c.pos(mset.Pos()), "the allow map is filled before the details are filtered", "the allow map is filled after (or while) the details are filtered: it is still empty when consulted, and an empty filter allows every key")
	// the allow map is filled from every element of the filter field
	fromFilter := flow.Strict.Any(mset.Key, func(v ssa.Value) bool {
		_, p, _ := flow.AccessPathC(v)
		return strings.HasSuffix(p, "filter[]") || p == "filter"
	})
	if !fromFilter {
		fromFilter = isFilter(mset.Key)
	}
	l := cfgx.LoopOf(mset.Block())
	by := true
	if l != nil {
		by, _ = cfgx.LoopBypass(l, map[*ssa.BasicBlock]bool{mset.Block(): true}, nil, nil)
	}
	v, isC := cfgx.ConstBool(mset.Value)
	c.R.Check(fromFilter && !by && isC && v, load.FuncName(fn)+": allow map = the configured filter", c.pos(mset.Pos()), "every configured key is allowed, nothing else", "the allow map is not exactly the configured filter")
}

func c09(c *Ctx) {
	c.R.Rule("R9.1", "filtered publish: a key is stored only if the filter is empty or lists it", 8,
		"keys the XRD does not allow would be published in the XR's connection secret")
	pub := c.method(pkgComposite, "APIFilteredSecretPublisher", "PublishConnection")
	ssp := c.method(pkgComposite, "SecretStoreConnectionPublisher", "PublishConnection")
	if pub != nil {
		c09filter(c, pub, "map[string][]byte")
	}
	if ssp != nil {
		c09filter(c, ssp, "map[string][]byte")
	}

	c.R.Rule("R9.2", "written only if the owner asks for a secret", 2, "a secret would be created for an XR that did not ask for one")
	if pub != nil {
		ap := calls(pub, applicatorApply)
		if c.expect("Apply", len(ap), 1, pub) {
			c.requireCross(site(ap[0])+" wants-secret", ap[0], nilTestEdges(pub, "GetWriteConnectionSecretToReference", false), "o.GetWriteConnectionSecretToReference() != nil")
		}
	}
	if ssp != nil {
		var del ssa.CallInstruction
		for _, x := range cfgx.Calls(ssp, nil) {
			if strings.HasSuffix(cfgx.CalleeName(x), "managed.ConnectionPublisher).PublishConnection") {
				del = x
			}
		}
		if del == nil {
			c.R.Unknown(load.FuncName(ssp)+": delegate", c.pos(ssp.Pos()), "delegate PublishConnection not found")
		} else {
			c.requireCross(site(del)+" wants-details", del, nilTestEdges(ssp, "GetPublishConnectionDetailsTo", false), "o.GetPublishConnectionDetailsTo() != nil")
			// the delegate receives the filtered data, not the raw details
			c.R.Check(stripConv(cfgx.CallArgs(del)[2]) != ssa.Value(ssp.Params[3]), site(del)+" filtered-data", c.pos(del.Pos()), "the delegate gets the filtered map", "the unfiltered connection details are handed to the secret store")
		}
	}

	c.R.Rule("R9.3", "XR secret Apply: owner guard and no-op suppression on .Data (nil == empty)", 3, "another owner's secret would be overwritten, or identical data rewritten on every reconcile")
	checkSecretApply := func(fn *ssa.Function, ownerParam int) {
		ap := calls(fn, applicatorApply)
		if !c.expect("Apply", len(ap), 1, fn) {
			return
		}
		g, uidOf := controlGuard(ap[0])
		c.R.Check(g != nil && cfgx.CalleeName(g) == connSecretMustBeControlled && uidOf == ssa.Value(fn.Params[ownerParam]), site(ap[0])+" owner-guard", c.pos(ap[0].Pos()), "ConnectionSecretMustBeControllableBy(owner.GetUID())", "the secret Apply is not guarded by ConnectionSecretMustBeControllableBy(owner.GetUID())")
		var au ssa.CallInstruction
		for _, o := range applyOptions(ap[0]) {
			if cfgx.CalleeName(o) == allowUpdateIf {
				au = o
			}
		}
		if au == nil {
			c.R.Bad(site(ap[0])+" no-op-suppressed", c.pos(ap[0].Pos()), "no AllowUpdateIf option: identical data is rewritten")
			return
		}
		var pred *ssa.Function
		switch x := cfgx.CallArgs(au)[0].(type) {
		case *ssa.Function:
			pred = x
		case *ssa.MakeClosure:
			pred = x.Fn.(*ssa.Function)
		}
		good := false
		why := "the AllowUpdateIf predicate is not a recognisable comparison of .Data"
		if pred != nil {
			for _, x := range cfgx.Calls(pred, nil) {
				switch cfgx.CalleeName(x) {
				case "github.com/google/go-cmp/cmp.Equal":
					a := x.Common().Args
					onData := func(v ssa.Value) bool {
						return flow.Strict.Any(v, func(y ssa.Value) bool { return isFieldSel(y, "core/v1.Secret", "Data") })
					}
					empties := len(a) > 2 && flow.Default.AnyCall(a[2], "github.com/google/go-cmp/cmp/cmpopts.EquateEmpty")
					paramOf := func(v ssa.Value) *ssa.Parameter {
						var p *ssa.Parameter
						flow.Strict.Any(v, func(y ssa.Value) bool {
							if q, ok := y.(*ssa.Parameter); ok {
								p = q
							}
							return false
						})
						return p
					}
					if p0, p1 := paramOf(a[0]), paramOf(a[1]); onData(a[0]) && onData(a[1]) && (p0 == nil || p1 == nil || p0 == p1) {
						why = "the data comparison does not compare the current with the desired object (both sides derive from the same one): a changed source is never propagated"
					} else if onData(a[0]) && onData(a[1]) && empties {
						good = true
					} else if onData(a[0]) && onData(a[1]) {
						why = "the data comparison distinguishes nil from empty maps: an empty secret is rewritten on every reconcile"
					}
				case "reflect.DeepEqual", "bytes.Equal":
					why = "the data comparison distinguishes nil from empty maps (reflect.DeepEqual): identical data is rewritten"
				}
			}
			// the predicate allows the update when NOT equal
		}
		c.R.Check(good, site(ap[0])+" no-op-suppressed", c.pos(au.Pos()), "AllowUpdateIf(!cmp.Equal(current.Data, desired.Data, EquateEmpty))", why)
		// IsNotAllowed => returns (false, nil)
		for _, na := range calls(fn, xprt+"resource.IsNotAllowed") {
			t, _ := cfgx.CallCondEdges(na)
			rets := cfgx.ReturnsReachable(t, nil)
			okr := len(rets) > 0
			for _, r := range rets {
				if b, isC := cfgx.ConstBool(cfgx.ReturnValue(r, 0)); !isC || b || nonNilError(r) != "nil" {
					okr = false
				}
			}
			c.R.Check(okr, site(na)+" no-op-not-published", c.pos(na.Pos()), "a suppressed no-op reports published=false, no error", "a suppressed no-op update is reported as published or as an error")
		}
	}
	if pub != nil {
		checkSecretApply(pub, 2)
	}

	c.R.Rule("R9.4", "the filter is the XRD's: publishers built in the XRD controller get d.GetConnectionSecretKeys()", 3, "an XR's secret would be filtered by the wrong key list (or not at all)")
	n := 0
	for _, f := range c.P.PkgFunctions("internal/controller/apiextensions/definition") {
		for _, x := range calls(f, xp+pkgComposite+".NewAPIFilteredSecretPublisher", xp+pkgComposite+".NewSecretStoreConnectionPublisher") {
			n++
			c.R.Analysed(load.FuncName(f))
			ci, ok := x.Common().Args[1].(*ssa.Call)
			c.R.Check(ok && strings.HasSuffix(cfgx.CalleeName(ci), "v1.CompositeResourceDefinition).GetConnectionSecretKeys"), site(x)+" xrd-keys", c.pos(x.Pos()), "filter = d.GetConnectionSecretKeys()", "a connection publisher is built with a filter other than the XRD's connectionSecretKeys")
		}
	}
	if n < 3 {
		c.R.Unknown("definition: publisher constructions", "", "expected three publisher constructions")
	}

	c.R.Rule("R9.5", "the details published are this reconcile's Compose result", 1, "stale or foreign details would be published")
	if rec := c.method(pkgComposite, "Reconciler", "Reconcile"); rec != nil {
		var pc ssa.CallInstruction
		for _, x := range cfgx.Calls(rec, nil) {
			if strings.HasSuffix(cfgx.CalleeName(x), "managed.ConnectionPublisher).PublishConnection") {
				pc = x
			}
		}
		comp := calls(rec, "("+xp+pkgComposite+".Composer).Compose")
		if pc == nil || len(comp) != 1 {
			c.R.Unknown(load.FuncName(rec)+": PublishConnection", c.pos(rec.Pos()), "not found")
		} else {
			a := cfgx.CallArgs(pc)
			r, p, ok := flow.AccessPathC(a[2])
			res := cfgx.TupleResult(comp[0], 0)
			fromRes := ok && p == "ConnectionDetails" && (r == res || flow.Strict.Any(r, func(v ssa.Value) bool { return v == res }))
			c.R.Check(fromRes, site(pc)+" details", c.pos(pc.Pos()), "publishes res.ConnectionDetails of this reconcile's Compose", "the details published are not res.ConnectionDetails of this reconcile")
			c.R.Check(flow.Root(underIface(a[1])) == flow.Root(underIface(cfgx.CallArgs(comp[0])[1])), site(pc)+" owner", c.pos(pc.Pos()), "for the XR that was composed", "the secret owner is not the composed XR")
			c.requireCross(site(pc)+" after-compose", pc, okEdges(comp[0]), "ok(Compose)")
		}
	}

	c.R.Rule("R9.8", "P&T: connection details are extracted only from resources this reconcile applied: a failed apply that does not abort clears the slot the observe loop reads", 1,
		"the applicator loads the existing object into cd before its guard refuses it: observing that slot publishes another owner's connection details in this XR's secret")
	if _, ptc := c.composerMethods(); ptc != nil {
		s := findComposerSites(ptc)
		if len(s.creates) == 1 {
			cr := s.creates[0]
			loop := cfgx.LoopOf(cr.Block())
			through := map[*ssa.BasicBlock]bool{}
			for _, b := range ptc.Blocks {
				for _, in := range b.Instrs {
					if st, ok := in.(*ssa.Store); ok {
						if ia, ok := st.Addr.(*ssa.IndexAddr); ok && strings.HasSuffix(ia.X.Type().String(), "[]"+tComposedIf) && cfgx.IsNilConst(st.Val) {
							through[b] = true
						}
					}
				}
			}
			if loop == nil || len(failEdges(cr)) == 0 {
				c.R.Unknown(load.FuncName(ptc)+": apply loop", c.pos(cr.Pos()), "the apply of composed resources is not in a loop or its error is not tested")
			} else {
				r, w := cfgx.ReachesAvoidingBlocks(failEdges(cr), cfgx.LoopHeader(loop), through, nil, c.posf())
				c.R.Check(!r, load.FuncName(ptc)+": failed apply clears cds[i]", c.pos(cr.Pos()), "after a failed apply the loop continues only past cds[i] = nil", "a failed apply can continue to the next resource with cds[i] still set: the observe loop then extracts connection details from an object this XR did not apply", w...)
			}
		} else {
			c.R.Unknown(load.FuncName(ptc)+": apply site", c.pos(ptc.Pos()), "expected one create-capable write")
		}
		// … and from those resources: the object handed to ExtractConnection is the composed
		// resource whose connection secret was fetched, never the XR
		xrP := ssa.Value(ptc.Params[2])
		fcs := cfgx.Calls(ptc, func(ci ssa.CallInstruction) bool {
			return strings.HasSuffix(cfgx.CalleeName(ci), "ConnectionDetailsFetcher).FetchConnection")
		})
		for _, ex := range cfgx.Calls(ptc, func(ci ssa.CallInstruction) bool {
			return strings.HasSuffix(cfgx.CalleeName(ci), "ConnectionDetailsExtractor).ExtractConnection")
		}) {
			obj := flow.Root(underIface(cfgx.CallArgs(ex)[0]))
			same := false
			for _, f := range fcs {
				if a := cfgx.CallArgs(f); len(a) > 1 && flow.Root(underIface(a[1])) == obj && cfgx.LoopOf(f.Block()) != nil && cfgx.ReachesInIteration(f, ex) {
					same = true
				}
			}
			c.R.Check(obj != xrP && same, site(ex)+" from the composed resource", c.pos(ex.Pos()), "details are extracted from the composed resource whose secret was fetched in this iteration", "connection details are not extracted from the composed resource of this iteration (the XR or another object is read): values the composition did not produce reach the secret")
		}
	}

	c.R.Rule("R9.6", "claim secret: exact copy of the bound XR's secret, only if that secret is controlled by the XR", 7, "a claim could read a secret its XR does not own, or get altered data")
	if pc := c.method(pkgClaim, "APIConnectionPropagator", "PropagateConnection"); pc != nil {
		ap := calls(pc, applicatorApply)
		fcs := foreignControllerTests(pc)
		gets := calls(pc, clientGet)
		if len(ap) == 1 && len(gets) == 1 && len(fcs) == 0 {
			// the secret is fetched and applied, and nothing in between asks who controls it
			c.R.Bad(site(ap[0])+" source-controlled-by-xr", c.pos(ap[0].Pos()), "the source secret is copied to the claim without any test that its controller is the XR (GetControllerOf(secret).UID == from.GetUID()): a secret the XR merely could control, or that nobody controls, is propagated")
		} else if len(ap) != 1 || len(fcs) != 1 || len(gets) != 1 {
			c.R.Unknown(load.FuncName(pc)+": shape", c.pos(pc.Pos()), "expected Get(source secret), one explicit controller-UID test on it, one Apply")
		} else {
			c.requireCross(site(ap[0])+" source-controlled-by-xr", ap[0], fcs[0].SameUID, "controller UID of the source secret == from.GetUID()")
			c.R.Check(fcs[0].Owner == ssa.Value(pc.Params[3]) && fcs[0].Of == flow.Root(underIface(cfgx.CallArgs(gets[0])[2])), load.FuncName(pc)+": test is (source secret, from)", c.pos(fcs[0].Get.Pos()), "the fetched source secret is tested against the XR", "the controller test is not on the fetched source secret against the XR")
			// Data copied verbatim
			nData := 0
			for _, b := range pc.Blocks {
				for _, in := range b.Instrs {
					if st, ok := in.(*ssa.Store); ok && isFieldSel(st.Addr, "core/v1.Secret", "Data") {
						nData++
						r, p, ok := flow.AccessPathC(st.Val)
						src := flow.Root(underIface(cfgx.CallArgs(gets[0])[2]))
						if ok && r != src && (sole(r) == src || flow.Root(sole(r)) == src) {
							r = src // handed over through the result temporary of an inlined helper
						}
						// or a fresh map filled, entry by entry and without skipping, from
						// a range over the source secret's data
						if mm, isMake := sole(st.Val).(*ssa.MakeMap); isMake && !(ok && p == "Data" && r == src) {
							copied, n := true, 0
							for _, bb := range pc.Blocks {
								for _, in2 := range bb.Instrs {
									mu, isMU := in2.(*ssa.MapUpdate)
									if !isMU || sole(mu.Map) != ssa.Value(mm) {
										continue
									}
									n++
									fromSrc := false
									for x := range flow.Strict.Back(mu.Value) {
										if rg, isR := x.(*ssa.Range); isR {
											if rr, rp, _ := flow.AccessPathC(rg.X); rp == "Data" && rr == src {
												fromSrc = true
											}
										}
									}
									l := cfgx.LoopOf(mu.Block())
									by := true
									if l != nil {
										by, _ = cfgx.LoopBypass(l, map[*ssa.BasicBlock]bool{mu.Block(): true}, nil, nil)
									}
									if !fromSrc || !sameRange(mu.Key, mu.Value) || by {
										copied = false
									}
								}
							}
							if copied && n == 1 {
								r, p, ok = src, "Data", true
							}
						}
						c.R.Check(ok && p == "Data" && r == src, load.FuncName(pc)+": ts.Data = fs.Data", c.pos(st.Pos()), "the claim secret's data is the source secret's data", "the data written to the claim secret is not exactly the source secret's data")
					}
				}
			}
			if nData != 1 {
				c.R.Bad(load.FuncName(pc)+": data stores", c.pos(pc.Pos()), "expected exactly one store to the destination secret's Data")
			}
			checkSecretApply(pc, 2)
			// both sides must want a secret
			c.requireCross(site(gets[0])+" from-has-ref", gets[0], nilTestEdgesOn(pc, "GetWriteConnectionSecretToReference", pc.Params[3], false), "from.GetWriteConnectionSecretToReference() != nil")
			c.requireCross(site(gets[0])+" to-has-ref", gets[0], nilTestEdgesOn(pc, "GetWriteConnectionSecretToReference", pc.Params[2], false), "to.GetWriteConnectionSecretToReference() != nil")
			// the source read is the XR's referenced secret
			c.R.Check(flow.Default.Any(cfgx.CallArgs(gets[0])[1], func(v ssa.Value) bool {
				ci, ok := v.(*ssa.Call)
				return ok && strings.HasSuffix(cfgx.CalleeName(ci), ".GetWriteConnectionSecretToReference") && flow.Root(underIface(cfgx.Receiver(ci))) == ssa.Value(pc.Params[3])
			}), site(gets[0])+" reads-xr-secret", c.pos(gets[0].Pos()), "reads the secret the XR references", "the source secret read is not the one the XR references")
		}
	}

	// exact copy needs replace semantics: the propagator's applicator is the
	// updating one (a merge patch keeps keys the XR secret no longer has)
	if ctor := c.fn(pkgClaim, "NewAPIConnectionPropagator"); ctor != nil {
		good := false
		for _, b := range ctor.Blocks {
			for _, in := range b.Instrs {
				if st, ok := in.(*ssa.Store); ok && isFieldSel(st.Addr, "resource.ClientApplicator", "Applicator") {
					good = flow.Strict.AnyCall(st.Val, xprt+"resource.NewAPIUpdatingApplicator")
				}
			}
		}
		c.R.Check(good, load.FuncName(ctor)+": replace semantics", c.pos(ctor.Pos()), "the claim secret is written with the updating applicator (whole-object replace)", "the claim secret is not written with resource.NewAPIUpdatingApplicator: with merge-patch semantics keys removed from the XR's secret stay in the claim's secret (not an exact copy)")
	} else {
		c.R.Unknown("NewAPIConnectionPropagator", "", "constructor not found")
	}

	c.R.Rule("R9.9", "a FromFieldPath detail has a value only if the field was read", 1,
		"a field that is absent on the composed resource would be published as the literal null instead of being left out: a value the composition never produced")
	if ff := c.fn(pkgComposite, "fromFieldPath"); ff != nil {
		var okRead []cfgx.Edge
		n := 0
		for _, x := range cfgx.Calls(ff, nil) {
			if nm := cfgx.CalleeName(x); strings.HasSuffix(nm, "fieldpath.Paved).GetString") || strings.HasSuffix(nm, "fieldpath.Paved).GetValue") {
				n++
				okRead = append(okRead, cfgx.ErrEvents(x).RawOK...)
			}
		}
		if n == 0 {
			c.R.Unknown(load.FuncName(ff)+": reads", c.pos(ff.Pos()), "no fieldpath read found")
		}
		bad := ""
		for _, x := range cfgx.ErrorReturnsFrom(entryEdges(ff), okRead) {
			if !x.NonNil {
				bad = c.pos(x.At.Pos())
			}
		}
		c.R.Check(bad == "" && len(okRead) > 0, load.FuncName(ff)+": value only after a successful read", c.pos(ff.Pos()), "every return that can carry a nil error lies behind the unfiltered success edge of GetString/GetValue", "a value can be returned with a nil error although no read of the field succeeded (return at "+bad+")")
	}

	c.R.Rule("R9.7", "extraction dispatches on every ConnectionDetailType; optional pointers are dereferenced after their nil test", 4, "an extract config would panic the reconciler or be ignored silently")
	if ex := c.fn(pkgComposite, "ExtractConnectionDetails"); ex != nil {
		cdt := c.P.NamedType(pkgComposite, "ConnectionDetailType")
		seen := map[string]bool{}
		for _, b := range ex.Blocks {
			for _, in := range b.Instrs {
				if bo, ok := in.(*ssa.BinOp); ok && isEqOrNeq(bo) {
					if s, ok := cfgx.ConstString(bo.Y); ok && strings.HasSuffix(bo.Y.Type().String(), "ConnectionDetailType") {
						seen[s] = true
					}
				}
			}
		}
		var missing []string
		if cdt != nil {
			for _, k := range tables.ConstsOfType(cdt.Obj().Pkg(), cdt) {
				v := strings.Trim(k.Val().ExactString(), "\"")
				if !seen[v] {
					missing = append(missing, k.Name())
				}
			}
		}
		c.R.Check(cdt != nil && len(missing) == 0 && len(seen) >= 3, load.FuncName(ex)+": exhaustive", c.pos(ex.Pos()), "every ConnectionDetailType has a case", "no case for "+strings.Join(missing, ","))
		derefGuarded(c, ex, "composite.ConnectionDetailExtractConfig")
	}
}

// nilTestEdges returns the edges on which `x.<getter>() == nil` is (isNil) / is not.
func nilTestEdges(fn *ssa.Function, getter string, isNil bool) []cfgx.Edge {
	return nilTestEdgesOn(fn, getter, nil, isNil)
}

func nilTestEdgesOn(fn *ssa.Function, getter string, recv *ssa.Parameter, isNil bool) []cfgx.Edge {
	var out []cfgx.Edge
	for _, b := range fn.Blocks {
		for _, in := range b.Instrs {
			bo, ok := in.(*ssa.BinOp)
			if !ok || (bo.Op != token.EQL && bo.Op != token.NEQ) {
				continue
			}
			var other ssa.Value
			if cfgx.IsNilConst(bo.Y) {
				other = bo.X
			} else if cfgx.IsNilConst(bo.X) {
				other = bo.Y
			} else {
				continue
			}
			ci, ok := other.(ssa.CallInstruction)
			if !ok || !strings.HasSuffix(cfgx.CalleeName(ci), "."+getter) {
				continue
			}
			if recv != nil && flow.Root(underIface(cfgx.Receiver(ci))) != ssa.Value(recv) {
				continue
			}
			t, f := cfgx.CondEdges(bo)
			if (bo.Op == token.EQL) == isNil {
				out = append(out, t...)
			} else {
				out = append(out, f...)
			}
		}
	}
	return out
}

// derefGuarded: every load through a pointer-typed field of struct type
// `typ` in fn must be preceded, on every path, by the non-nil edge of a nil
// test of the same access path.
func derefGuarded(c *Ctx, fn *ssa.Function, typ string) int {
	n := 0
	for _, b := range fn.Blocks {
		for _, in := range b.Instrs {
			ld, ok := in.(*ssa.UnOp)
			if !ok || ld.Op != token.MUL {
				continue
			}
			// *(*fieldaddr): ld.X is itself a load of a FieldAddr of pointer type
			inner, ok := ld.X.(*ssa.UnOp)
			if !ok || inner.Op != token.MUL {
				continue
			}
			fa, ok := inner.X.(*ssa.FieldAddr)
			if !ok {
				continue
			}
			_, p, _ := flow.AccessPathC(inner)
			if !strings.Contains(fa.X.Type().String(), typ) {
				continue
			}
			n++
			// nil tests on the same path
			var nonNil []cfgx.Edge
			for _, bb := range fn.Blocks {
				for _, i2 := range bb.Instrs {
					bo, ok := i2.(*ssa.BinOp)
					if !ok || (bo.Op != token.EQL && bo.Op != token.NEQ) {
						continue
					}
					var other ssa.Value
					if cfgx.IsNilConst(bo.Y) {
						other = bo.X
					} else if cfgx.IsNilConst(bo.X) {
						other = bo.Y
					} else {
						continue
					}
					r2, p2, ok2 := flow.AccessPathC(other)
					r1, _, _ := flow.AccessPathC(inner)
					if !ok2 || p2 != p || flow.Root(r2) != flow.Root(r1) {
						continue
					}
					t, f := cfgx.CondEdges(bo)
					if bo.Op == token.EQL {
						nonNil = append(nonNil, f...)
					} else {
						nonNil = append(nonNil, t...)
					}
				}
			}
			c.requireCross(load.FuncName(fn)+": *"+p+" #"+itoa(n), ld, nonNil, p+" != nil")
		}
	}
	return n
}

func stripConv(v ssa.Value) ssa.Value {
	for {
		switch x := v.(type) {
		case *ssa.ChangeType:
			v = x.X
		case *ssa.Convert:
			v = x.X
		case *ssa.MakeInterface:
			v = x.X
		default:
			return v
		}
	}
}

// nearRange: the range statement v is the key or value variable of (not one further back in its history).
func nearRange(v ssa.Value) *ssa.Range {
	for i := 0; i < 4; i++ {
		switch x := v.(type) {
		case *ssa.Extract:
			v = x.Tuple
		case *ssa.Next:
			v = x.Iter
		case *ssa.Range:
			return x
		case *ssa.MakeInterface:
			v = x.X
		case *ssa.ChangeType:
			v = x.X
		case *ssa.Convert:
			v = x.X
		default:
			return nil
		}
	}
	return nil
}
