package rules

import (
	"go/token"
	"strings"

	"golang.org/x/tools/go/ssa"

	"xpcheck/internal/cfgx"
	"xpcheck/internal/flow"
	"xpcheck/internal/load"
)

const pkgManager = "internal/controller/pkg/manager"

func init() {
	register(&Property{
		ID:  "C14",
		Run: c14,
		Explanation: "Decides the shapes in the package manager that keep one active, last-numbered current revision: (R14.1) the current revision is applied only after the revisions loop ran to completion, in which every other revision on the DesiredState==Active edge is set Inactive and applied with every failure (conflicts included) leaving the reconcile; Active is stored into the current revision only on the automatic/unset-policy edge; " +
			"(R14.2) the current revision is renumbered after the loop to the running maximum over all listed revisions plus one, and the maximum is updated on every iteration; (R14.3) the history delete is gated by limit!=nil, *limit!=0 and len(revisions) > *limit+1; (R14.4) within an iteration the garbage-collection candidate is recorded only after the name!=currentRevision edge, and the object deleted is that candidate; " +
			"(R14.5) the revision name and currentRevision derive only from the revisioner, whose non-empty results are FriendlyID(package name, digest or source) or the stored current revision under IfNotPresent with an unchanged source. (R14.6) the package reconciler writes revisions with the patching applicator, whose patch carries the resourceVersion of the listed copy. (R14.7) the three revision-list accessors hand every listed revision to the reconciler (complete projection).",
		NotDecided:  []string{"'at every instant' across crashes between the applies", "registry behaviour (digest per tag)", "uniqueness of FriendlyID truncations"},
		Assumptions: []string{"Applicator.Apply persists DesiredState", "the listed revisions are all revisions of the package"},
	})
}

func c14(c *Ctx) {
	rec := c.method(pkgManager, "Reconciler", "Reconcile")
	if rec == nil {
		return
	}
	applies := calls(rec, applicatorApply)
	var deact, final ssa.CallInstruction
	var loop map[*ssa.BasicBlock]bool
	for _, a := range applies {
		if l := cfgx.LoopOf(a.Block()); l != nil {
			deact, loop = a, l
		} else {
			final = a
		}
	}
	if deact == nil || final == nil {
		c.R.Rule("R14.1", "deactivate others first", 1, "")
		c.R.Unknown(load.FuncName(rec)+": applies", c.pos(rec.Pos()), "expected the deactivating Apply in the revisions loop and the final Apply of the current revision")
		return
	}
	hdr := cfgx.LoopHeader(loop)
	// name == currentRevision tests inside a given loop
	nameEdgesIn := func(l map[*ssa.BasicBlock]bool) (eq, ne []cfgx.Edge) {
		for _, b := range rec.Blocks {
			for _, in := range b.Instrs {
				if bo, ok := in.(*ssa.BinOp); ok && (bo.Op == token.EQL || bo.Op == token.NEQ) && l[b] {
					if (hasSuffixCall(bo.X, ".GetName") && hasSuffixCall(bo.Y, ".GetCurrentRevision")) || (hasSuffixCall(bo.Y, ".GetName") && hasSuffixCall(bo.X, ".GetCurrentRevision")) {
						t, f := eqEdges(bo)
						eq, ne = append(eq, t...), append(ne, f...)
					}
				}
			}
		}
		return
	}
	nameEq, nameNe := nameEdgesIn(loop)

	c.R.Rule("R14.7", "the revision lists hand every listed revision to the reconciler", 3,
		"a revision the list accessor hides (terminating, inactive, …) is not deactivated, not counted for the highest number and not garbage collected: two revisions stay Active, numbers repeat")
	for _, tn := range []string{"ProviderRevisionList", "ConfigurationRevisionList", "FunctionRevisionList"} {
		c.projectionComplete(c.P.Method("apis/pkg/v1", tn, "GetRevisions"), tn+".GetRevisions is complete")
	}

	c.R.Rule("R14.6", "revisions are written under the optimistic lock of the listed copy", 1,
		"the package reconciler decides from a List that may be stale; only a write that carries the listed resourceVersion is rejected when the revision changed meanwhile - an applicator that re-reads and overwrites activates a revision next to one that was activated since")
	if ctor := c.fn("internal/controller/pkg/manager", "NewReconciler"); ctor != nil {
		n, good := 0, true
		for _, b := range ctor.Blocks {
			for _, in := range b.Instrs {
				if st, ok := in.(*ssa.Store); ok && isFieldSel(st.Addr, "resource.ClientApplicator", "Applicator") {
					n++
					if !flow.Strict.AnyCall(st.Val, xprt+"resource.NewAPIPatchingApplicator") {
						good = false
					}
				}
			}
		}
		c.R.Check(n > 0 && good, load.FuncName(ctor)+": patching applicator", c.pos(ctor.Pos()), "revisions are applied with the patching applicator (the patch carries the resourceVersion of the copy that was listed)", "the package reconciler's applicator is not resource.NewAPIPatchingApplicator: the updating applicator re-reads the object and overwrites it, the stale-list conflict is lost")
	} else {
		c.R.Unknown("manager.NewReconciler", "", "constructor not found")
	}

	c.R.Rule("R14.1", "deactivate others first: the current revision is applied only after every other active revision was applied Inactive; no failure is skipped", 7,
		"two revisions of one package would be Active at once")
	{
		okx, early := cfgx.OnlyHeaderExits(loop)
		_ = okx
		// final Apply only reachable through the header exit
		r, w := cfgx.ReachableFromEdges(early, final, nil, c.posf())
		c.R.Check(!r, site(final)+" after-complete-loop", c.pos(final.Pos()), "reached only after the revisions loop ran to completion", "the current revision can be applied although the loop over the other revisions was left early", w...)
		ev := cfgx.ErrEvents(deact)
		r2, w2 := cfgx.ReachableFromEdges(ev.Fail, final, ev.OK, c.posf())
		c.R.Check(!r2 && len(ev.Fail) > 0, site(deact)+" failure-stops-activation", c.pos(deact.Pos()), "after a failed deactivation (conflict included) the current revision is not applied", "the current revision is still applied after deactivating another revision failed", w2...)
		rr, w3 := cfgx.ReachesAvoidingBlocks(ev.Fail, hdr, nil, ev.OK, c.posf())
		c.R.Check(!rr, site(deact)+" failure-leaves-loop", c.pos(deact.Pos()), "a failed deactivation leaves the loop", "the loop continues after a failed deactivation", w3...)
		// the revision applied in the loop was set Inactive
		var setInact ssa.CallInstruction
		for _, x := range cfgx.Calls(rec, nil) {
			if strings.HasSuffix(cfgx.CalleeName(x), ".SetDesiredState") && loop[x.Block()] {
				if s, ok := cfgx.ConstString(cfgx.CallArgs(x)[0]); ok && s == "Inactive" {
					setInact = x
				}
			}
		}
		c.R.Check(setInact != nil && cfgx.ReachesInIteration(setInact, deact) && cfgx.MustPass(setInact.Block(), deact.Block()) && sameRecv(setInact, cfgx.CallArgs(deact)[1]), site(deact)+" applies-inactive", c.pos(deact.Pos()), "the revision applied in the loop was just set Inactive", "the revision applied in the loop is not the one set Inactive")
		// skip whitelist: name == current, or state != Active
		var notActive []cfgx.Edge
		for _, cf := range findCmps(rec, true, func(x, y ssa.Value) bool {
			s, ok := cfgx.ConstString(y)
			return ok && s == "Active" && hasSuffixCall(x, ".GetDesiredState")
		}) {
			if loop[cf.Bin.Block()] {
				notActive = append(notActive, cf.Fails...)
			}
		}
		by, wb := cfgx.LoopBypass(loop, map[*ssa.BasicBlock]bool{deact.Block(): true}, union(nameEq, notActive), c.posf())
		c.R.Check(!by && len(nameEq) > 0 && len(notActive) > 0, load.FuncName(rec)+": every other active revision is deactivated", c.pos(deact.Pos()), "an iteration skips the deactivating Apply only for the current revision or a revision that is not Active", "an active non-current revision can be skipped", wb...)
		// Active only on the automatic / unset policy edge
		var auto []cfgx.Edge
		for _, b := range rec.Blocks {
			for _, in := range b.Instrs {
				if bo, ok := in.(*ssa.BinOp); ok && isEqOrNeq(bo) {
					if cfgx.IsNilConst(bo.Y) && hasSuffixCall(bo.X, ".GetActivationPolicy") {
						t, _ := eqEdges(bo)
						auto = append(auto, t...)
					}
					if s, ok := cfgx.ConstString(bo.Y); ok && s == "Automatic" {
						t, _ := eqEdges(bo)
						auto = append(auto, t...)
					}
					if ld, ok := bo.Y.(*ssa.UnOp); ok && ld.Op == token.MUL {
						if g, ok := ld.X.(*ssa.Global); ok && g.Name() == "AutomaticActivation" {
							t, _ := eqEdges(bo)
							auto = append(auto, t...)
						}
					}
				}
			}
		}
		// the same tests or-combined into a local boolean
		var autoVals, manualVals []ssa.Value
		for _, b := range rec.Blocks {
			for _, in := range b.Instrs {
				// … or their negations and-combined (`manual := p != nil && *p != Automatic`)
				if bo, ok := in.(*ssa.BinOp); ok && bo.Op == token.NEQ {
					isMan := cfgx.IsNilConst(bo.Y) && hasSuffixCall(bo.X, ".GetActivationPolicy")
					if s, ok := cfgx.ConstString(bo.Y); ok && s == "Automatic" {
						isMan = true
					}
					if ld, ok := bo.Y.(*ssa.UnOp); ok && ld.Op == token.MUL {
						if g, ok := ld.X.(*ssa.Global); ok && g.Name() == "AutomaticActivation" {
							isMan = true
						}
					}
					if isMan {
						manualVals = append(manualVals, bo)
					}
				}
				if bo, ok := in.(*ssa.BinOp); ok && bo.Op == token.EQL {
					isAuto := false
					if cfgx.IsNilConst(bo.Y) && hasSuffixCall(bo.X, ".GetActivationPolicy") {
						isAuto = true
					}
					if s, ok := cfgx.ConstString(bo.Y); ok && s == "Automatic" {
						isAuto = true
					}
					if ld, ok := bo.Y.(*ssa.UnOp); ok && ld.Op == token.MUL {
						if g, ok := ld.X.(*ssa.Global); ok && g.Name() == "AutomaticActivation" {
							isAuto = true
						}
					}
					if isAuto {
						autoVals = append(autoVals, bo)
					}
				}
			}
		}
		auto = append(auto, boolDisjTrueEdges(rec, autoVals)...)
		auto = append(auto, boolConjFalseEdges(rec, manualVals)...)
		n := 0
		for _, x := range cfgx.Calls(rec, nil) {
			if strings.HasSuffix(cfgx.CalleeName(x), ".SetDesiredState") {
				if s, ok := cfgx.ConstString(cfgx.CallArgs(x)[0]); ok && s == "Active" {
					n++
					c.requireCross(site(x)+" automatic-only", x, auto, "activation policy unset or Automatic")
					c.R.Check(!loop[x.Block()] && cfgx.InstrReaches(x, final, nil), site(x)+" current-only", c.pos(x.Pos()), "only the current revision is set Active, after the loop", "a revision is set Active inside the loop")
				}
			}
		}
		if n != 1 {
			c.R.Bad(load.FuncName(rec)+": SetDesiredState(Active)", c.pos(rec.Pos()), "expected exactly one activation site")
		}
	}

	c.R.Rule("R14.2", "numbering: renumbered after the loop to (running max over all listed revisions)+1; the max is updated on every iteration", 3,
		"the current revision would not carry the highest revision number after a rollback")
	{
		var setRev ssa.CallInstruction
		for _, x := range cfgx.Calls(rec, nil) {
			if strings.HasSuffix(cfgx.CalleeName(x), ".SetRevision") {
				if setRev != nil {
					c.R.Bad(load.FuncName(rec)+": SetRevision sites", c.pos(x.Pos()), "more than one renumbering site")
				}
				setRev = x
			}
		}
		if setRev == nil {
			c.R.Bad(load.FuncName(rec)+": SetRevision", c.pos(rec.Pos()), "the current revision is never renumbered")
		} else {
			c.R.Check(!loop[setRev.Block()] && cfgx.InstrReaches(setRev, final, nil) && reachedFromHeaderExitOnly(loop, setRev), site(setRev)+" after-loop", c.pos(setRev.Pos()), "renumbering happens after all revisions were inspected", "the current revision is renumbered before all revisions were inspected (the maximum is incomplete)")
			arg := cfgx.CallArgs(setRev)[0]
			bo, ok := arg.(*ssa.BinOp)
			good := ok && bo.Op == token.ADD
			var maxPhi *ssa.Phi
			if good {
				one, isC := cfgx.ConstInt(bo.Y)
				maxPhi, _ = viaStruct(bo.X).(*ssa.Phi)
				good = isC && one == 1 && maxPhi != nil
			}
			// the maximum is carried by the revisions loop itself or by a separate,
			// complete pass over the same listed revisions
			mloop, mhdr := loop, hdr
			if good && maxPhi.Block() != hdr {
				mloop = cfgx.LoopOf(maxPhi.Block())
				mhdr = nil
				if mloop != nil {
					mhdr = cfgx.LoopHeader(mloop)
				}
				complete := false
				if mhdr != nil && maxPhi.Block() == mhdr {
					okx, _ := cfgx.OnlyHeaderExits(mloop)
					complete = okx && sameRanged(mloop, loop)
				}
				good = complete
			}
			c.R.Check(good, site(setRev)+" max+1", c.pos(setRev.Pos()), "the new number is the loop-carried maximum + 1", "the new number is not (running maximum)+1")
			if good {
				hdr, loop := mhdr, mloop
				// the carried value is max(old, revisionNum): back-edge leaves are the phi itself and GetRevision()
				okMax := true
				var cmp ssa.Instruction
				for i, pred := range hdr.Preds {
					if !loop[pred] {
						continue
					}
					// builtin max(previous, rev.GetRevision())
					if mc, ok := maxPhi.Edges[i].(*ssa.Call); ok && cfgx.CalleeName(mc) == "builtin.max" && len(mc.Call.Args) == 2 {
						a, b := mc.Call.Args[0], mc.Call.Args[1]
						if (a == ssa.Value(maxPhi) && hasSuffixCall(b, ".GetRevision")) || (b == ssa.Value(maxPhi) && hasSuffixCall(a, ".GetRevision")) {
							cmp = mc
							continue
						}
					}
					for _, leaf := range leavesStoppingAt(maxPhi.Edges[i], maxPhi) {
						if !hasSuffixCall(leaf, ".GetRevision") {
							okMax = false
						}
					}
				}
				for _, b := range rec.Blocks {
					for _, in := range b.Instrs {
						if x, ok := in.(*ssa.BinOp); ok && loop[b] && (x.Op == token.GTR || x.Op == token.LSS || x.Op == token.GEQ || x.Op == token.LEQ) && (x.X == ssa.Value(maxPhi) || x.Y == ssa.Value(maxPhi)) {
							cmp = x
						}
					}
				}
				c.R.Check(okMax && cmp != nil, load.FuncName(rec)+": running maximum", c.pos(setRev.Pos()), "the carried value is max(previous, rev.GetRevision())", "the carried value is not a running maximum of the listed revision numbers")
				if cmp != nil {
					by, w := cfgx.LoopBypass(loop, map[*ssa.BasicBlock]bool{cmp.Block(): true}, nil, c.posf())
					c.R.Check(!by, load.FuncName(rec)+": maximum over every revision", c.pos(cmp.Pos()), "every iteration compares the revision's number with the maximum", "an iteration can skip the maximum update", w...)
				}
			}
		}
	}

	c.R.Rule("R14.3", "history GC gates: limit != nil, *limit != 0, len(revisions) > *limit+1", 3, "revisions are deleted although the history limit is 0/unset or not exceeded")
	var del ssa.CallInstruction
	if ds := calls(rec, clientDelete); len(ds) == 1 {
		del = ds[0]
	}
	if del == nil {
		c.R.Unknown(load.FuncName(rec)+": history Delete", c.pos(rec.Pos()), "expected one Delete")
	} else {
		var notNil, notZero, exceeded []cfgx.Edge
		for _, b := range rec.Blocks {
			for _, in := range b.Instrs {
				bo, ok := in.(*ssa.BinOp)
				if !ok {
					continue
				}
				t, f := cfgx.CondEdges(bo)
				switch {
				case (bo.Op == token.NEQ || bo.Op == token.EQL) && cfgx.IsNilConst(bo.Y) && hasSuffixCall(bo.X, ".GetRevisionHistoryLimit"):
					if bo.Op == token.NEQ {
						notNil = append(notNil, t...)
					} else {
						notNil = append(notNil, f...)
					}
				case (bo.Op == token.NEQ || bo.Op == token.EQL) && isDerefOfCall(bo.X, ".GetRevisionHistoryLimit"):
					if z, ok := cfgx.ConstInt(bo.Y); ok && z == 0 {
						if bo.Op == token.NEQ {
							notZero = append(notZero, t...)
						} else {
							notZero = append(notZero, f...)
						}
					}
				case bo.Op == token.GTR || bo.Op == token.GEQ:
					if of, ok := lenOfValue(bo.X); ok && hasSuffixCall(flow.Root(of), ".GetRevisions") || ok && flow.Default.Any(of, func(v ssa.Value) bool { return hasSuffixCall(v, ".GetRevisions") }) {
						add, isAdd := bo.Y.(*ssa.BinOp)
						if isAdd && add.Op == token.ADD {
							k, isC := cfgx.ConstInt(add.Y)
							fromLimit := flow.Default.Any(add.X, func(v ssa.Value) bool { return hasSuffixCall(v, ".GetRevisionHistoryLimit") })
							if isC && fromLimit && ((bo.Op == token.GTR && k == 1) || (bo.Op == token.GEQ && k == 2)) {
								exceeded = append(exceeded, t...)
							}
						}
					}
				}
			}
		}
		c.requireCross(site(del)+" limit-set", del, notNil, "revisionHistoryLimit != nil")
		c.requireCross(site(del)+" limit-nonzero", del, notZero, "*revisionHistoryLimit != 0")
		c.requireCross(site(del)+" limit-exceeded", del, exceeded, "len(revisions) > *revisionHistoryLimit + 1")
		c.R.Check(!loop[del.Block()] && reachedFromHeaderExitOnly(loop, del), site(del)+" after-loop", c.pos(del.Pos()), "at most one revision is deleted, after the loop", "the history delete sits inside the revisions loop")
		// a failed delete returns an error
		ev := cfgx.ErrEvents(del)
		r, _ := cfgx.ReachableFromEdges(ev.Fail, final, ev.OK, nil)
		c.R.Check(!r && len(ev.Fail) > 0, site(del)+" failure-returns", c.pos(del.Pos()), "a failed delete ends the reconcile with an error", "a failed history delete is ignored")
	}

	c.R.Rule("R14.4", "history GC never selects the current revision", 2, "after a rollback to the oldest digest the current revision itself is deleted")
	if del != nil {
		obj := underIface(cfgx.CallArgs(del)[1])
		// revisions[idx]
		var idx ssa.Value
		for x := range flow.Strict.Back(obj) {
			if ia, ok := x.(*ssa.IndexAddr); ok {
				idx = viaStruct(ia.Index)
			}
			if ia, ok := x.(*ssa.Index); ok {
				idx = viaStruct(ia.Index)
			}
		}
		phi, _ := idx.(*ssa.Phi)
		if phi == nil || phi.Block() != hdr {
			// value after loop may be the header phi itself
			for _, leaf := range append(phiLeaves(idx), idx) {
				if p, ok := leaf.(*ssa.Phi); ok && p.Block() == hdr {
					phi = p
				}
			}
		}
		// the candidate may be chosen by a separate complete pass over the same revisions
		hdr, loop, nameNe := hdr, loop, nameNe
		if phi == nil || phi.Block() != hdr {
			for _, leaf := range append(phiLeaves(idx), idx) {
				p, ok := leaf.(*ssa.Phi)
				if !ok {
					continue
				}
				if l := cfgx.LoopOf(p.Block()); l != nil && cfgx.LoopHeader(l) == p.Block() && sameRanged(l, loop) {
					if okx, _ := cfgx.OnlyHeaderExits(l); okx {
						phi, loop, hdr = p, l, p.Block()
						_, nameNe = nameEdgesIn(l)
					}
				}
			}
		}
		if phi == nil {
			c.R.Unknown(load.FuncName(rec)+": GC candidate", c.pos(del.Pos()), "the deleted object is not revisions[<loop-carried index>]")
		} else {
			// assignment sites: predecessor blocks of the inner phi that carry the range index
			n := 0
			for i, pred := range hdr.Preds {
				if !loop[pred] {
					continue
				}
				inner := phi.Edges[i]
				ip, ok := inner.(*ssa.Phi)
				var assigns []*ssa.BasicBlock
				if ok {
					for j, e := range ip.Edges {
						if e != ssa.Value(phi) {
							assigns = append(assigns, ip.Block().Preds[j])
						}
					}
				} else if inner != ssa.Value(phi) {
					assigns = append(assigns, pred)
				}
				for _, ab := range assigns {
					n++
					var starts []cfgx.Edge
					for k, s := range hdr.Succs {
						if loop[s] {
							starts = append(starts, cfgx.Edge{From: hdr, Idx: k})
						}
					}
					r, w := cfgx.ReachesAvoidingBlocks(starts, ab, nil, union(nameNe, cfgx.BackEdges(rec)), c.posf())
					c.R.Check(!r && len(nameNe) > 0, load.FuncName(rec)+": GC candidate recorded only for non-current revisions", c.pos(firstPos(ab)), "within an iteration the candidate index is assigned only after name != currentRevision", "the garbage-collection candidate can be the current revision (the index is recorded before / without the current-revision test)", w...)
				}
			}
			if n == 0 {
				c.R.Unknown(load.FuncName(rec)+": GC candidate assignment", c.pos(del.Pos()), "no assignment of the candidate index found")
			}
			// candidate = the lowest numbered: guarded by a < comparison with GetRevision
			okLow := false
			for _, b := range rec.Blocks {
				for _, in := range b.Instrs {
					if bo, ok := in.(*ssa.BinOp); ok && loop[b] && (bo.Op == token.LSS || bo.Op == token.GTR) && (hasSuffixCall(bo.X, ".GetRevision") || hasSuffixCall(bo.Y, ".GetRevision")) {
						if _, isPhi := bo.Y.(*ssa.Phi); isPhi || isPhiVal(bo.X) {
							okLow = true
						}
					}
				}
			}
			c.R.Check(okLow, load.FuncName(rec)+": candidate is the lowest number", c.pos(del.Pos()), "the candidate is chosen by comparing revision numbers", "the candidate is not the lowest-numbered revision")
		}
	}

	c.R.Rule("R14.5", "naming: revision name and currentRevision come from the revisioner; FriendlyID(name, digest|source)", 5,
		"re-resolving the same image would create a second revision under another name")
	{
		rv := calls(rec, "("+xp+pkgManager+".Revisioner).Revision")
		if c.expect("Revision", len(rv), 1, rec) {
			name := cfgx.TupleResult(rv[0], 0)
			for _, sfx := range []string{".SetName", ".SetCurrentRevision"} {
				found := false
				for _, x := range cfgx.Calls(rec, nil) {
					if strings.HasSuffix(cfgx.CalleeName(x), sfx) {
						found = true
						c.R.Check(cfgx.CallArgs(x)[0] == name, site(x)+" from-revisioner", c.pos(x.Pos()), "uses the revisioner's name", sfx[1:]+" does not use the name computed by the revisioner")
						c.requireCross(site(x)+" after-revision", x, okEdges(rv[0]), "ok(Revision)")
					}
				}
				if !found {
					c.R.Bad(load.FuncName(rec)+": "+sfx[1:], c.pos(rec.Pos()), "never called")
				}
			}
		}
	}
	// (currentRevision, currentIdentifier) change together, in Reconcile only, after ok(Revision):
	// the IfNotPresent shortcut trusts the pair.
	{
		rv := calls(rec, "("+xp+pkgManager+".Revisioner).Revision")
		for _, f := range c.P.PkgFunctions(pkgManager) {
			for _, x := range cfgx.Calls(f, func(ci ssa.CallInstruction) bool {
				n := cfgx.CalleeName(ci)
				return strings.HasSuffix(n, ".SetCurrentIdentifier") || strings.HasSuffix(n, ".SetCurrentRevision")
			}) {
				if f != rec {
					c.R.Bad(site(x)+" who-may-set", c.pos(x.Pos()), "currentRevision/currentIdentifier are set outside Reconciler.Reconcile: the pair (identifier, revision) the IfNotPresent shortcut relies on can get out of step")
					continue
				}
				if strings.HasSuffix(cfgx.CalleeName(x), ".SetCurrentIdentifier") && len(rv) == 1 {
					c.requireCross(site(x)+" after-revision", x, okEdges(rv[0]), "ok(Revision)")
					paired := false
					for _, y := range cfgx.Calls(rec, func(ci ssa.CallInstruction) bool {
						return strings.HasSuffix(cfgx.CalleeName(ci), ".SetCurrentRevision")
					}) {
						if y.Block() == x.Block() {
							paired = true
						}
					}
					c.R.Check(paired && hasSuffixCall(cfgx.CallArgs(x)[0], ".GetSource"), site(x)+" paired", c.pos(x.Pos()), "set together with SetCurrentRevision, to p.GetSource()", "the identifier is not set together with the revision name (or not to the package source)")
				}
			}
		}
	}
	if rvf := c.method(pkgManager, "PackageRevisioner", "Revision"); rvf != nil {
		n := 0
		// a name handed back through the result temporary of an extracted helper is a phi: look at each
		// value it can be, at the point where that value is chosen
		type namedAt struct {
			v  ssa.Value
			at ssa.Instruction
			r  *ssa.Return
		}
		var names []namedAt
		for _, b := range rvf.Blocks {
			r, ok := b.Instrs[len(b.Instrs)-1].(*ssa.Return)
			if !ok {
				continue
			}
			seen := map[ssa.Value]bool{}
			var expand func(v ssa.Value, at ssa.Instruction)
			expand = func(v ssa.Value, at ssa.Instruction) {
				if phi, isPhi := v.(*ssa.Phi); isPhi && !seen[phi] {
					seen[phi] = true
					for i, e := range phi.Edges {
						pred := phi.Block().Preds[i]
						expand(e, pred.Instrs[len(pred.Instrs)-1])
					}
					return
				}
				names = append(names, namedAt{v, at, r})
			}
			expand(cfgx.ReturnValue(r, 0), r)
		}
		for _, na := range names {
			v, r, b := na.v, na.at, na.r.Block()
			if s, isC := cfgx.ConstString(v); isC && s == "" {
				if na.at == ssa.Instruction(na.r) {
					c.R.Check(nonNilError(na.r) != "nil", load.FuncName(rvf)+": empty name @b"+itoa(b.Index), c.pos(r.Pos()), "an empty name comes with an error", "an empty revision name is returned as success")
				}
				continue
			}
			if cfgx.ZeroRead(v) {
				continue
			}
			n++
			switch {
			case flow.IsCallTo(v, xp+"internal/xpkg.FriendlyID"):
				a := v.(*ssa.Call).Call.Args
				okN := hasSuffixCall(a[0], ".GetName")
				okH := hasSuffixCall(a[1], ".GetSource") || flow.Default.Any(a[1], func(x ssa.Value) bool { return isFieldSel(x, "v1.Hash", "Hex") || strings.Contains(x.String(), "Hex") })
				c.R.Check(okN && okH, load.FuncName(rvf)+": FriendlyID @b"+itoa(b.Index), c.pos(r.Pos()), "FriendlyID(p.GetName(), digest or source)", "the revision name is not FriendlyID(package name, digest|source)")
				if hasSuffixCall(a[1], ".GetSource") {
					// only under PullNever
					var never []cfgx.Edge
					for _, bb := range rvf.Blocks {
						for _, in := range bb.Instrs {
							if bo, ok := in.(*ssa.BinOp); ok && isEqOrNeq(bo) {
								if s, ok := cfgx.ConstString(bo.Y); ok && s == "Never" {
									t, _ := eqEdges(bo)
									never = append(never, t...)
								}
							}
						}
					}
					c.requireCross(load.FuncName(rvf)+": source-named only under PullNever", r, never, "packagePullPolicy == Never")
				}
			case hasSuffixCall(v, ".GetCurrentRevision"):
				var same []cfgx.Edge
				for _, bb := range rvf.Blocks {
					for _, in := range bb.Instrs {
						if bo, ok := in.(*ssa.BinOp); ok && isEqOrNeq(bo) && hasSuffixCall(bo.X, ".GetCurrentIdentifier") && hasSuffixCall(bo.Y, ".GetSource") {
							t, _ := eqEdges(bo)
							same = append(same, t...)
						}
					}
				}
				var ifnp []cfgx.Edge
				for _, bb := range rvf.Blocks {
					for _, in := range bb.Instrs {
						if bo, ok := in.(*ssa.BinOp); ok && isEqOrNeq(bo) {
							if s, ok := cfgx.ConstString(bo.Y); ok && s == "IfNotPresent" {
								t, _ := eqEdges(bo)
								ifnp = append(ifnp, t...)
							}
						}
					}
				}
				c.requireCross(load.FuncName(rvf)+": stored revision only if source unchanged", r, same, "currentIdentifier == source")
				c.requireCross(load.FuncName(rvf)+": stored revision only under IfNotPresent", r, ifnp, "packagePullPolicy == IfNotPresent")
			default:
				c.R.Bad(load.FuncName(rvf)+": return @b"+itoa(b.Index), c.pos(r.Pos()), "a revision name that is neither FriendlyID(...) nor the stored current revision")
			}
		}
		if n < 3 {
			c.R.Unknown(load.FuncName(rvf)+": returns", c.pos(rvf.Pos()), "expected three naming returns")
		}
	}
}

func isPhiVal(v ssa.Value) bool { _, ok := v.(*ssa.Phi); return ok }

func isDerefOfCall(v ssa.Value, suffix string) bool {
	ld, ok := v.(*ssa.UnOp)
	return ok && ld.Op == token.MUL && hasSuffixCall(ld.X, suffix)
}

// sameRecv: the receiver of call x is the same object as v.
func sameRecv(x ssa.CallInstruction, v ssa.Value) bool {
	r := cfgx.Receiver(x)
	if r == nil {
		return false
	}
	return underIface(r) == underIface(v) || flow.Root(underIface(r)) == flow.Root(underIface(v))
}

// reachedFromHeaderExitOnly: instruction in is after the loop and not reachable from an early exit of it.
func reachedFromHeaderExitOnly(loop map[*ssa.BasicBlock]bool, in ssa.Instruction) bool {
	_, early := cfgx.OnlyHeaderExits(loop)
	r, _ := cfgx.ReachableFromEdges(early, in, nil, nil)
	return !r
}

// leavesStoppingAt returns the non-phi leaves of v's phi tree, not descending into stop.
func leavesStoppingAt(v ssa.Value, stop *ssa.Phi) []ssa.Value {
	seen := map[ssa.Value]bool{}
	var out []ssa.Value
	var walk func(v ssa.Value)
	walk = func(v ssa.Value) {
		if seen[v] || v == ssa.Value(stop) {
			return
		}
		seen[v] = true
		if p, ok := v.(*ssa.Phi); ok {
			for _, e := range p.Edges {
				walk(e)
			}
			return
		}
		out = append(out, v)
	}
	walk(v)
	return out
}

// sameRanged: two loops iterate over the same slice value (the listed revisions).
func sameRanged(a, b map[*ssa.BasicBlock]bool) bool {
	ranged := func(l map[*ssa.BasicBlock]bool) map[ssa.Value]bool {
		out := map[ssa.Value]bool{}
		for blk := range l {
			for _, in := range blk.Instrs {
				switch x := in.(type) {
				case *ssa.IndexAddr:
					out[sole(x.X)] = true
				case *ssa.Index:
					out[sole(x.X)] = true
				}
			}
		}
		return out
	}
	ra, rb := ranged(a), ranged(b)
	for v := range ra {
		if rb[v] {
			return true
		}
	}
	return false
}
