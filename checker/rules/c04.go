package rules

import (
	"go/token"
	"go/types"
	"reflect"
	"sort"
	"strings"

	"golang.org/x/tools/go/ssa"

	"xpcheck/internal/cfgx"
	"xpcheck/internal/flow"
	"xpcheck/internal/load"
	"xpcheck/internal/locks"
)

const fnv1p = xp + "apis/apiextensions/fn/proto/v1"

func init() {
	register(&Property{
		ID:  "C04",
		Run: c04,
		Explanation: "Decides the request-threading dataflow of the function pipeline as SSA shapes: (R4.1) Observed is defined once outside the loop from AsState(xr, xr connection details, observed); Desired and Context of each request are the loop-carried values whose only definitions are a fresh empty value before the loop and GetDesired()/GetContext() of this iteration's RunFunction response (no self-carry of an older value), and the state read after the loop is that same carried value; " +
			"(R4.2) function name, input and credentials of a step derive from the same pipeline element; (R4.3) every condition and every non-fatal result is appended (no skip, no early exit) to the slices returned on both the success and the fatal return, and the reconciler surfaces all of them; " +
			"(R4.4) each requirements round re-creates ExtraResources, fills it only from Fetch of the selectors of the response just received, forwards GetContext(), and re-sends the same request object; (R4.5) the v1 and v1beta1 protobuf message closures have identical field numbers, wire types, names, oneofs and enum values, so the marshal/unmarshal fallback is lossless; " +
			"(R4.6) a cached connection is returned only when its target equals the active revision's endpoint, the active revision is chosen by DesiredState==Active, a stale connection is closed and forgotten before a new one is stored, the connection GC closes exactly the names absent from the listed Functions, all under connsMx. (R4.7) the connection details of an observed resource are read from exactly the namespace/name its writeConnectionSecretToRef gives. R4.2 also requires that the loop over a step's credentials is left early only with an error. (R4.8) the observer reads each referenced composed resource by the namespace and name of its reference. R4.4 also requires that the context is refreshed on every way into the next requirements round.",
		NotDecided:  []string{"label/name matching semantics of the extra-resource fetcher", "what a function does with the request", "gRPC delivery", "equality of the marshalled bytes (only schema identity is decided)"},
		Assumptions: []string{"protobuf marshal/unmarshal of schema-identical messages is lossless", "generated Get* accessors return the field"},
	})
}

func c04(c *Ctx) {
	fc, _ := c.composerMethods()
	c.R.Rule("R4.1", "threading: Observed fixed before the loop; Desired/Context are loop-carried from a fresh empty value and this iteration's response only; the final state is the carried value", 6,
		"a step would see stale or wrong desired state/context, or the applied state would not be the last step's output")
	var run ssa.CallInstruction
	var loop map[*ssa.BasicBlock]bool
	var hdr *ssa.BasicBlock
	var reqAlloc ssa.Value
	if fc != nil {
		if r := calls(fc, runFnInv); len(r) == 1 {
			run = r[0]
			loop = cfgx.LoopOf(run.Block())
			if loop != nil {
				hdr = cfgx.LoopHeader(loop)
			}
		}
	}
	if run == nil || loop == nil {
		if fc != nil {
			c.R.Unknown(load.FuncName(fc)+": pipeline loop", c.pos(fc.Pos()), "RunFunction in a loop not found")
		}
	} else {
		rsp := cfgx.TupleResult(run, 0)
		reqAlloc = flow.Root(sole(cfgx.CallArgs(run)[2]))
		fieldStore := func(name string) *ssa.Store {
			for _, b := range fc.Blocks {
				for _, in := range b.Instrs {
					if st, ok := in.(*ssa.Store); ok && isFieldSel(st.Addr, "v1.RunFunctionRequest", name) && flow.Root(st.Addr) == reqAlloc {
						return st
					}
				}
			}
			return nil
		}
		for _, fld := range []struct{ name, getter, fresh string }{{"Desired", "GetDesired", "v1.State"}, {"Context", "GetContext", "structpb.Struct"}} {
			st := fieldStore(fld.name)
			tag := load.FuncName(fc) + ": req." + fld.name
			if st == nil {
				c.R.Bad(tag, c.pos(run.Pos()), "the request literal does not set "+fld.name)
				continue
			}
			phi, ok := st.Val.(*ssa.Phi)
			if !ok || phi.Block() != hdr {
				c.R.Bad(tag, c.pos(st.Pos()), "req."+fld.name+" is not the loop-carried value (a phi at the pipeline loop header)")
				continue
			}
			good := true
			why := ""
			for i, pred := range hdr.Preds {
				e := phi.Edges[i]
				if !loop[pred] {
					// entry: fresh empty value
					if !isFreshAlloc(e, fld.fresh) {
						good, why = false, "the value before the first step is not a fresh empty "+fld.fresh
					}
					continue
				}
				// back edge: leaves of the phi tree
				hasRsp := false
				for _, leaf := range phiLeaves(e) {
					if ci, isCall := leaf.(*ssa.Call); isCall && strings.HasSuffix(cfgx.CalleeName(ci), "RunFunctionResponse)."+fld.getter) && sole(ci.Call.Args[0]) == rsp {
						hasRsp = true
					}
				}
				if !hasRsp {
					good, why = false, "the value passed to the next step never is rsp."+fld.getter+"() of this step"
				}
				for _, leaf := range phiLeaves(e) {
					if leaf == ssa.Value(phi) {
						// structurally the old value can reach the back edge; it does only if a
						// feasible way round the loop enters the joins on the way through an
						// edge that carries the old value
						carries := map[ssa.Value]bool{phi: true}
						avoid := map[cfgx.Edge]bool{}
						for changed := true; changed; {
							changed = false
							for _, bb := range fc.Blocks {
								if !loop[bb] || bb == hdr {
									continue
								}
								for _, in := range bb.Instrs {
									q, isPhi := in.(*ssa.Phi)
									if !isPhi {
										break
									}
									if carries[q] {
										continue
									}
									for _, op := range q.Edges {
										if carries[op] {
											carries[q] = true
											changed = true
										}
									}
								}
							}
						}
						for q := range carries {
							qp, isPhi := q.(*ssa.Phi)
							if !isPhi || qp == phi {
								continue
							}
							for k, op := range qp.Edges {
								if !carries[op] {
									pr := qp.Block().Preds[k]
									for si, sc := range pr.Succs {
										if sc == qp.Block() {
											avoid[cfgx.Edge{From: pr, Idx: si}] = true
										}
									}
								}
							}
						}
						var starts []cfgx.Edge
						for si, sc := range hdr.Succs {
							if loop[sc] {
								starts = append(starts, cfgx.Edge{From: hdr, Idx: si})
							}
						}
						if reach, _ := cfgx.ReachFromEdges(starts, avoid); reach[hdr] {
							good, why = false, "an older "+fld.name+" can be carried over a step (self-carry)"
						}
						continue
					}
					ci, isCall := leaf.(*ssa.Call)
					if isCall && strings.HasSuffix(cfgx.CalleeName(ci), "RunFunctionResponse)."+fld.getter) && sole(ci.Call.Args[0]) == rsp {
						continue
					}
					if isFreshAlloc(leaf, fld.fresh) {
						continue
					}
					good, why = false, "a value other than rsp."+fld.getter+"() of this step reaches the next request"
				}
			}
			c.R.Check(good, tag+" threaded", c.pos(st.Pos()), "defined by {fresh empty, rsp."+fld.getter+"() of the previous step} only", why)
			// final read after the loop
			if fld.name == "Desired" {
				n := 0
				for _, x := range cfgx.Calls(fc, nil) {
					nm := cfgx.CalleeName(x)
					if (strings.HasSuffix(nm, "v1.State).GetResources") || strings.HasSuffix(nm, "v1.State).GetComposite")) && !loop[x.Block()] {
						n++
						c.R.Check(carries(cfgx.ResolveAt(x.Common().Args[0], x.Block()), phi), site(x)+" final-desired", c.pos(x.Pos()), "reads the last step's desired state", "the desired state used after the pipeline is not the last step's output")
					}
				}
				if n == 0 {
					c.R.Bad(load.FuncName(fc)+": final desired", c.pos(fc.Pos()), "the final desired state is never read after the loop")
				}
			}
		}
		if st := fieldStore("Observed"); st == nil {
			c.R.Bad(load.FuncName(fc)+": req.Observed", c.pos(run.Pos()), "the request literal does not set Observed")
		} else {
			as := calls(fc, xp+pkgComposite+".AsState")
			okObs := len(as) == 1 && !loop[as[0].Block()] && st.Val == cfgx.TupleResult(as[0], 0)
			c.R.Check(okObs, load.FuncName(fc)+": req.Observed", c.pos(st.Pos()), "the same AsState(...) value, computed once before the loop", "Observed is not the single AsState value computed before the pipeline")
			if len(as) == 1 {
				a := cfgx.CallArgs(as[0])
				ob := calls(fc, observeInv)
				fcn := calls(fc, "("+xprt+"reconciler/managed.ConnectionDetailsFetcher).FetchConnection")
				good := flow.Root(underIface(a[0])) == ssa.Value(fc.Params[2]) && len(ob) == 1 && a[2] == cfgx.TupleResult(ob[0], 0)
				if len(fcn) >= 1 {
					good = good && a[1] == cfgx.TupleResult(fcn[0], 0) && flow.Root(underIface(cfgx.CallArgs(fcn[0])[1])) == ssa.Value(fc.Params[2])
				} else {
					good = false
				}
				c.R.Check(good, site(as[0])+" args", c.pos(as[0].Pos()), "AsState(xr, FetchConnection(xr), ObserveComposedResources(xr))", "observed state is not built from the XR, its connection details and the observed composed resources")
			}
		}
		c.R.Check(flow.Root(sole(cfgx.CallArgs(run)[2])) == reqAlloc && isFreshAlloc(reqAlloc, "v1.RunFunctionRequest") && loop[reqAllocBlock(reqAlloc)], site(run)+" fresh request", c.pos(run.Pos()), "each step gets a fresh request literal", "the request object is reused across steps")
	}

	c.R.Rule("R4.2", "per-step inputs: name, input and credentials derive from the same pipeline element", 3,
		"a step would run another step's function, input or credentials")
	if run != nil {
		elemRoot, np, ok := flow.AccessPathC(cfgx.CallArgs(run)[1])
		// the pipeline element the name is read from: everything before ".FunctionRef.Name"
		elemPath := strings.TrimSuffix(np, "FunctionRef.Name")
		sameElem := func(r ssa.Value, p, field string) bool {
			return r == elemRoot && strings.HasSuffix(p, field) && strings.TrimSuffix(p, field) == elemPath
		}
		c.R.Check(ok && strings.HasSuffix(np, "FunctionRef.Name") && (elemPath == "" || strings.HasSuffix(elemPath, "Pipeline[].")), site(run)+" name", c.pos(run.Pos()), "the function name is fn.FunctionRef.Name", "the function run is not named by the step's functionRef ("+np+")")
		um := cfgx.Calls(fc, func(ci ssa.CallInstruction) bool {
			return strings.HasSuffix(cfgx.CalleeName(ci), "structpb.Struct).UnmarshalJSON")
		})
		if len(um) == 1 {
			r, p, _ := flow.AccessPathC(cfgx.CallArgs(um[0])[0])
			c.R.Check(sameElem(r, p, "Input.Raw"), site(um[0])+" input", c.pos(um[0].Pos()), "the input is fn.Input.Raw of the same step", "the input is not the same step's fn.Input.Raw")
			// req.Input = in
			okIn := false
			for _, b := range fc.Blocks {
				for _, in := range b.Instrs {
					if st, ok := in.(*ssa.Store); ok && isFieldSel(st.Addr, "v1.RunFunctionRequest", "Input") && flow.Root(st.Addr) == reqAlloc && sole(st.Val) == cfgx.Receiver(um[0]) {
						okIn = true
					}
				}
			}
			c.R.Check(okIn, load.FuncName(fc)+": req.Input", c.pos(um[0].Pos()), "req.Input is the unmarshalled input", "req.Input is not the value unmarshalled from the step's input")
		} else {
			c.R.Unknown(load.FuncName(fc)+": input", c.pos(fc.Pos()), "UnmarshalJSON of the step input not found")
		}
		okCred := false
		for _, b := range fc.Blocks {
			for _, in := range b.Instrs {
				if mu, ok := in.(*ssa.MapUpdate); ok && strings.HasSuffix(mu.Map.Type().String(), "v1.Credentials") {
					rk, pk, _ := flow.AccessPathC(mu.Key)
					if sameElem(rk, pk, "Credentials[].Name") {
						okCred = true
						continue
					}
					rk, pk, _ = flow.AccessPath(mu.Key)
					okCred = pk == "Name" && flow.Strict.Any(rk, func(v ssa.Value) bool {
						r2, p2, _ := flow.AccessPathC(v)
						return sameElem(r2, p2, "Credentials") || sameElem(r2, p2, "Credentials[]")
					})
					if !okCred {
						// range element copy: cs := fn.Credentials[i]
						okCred = pk == "Name" && flow.Default.Any(rk, func(v ssa.Value) bool { return isFieldSel(v, "v1.PipelineStep", "Credentials") })
					}
				}
			}
		}
		c.R.Check(okCred, load.FuncName(fc)+": req.Credentials", c.pos(run.Pos()), "credentials are keyed by the step's own credential names", "credentials are not taken from the step's own credentials list")
		// … read without tolerance: the read of a credentials Secret tolerates no error class
		// (no filter, no benign predicate), and no credential is stored on its failure edges
		for _, g := range calls(fc, clientGet) {
			args := cfgx.CallArgs(g)
			if len(args) < 3 {
				continue
			}
			isSecret := false
			if mi, ok := args[2].(*ssa.MakeInterface); ok && strings.HasSuffix(mi.X.Type().String(), "k8s.io/api/core/v1.Secret") {
				isSecret = true
			}
			if !isSecret {
				continue
			}
			var stores []ssa.Instruction
			for _, b := range fc.Blocks {
				for _, in := range b.Instrs {
					if mu, ok := in.(*ssa.MapUpdate); ok && strings.HasSuffix(mu.Map.Type().String(), "v1.Credentials") && cfgx.InstrReaches(g, mu, nil) {
						stores = append(stores, mu)
					}
				}
			}
			if len(stores) == 0 {
				continue // not the read of a step's credentials
			}
			ev := cfgx.ErrEvents(g)
			bad := ""
			switch {
			case ev == nil || len(ev.Fail) == 0:
				bad = "the error of the read is never tested"
			case len(ev.Filtered) > 0 || len(ev.PredTrue) > 0:
				bad = "the read tolerates an error class (" + strings.Join(append(append([]string{}, ev.Filtered...), ev.Preds...), ", ") + "): a step whose Secret cannot be read is sent to its function without its credentials"
			default:
				for _, st := range stores {
					if reach, _ := cfgx.ReachableFromEdges(ev.Fail, st, nil, nil); reach {
						bad = "a credential is stored on the failure edge of the read"
					}
				}
			}
			c.R.Check(bad == "", load.FuncName(fc)+": credentials Secret read strictly", c.pos(g.Pos()), "every failure of the read of a credentials Secret ends the step with an error", bad)
		}
		// … all of them: the loop over the step's credentials is left early only with an error
		for _, b := range fc.Blocks {
			for _, in := range b.Instrs {
				mu, ok := in.(*ssa.MapUpdate)
				if !ok || !strings.HasSuffix(mu.Map.Type().String(), "v1.Credentials") {
					continue
				}
				loop := cfgx.LoopOf(mu.Block())
				if loop == nil || loop[run.Block()] {
					continue // not in a loop of its own below the step loop
				}
				c.loopVisitsAll(fc, loop, load.FuncName(fc)+": every credential of the step", "the loop over the step's credentials ends early only with an error", "the loop over the step's credentials can be left early without an error: credentials listed after that entry are never loaded")
			}
		}
		// own credentials only: the map a step's credentials are stored in is
		// created in this iteration (nothing carried over from earlier steps),
		// and so is the request that carries it.
		fresh, nmu := true, 0
		isReqCreds := func(addr ssa.Value) bool {
			return isFieldSel(addr, "v1.RunFunctionRequest", "Credentials") && flow.Root(addr) == reqAlloc
		}
		for _, b := range fc.Blocks {
			for _, in := range b.Instrs {
				switch x := in.(type) {
				case *ssa.MapUpdate:
					if !strings.HasSuffix(x.Map.Type().String(), "v1.Credentials") {
						continue
					}
					nmu++
					// the map written is this request's Credentials field (or the fresh map itself)
					if ld, ok := x.Map.(*ssa.UnOp); ok && ld.Op == token.MUL && isReqCreds(ld.X) {
						continue
					}
					if mm, ok := x.Map.(*ssa.MakeMap); ok && loop[mm.Block()] {
						continue
					}
					fresh = false
				case *ssa.Store:
					if isReqCreds(x.Addr) {
						ls := leaves(x.Val)
						if len(ls) == 0 {
							fresh = false
						}
						for _, l := range ls {
							if mm, ok := l.(*ssa.MakeMap); !ok || !loop[mm.Block()] {
								fresh = false
							}
						}
					}
				}
			}
		}
		if in, ok := reqAlloc.(ssa.Instruction); ok && !loop[in.Block()] {
			fresh = false
		}
		c.R.Check(fresh && nmu > 0, load.FuncName(fc)+": req.Credentials fresh per step", c.pos(run.Pos()), "the request and its credentials map are created inside the pipeline iteration", "the credentials map (or the request) outlives one pipeline iteration: a step is sent the credentials of earlier steps")
	}

	c.R.Rule("R4.3", "nothing dropped, order kept: conditions and non-fatal results are appended without skip and returned on success and fatal returns; the reconciler ranges over all of them", 6,
		"a result or condition a function produced would be silently lost or reordered")
	if run != nil {
		rsp := cfgx.TupleResult(run, 0)
		for _, k := range []struct{ getter, elem, field string }{{"GetConditions", "composite.TargetedCondition", "Conditions"}, {"GetResults", "composite.TargetedEvent", "Events"}} {
			var get ssa.CallInstruction
			for _, x := range cfgx.Calls(fc, nil) {
				if strings.HasSuffix(cfgx.CalleeName(x), "RunFunctionResponse)."+k.getter) && sole(x.Common().Args[0]) == rsp {
					get = x
				}
			}
			// the append that walks rsp.Get…() (inside a nested loop) and the append
			// that accumulates across steps; they are one and the same unless the
			// conversion was moved into a helper that builds a local slice first
			var app, acc ssa.CallInstruction
			for _, ap := range calls(fc, "builtin.append") {
				if !strings.HasSuffix(ap.Common().Args[0].Type().String(), k.elem) || !loop[ap.Block()] {
					continue
				}
				if l := cfgx.LoopOf(ap.Block()); l != nil && len(l) < len(loop) {
					app = ap
				}
				if phi, ok := ap.Common().Args[0].(*ssa.Phi); ok && phi.Block() == hdr {
					acc = ap
				}
			}
			if acc == nil {
				acc = app
			}
			if app == nil {
				app = acc
			}
			if get == nil || app == nil {
				c.R.Bad(load.FuncName(fc)+": "+k.getter, c.pos(run.Pos()), "rsp."+k.getter+"() is not ranged over / appended")
				continue
			}
			inner := cfgx.LoopOf(app.Block())
			okInner := inner != nil && inner[app.Block()] && len(inner) < len(loop)
			by, w := true, []string(nil)
			if okInner {
				by, w = cfgx.LoopBypass(inner, map[*ssa.BasicBlock]bool{app.Block(): true}, nil, c.posf())
			}
			c.R.Check(okInner && !by, site(app)+" every-"+k.field, c.pos(app.Pos()), "every element of rsp."+k.getter+"() is appended (an iteration either appends or returns)", "an element of rsp."+k.getter+"() can be skipped", w...)
			// appended to the carried slice, element derived from the range element
			carried := false
			if phi, ok := acc.Common().Args[0].(*ssa.Phi); ok {
				carried = loop[phi.Block()]
			}
			if acc != app {
				// the locally built slice is what is appended to the carried one, whole
				whole := len(acc.Common().Args) == 2 && flow.Strict.Any(acc.Common().Args[1], func(v ssa.Value) bool { return v == app.Value() })
				carried = carried && whole && cfgx.InstrReaches(app, acc, nil)
			}
			c.R.Check(carried, site(acc)+" accumulates", c.pos(acc.Pos()), "appends to the slice carried across steps (pipeline order)", "the slice appended to is not the one carried across steps")
			app = acc
			// returned on every return reachable after the loop started that carries a result
			for _, b := range fc.Blocks {
				r, ok := b.Instrs[len(b.Instrs)-1].(*ssa.Return)
				if !ok {
					continue
				}
				// success return: error nil; fatal return: inside the results loop
				isFatal := inner[b] || returnsFromLoopHas(inner, r)
				if nonNilError(r) != "nil" && !(k.field != "" && isFatal && strings.Contains(b.Comment, "switch")) && !isFatalReturn(fc, r) {
					continue
				}
				has := flow.Default.Any(cfgx.ReturnValue(r, 0), func(v ssa.Value) bool {
					return v == app.Value() || v == app.Common().Args[0]
				}) || resultFieldFrom(r, k.field, app)
				c.R.Check(has, load.FuncName(fc)+": return @b"+itoa(b.Index)+" carries "+k.field, c.pos(r.Pos()), "the returned CompositionResult carries the accumulated "+k.field, "a return drops the accumulated "+k.field)
			}
		}
	}
	if hc := c.method(pkgComposite, "Reconciler", "handleCommonCompositionResult"); hc != nil {
		n := 0
		for h, body := range cfgx.Loops(hc) {
			_ = h
			okx, _ := cfgx.OnlyHeaderExits(body)
			n++
			c.R.Check(okx, load.FuncName(hc)+": loop #"+itoa(n)+" complete", c.pos(firstPos(cfgx.LoopHeader(body))), "ranges over all events/conditions", "a loop over the composition result can exit early")
		}
		if n < 2 {
			c.R.Unknown(load.FuncName(hc)+": loops", c.pos(hc.Pos()), "expected loops over res.Events and res.Conditions")
		}
	}

	c.R.Rule("R4.4", "extra-resource rounds: fresh ExtraResources per round, filled from Fetch of the latest requirements' selectors only, context forwarded, same request re-sent", 5,
		"a function would be re-run with stale or foreign extra resources")
	if rf := c.method(pkgComposite, "FetchingFunctionRunner", "RunFunction"); rf != nil {
		inner := calls(rf, runFnInv)
		if len(inner) == 1 {
			rsp := cfgx.TupleResult(inner[0], 0)
			req := ssa.Value(rf.Params[3])
			c.R.Check(cfgx.CallArgs(inner[0])[2] == req && cfgx.CallArgs(inner[0])[1] == ssa.Value(rf.Params[2]), site(inner[0])+" same request", c.pos(inner[0].Pos()), "re-sends the caller's request to the same function", "the wrapped call does not use the caller's request/name")
			var reset *ssa.Store
			var ctxStore *ssa.Store
			for _, b := range rf.Blocks {
				for _, in := range b.Instrs {
					if st, ok := in.(*ssa.Store); ok && flow.Root(st.Addr) == req {
						if isFieldSel(st.Addr, "v1.RunFunctionRequest", "ExtraResources") {
							reset = st
						}
						if isFieldSel(st.Addr, "v1.RunFunctionRequest", "Context") {
							ctxStore = st
						}
					}
				}
			}
			_, isMake := valueOf(reset).(*ssa.MakeMap)
			c.R.Check(reset != nil && isMake, load.FuncName(rf)+": fresh ExtraResources", c.pos(rf.Pos()), "req.ExtraResources is re-created each round", "req.ExtraResources is not re-created each round: resources of earlier requirements linger")
			for _, b := range rf.Blocks {
				for _, in := range b.Instrs {
					mu, ok := in.(*ssa.MapUpdate)
					if !ok || !strings.HasSuffix(mu.Map.Type().String(), "v1.Resources") {
						continue
					}
					fromFetch := false
					var fetch ssa.CallInstruction
					for _, ci := range flow.Strict.CallsIn(mu.Value) {
						if strings.HasSuffix(cfgx.CalleeName(ci), "ExtraResourcesFetcher).Fetch") {
							fromFetch, fetch = true, ci
						}
					}
					c.R.Check(fromFetch, load.FuncName(rf)+": ExtraResources[name]= from Fetch", c.pos(mu.Pos()), "the value stored is the Fetch result", "a value other than the Fetch result is supplied as extra resource")
					if reset != nil {
						c.R.Check(cfgx.MustPass(reset.Block(), mu.Block()) && cfgx.ReachesInIteration(reset, mu), load.FuncName(rf)+": reset before fill", c.pos(mu.Pos()), "the map is re-created before it is filled", "ExtraResources is filled before it is re-created")
					}
					if fetch != nil {
						sel := cfgx.CallArgs(fetch)[1]
						latest := flow.Default.Any(sel, func(v ssa.Value) bool {
							ci, ok := v.(*ssa.Call)
							return ok && strings.HasSuffix(cfgx.CalleeName(ci), "RunFunctionResponse).GetRequirements") && sole(ci.Call.Args[0]) == rsp
						})
						c.R.Check(latest, site(fetch)+" latest-selectors", c.pos(fetch.Pos()), "selectors come from the response just received", "the selectors fetched are not those of the latest response")
						// key and selector from the same range
						paired := flow.Strict.Any(mu.Key, func(v ssa.Value) bool { _, ok := v.(*ssa.Range); return ok }) && sameRange(mu.Key, sel)
						if lk, ok := sel.(*ssa.Lookup); ok && !paired {
							// selectors[name] with the very name the result is stored under
							paired = lk.Index == mu.Key
						}
						c.R.Check(paired, load.FuncName(rf)+": name/selector pair", c.pos(mu.Pos()), "stored under the requirement's own name", "the fetched resources are stored under another requirement's name")
					}
				}
			}
			// rounds stop only when the whole requirements value stopped changing
			stab := false
			if lp := cfgx.LoopOf(inner[0].Block()); lp != nil {
				h := cfgx.LoopHeader(lp)
				for _, x := range cfgx.Calls(rf, nil) {
					switch cfgx.CalleeName(x) {
					case "reflect.DeepEqual", "google.golang.org/protobuf/proto.Equal", "github.com/google/go-cmp/cmp.Equal":
						a := x.Common().Args
						fromRsp := func(v ssa.Value) bool {
							return flow.Default.Any(v, func(y ssa.Value) bool {
								ci, ok := y.(*ssa.Call)
								return ok && strings.HasSuffix(cfgx.CalleeName(ci), "RunFunctionResponse).GetRequirements") && sole(ci.Call.Args[0]) == rsp
							})
						}
						carried := func(v ssa.Value) bool {
							return flow.Strict.Any(v, func(y ssa.Value) bool { p, ok := y.(*ssa.Phi); return ok && p.Block() == h })
						}
						if (fromRsp(a[0]) && carried(a[1])) || (fromRsp(a[1]) && carried(a[0])) {
							stab = true
						}
					}
				}
			}
			c.R.Check(stab, load.FuncName(rf)+": until requirements stop changing", c.pos(inner[0].Pos()), "rounds end on whole-value equality of this round's and the previous round's requirements", "no whole-value equality (reflect.DeepEqual/proto.Equal/cmp.Equal) between this round's and the previous round's requirements decides when to stop: a changed requirement set may be treated as stable")
			goodCtx := false
			if ctxStore != nil {
				if ci, ok := ctxStore.Val.(*ssa.Call); ok && strings.HasSuffix(cfgx.CalleeName(ci), "RunFunctionResponse).GetContext") && sole(ci.Call.Args[0]) == rsp {
					goodCtx = true
				}
			}
			c.R.Check(goodCtx, load.FuncName(rf)+": context forwarded", c.pos(rf.Pos()), "req.Context = rsp.GetContext()", "the context returned by the function is not passed to the next round")
			if ctxStore != nil {
				// … in every round that goes on, whatever the requirements contain
				round := cfgx.LoopOf(inner[0].Block())
				own := cfgx.LoopOf(ctxStore.Block())
				sameLoop := round != nil && own != nil && len(own) == len(round) && own[inner[0].Block()]
				by := true
				if round != nil {
					by, _ = cfgx.LoopBypass(round, map[*ssa.BasicBlock]bool{ctxStore.Block(): true}, nil, nil)
				}
				c.R.Check(sameLoop && !by, load.FuncName(rf)+": context forwarded in every round", c.pos(ctxStore.Pos()), "the context is refreshed once per round, on every way into the next round", "the context is refreshed only on some ways into the next round (inside the loop over the requirements, or behind a condition): a round with no selectors re-sends a stale context")
			}
		} else {
			c.R.Unknown(load.FuncName(rf)+": wrapped call", c.pos(rf.Pos()), "expected one wrapped RunFunction call")
		}
	}

	c.R.Rule("R4.5", "v1 ⇄ v1beta1 is a re-encoding of identical messages (struct tags, oneofs, enums)", 20,
		"a field present or numbered differently in one version is silently dropped or misread by the fallback")
	c04proto(c)

	c.R.Rule("R4.6", "connection cache: returned only on target==endpoint of the Active revision; stale closed and forgotten before replace; GC closes exactly the uninstalled; under connsMx", 7,
		"a step would be sent to a stale or wrong function endpoint, or connections leak")
	if gc := c.method("internal/xfn", "PackagedFunctionRunner", "getClientConn"); gc != nil {
		// returns of a cached conn
		var eqTrue []cfgx.Edge
		for _, b := range gc.Blocks {
			for _, in := range b.Instrs {
				if bo, ok := in.(*ssa.BinOp); ok && isEqOrNeq(bo) {
					t1 := hasSuffixCall(bo.X, "grpc.ClientConn).Target") || hasSuffixCall(bo.Y, "grpc.ClientConn).Target")
					_, p1, _ := flow.AccessPathC(bo.Y)
					_, p2, _ := flow.AccessPathC(bo.X)
					if t1 && (strings.HasSuffix(p1, "Status.Endpoint") || strings.HasSuffix(p2, "Status.Endpoint")) {
						t, _ := eqEdges(bo)
						eqTrue = append(eqTrue, t...)
					}
				}
			}
		}
		newc := calls(gc, "google.golang.org/grpc.NewClient")
		n := 0
		for _, b := range gc.Blocks {
			r, ok := b.Instrs[len(b.Instrs)-1].(*ssa.Return)
			if !ok || nonNilError(r) != "nil" {
				continue
			}
			// conn returned: from the cache lookup or the new client
			fromNew, fromCache := false, false
			for _, leaf := range phiLeaves(cfgx.ReturnValue(r, 0)) {
				if ex, ok := leaf.(*ssa.Extract); ok {
					if lk, ok := ex.Tuple.(*ssa.Lookup); ok && lk.CommaOk {
						fromCache = true
					}
					if len(newc) == 1 && ex.Tuple == newc[0].Value() {
						fromNew = true
					}
				}
			}
			if fromCache && !fromNew {
				n++
				c.requireCross(load.FuncName(gc)+": cached return @b"+itoa(b.Index), r, eqTrue, "conn.Target() == active.Status.Endpoint")
			}
		}
		if n < 2 {
			c.R.Unknown(load.FuncName(gc)+": cached returns", c.pos(gc.Pos()), "expected two returns of a cached connection")
		}
		// active revision selection
		okActive := false
		for _, f := range closures(gc) { // the test may sit in a predicate literal (slices.IndexFunc)
			for _, b := range f.Blocks {
				for _, in := range b.Instrs {
					if bo, ok := in.(*ssa.BinOp); ok && isEqOrNeq(bo) {
						for _, pr := range [][2]ssa.Value{{bo.X, bo.Y}, {bo.Y, bo.X}} {
							if s, ok := cfgx.ConstString(pr[1]); ok && s == "Active" && hasSuffixCall(pr[0], ".GetDesiredState") {
								okActive = true
							}
						}
					}
				}
			}
		}
		c.R.Check(okActive, load.FuncName(gc)+": active revision", c.pos(gc.Pos()), "the revision used is chosen by GetDesiredState()==Active", "the revision whose endpoint is dialled is not selected by DesiredState==Active")
		if len(newc) == 1 {
			_, p, _ := flow.AccessPathC(cfgx.CallArgs(newc[0])[0])
			c.R.Check(strings.HasSuffix(p, "Status.Endpoint"), site(newc[0])+" dials active endpoint", c.pos(newc[0].Pos()), "dials active.Status.Endpoint", "the new connection does not dial the active revision's endpoint")
			// the store conns[name] = conn after ok(NewClient); stale one closed+deleted before on the ok&&!eq path
			for _, b := range gc.Blocks {
				for _, in := range b.Instrs {
					if mu, ok := in.(*ssa.MapUpdate); ok && strings.HasSuffix(mu.Map.Type().String(), "grpc.ClientConn") {
						c.requireCross(load.FuncName(gc)+": conns[name]= after dial", mu, okEdges(newc[0]), "ok(grpc.NewClient)")
						c.R.Check(mu.Key == ssa.Value(gc.Params[2]) && mu.Value == cfgx.TupleResult(newc[0], 0), load.FuncName(gc)+": conns[name]=new", c.pos(mu.Pos()), "stores the new connection under the function's name", "the connection is cached under another key or another connection is cached")
					}
				}
			}
			var cl, del ssa.CallInstruction
			for _, x := range cfgx.Calls(gc, nil) {
				if strings.HasSuffix(cfgx.CalleeName(x), "grpc.ClientConn).Close") {
					cl = x
				}
				if cfgx.CalleeName(x) == "builtin.delete" {
					del = x
				}
			}
			c.R.Check(cl != nil && del != nil && cl.Block().Dominates(newc[0].Block()) == false && cfgx.InstrReaches(cl, newc[0], nil) && cfgx.InstrReaches(del, newc[0], nil), load.FuncName(gc)+": stale closed first", c.pos(gc.Pos()), "a stale connection is closed and deleted before the new one is created", "a stale connection is not closed and forgotten before it is replaced")
		} else {
			c.R.Unknown(load.FuncName(gc)+": dial", c.pos(gc.Pos()), "grpc.NewClient not found")
		}
	}
	if g := c.method("internal/xfn", "PackagedFunctionRunner", "GarbageCollectConnectionsNow"); g != nil {
		var exists []cfgx.Edge
		for _, b := range g.Blocks {
			for _, in := range b.Instrs {
				if lk, ok := in.(*ssa.Lookup); ok && !lk.CommaOk && isBoolMap(lk.X.Type()) {
					_, f := cfgx.CondEdges(lk)
					exists = append(exists, f...)
				}
			}
		}
		n := 0
		for _, x := range cfgx.Calls(g, nil) {
			nm := cfgx.CalleeName(x)
			if strings.HasSuffix(nm, "grpc.ClientConn).Close") || nm == "builtin.delete" {
				n++
				c.requireCross(site(x)+" only-uninstalled", x, exists, "functionExists[name]==false")
			}
		}
		if n < 2 {
			c.R.Unknown(load.FuncName(g)+": close/delete", c.pos(g.Pos()), "expected Close and delete")
		}
		// the existence map holds every listed function
		okAll := false
		for _, b := range g.Blocks {
			for _, in := range b.Instrs {
				if mu, ok := in.(*ssa.MapUpdate); ok && isBoolMap(mu.Map.Type()) {
					if l := cfgx.LoopOf(mu.Block()); l != nil {
						by, _ := cfgx.LoopBypass(l, map[*ssa.BasicBlock]bool{mu.Block(): true}, nil, nil)
						okAll = !by && hasSuffixCall(mu.Key, ".GetName")
					}
				}
			}
		}
		c.R.Check(okAll, load.FuncName(g)+": all installed functions", c.pos(g.Pos()), "every listed Function is marked existing", "not every listed Function is entered into the existence map")
		ls := calls(g, clientList)
		if len(ls) == 1 {
			for _, x := range cfgx.Calls(g, nil) {
				if strings.HasSuffix(cfgx.CalleeName(x), "grpc.ClientConn).Close") {
					c.requireCross(site(x)+" after-list", x, okEdges(ls[0]), "ok(List(Functions))")
				}
			}
		}
	}
	// lock discipline on conns (shared engine with C13)
	for _, f := range c.P.PkgFunctions("internal/xfn") {
		r := locks.Analyse(f, locks.Config{Guards: lockGuards})
		for _, a := range r.Accesses {
			if st, ok := a.Instr.(*ssa.Store); ok {
				if _, fresh := flow.Root(st.Addr).(*ssa.Alloc); fresh {
					continue
				}
			}
			need, kind := locks.R, "read"
			if a.Write {
				need, kind = locks.W, "write"
			}
			c.R.Check(a.Weakest >= need, load.FuncName(f)+": "+kind+" conns #"+itoa(accessOrdinal(r.Accesses, a)), c.pos(a.Instr.Pos()), kind+" under connsMx ("+a.Weakest.String()+")", kind+" of the connection cache without the required lock")
		}
		for _, p := range r.Problems {
			c.R.Bad(load.FuncName(f)+": "+p.What, c.pos(p.Instr.Pos()), p.What)
		}
	}

	c.R.Rule("R4.8", "existing composed resources are read by the namespace and name of their reference", 2,
		"a namespaced composed resource read without its namespace is not found: it is missing from the observed state every step receives (and is re-created under a new name)")
	if ob := c.method(pkgComposite, "ExistingComposedResourceObserver", "ObserveComposedResources"); ob != nil {
		gets := calls(ob, clientGet)
		if len(gets) == 0 {
			c.R.Unknown(load.FuncName(ob)+": Get", c.pos(ob.Pos()), "no client.Get of a referenced resource found")
		}
		for _, g := range gets {
			key := cfgx.CallArgs(g)[1]
			var alloc *ssa.Alloc
			if ld, ok := key.(*ssa.UnOp); ok {
				alloc, _ = ld.X.(*ssa.Alloc)
			}
			got := map[string]string{}
			var roots []ssa.Value
			if alloc != nil && alloc.Referrers() != nil {
				for _, r := range *alloc.Referrers() {
					fa, ok := r.(*ssa.FieldAddr)
					if !ok || fa.Referrers() == nil {
						continue
					}
					for _, u := range *fa.Referrers() {
						if st, ok := u.(*ssa.Store); ok && st.Addr == ssa.Value(fa) {
							rt, p, _ := flow.AccessPathC(st.Val)
							got[fieldName(fa.X.Type(), fa.Field)] = p
							roots = append(roots, rt)
						}
					}
				}
			}
			same := len(roots) == 2 && roots[0] == roots[1]
			c.R.Check(same && strings.HasSuffix(got["Namespace"], "Namespace") && strings.HasSuffix(got["Name"], "Name") && !strings.HasSuffix(got["Name"], "Namespace"), site(g)+" key", c.pos(g.Pos()), "the key is {Namespace: ref.Namespace, Name: ref.Name} of one reference", "the referenced resource is not read by the namespace and name of its reference (Namespace="+got["Namespace"]+", Name="+got["Name"]+")")
		}
	}

	c.R.Rule("R4.7", "observed connection details are read from the secret the resource's own reference names", 1,
		"the observed state handed to the functions would carry the connection details of some other secret (same name, another namespace)")
	if fc := c.method(pkgComposite, "SecretConnectionDetailsFetcher", "FetchConnection"); fc != nil {
		gets := calls(fc, clientGet)
		if len(gets) != 1 {
			c.R.Unknown(load.FuncName(fc)+": Get", c.pos(fc.Pos()), "expected one client.Get of the secret")
		} else {
			fromRef := func(v ssa.Value, field string) bool {
				// a read of sref.<field>, sref = o.GetWriteConnectionSecretToReference()
				r := flow.Root(v)
				for _, x := range []ssa.Value{v, r} {
					switch x := x.(type) {
					case *ssa.UnOp:
						if fa, ok := x.X.(*ssa.FieldAddr); ok && fieldName(fa.X.Type(), fa.Field) == field && hasSuffixCall(flow.Root(fa.X), ".GetWriteConnectionSecretToReference") {
							return true
						}
					case *ssa.Field:
						if fieldName(x.X.Type(), x.Field) == field && hasSuffixCall(flow.Root(x.X), ".GetWriteConnectionSecretToReference") {
							return true
						}
					}
				}
				return false
			}
			key := cfgx.CallArgs(gets[0])[1]
			var alloc *ssa.Alloc
			if ld, ok := key.(*ssa.UnOp); ok {
				alloc, _ = ld.X.(*ssa.Alloc)
			}
			n, bad := 0, ""
			if alloc != nil && alloc.Referrers() != nil {
				for _, r := range *alloc.Referrers() {
					fa, ok := r.(*ssa.FieldAddr)
					if !ok || fa.Referrers() == nil {
						continue
					}
					fld := fieldName(fa.X.Type(), fa.Field)
					for _, u := range *fa.Referrers() {
						if st, ok := u.(*ssa.Store); ok && st.Addr == ssa.Value(fa) {
							n++
							if !fromRef(st.Val, fld) {
								bad = c.pos(st.Pos())
							}
						}
					}
				}
			}
			c.R.Check(n >= 2 && bad == "", site(gets[0])+" key", c.pos(gets[0].Pos()), "namespace and name of the secret read are those of the resource's writeConnectionSecretToRef", "the key of the secret read is not (only) the namespace and name of the resource's writeConnectionSecretToRef (see "+bad+")")
		}
	}
}

func valueOf(st *ssa.Store) ssa.Value {
	if st == nil {
		return nil
	}
	return st.Val
}

func sameRange(a, b ssa.Value) bool {
	var ra, rb *ssa.Range
	for x := range flow.Strict.Back(a) {
		if r, ok := x.(*ssa.Range); ok {
			ra = r
		}
	}
	for x := range flow.Strict.Back(b) {
		if r, ok := x.(*ssa.Range); ok {
			rb = r
		}
	}
	return ra != nil && ra == rb
}

func reqAllocBlock(v ssa.Value) *ssa.BasicBlock {
	if in, ok := v.(ssa.Instruction); ok {
		return in.Block()
	}
	return nil
}

// isFreshAlloc: v is `&T{...}` allocated here (new T complit), T's type string ending with suffix.
func isFreshAlloc(v ssa.Value, suffix string) bool {
	a, ok := v.(*ssa.Alloc)
	if !ok {
		return false
	}
	return strings.HasSuffix(a.Type().(*types.Pointer).Elem().String(), suffix)
}

// phiLeaves returns the non-phi values a phi tree can take.
func phiLeaves(v ssa.Value) []ssa.Value {
	seen := map[ssa.Value]bool{}
	var out []ssa.Value
	var walk func(v ssa.Value)
	walk = func(v ssa.Value) {
		if seen[v] {
			return
		}
		seen[v] = true
		if p, ok := v.(*ssa.Phi); ok {
			for _, e := range p.Edges {
				walk(e)
			}
			// a phi that is reachable from itself counts as a leaf too (self-carry)
			return
		}
		out = append(out, v)
	}
	if p, ok := v.(*ssa.Phi); ok {
		for _, e := range p.Edges {
			if e == v {
				out = append(out, v)
			}
			walk(e)
		}
		// also report enclosing header phis reached
		for x := range seen {
			if ph, ok := x.(*ssa.Phi); ok && ph != p {
				_ = ph
			}
		}
		// header phi reached through inner phis
		for x := range seen {
			if ph, ok := x.(*ssa.Phi); ok {
				for _, e := range ph.Edges {
					if hp, ok := e.(*ssa.Phi); ok && hp.Block().Dominates(p.Block()) && hp != p && hp.Block() != p.Block() {
						out = append(out, hp)
					}
				}
			}
		}
		return out
	}
	walk(v)
	return out
}

func returnsFromLoopHas(loop map[*ssa.BasicBlock]bool, r *ssa.Return) bool {
	if loop == nil {
		return false
	}
	for _, x := range cfgx.ReturnsFromLoop(loop) {
		if x == r {
			return true
		}
	}
	return false
}

// isFatalReturn: the return is the target of the SEVERITY_FATAL case.
func isFatalReturn(fn *ssa.Function, r *ssa.Return) bool {
	for _, b := range fn.Blocks {
		for _, in := range b.Instrs {
			if bo, ok := in.(*ssa.BinOp); ok && isEqOrNeq(bo) && hasSuffixCall(bo.X, ".GetSeverity") {
				if v, ok := cfgx.ConstInt(bo.Y); ok && v == 1 {
					t, _ := eqEdges(bo)
					for _, e := range t {
						if e.To() == r.Block() {
							return true
						}
					}
				}
			}
		}
	}
	return false
}

// resultFieldFrom: the returned CompositionResult literal's field gets a value deriving from the append / its carried slice.
func resultFieldFrom(r *ssa.Return, field string, app ssa.CallInstruction) bool {
	ld, ok := cfgx.ReturnValue(r, 0).(*ssa.UnOp)
	if !ok {
		return false
	}
	al, ok := ld.X.(*ssa.Alloc)
	if !ok {
		return false
	}
	for _, ref := range *al.Referrers() {
		fa, ok := ref.(*ssa.FieldAddr)
		if !ok || !isFieldSel(fa, "composite.CompositionResult", field) {
			continue
		}
		for _, rr := range *fa.Referrers() {
			if st, ok := rr.(*ssa.Store); ok {
				if st.Val == app.Value() || st.Val == app.Common().Args[0] {
					return true
				}
				if phi, ok := st.Val.(*ssa.Phi); ok {
					for _, e := range phi.Edges {
						if e == app.Value() {
							return true
						}
					}
				}
			}
		}
	}
	return false
}

// c04proto compares the generated message types of the two proto packages.
func c04proto(c *Ctx) {
	a := c.P.TypesPkg("apis/apiextensions/fn/proto/v1")
	b := c.P.TypesPkg("apis/apiextensions/fn/proto/v1beta1")
	if a == nil || b == nil {
		c.R.Unknown("proto packages", "", "fn/proto/v1 or v1beta1 not loaded")
		return
	}
	names := map[string]bool{}
	for _, p := range []*pkgT{a, b} {
		sc := p.Types.Scope()
		for _, n := range sc.Names() {
			if tn, ok := sc.Lookup(n).(*types.TypeName); ok && tn.Exported() {
				if _, isStruct := tn.Type().Underlying().(*types.Struct); isStruct {
					names[n] = true
				}
				if bt, isB := tn.Type().Underlying().(*types.Basic); isB && bt.Kind() == types.Int32 {
					names[n] = true
				}
			}
		}
	}
	var sorted []string
	for n := range names {
		sorted = append(sorted, n)
	}
	sort.Strings(sorted)
	skip := func(n string) bool {
		return strings.HasPrefix(n, "Unimplemented") || strings.HasPrefix(n, "Unsafe") || strings.HasSuffix(n, "Client") || strings.HasSuffix(n, "Server")
	}
	for _, n := range sorted {
		if skip(n) {
			continue
		}
		oa, ob := a.Types.Scope().Lookup(n), b.Types.Scope().Lookup(n)
		if oa == nil || ob == nil {
			c.R.Bad("proto type "+n, "", "message/enum "+n+" exists in only one of v1 / v1beta1")
			continue
		}
		sa, okA := oa.Type().Underlying().(*types.Struct)
		sb, okB := ob.Type().Underlying().(*types.Struct)
		if okA != okB {
			c.R.Bad("proto type "+n, "", "kind differs between versions")
			continue
		}
		if okA {
			ta, tb := protoTags(sa), protoTags(sb)
			c.R.Check(reflect.DeepEqual(ta, tb), "proto message "+n, c.pos(oa.Pos()), itoa(len(ta))+" fields with identical tags in both versions", "protobuf field tags differ between v1 and v1beta1: "+diffTags(ta, tb))
			continue
		}
		// enum: compare constants
		ca, cb := enumConsts(a.Types, oa.Type()), enumConsts(b.Types, ob.Type())
		c.R.Check(reflect.DeepEqual(ca, cb) && len(ca) > 0, "proto enum "+n, c.pos(oa.Pos()), itoa(len(ca))+" identical values in both versions", "enum values differ between v1 and v1beta1")
	}
}

func protoTags(s *types.Struct) []string {
	var out []string
	for i := 0; i < s.NumFields(); i++ {
		tag := reflect.StructTag(s.Tag(i))
		pb := strings.ReplaceAll(tag.Get("protobuf"), "apiextensions.fn.proto.v1beta1.", "apiextensions.fn.proto.v1.")
		oneof := tag.Get("protobuf_oneof")
		pk, pv := tag.Get("protobuf_key"), tag.Get("protobuf_val")
		if pb == "" && oneof == "" {
			continue
		}
		out = append(out, s.Field(i).Name()+"|"+pb+"|"+oneof+"|"+pk+"|"+pv)
	}
	return out
}

func diffTags(a, b []string) string {
	sa, sb := map[string]bool{}, map[string]bool{}
	for _, x := range a {
		sa[x] = true
	}
	for _, x := range b {
		sb[x] = true
	}
	var d []string
	for _, x := range a {
		if !sb[x] {
			d = append(d, "v1 only: "+x)
		}
	}
	for _, x := range b {
		if !sa[x] {
			d = append(d, "v1beta1 only: "+x)
		}
	}
	return strings.Join(d, "; ")
}

func enumConsts(p *types.Package, t types.Type) []string {
	var out []string
	sc := p.Scope()
	for _, n := range sc.Names() {
		if k, ok := sc.Lookup(n).(*types.Const); ok && types.Identical(k.Type(), t) {
			out = append(out, n+"="+k.Val().ExactString())
		}
	}
	sort.Strings(out)
	return out
}

// fieldName names field i of the struct type t (or of the struct *t points to).
func fieldName(t types.Type, i int) string {
	if p, ok := t.Underlying().(*types.Pointer); ok {
		t = p.Elem()
	}
	st, ok := t.Underlying().(*types.Struct)
	if !ok || i >= st.NumFields() {
		return ""
	}
	return st.Field(i).Name()
}
