package rules

import (
	"go/token"
	"strings"

	"golang.org/x/tools/go/ssa"

	"xpcheck/internal/cfgx"
	"xpcheck/internal/flow"
	"xpcheck/internal/load"
)

func init() {
	register(&Property{
		ID:  "C02",
		Run: c02,
		Explanation: "Decides, for every write site in the anchored controllers, that the guard against foreign controllers is present on every path: (R2.1) every Applicator.Apply of a child object carries MustBeControllableBy / ConnectionSecretMustBeControllableBy keyed on the owner's GetUID() (exceptions are listed by symbol with a reason); " +
			"(R2.2) both garbage collectors reach Update/Delete only over the 'no controller or our UID' edges of a test on the very object written; (R2.3) observation stores only such objects; (R2.4) XRD teardown deletes the CRD only on WasCreated ∧ IsControlledBy(crd, d); " +
			"(R2.5) the establisher's controlling Update needs ok(AddControllerReference) on owner references copied from the object whose resourceVersion is written, and that snapshot is not touched between validation and the update; (R2.6) the claim secret is written only on the edge where the source secret's controller UID equals the XR's; " +
			"(R2.7) every pipeline-composed object passed ok(RenderComposedResourceMetadata), which ends in AddControllerReference(AsController(ref to the XR)). (R2.9) the server-side-apply field manager of composed resources hashes the XR's name and its API group (GroupKind): two XRs never look like one applier to the API server. The chain the claim reconciler calls its connection propagators through is part of R2.0's scope (a refusal must surface). R2.3 also requires that the observer's controller test examines the object as last read (no Get into it after the test).",
		NotDecided:  []string{"the API server's rejection of a second controller reference under server-side apply", "byte-for-byte equality of the untouched foreign object", "runtime objects (Deployment/Service/ServiceAccount) applied by the package runtime hooks and the manager's history-GC delete: not among the placements the property enumerates"},
		Assumptions: []string{"crossplane-runtime's Applicator honours MustBeControllableBy", "meta.AddControllerReference fails when a different controller exists"},
	})
}

// applyExceptions: Apply sites that need no controller guard, one symbol each.
var applyExceptions = map[string]string{
	"(*internal/controller/apiextensions/composite.PTComposer).Compose|" + tXRUnstr:                          "applies the XR itself (self), not a child",
	"(*internal/controller/apiextensions/composite.APIRevisionFetcher).Fetch|" + xprt + "resource.Composite": "applies the XR itself (self) to record the revision reference",
	"(*internal/controller/apiextensions/claim.ClientSideCompositeSyncer).Sync|" + tXRUnstr:                  "XRs are tied to claims by claimRef, not a controller reference: covered by C06's bound-claim gate",
	"(*internal/controller/pkg/revision.ProviderHooks).Pre|*":                                                "package runtime objects: not among the placements the property enumerates",
	"(*internal/controller/pkg/revision.ProviderHooks).Post|*":                                               "package runtime objects: not among the placements the property enumerates",
	"(*internal/controller/pkg/revision.FunctionHooks).Pre|*":                                                "package runtime objects: not among the placements the property enumerates",
	"(*internal/controller/pkg/revision.FunctionHooks).Post|*":                                               "package runtime objects: not among the placements the property enumerates",
	"internal/controller/pkg/revision.applySA|*":                                                             "package runtime objects: not among the placements the property enumerates",
}

// childKind: static types of objects these controllers write on behalf of an
// owner (never the reconciled object itself).
var childKind = map[string]bool{
	"*k8s.io/api/core/v1.Secret":             true,
	"*k8s.io/api/rbac/v1.ClusterRole":        true,
	"*k8s.io/api/rbac/v1.ClusterRoleBinding": true,
	"*k8s.io/api/rbac/v1.Role":               true,
	"*k8s.io/api/rbac/v1.RoleBinding":        true,
	"*k8s.io/apiextensions-apiserver/pkg/apis/apiextensions/v1.CustomResourceDefinition":        true,
	"github.com/crossplane/crossplane-runtime/pkg/resource.Composed":                            true,
	"*github.com/crossplane/crossplane-runtime/pkg/resource/unstructured/composed.Unstructured": true,
	"*k8s.io/apimachinery/pkg/apis/meta/v1/unstructured.Unstructured":                           true,
	"sigs.k8s.io/controller-runtime/pkg/client.Object":                                          true,
	"k8s.io/apimachinery/pkg/runtime.Object":                                                    true,
}

// rawWriteSites: the raw writes of child kinds confirmed by hand, with the
// rule that decides their guard.
var rawWriteSites = map[string]string{
	"(*internal/controller/apiextensions/composite.DeletingComposedResourceGarbageCollector).GarbageCollectComposedResources|(client.Writer).Update|github.com/crossplane/crossplane-runtime/pkg/resource.Composed":  "R2.2 (controller test on the object)",
	"(*internal/controller/apiextensions/composite.DeletingComposedResourceGarbageCollector).GarbageCollectComposedResources|(client.Writer).Delete|github.com/crossplane/crossplane-runtime/pkg/resource.Composed":  "R2.2 (controller test on the object)",
	"(*internal/controller/apiextensions/composite.GarbageCollectingAssociator).AssociateTemplates|(client.Writer).Update|*github.com/crossplane/crossplane-runtime/pkg/resource/unstructured/composed.Unstructured": "R2.2 (controller test on the object)",
	"(*internal/controller/apiextensions/composite.GarbageCollectingAssociator).AssociateTemplates|(client.Writer).Delete|*github.com/crossplane/crossplane-runtime/pkg/resource/unstructured/composed.Unstructured": "R2.2 (controller test on the object)",
	"(*internal/controller/apiextensions/composite.FunctionComposer).Compose|(client.Writer).Patch|github.com/crossplane/crossplane-runtime/pkg/resource.Composed":                                                   "R2.7 (server-side apply of an object carrying our controller reference)",
	"(*internal/controller/apiextensions/definition.Reconciler).Reconcile|(client.Writer).Delete|*k8s.io/apiextensions-apiserver/pkg/apis/apiextensions/v1.CustomResourceDefinition":                                 "R2.4 (WasCreated ∧ IsControlledBy)",
	"(*internal/controller/apiextensions/offered.Reconciler).Reconcile|(client.Writer).Delete|*k8s.io/apiextensions-apiserver/pkg/apis/apiextensions/v1.CustomResourceDefinition":                                    "R2.4 (WasCreated ∧ IsControlledBy)",
	"(*internal/controller/apiextensions/definition.Reconciler).Reconcile|(client.Writer).DeleteAllOf|*k8s.io/apimachinery/pkg/apis/meta/v1/unstructured.Unstructured":                                               "instances of the XRD's own kind (C08 R8.2), reached only for our CRD (R2.4)",
	"(*internal/controller/apiextensions/offered.Reconciler).Reconcile|(client.Writer).Delete|*k8s.io/apimachinery/pkg/apis/meta/v1/unstructured.Unstructured":                                                       "claims of the XRD's own kind (C08 R8.3), reached only for our CRD (R2.4)",
	"(*internal/controller/apiextensions/claim.PatchingManagedFieldsUpgrader).Upgrade|(client.Writer).Patch|sigs.k8s.io/controller-runtime/pkg/client.Object":                                                        "managed-fields upgrade of the claim / its bound XR (C06 R6.4 gates the caller)",
	"(*internal/controller/apiextensions/composite.PatchingManagedFieldsUpgrader).Upgrade|(client.Writer).Patch|sigs.k8s.io/controller-runtime/pkg/client.Object":                                                    "managed-fields upgrade of the XR itself (self)",
	"(*internal/controller/pkg/revision.APIEstablisher).create|(client.Writer).Create|sigs.k8s.io/controller-runtime/pkg/client.Object":                                                                              "R2.5 / C16 (create only after a NotFound read; carries our controller reference)",
	"(*internal/controller/pkg/revision.APIEstablisher).update|(client.Writer).Update|sigs.k8s.io/controller-runtime/pkg/client.Object":                                                                              "R2.5 (AddControllerReference on the snapshot)",
	"(*internal/controller/pkg/revision.APIEstablisher).ReleaseObjects$1|(client.Writer).Update|*k8s.io/apimachinery/pkg/apis/meta/v1/unstructured.Unstructured":                                                     "C16 R16.4 (only flips our own owner reference to non-controlling)",
}

var c02pkgs = []string{
	pkgComposite, "internal/controller/apiextensions/claim", "internal/controller/apiextensions/definition", "internal/controller/apiextensions/offered",
	"internal/controller/pkg/manager", "internal/controller/pkg/revision", "internal/controller/rbac/provider/roles", "internal/controller/rbac/provider/binding", "internal/controller/rbac/definition",
}

func c02(c *Ctx) {
	c.R.Rule("R2.1", "guarded apply: every Applicator.Apply of a child object carries a controller guard keyed on the owner's UID", 11,
		"without the guard an object with the derived name that another owner controls is overwritten/adopted")
	for _, p := range c02pkgs {
		for _, f := range c.P.PkgFunctions(p) {
			for _, a := range calls(f, applicatorApply) {
				c.R.Analysed(load.FuncName(f))
				ot := fullType(cfgx.CallArgs(a)[1])
				if why, ok := applyExceptions[load.FuncName(f)+"|"+ot]; ok {
					c.R.OKTrivial(site(a)+" exception", c.pos(a.Pos()), "exception: "+why)
					continue
				}
				if why, ok := applyExceptions[load.FuncName(f)+"|*"]; ok {
					c.R.OKTrivial(site(a)+" exception", c.pos(a.Pos()), "exception: "+why)
					continue
				}
				g, uidOf := controlGuard(a)
				obj := flow.Root(underIface(cfgx.CallArgs(a)[1]))
				switch {
				case g == nil:
					c.R.Bad(site(a)+" guarded", c.pos(a.Pos()), "Apply of a "+cfgx.ShortCallee(ot)+" carries no MustBeControllableBy/ConnectionSecretMustBeControllableBy option: an object controlled by another owner would be overwritten")
				case uidOf == nil:
					c.R.Bad(site(a)+" guarded", c.pos(a.Pos()), "the controller guard is not keyed on a GetUID() value")
				case uidOf == obj:
					c.R.Bad(site(a)+" guarded", c.pos(a.Pos()), "the controller guard is keyed on the UID of the applied object itself, not of its owner")
				default:
					c.R.OK(site(a)+" guarded", c.pos(a.Pos()), cfgx.ShortCallee(cfgx.CalleeName(g))+"(owner.GetUID()), owner: "+cfgx.ShortCallee(uidOf.Type().String()))
				}
				c.noWriteBeforeGuard(a, g)
			}
		}
	}

	c.R.Rule("R2.2", "GC refuses foreign controllers: Update/Delete only over the no-controller / our-UID edges of a test on the object written", 4,
		"a composed resource that another XR controls would be stripped of its labels or deleted")
	for _, pr := range [][2]string{{"DeletingComposedResourceGarbageCollector", "GarbageCollectComposedResources"}, {"GarbageCollectingAssociator", "AssociateTemplates"}} {
		fn := c.method(pkgComposite, pr[0], pr[1])
		if fn == nil {
			continue
		}
		fcs := foreignControllerTests(fn)
		ws := append(calls(fn, clientUpdate), calls(fn, clientDelete)...)
		if len(fcs) != 1 || len(ws) != 2 {
			c.R.Unknown(load.FuncName(fn)+": controller check", c.pos(fn.Pos()), "expected one GetControllerOf test and an Update+Delete pair")
			continue
		}
		for _, w := range ws {
			c.requireCross(site(w)+" owner-checked", w, fcs[0].Ours, "no controller, or controller UID == owner UID")
			reach, wit := cfgx.ReachableFromEdges(fcs[0].Foreign, w, cfgx.BackEdges(fn), c.posf())
			c.R.Check(!reach && len(fcs[0].Foreign) > 0, site(w)+" foreign-leaves", c.pos(w.Pos()), "the foreign-controller edge leaves without writing", "the write is reachable in the iteration where the controller is foreign", wit...)
			c.R.Check(flow.Root(underIface(cfgx.CallArgs(w)[1])) == fcs[0].Of || flow.Default.Any(cfgx.CallArgs(w)[1], func(v ssa.Value) bool { return v == fcs[0].Of }) || sameAccess(cfgx.CallArgs(w)[1], cfgx.CallArgs(fcs[0].Get)[0]), site(w)+" same-object", c.pos(w.Pos()), "the controller test is on the object written", "the controller test is made on a different object than the one written")
		}
		ownerOK := false
		for _, prm := range fn.Params {
			if fcs[0].Owner == ssa.Value(prm) {
				ownerOK = true
			}
		}
		c.R.Check(ownerOK, load.FuncName(fn)+": owner parameter", c.pos(fcs[0].Get.Pos()), "compared with the UID of the owner parameter", "the controller UID is not compared with the owner parameter's UID")
	}

	c.R.Rule("R2.8", "who may write child kinds: a raw Create/Update/Patch/Delete of a Secret, role, binding, CRD, composed resource or untyped object in these controllers is one of the confirmed guarded sites, or is itself dominated by a controller test on the object written", 12,
		"a raw client write bypasses the Applicator's MustBeControllableBy guard: an object another owner controls is overwritten, adopted or deleted")
	for _, p := range c02pkgs {
		for _, f := range c.P.PkgFunctions(p) {
			for _, w := range calls(f, clientCreate, clientUpdate, clientPatch, clientDelete, clientDeleteAllOf) {
				ot := fullType(cfgx.CallArgs(w)[1])
				if !childKind[ot] {
					continue
				}
				key := load.FuncName(f) + "|" + cfgx.ShortCallee(cfgx.CalleeName(w)) + "|" + ot
				if why, ok := rawWriteSites[key]; ok {
					c.R.OK(site(w)+" confirmed-site", c.pos(w.Pos()), "confirmed guarded site: "+why)
					continue
				}
				// not a confirmed site: accept only with its own controller test
				good := false
				for _, fc := range foreignControllerTests(f) {
					if ok, _ := cfgx.MustCross(w, fc.Ours, nil); !ok {
						continue
					}
					if reach, _ := cfgx.ReachableFromEdges(fc.Foreign, w, cfgx.BackEdges(f), nil); reach {
						continue
					}
					if flow.Root(underIface(cfgx.CallArgs(w)[1])) == fc.Of || flow.Default.Any(cfgx.CallArgs(w)[1], func(v ssa.Value) bool { return v == fc.Of }) {
						good = true
					}
				}
				c.R.Check(good, site(w)+" guarded-raw-write", c.pos(w.Pos()), "dominated by a controller test on the object written", "raw "+cfgx.ShortCallee(cfgx.CalleeName(w))+" of a "+cfgx.ShortCallee(ot)+" outside the confirmed guarded sites and without a controller test on that object: an object controlled by another owner would be written")
			}
		}
	}

	c.R.Rule("R2.3", "observation ignores foreign objects", 1, "a foreign object observed as ours is later patched or garbage collected")
	if ob := c.method(pkgComposite, "ExistingComposedResourceObserver", "ObserveComposedResources"); ob != nil {
		fcs := foreignControllerTests(ob)
		var mu *ssa.MapUpdate
		for _, b := range ob.Blocks {
			for _, in := range b.Instrs {
				if m, ok := in.(*ssa.MapUpdate); ok {
					mu = m
				}
			}
		}
		if len(fcs) != 1 || mu == nil {
			c.R.Unknown(load.FuncName(ob)+": shape", c.pos(ob.Pos()), "expected one controller test and one result store")
		} else {
			c.requireCross(load.FuncName(ob)+": result store owner-checked", mu, fcs[0].Ours, "no controller, or controller UID == XR UID")
			// … on what was read last: no Get refreshes the object between the test and the store
			for _, g := range calls(ob, clientGet) {
				a := cfgx.CallArgs(g)
				if len(a) < 3 || flow.Root(underIface(a[2])) != fcs[0].Of {
					continue
				}
				stale := cfgx.ReachesInIteration(fcs[0].Get, g)
				c.R.Check(!stale, site(g)+" before the controller test", c.pos(g.Pos()), "the object is not read again after its controller was examined", "the controller test runs before this read refreshes the object: on a cache miss it examines an empty object and the foreign-controlled one fetched afterwards is observed as ours")
			}
			c.R.Check(flow.Default.Any(mu.Value, func(v ssa.Value) bool { return v == fcs[0].Of }) && fcs[0].Owner == ssa.Value(ob.Params[2]), load.FuncName(ob)+": same object, XR owner", c.pos(mu.Pos()), "the stored object is the one tested, against the XR's UID", "the stored object is not the tested one, or the UID compared is not the XR's")
		}
	}

	c.R.Rule("R2.4", "CRD teardown only for our CRD", 4, "deleting an XRD would delete a CRD (and all its instances) that another XRD controls")
	for _, p := range []string{"internal/controller/apiextensions/definition", "internal/controller/apiextensions/offered"} {
		fn := c.method(p, "Reconciler", "Reconcile")
		if fn == nil {
			continue
		}
		dels := callsWithArg(fn, 1, tCRD, clientDelete)
		if !c.expect("Delete(crd)", len(dels), 1, fn) {
			continue
		}
		wcTrue, _, _ := boolCallEdges(fn, metaWasCreated, argHasType(0, tCRD))
		icTrue, _, n := boolCallEdges(fn, metaIsControlledBy, argHasType(0, tCRD))
		c.requireCross(site(dels[0])+" created", dels[0], wcTrue, "WasCreated(crd)")
		c.requireCross(site(dels[0])+" controlled", dels[0], icTrue, "IsControlledBy(crd, d)")
		if n > 0 {
			for _, ic := range calls(fn, metaIsControlledBy) {
				a := cfgx.CallArgs(ic)
				c.R.Check(strings.HasSuffix(fullType(a[1]), "v1.CompositeResourceDefinition") && flow.Root(underIface(a[0])) == flow.Root(underIface(cfgx.CallArgs(dels[0])[1])), site(ic)+" args", c.pos(ic.Pos()), "tests the CRD that is deleted against the XRD", "IsControlledBy is not applied to (the deleted CRD, the XRD)")
			}
		}
		// instance deletion (DeleteAllOf / per-item Delete) is also gated
		for _, w := range append(calls(fn, clientDeleteAllOf), callsWithArg(fn, 1, tKUnstr, clientDelete)...) {
			c.requireCross(site(w)+" instances-controlled", w, icTrue, "IsControlledBy(crd, d)")
		}
	}

	c.R.Rule("R2.5", "establisher: the controlling Update needs ok(AddControllerReference) on owner references copied from the object whose resourceVersion is written; the validated snapshot is not touched before the update", 5,
		"taking over an object whose controller changed since the ownership check steals it from its new controller")
	rp := "internal/controller/pkg/revision"
	if upd := c.method(rp, "APIEstablisher", "update"); upd != nil {
		add := calls(upd, xprt+"meta.AddControllerReference")
		var ctlUpd ssa.CallInstruction
		for _, u := range calls(upd, clientUpdate) {
			if flow.Root(underIface(cfgx.CallArgs(u)[1])) == ssa.Value(upd.Params[3]) {
				ctlUpd = u
			}
		}
		if len(add) == 0 && ctlUpd != nil {
			// the controlling update is there, the call that refuses an object another controller owns is not
			c.R.Bad(site(ctlUpd)+" needs ok(AddControllerReference)", c.pos(ctlUpd.Pos()), "the controlling Update of the desired object is not preceded by meta.AddControllerReference (which fails when another controller owns the object): an object controlled by someone else is taken over")
		} else if len(add) != 1 || ctlUpd == nil {
			c.R.Unknown(load.FuncName(upd)+": shape", c.pos(upd.Pos()), "expected AddControllerReference and Update(desired)")
		} else {
			c.requireCross(site(ctlUpd)+" after-AddControllerReference", ctlUpd, okEdges(add[0]), "ok(meta.AddControllerReference)")
			c.R.Check(flow.Root(underIface(cfgx.CallArgs(add[0])[0])) == ssa.Value(upd.Params[3]), site(add[0])+" on-desired", c.pos(add[0].Pos()), "the controller reference is added to the object that is written", "AddControllerReference is not applied to the object that is written")
			var setOR, setRV ssa.CallInstruction
			for _, x := range cfgx.Calls(upd, nil) {
				n := cfgx.CalleeName(x)
				if strings.HasSuffix(n, ".SetOwnerReferences") {
					setOR = x
				}
				if strings.HasSuffix(n, ".SetResourceVersion") {
					setRV = x
				}
			}
			cur := ssa.Value(upd.Params[2])
			fromCur := func(x ssa.CallInstruction, getter string) bool {
				if x == nil {
					return false
				}
				for _, ci := range flow.Strict.CallsIn(cfgx.CallArgs(x)[0]) {
					if strings.HasSuffix(cfgx.CalleeName(ci), getter) && flow.Root(underIface(cfgx.Receiver(ci))) == cur {
						return true
					}
				}
				return false
			}
			c.R.Check(fromCur(setOR, ".GetOwnerReferences") && setOR != nil && cfgx.InstrReaches(setOR, add[0], nil), load.FuncName(upd)+": owner refs from current", c.pos(upd.Pos()), "desired starts from current's owner references before the controller check", "the controller check is not made against current's owner references")
			c.R.Check(fromCur(setRV, ".GetResourceVersion"), load.FuncName(upd)+": resourceVersion from current", c.pos(upd.Pos()), "the write carries the resourceVersion of the object whose ownership was checked", "the write does not carry the resourceVersion of the object whose ownership was checked")
		}
	}
	if es := c.method(rp, "APIEstablisher", "establish"); es != nil {
		n := 0
		for _, f := range closures(es) {
			for _, b := range f.Blocks {
				for _, in := range b.Instrs {
					var fv ssa.Value
					switch x := in.(type) {
					case *ssa.UnOp:
						if fa, ok := x.X.(*ssa.FieldAddr); ok && isFieldSel(fa, "revision.currentDesired", "Current") {
							fv = x
						}
					case *ssa.Field:
						if isFieldSel(x, "revision.currentDesired", "Current") {
							fv = x
						}
					}
					if fv == nil || fv.Referrers() == nil {
						continue
					}
					for _, r := range *fv.Referrers() {
						if _, ok := r.(*ssa.DebugRef); ok {
							continue
						}
						n++
						ci, isCall := r.(ssa.CallInstruction)
						good := isCall && cfgx.CalleeName(ci) == "(*"+xp+rp+".APIEstablisher).update"
						if bo, isCmp := r.(*ssa.BinOp); isCmp && (bo.Op == token.EQL || bo.Op == token.NEQ) && (cfgx.IsNilConst(bo.X) || cfgx.IsNilConst(bo.Y)) {
							good = true // a nil test reads nothing of the snapshot
						}
						c.R.Check(good, load.FuncName(f)+": cd.Current use #"+itoa(n), c.pos(r.Pos()), "the validated snapshot is only handed to e.update", "the validated snapshot (cd.Current) is used or modified between validation and the update: the optimistic-concurrency check no longer covers the ownership check")
					}
				}
			}
			for _, g := range calls(f, clientGet) {
				c.R.Bad(site(g)+" re-read", c.pos(g.Pos()), "establish re-reads objects after validation: the write may carry a resourceVersion newer than the ownership check")
			}
		}
		if n == 0 {
			c.R.Unknown(load.FuncName(es)+": cd.Current", c.pos(es.Pos()), "no use of cd.Current found")
		}
	}

	c.R.Rule("R2.6", "claim secret source: the destination Apply needs the source secret's controller UID == from.GetUID()", 3,
		"a claim could use Crossplane to copy a secret its XR does not own")
	// the chain the claim reconciler calls the propagators through decides whether a refusal surfaces (R2.0 covers it)
	if ch := c.P.Method("internal/controller/apiextensions/claim", "ConnectionPropagatorChain", "PropagateConnection"); ch != nil {
		c.mech(ch)
	}
	if pc := c.method("internal/controller/apiextensions/claim", "APIConnectionPropagator", "PropagateConnection"); pc != nil {
		ap := calls(pc, applicatorApply)
		fcs := foreignControllerTests(pc)
		gets := calls(pc, clientGet)
		if len(ap) != 1 || len(fcs) != 1 || len(gets) != 1 {
			c.R.Unknown(load.FuncName(pc)+": shape", c.pos(pc.Pos()), "expected Get(source), one controller test, one Apply")
		} else {
			c.requireCross(site(ap[0])+" source-controlled-by-from", ap[0], fcs[0].SameUID, "controller UID == from.GetUID()")
			reach, w := cfgx.ReachableFromEdges(fcs[0].NoCtrl, ap[0], fcs[0].SameUID, c.posf())
			c.R.Check(!reach && len(fcs[0].NoCtrl) > 0, site(ap[0])+" uncontrolled-source-refused", c.pos(ap[0].Pos()), "a source secret without controller is refused", "a source secret without any controller is propagated", w...)
			c.R.Check(fcs[0].Owner == ssa.Value(pc.Params[3]) && fcs[0].Of == flow.Root(underIface(cfgx.CallArgs(gets[0])[2])), load.FuncName(pc)+": test on source secret vs from", c.pos(fcs[0].Get.Pos()), "the fetched source secret's controller is compared with from.GetUID()", "the controller test is not (source secret, from)")
			c.requireCross(site(ap[0])+" after-get", ap[0], okEdges(gets[0]), "ok(Get(source secret))")
		}
	}

	c.R.Rule("R2.7", "pipeline composed resources always carry our controller reference", 3,
		"without our controller reference in the applied object the API server cannot reject a foreign object with the same name")
	fc, _ := c.composerMethods()
	if fc != nil {
		rm := calls(fc, xp+pkgComposite+".RenderComposedResourceMetadata")
		var stores []*ssa.MapUpdate
		for _, b := range fc.Blocks {
			for _, in := range b.Instrs {
				if mu, ok := in.(*ssa.MapUpdate); ok && strings.HasSuffix(mu.Map.Type().String(), "composite.ComposedResourceStates") {
					stores = append(stores, mu)
				}
			}
		}
		if len(rm) != 1 || len(stores) != 1 {
			c.R.Unknown(load.FuncName(fc)+": shape", c.pos(fc.Pos()), "expected RenderComposedResourceMetadata and the desired store")
		} else {
			c.requireCross(load.FuncName(fc)+": desired[name]= after metadata", stores[0], okEdges(rm[0]), "ok(RenderComposedResourceMetadata)")
			obj := flow.Root(underIface(cfgx.CallArgs(rm[0])[0]))
			c.R.Check(flow.Strict.Any(stores[0].Value, func(v ssa.Value) bool { return v == obj }) && flow.Root(underIface(cfgx.CallArgs(rm[0])[1])) == ssa.Value(fc.Params[2]), site(rm[0])+" (cd, xr)", c.pos(rm[0].Pos()), "metadata is rendered on the stored object from the XR", "RenderComposedResourceMetadata is not applied to (the stored object, the XR)")
		}
	}
	if rmf := c.fn(pkgComposite, "RenderComposedResourceMetadata"); rmf != nil {
		add := calls(rmf, xprt+"meta.AddControllerReference")
		if c.expect("AddControllerReference", len(add), 1, rmf) {
			a := cfgx.CallArgs(add[0])
			c.R.Check(flow.Root(underIface(a[0])) == ssa.Value(rmf.Params[0]) && flow.Default.AnyCall(a[1], xprt+"meta.AsController") && flow.Default.Any(a[1], func(v ssa.Value) bool { return v == ssa.Value(rmf.Params[1]) }), site(add[0])+" AsController(xr)", c.pos(add[0].Pos()), "adds AsController(reference to xr) to cd", "the controller reference added is not AsController(reference to the XR) on cd")
			// every nil-capable return is the AddControllerReference result
			for _, b := range rmf.Blocks {
				if r, ok := b.Instrs[len(b.Instrs)-1].(*ssa.Return); ok {
					if nonNilError(r) == "nil" {
						c.R.Bad(load.FuncName(rmf)+": success return without controller ref @b"+itoa(b.Index), c.pos(r.Pos()), "a success return does not pass AddControllerReference")
					} else if flow.Default.Any(cfgx.ReturnValue(r, 0), func(v ssa.Value) bool { return v == add[0].Value() }) {
						c.R.OK(load.FuncName(rmf)+": returns AddControllerReference result", c.pos(r.Pos()), "success is the success of AddControllerReference")
					}
				}
			}
		}
	}

	c.R.Rule("R2.9", "the server-side-apply field manager of composed resources is distinct per XR name and GroupKind", 2,
		"two XRs that share a field manager look like one applier to the API server: the second one's apply silently replaces the first one's controller reference instead of being rejected for adding a second controller")
	if fo := c.fn(pkgComposite, "ComposedFieldOwnerName"); fo != nil && len(fo.Params) == 1 {
		var writes []ssa.CallInstruction
		for _, x := range cfgx.Calls(fo, nil) {
			if n := cfgx.CalleeName(x); strings.HasSuffix(n, ".Write") || strings.HasSuffix(n, ".Sum256") || strings.HasSuffix(n, ".Sum") && len(cfgx.CallArgs(x)) > 0 && !cfgx.IsNilConst(cfgx.CallArgs(x)[len(cfgx.CallArgs(x))-1]) {
				writes = append(writes, x)
			}
		}
		hasName, hasGroup := false, false
		for _, w := range writes {
			for _, a := range cfgx.CallArgs(w) {
				flow.Default.Any(a, func(v ssa.Value) bool {
					if hasSuffixCall(v, ".GetName") {
						hasName = true
					}
					if hasSuffixCall(v, "schema.GroupVersionKind).GroupKind") || hasSuffixCall(v, "schema.GroupKind).String") || hasSuffixCall(v, "schema.GroupVersionKind).String") || hasSuffixCall(v, ".GetAPIVersion") {
						hasGroup = true
					}
					if f, ok := v.(*ssa.Field); ok && strings.HasSuffix(f.X.Type().String(), "schema.GroupVersionKind") && f.Field == 0 {
						hasGroup = true
					}
					if f, ok := v.(*ssa.FieldAddr); ok && strings.Contains(f.X.Type().String(), "schema.GroupVersionKind") && f.Field == 0 {
						hasGroup = true
					}
					return false
				})
			}
		}
		c.R.Check(len(writes) > 0 && hasName, load.FuncName(fo)+": hashes the XR name", c.pos(fo.Pos()), "the XR's name is part of the hashed identity", "the XR's name is not part of the field manager's hashed identity")
		c.R.Check(len(writes) > 0 && hasGroup, load.FuncName(fo)+": hashes the API group", c.pos(fo.Pos()), "the XR's API group (GroupKind) is part of the hashed identity", "the XR's API group is not part of the field manager's hashed identity: XRs of the same name and kind from different groups share one field manager")
	}
}

func sameAccess(a, b ssa.Value) bool {
	ra, pa, oka := flow.AccessPathC(underIface(a))
	rb, pb, okb := flow.AccessPathC(underIface(b))
	return oka && okb && pa == pb && (ra == rb || flow.Root(ra) == flow.Root(rb))
}
